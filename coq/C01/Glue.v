(* C01 entry points: the batch-processor acceptor (Batch/Model.v) + the C01 history checkers. *)
From V Require Export Batch.Spec.
Definition run_model (l : list tok) : list tok := if is_purity l then [tag "PURE"] else batch_run_model l.
Definition run_tag (l : list tok) : list tok := if is_purity l then [tag "purity_probe"] else batch_run_tag l.
Definition run_spec (l obs : list tok) : list tok :=
  if is_purity l then spec_purity_ok obs else
  match parse_case l with
  | None => bad_case
  | Some c =>
      let h := c_trace c in
      check (negb (has_bad h)) "obs:unknown_event" ++ obs_consistent h obs ++ spec_c01 (c_q c) h
  end.
