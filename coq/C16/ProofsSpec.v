(* C16 proofs, part 3: the model meets the executable SPEC (the checkers that the runner applies to the
   implementation's observations), at the level of typed cases and at the level of the token wire format. *)
From V Require Import C16.Glue C16.ProofsHex C16.Proofs C16.ProofsInto.
From Coq Require Import Lia.

(* ------------------------------------------------------------------ soundness of the "documented header" recognisers *)
Lemma doc_b3_ids_sound : forall t s tid sid, doc_b3_ids t s = Some (tid, sid) ->
  decode_id 16 t = Some tid /\ decode_id 8 s = Some sid /\ nonzero tid = true /\ nonzero sid = true.
Proof.
  intros t s tid sid H. unfold doc_b3_ids in H.
  destruct ((Nat.eqb (length t) 32 || Nat.eqb (length t) 16) && Nat.eqb (length s) 16 &&
            forallb is_lower_hex t && forallb is_lower_hex s); [|discriminate H].
  destruct (decode_id 16 t) as [a|]; [|discriminate H].
  destruct (decode_id 8 s) as [b|]; [|discriminate H].
  destruct (nonzero a && nonzero b) eqn:N; [|discriminate H].
  injection H as E1 E2. subst a b. apply andb_prop in N. destruct N as [N1 N2]. repeat split; assumption.
Qed.

Lemma doc_b3_try_sound : forall h tl tid sid b ft, doc_b3_try h tl = Some (tid, sid, b, ft) ->
  exists t s smp par, h = build_b3 t s smp par /\ decode_id 16 t = Some tid /\ decode_id 8 s = Some sid /\
                      nonzero tid = true /\ nonzero sid = true /\ doc_b3_sampling smp = Some b.
Proof.
  intros h tl tid sid b ft H. unfold doc_b3_try in H.
  destruct (carve_b3 h tl) as [[[t s] smp] par].
  destruct (bytes_eqb h (build_b3 t s smp par)) eqn:E; [|discriminate H]. cbn [andb] in H.
  destruct (Nat.eqb (length t) tl && match par with None => true | Some p => Nat.eqb (length p) 16 && forallb is_lower_hex p end);
    [|discriminate H].
  destruct (doc_b3_ids t s) as [[a c]|] eqn:I; [|discriminate H].
  destruct (doc_b3_sampling smp) as [b'|] eqn:S; [|discriminate H].
  injection H as E1 E2 E3 E4. subst a c b'.
  destruct (doc_b3_ids_sound t s tid sid I) as [Dt [Ds [Nt Ns]]].
  exists t, s, smp, par. apply bytes_eqb_eq in E. repeat split; assumption.
Qed.

Lemma doc_b3_single_sound : forall h tid sid b ft, doc_b3_single h = Some (tid, sid, b, ft) ->
  exists t s smp par, h = build_b3 t s smp par /\ decode_id 16 t = Some tid /\ decode_id 8 s = Some sid /\
                      nonzero tid = true /\ nonzero sid = true /\ doc_b3_sampling smp = Some b.
Proof.
  intros h tid sid b ft H. unfold doc_b3_single in H.
  destruct (doc_b3_try h 32) as [r|] eqn:E.
  - injection H as H. subst r. exact (doc_b3_try_sound h 32 tid sid b ft E).
  - exact (doc_b3_try_sound h 16 tid sid b ft H).
Qed.

Lemma doc_b3_sound : forall b3 xt xs xf tid sid b ft, doc_b3 b3 xt xs xf = Some (tid, sid, b, ft) ->
  exists c, b3_extract b3 xt xs xf = Some c /\ agrees c tid sid b.
Proof.
  intros b3 xt xs xf tid sid b ft H. unfold doc_b3 in H.
  destruct (is_nil b3) eqn:Nb.
  - destruct b3; [|discriminate Nb]. unfold doc_b3_multi in H.
    destruct (doc_b3_ids xt xs) as [[a c]|] eqn:I; [|discriminate H].
    destruct (doc_b3_ids_sound xt xs a c I) as [Dt [Ds [Nt Ns]]].
    destruct (b3_multi_accepts_lemma xt xs xf a c Dt Ds Nt Ns) as [cx [E A]].
    exists cx. split; [exact E|].
    destruct xf as [|ch [|ch' xf']].
    + injection H as E1 E2 E3 E4. subst a c b. exact A.
    + destruct (Byte.eqb ch ch_1) eqn:E1.
      * injection H as F1 F2 F3 F4. subst a c b. apply Byte.byte_dec_bl in E1. subst ch. exact A.
      * destruct (Byte.eqb ch ch_0) eqn:E0; [|discriminate H].
        injection H as F1 F2 F3 F4. subst a c b. apply Byte.byte_dec_bl in E0. subst ch. exact A.
    + discriminate H.
  - destruct (doc_b3_single b3) as [[[[a c] b'] ft']|] eqn:D; [|discriminate H].
    injection H as E1 E2 E3 E4. subst a c b'.
    destruct (doc_b3_single_sound b3 tid sid b ft' D) as [t [s [smp [par [Eh [Dt [Ds [Nt [Ns Sb]]]]]]]]].
    subst b3. apply b3_single_accepts_lemma; assumption.
Qed.

Lemma cut_no_sep : forall c s a r, cut c s = Some (a, r) -> no_sep c a = true.
Proof.
  intros c s a r H. unfold cut in H. destruct (index_of c s) as [i|] eqn:E; [|discriminate H].
  injection H as E1 E2. subst a. clear E2. unfold index_of in E.
  assert (G : forall s k i, index_of_from c s k = Some i -> no_sep c (firstn (i - k) s) = true /\ k <= i).
  { clear. induction s as [|b s IH]; intros k i H; cbn [index_of_from] in H; [discriminate H|].
    destruct (Byte.eqb b c) eqn:Eb.
    - injection H as H. subst i. rewrite Nat.sub_diag. split; [reflexivity|lia].
    - destruct (IH (S k) i H) as [N L]. split; [|lia].
      replace (i - k) with (S (i - S k)) by lia. cbn [firstn no_sep forallb]. rewrite Eb. cbn [negb andb]. exact N. }
  destruct (G s 0 i E) as [N _]. rewrite Nat.sub_0_r in N. exact N.
Qed.

Lemma doc_jaeger_sound : forall h tid sid b ft, doc_jaeger h = Some (tid, sid, b, ft) ->
  exists c, jaeger_extract h = Some c /\ agrees c tid sid b.
Proof.
  intros h tid sid b ft H. unfold doc_jaeger in H.
  destruct (cut colon h) as [[t r1]|] eqn:C1; [|discriminate H].
  destruct (cut colon r1) as [[s r2]|] eqn:C2; [|discriminate H].
  destruct (cut colon r2) as [[p f]|] eqn:C3; [|discriminate H].
  destruct (bytes_eqb h (build_jaeger t s p f)) eqn:E; [|discriminate H]. cbn [andb] in H.
  destruct (forallb is_lower_hex t && forallb is_lower_hex s && forallb is_lower_hex p && forallb is_lower_hex f &&
            Nat.leb 1 (length p) && Nat.leb (length p) 16); [|discriminate H].
  destruct (decode_id 16 t) as [a|] eqn:Dt; [|discriminate H].
  destruct (decode_id 8 s) as [c|] eqn:Ds; [|discriminate H].
  destruct (decode_id 1 f) as [[|fl [|fl' fr]]|] eqn:Df; try discriminate H.
  destruct (nonzero a && nonzero c) eqn:N; [|discriminate H].
  injection H as E1 E2 E3 E4. subst a c b. apply andb_prop in N. destruct N as [Nt Ns].
  apply bytes_eqb_eq in E. subst h.
  apply jaeger_accepts_lemma; try assumption. exact (cut_no_sep colon r2 p f C3).
Qed.

(* ------------------------------------------------------------------ the clauses on the model's own observations *)
Lemma spec_total_model : forall o, match o with None => True | Some c => good_installed c end ->
  spec_total (option_map obs_of o) true = [].
Proof.
  intros o H. destruct o as [c|]; [|reflexivity].
  destruct H as [Nt [Ns _]]. cbn [option_map spec_total obs_of o_tid o_sid]. rewrite Nt, Ns. reflexivity.
Qed.

Lemma spec_accepts_model : forall nm doc o,
  (forall tid sid b ft, doc = Some (tid, sid, b, ft) -> exists c, o = Some c /\ agrees c tid sid b) ->
  spec_accepts nm doc (option_map obs_of o) = [].
Proof.
  intros nm doc o H. destruct doc as [[[[tid sid] b] ft]|]; [|reflexivity].
  destruct (H tid sid b ft eq_refl) as [c [E [A1 [A2 [A3 A4]]]]]. subst o.
  cbn [option_map spec_accepts obs_of o_tid o_sid o_flags o_remote].
  rewrite A1, A2, A3, A4, !bytes_eqb_refl, Bool.eqb_reflx. reflexivity.
Qed.

Lemma spec_ids_from_model : forall tf sf o,
  (forall c, o = Some c -> decode_id 16 tf = Some (c_tid c) /\ decode_id 8 sf = Some (c_sid c)) ->
  spec_ids_from tf sf (option_map obs_of o) = [].
Proof.
  intros tf sf o H. destruct o as [c|]; [|reflexivity].
  destruct (H c eq_refl) as [Dt Ds].
  pose proof (decode_id_len 16 tf _ Dt) as Lt. pose proof (decode_id_len 8 sf _ Ds) as Ls.
  cbn [option_map spec_ids_from obs_of o_tid o_sid].
  destruct (Nat.ltb_spec 32 (length tf)) as [C|_]; [lia|].
  destruct (Nat.ltb_spec 16 (length sf)) as [C|_]; [lia|]. cbn [orb].
  rewrite Dt, Ds, !bytes_eqb_refl. reflexivity.
Qed.

Lemma model_meets_spec_b3_lemma : forall b3 xt xs xf,
  spec_b3_extract b3 xt xs xf (option_map obs_of (b3_extract b3 xt xs xf)) true = [].
Proof.
  intros. unfold spec_b3_extract.
  rewrite (spec_total_model _ (b3_extract_total b3 xt xs xf)).
  pose proof (fun c => b3_extract_ids_lemma b3 xt xs xf c) as I.
  destruct (b3_id_fields b3 xt xs) as [tf sf]. cbn [fst snd] in I.
  rewrite (spec_ids_from_model tf sf _ I).
  rewrite spec_accepts_model; [reflexivity|]. intros tid sid b ft D. exact (doc_b3_sound _ _ _ _ _ _ _ _ D).
Qed.

Lemma model_meets_spec_jaeger_lemma : forall h,
  spec_jaeger_extract h (option_map obs_of (jaeger_extract h)) true = [].
Proof.
  intros. unfold spec_jaeger_extract.
  rewrite (spec_total_model _ (jaeger_extract_total h)).
  pose proof (fun c => jaeger_extract_ids_lemma h c) as I.
  destruct (id_fields colon h) as [tf sf]. cbn [fst snd] in I.
  rewrite (spec_ids_from_model tf sf _ I).
  rewrite spec_accepts_model; [reflexivity|]. intros tid sid b ft D. exact (doc_jaeger_sound _ _ _ _ _ D).
Qed.

Lemma roundtrip_all : forall k c, wf_ctx c -> ctx_valid c = true ->
  exists c', roundtrip k c = Some c' /\ agrees c' (c_tid c) (c_sid c) (sampled_bit (c_flags c)).
Proof.
  intros k c W V. destruct k;
    [apply b3_single_roundtrip_lemma | apply b3_multi_roundtrip_lemma | apply jaeger_roundtrip_lemma]; assumption.
Qed.

Lemma roundtrip_invalid : forall k c, ctx_valid c = false -> roundtrip k c = None.
Proof.
  intros k c V. unfold roundtrip, inject, b3_inject_single, b3_inject_multi, jaeger_inject.
  destruct k; rewrite V; reflexivity.
Qed.

Lemma spec_roundtrip_nm_agrees : forall nm c c' s, ctx_valid c = true ->
  agrees c' (c_tid c) (c_sid c) (sampled_bit (c_flags c)) ->
  spec_roundtrip_nm nm c (Some (obs_of c')) s = [].
Proof.
  intros nm c c' s V [A1 [A2 [A3 A4]]]. unfold spec_roundtrip_nm. rewrite V.
  cbn [obs_of o_tid o_sid o_flags o_remote].
  rewrite A1, A2, A3, A4, !bytes_eqb_refl, Bool.eqb_reflx. reflexivity.
Qed.

Lemma model_meets_spec_roundtrip_lemma : forall k c, wf_ctx c ->
  spec_roundtrip k c (option_map obs_of (roundtrip k c)) true = [].
Proof.
  intros k c W. unfold spec_roundtrip. destruct (ctx_valid c) eqn:V.
  - destruct (roundtrip_all k c W V) as [c' [E A]]. rewrite E. cbn [option_map].
    apply spec_roundtrip_nm_agrees; assumption.
  - rewrite (roundtrip_invalid k c V). unfold spec_roundtrip_nm. rewrite V. reflexivity.
Qed.

(* Extract into any destination context *)
Lemma model_meets_spec_into_lemma : forall x c d n, wf_ctx c -> n <= 9 ->
  spec_roundtrip_into x c n
    (option_map obs_of (observed_span (make_dest d n) (roundtrip_into x c (make_dest d n)))) true
    (Z.of_nat (keys_intact n (roundtrip_into x c (make_dest d n)))) = [].
Proof.
  intros x c d n W Hn. unfold spec_roundtrip_into. destruct (ctx_valid c) eqn:V.
  - destruct (roundtrip_into_valid_lemma x c (make_dest d n) W V) as [A [L P]].
    rewrite (keys_intact_preserved n _ _ P), (keys_intact_dest n d Hn), Z.eqb_refl.
    unfold observed_span. destruct (Nat.eqb_spec (length (roundtrip_into x c (make_dest d n))) (length (make_dest d n))) as [C|_]; [lia|].
    cbn [option_map]. rewrite (spec_roundtrip_nm_agrees _ c _ true V A). reflexivity.
  - rewrite (roundtrip_into_invalid_lemma x c _ V), (keys_intact_dest n d Hn), Z.eqb_refl.
    unfold observed_span. rewrite Nat.eqb_refl. cbn [option_map].
    unfold spec_roundtrip_nm. rewrite V. reflexivity.
Qed.

(* ------------------------------------------------------------------ token level: run_spec on run_model *)
Definition wf_case (c : case) : Prop :=
  match c with CRt _ x => wf_ctx x | CRtD _ x _ n => wf_ctx x /\ n <= 9 | CPinj _ cs => Forall wf_ctx cs | _ => True end.

Definition same_flag (o : option span_ctx) : bool := match o with None => true | Some _ => false end.

Lemma parse_ext_print : forall o rest, parse_ext (print_ext o ++ rest) = Some (option_map obs_of o, same_flag o).
Proof.
  intros [c|] rest; [|reflexivity].
  cbn [print_ext app parse_ext tag]. change (bytes_eqb (bs "OK") (bs "OK")) with true. cbv iota.
  cbn [option_map same_flag]. unfold obs_of, tbool. rewrite N2Z.id, n2b_b2n. destruct (c_remote c); reflexivity.
Qed.

Lemma parse_obs_print : forall o rest, parse_obs (print_ext o ++ rest) = Some (option_map obs_of o, same_flag o, 0%Z).
Proof.
  intros [c|] rest; [|reflexivity].
  change (parse_obs (print_ext (Some c) ++ rest))
    with (match parse_ext (print_ext (Some c) ++ rest) with Some (o, same) => Some (o, same, 0%Z) | None => None end).
  rewrite parse_ext_print. reflexivity.
Qed.

Lemma parse_obs_print_k : forall k o rest,
  parse_obs (tag "K" :: tnat k :: print_ext o ++ rest) = Some (option_map obs_of o, same_flag o, Z.of_nat k).
Proof.
  intros k o rest.
  change (parse_obs (tag "K" :: tnat k :: print_ext o ++ rest))
    with (match parse_ext (print_ext o ++ rest) with Some (o, same) => Some (o, same, Z.of_nat k) | None => None end).
  rewrite parse_ext_print. reflexivity.
Qed.

Lemma parse_ctx_wf : forall l c, parse_ctx l = Some c -> wf_ctx c.
Proof.
  intros l c H. unfold parse_ctx in H.
  destruct l as [|[tid| |] [|[sid| |] [|[|f|] [|[|r|] [|[tsh| |] [|]]]]]]; try discriminate H.
  destruct (Nat.eqb (length tid) 16) eqn:L1; [|discriminate H].
  destruct (Nat.eqb (length sid) 8) eqn:L2; [|discriminate H].
  cbn [andb] in H. destruct ((0 <=? f)%Z && (f <? 256)%Z); [|discriminate H].
  injection H as H. subst c. apply Nat.eqb_eq in L1. apply Nat.eqb_eq in L2. split; assumption.
Qed.

Definition is_pinj (c : case) : bool := match c with CPinj _ _ => true | _ => false end.

Lemma model_meets_spec_case : forall c, wf_case c -> is_pinj c = false ->
  exists o intact, (forall rest, parse_obs (model_case c ++ rest) = Some (option_map obs_of o, same_flag o, intact))
                   /\ spec_case c (option_map obs_of o) true intact = [].
Proof.
  intros [k x|b3 xt xs xf|h|x cx d n|k cs] W NP; [| | | |discriminate NP]; cbn [model_case spec_case].
  - exists (roundtrip k x), 0%Z. split; [|apply model_meets_spec_roundtrip_lemma; exact W].
    intro rest. rewrite <- app_assoc. apply parse_obs_print.
  - exists (b3_extract b3 xt xs xf), 0%Z. split; [intro; apply parse_obs_print|apply model_meets_spec_b3_lemma].
  - exists (jaeger_extract h), 0%Z. split; [intro; apply parse_obs_print|apply model_meets_spec_jaeger_lemma].
  - destruct W as [W Hn].
    exists (observed_span (make_dest d n) (roundtrip_into x cx (make_dest d n))),
           (Z.of_nat (keys_intact n (roundtrip_into x cx (make_dest d n)))).
    split; [|apply model_meets_spec_into_lemma; assumption].
    intro rest. unfold model_rtd. cbn [app]. rewrite <- app_assoc. apply parse_obs_print_k.
Qed.

(* concurrent Inject: the sequential model (every thread on its own carrier) meets the per-thread clause *)
Definition ext_obs (o : option span_ctx) : option xobs * bool := (option_map obs_of o, same_flag o).

Lemma parse_exts_print : forall os rest, parse_exts (length os) (print_exts os ++ rest) = Some (map ext_obs os).
Proof.
  induction os as [|o os IH]; intro rest; [reflexivity|].
  cbn [length parse_exts print_exts]. rewrite <- app_assoc, parse_ext_print.
  assert (K : skipn (match option_map obs_of o with Some _ => 6 | None => 2 end) (print_ext o ++ print_exts os ++ rest)
              = print_exts os ++ rest) by (destruct o; reflexivity).
  rewrite K, IH. reflexivity.
Qed.

Lemma spec_pinj_model : forall k cs, Forall wf_ctx cs -> spec_pinj k cs (map ext_obs (map (roundtrip k) cs)) = [].
Proof.
  intros k cs F. induction F as [|c cs W F IH]; [reflexivity|].
  cbn [map spec_pinj ext_obs]. rewrite IH, app_nil_r.
  destruct (ctx_valid c) eqn:V.
  - destruct (roundtrip_all k c W V) as [c' [E A]]. rewrite E. cbn [option_map].
    apply spec_roundtrip_nm_agrees; assumption.
  - rewrite (roundtrip_invalid k c V). unfold spec_roundtrip_nm. rewrite V. reflexivity.
Qed.

Lemma parse_ctxs_wf : forall secs cs, parse_ctxs secs = Some cs -> Forall wf_ctx cs.
Proof.
  induction secs as [|sec r IH]; intros cs H; cbn [parse_ctxs] in H.
  - injection H as H. subst cs. constructor.
  - destruct sec as [|t sec']; [discriminate H|].
    destruct (is_tag "s" t); [injection H as H; subst cs; constructor|].
    destruct (parse_ctx (t :: sec')) as [c|] eqn:E; [|discriminate H].
    destruct (parse_ctxs r) as [cs'|]; [|discriminate H].
    injection H as H. subst cs. constructor; [exact (parse_ctx_wf _ _ E)|exact (IH cs' eq_refl)].
Qed.

Lemma spec_case_same : forall c x s i, spec_case c (Some x) s i = spec_case c (Some x) true i.
Proof.
  intros [k cx|b3 xt xs xf|h|xk cx d n|k cs] x s i; reflexivity.
Qed.

Lemma parse_nkeys_le : forall z n, parse_nkeys z = Some n -> n <= 9.
Proof.
  intros z n H. unfold parse_nkeys in H.
  destruct (Z.leb_spec 0 z) as [A|_]; [|discriminate H].
  destruct (Z.leb_spec z 9) as [B|_]; [|discriminate H].
  cbn [andb] in H. injection H as H. subst n. lia.
Qed.

Lemma parse_rtd_wf : forall k rest c, parse_rtd k rest = Some c -> wf_case c.
Proof.
  intros k rest c H. unfold parse_rtd in H.
  destruct (parse_xkind k) as [x|]; [|discriminate H].
  destruct (parse_ctx (firstn 5 rest)) as [cx|] eqn:E; [|discriminate H].
  destruct (skipn 5 rest) as [|sp rest']; [discriminate H|].
  destruct (is_tag "NOSPAN" sp).
  - destruct rest' as [|[|z|] [|]]; try discriminate H.
    destruct (parse_nkeys z) as [n|] eqn:N; [|discriminate H].
    cbn [option_map] in H. injection H as H. subst c.
    split; [exact (parse_ctx_wf _ _ E)|exact (parse_nkeys_le z n N)].
  - destruct (is_tag "SPAN" sp); [|discriminate H].
    destruct (parse_ctx (firstn 5 rest')) as [dx|]; [|discriminate H].
    destruct (skipn 5 rest') as [|[|z|] [|]]; try discriminate H.
    destruct (parse_nkeys z) as [n|] eqn:N; [|discriminate H].
    cbn [option_map] in H. injection H as H. subst c.
    split; [exact (parse_ctx_wf _ _ E)|exact (parse_nkeys_le z n N)].
Qed.

Lemma parse_case_wf : forall l c, parse_case l = Some c -> wf_case c.
Proof.
  intros l c H. unfold parse_case in H. destruct l as [|t [|kt rest]]; try discriminate H.
  destruct (is_tag "PINJ" t).
  { unfold parse_pinj in H. destruct (parse_kind kt); [|discriminate H].
    destruct (split_toks "|" rest) as [|[|x0 s0] secs]; try discriminate H.
    destruct (parse_ctxs secs) as [[|c0 cs0]|] eqn:E; try discriminate H.
    injection H as H. subst c. exact (parse_ctxs_wf secs _ E). }
  destruct (is_tag "RTD" t); [exact (parse_rtd_wf kt rest c H)|].
  destruct (is_tag "RT" t).
  - destruct (parse_kind kt); [|discriminate H].
    destruct (parse_ctx rest) as [c'|] eqn:E; [|discriminate H].
    injection H as H. subst c. exact (parse_ctx_wf rest c' E).
  - destruct (is_tag "EXT" t); [|discriminate H].
    destruct (is_tag "B" kt).
    + destruct rest as [|a [|b [|c0 [|d [|]]]]]; try discriminate H.
      destruct (opt_bytes a), (opt_bytes b), (opt_bytes c0), (opt_bytes d); try discriminate H.
      injection H as H. subst c. exact I.
    + destruct (is_tag "J" kt); [|discriminate H].
      destruct rest as [|a [|]]; try discriminate H. destruct (opt_bytes a); [|discriminate H].
      injection H as H. subst c. exact I.
Qed.

(* every parsable case line: the SPEC run on the model's own output line reports no failed clause *)
Lemma model_meets_spec_lemma : forall l, parse_case l <> None -> run_spec l (run_model l) = [].
Proof.
  intros l H. unfold run_spec, run_model. destruct (parse_case l) as [c|] eqn:E; [|contradiction].
  pose proof (parse_case_wf l c E) as W.
  destruct (is_pinj c) eqn:NP.
  - destruct c as [k0 x0|a0 b0 c0 d0|h0|x0 c0 d0 n0|k cs]; try discriminate NP. cbn [model_case wf_case] in *.
    rewrite <- (map_length (roundtrip k) cs), parse_exts_print. apply spec_pinj_model. exact W.
  - destruct (model_meets_spec_case c W NP) as [o [i [P S]]].
    specialize (P []). rewrite app_nil_r in P.
    destruct c as [k0 x0|a0 b0 c0 d0|h0|x0 c0 d0 n0|k cs]; try discriminate NP; rewrite P;
      (destruct o as [x|]; cbn [option_map same_flag] in *; [rewrite spec_case_same|]; exact S).
Qed.

Example model_meets_spec_nonvacuous :
  parse_case [tag "RT"; tag "M"; TB ex_tid; TB ex_sid; TZ 255; TZ 0; TB []] <> None /\
  parse_case [tag "RTD"; tag "C"; TB ex_tid; TB ex_sid; TZ 1; TZ 0; TB []; tag "SPAN"; TB ex_tid; TB ex_sid; TZ 1; TZ 0; TB []; TZ 2] <> None /\
  parse_case [tag "PINJ"; tag "S"; tag "|"; TB ex_tid; TB ex_sid; TZ 1; TZ 0; TB []; tag "|"; TB ex_tid; TB ex_sid; TZ 0; TZ 0; TB [];
              tag "|"; tag "s"; TZ 0; TZ 0; TZ 1; TZ 0] <> None /\
  parse_case [tag "EXT"; tag "B"; TB (bs "80f198ee56343ba8-e457b5a2e4d86bd1-d"); tag "NONE"; tag "NONE"; tag "NONE"] <> None /\
  doc_b3 (bs "80f198ee56343ba8-e457b5a2e4d86bd1-d") [] [] [] <> None /\
  doc_jaeger (bs "4bf92f3577b34da6:e457b5a2e4d86bd1:0:3") <> None.
Proof. repeat split; vm_compute; discriminate. Qed.
