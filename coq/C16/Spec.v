(* SPEC for C16, written from the property text and the documented B3 / Jaeger header formats,
   independently of how the code parses: documented headers are *built* by concatenation
   ([build_b3], [build_jaeger]) and a header is recognised as documented by carving it
   positionally and comparing with the rebuilt string; ids are decoded by left-padding the
   hex string with '0' digits to full width and reading digit pairs.  bool / list tok valued
   so that it runs on the implementation's observations. *)
From V Require Export C16.Model.

(* what the driver observes of an extracted context *)
Record xobs := mk_xobs { o_tid : bytes; o_sid : bytes; o_flags : byte; o_remote : bool; o_ts : bytes }.
Definition obs_of (c : span_ctx) : xobs := mk_xobs (c_tid c) (c_sid c) (c_flags c) (c_remote c) (to_header (c_ts c)).

(* the sampled decision of a flags byte: its lowest bit *)
Definition sampled_bit (f : byte) : bool := N.odd (b2n f).

(* ---- decoding hex digits *)
Definition hexbyte (a b : byte) : option byte :=
  match hexval a, hexval b with
  | Some x, Some y => Some (n2b (16 * x + y)%N)
  | _, _ => None
  end.
Fixpoint unhex (s : bytes) : option bytes :=
  match s with
  | [] => Some []
  | a :: b :: s' => match hexbyte a b, unhex s' with
                    | Some x, Some r => Some (x :: r)
                    | _, _ => None
                    end
  | _ => None
  end.
(* an [n]-byte id written with 1 .. 2n hex digits; shorter strings are left-padded with zeros *)
Definition decode_id (n : nat) (s : bytes) : option bytes :=
  if Nat.leb 1 (length s) && Nat.leb (length s) (2 * n)
  then unhex (repeat ch_0 (2 * n - length s) ++ s) else None.

Definition nonzero (l : bytes) : bool := negb (all_zero l).

(* ---- documented B3 (https://github.com/openzipkin/b3-propagation):
        TraceId = 32 or 16 lower-hex, SpanId = 16 lower-hex, SamplingState = 0 | 1 | d,
        b3 = TraceId-SpanId[-SamplingState[-ParentSpanId]] *)
Definition doc_b3_ids (t s : bytes) : option (bytes * bytes) :=
  if (Nat.eqb (length t) 32 || Nat.eqb (length t) 16) && Nat.eqb (length s) 16
     && forallb is_lower_hex t && forallb is_lower_hex s then
    match decode_id 16 t, decode_id 8 s with
    | Some tid, Some sid => if nonzero tid && nonzero sid then Some (tid, sid) else None
    | _, _ => None
    end
  else None.

Definition doc_b3_sampling (f : option byte) : option bool :=
  match f with
  | None => Some false                       (* missing sampling field: not sampled (decision deferred) *)
  | Some c => if Byte.eqb c ch_1 || Byte.eqb c ch_d then Some true
              else if Byte.eqb c ch_0 then Some false else None
  end.

Definition build_b3 (t s : bytes) (smp : option byte) (par : option bytes) : bytes :=
  t ++ [dash] ++ s ++
  match smp with
  | None => []
  | Some c => dash :: c :: match par with None => [] | Some p => dash :: p end
  end.

Definition carve_b3 (h : bytes) (tl : nat) : bytes * bytes * option byte * option bytes :=
  let t := firstn tl h in
  let s := substr h (S tl) 16 in
  match skipn (tl + 17) h with
  | [_; c] => (t, s, Some c, None)
  | _ :: c :: _ :: p => (t, s, Some c, Some p)
  | _ => (t, s, None, None)
  end.

Definition b3_feature (tl : nat) (smp : option byte) : string :=
  if Nat.eqb tl 16 then "short_trace_id"
  else match smp with
       | None => "no_sampling_field"
       | Some c => if Byte.eqb c ch_d then "debug_flag" else "plain"
       end.

(* Some (trace id, span id, sampled, feature) when [h] is a documented b3 value with a [tl]-digit trace id *)
Definition doc_b3_try (h : bytes) (tl : nat) : option (bytes * bytes * bool * string) :=
  match carve_b3 h tl with
  | (t, s, smp, par) =>
      if bytes_eqb h (build_b3 t s smp par) && Nat.eqb (length t) tl
         && match par with None => true | Some p => Nat.eqb (length p) 16 && forallb is_lower_hex p end
      then match doc_b3_ids t s, doc_b3_sampling smp with
           | Some (tid, sid), Some b => Some (tid, sid, b, b3_feature tl smp)
           | _, _ => None
           end
      else None
  end.
Definition doc_b3_single (h : bytes) : option (bytes * bytes * bool * string) :=
  match doc_b3_try h 32 with Some r => Some r | None => doc_b3_try h 16 end.

(* multi-header form: X-B3-TraceId, X-B3-SpanId, optional X-B3-Sampled = 0 | 1 *)
Definition doc_b3_multi (xt xs xf : bytes) : option (bytes * bytes * bool * string) :=
  match doc_b3_ids xt xs with
  | Some (tid, sid) =>
      match xf with
      | [] => Some (tid, sid, false, (if Nat.eqb (length xt) 16 then "short_trace_id" else "no_sampling_field")%string)
      | [c] => if Byte.eqb c ch_1 then Some (tid, sid, true, b3_feature (length xt) (Some c))
               else if Byte.eqb c ch_0 then Some (tid, sid, false, b3_feature (length xt) (Some c)) else None
      | _ => None
      end
  | None => None
  end.

(* what the four header values document; a non-empty b3 takes precedence over the X-B3-* headers *)
Definition doc_b3 (b3 xt xs xf : bytes) : option (bytes * bytes * bool * string) :=
  if is_nil b3 then doc_b3_multi xt xs xf
  else match doc_b3_single b3 with
       | Some (tid, sid, b, ft) =>
           Some (tid, sid, b, if is_nil xt && is_nil xs && is_nil xf then ft else "single_over_multi"%string)
       | None => None
       end.

(* ---- documented Jaeger (https://www.jaegertracing.io/docs/client-libraries/#tracespan-identity):
        {trace-id}:{span-id}:{parent-span-id}:{flags}; trace-id 1..32 hex digits, span-id and the
        (ignored) parent 1..16, flags one byte as 1 or 2 hex digits whose lowest bit is "sampled" *)
Definition build_jaeger (t s p f : bytes) : bytes := t ++ [colon] ++ s ++ [colon] ++ p ++ [colon] ++ f.

Definition cut (c : byte) (s : bytes) : option (bytes * bytes) :=
  match index_of c s with
  | Some i => Some (firstn i s, skipn (S i) s)
  | None => None
  end.

Definition doc_jaeger (h : bytes) : option (bytes * bytes * bool * string) :=
  match cut colon h with
  | Some (t, r1) =>
      match cut colon r1 with
      | Some (s, r2) =>
          match cut colon r2 with
          | Some (p, f) =>
              if bytes_eqb h (build_jaeger t s p f)
                 && forallb is_lower_hex t && forallb is_lower_hex s && forallb is_lower_hex p && forallb is_lower_hex f
                 && Nat.leb 1 (length p) && Nat.leb (length p) 16
              then match decode_id 16 t, decode_id 8 s, decode_id 1 f with
                   | Some tid, Some sid, Some [fl] =>
                       if nonzero tid && nonzero sid
                       then Some (tid, sid, sampled_bit fl,
                                  (if Nat.ltb (length t) 32 then "short_trace_id"
                                   else if Nat.eqb (length f) 1 then "one_digit_flags" else "plain")%string)
                       else None
                   | _, _, _ => None
                   end
              else None
          | None => None
          end
      | None => None
      end
  | None => None
  end.

(* ---- the clauses *)

(* "for arbitrary bytes ... either installs a context with non-zero ids or returns the caller's context unchanged" *)
Definition spec_total (o : option xobs) (same : bool) : list tok :=
  match o with
  | None => check same "extract_total:context_changed_on_invalid"
  | Some x => check (nonzero (o_tid x) && nonzero (o_sid x)) "extract_total:zero_ids_installed"
  end.

(* Where the ids stand in a header, by the documented grammars and nothing else: the trace id is what precedes
   the first separator, the span id what lies between the first and the second separator (or the end). *)
Definition field1 (sep : byte) (h : bytes) : bytes * bytes :=
  match cut sep h with Some (a, r) => (a, r) | None => (h, []) end.
Definition id_fields (sep : byte) (h : bytes) : bytes * bytes :=
  match field1 sep h with (t, r) => (t, fst (field1 sep r)) end.
(* the id fields the B3 extractor must read: those of a non-empty b3 header, else X-B3-TraceId / X-B3-SpanId *)
Definition b3_id_fields (b3 xt xs : bytes) : bytes * bytes := if is_nil b3 then (xt, xs) else id_fields dash b3.

(* "installs a context": whenever a context is installed, its trace id and span id are exactly the left-zero-padded
   hexadecimal values of the header's id fields; so an id field that is empty, not hexadecimal or longer than
   32 / 16 digits never leads to an installed context *)
Definition spec_ids_from (tf sf : bytes) (o : option xobs) : list tok :=
  match o with
  | None => []
  | Some x =>
      if Nat.ltb 32 (length tf) || Nat.ltb 16 (length sf) then fail "extract:overlong_id_installed"
      else check (match decode_id 16 tf, decode_id 8 sf with
                  | Some a, Some b => bytes_eqb (o_tid x) a && bytes_eqb (o_sid x) b
                  | _, _ => false
                  end) "extract:ids_not_from_header"
  end.

(* "Extraction accepts the documented variants ..." *)
Definition spec_accepts (nm : string) (doc : option (bytes * bytes * bool * string)) (o : option xobs) : list tok :=
  match doc with
  | None => []
  | Some (tid, sid, smp, ft) =>
      match o with
      | None => fail (nm ++ "_accepts_variants:rejected_" ++ ft)
      | Some x =>
          check (bytes_eqb (o_tid x) tid && bytes_eqb (o_sid x) sid) (nm ++ "_accepts_variants:ids_differ_" ++ ft) ++
          check (Bool.eqb (sampled_bit (o_flags x)) smp) (nm ++ "_accepts_variants:sampling_differs_" ++ ft) ++
          check (o_remote x) (nm ++ "_accepts_variants:not_remote")
      end
  end.

Definition spec_b3_extract (b3 xt xs xf : bytes) (o : option xobs) (same : bool) : list tok :=
  spec_total o same ++
  (match b3_id_fields b3 xt xs with (tf, sf) => spec_ids_from tf sf o end) ++
  spec_accepts "b3" (doc_b3 b3 xt xs xf) o.
Definition spec_jaeger_extract (h : bytes) (o : option xobs) (same : bool) : list tok :=
  spec_total o same ++
  (match id_fields colon h with (tf, sf) => spec_ids_from tf sf o end) ++
  spec_accepts "jaeger" (doc_jaeger h) o.

(* "For every valid span context, injecting ... and extracting the result yields a remote context with the
   same trace id and span id and the same sampled decision, whatever other flag bits the context carries" *)
Definition kind_name (k : prop_kind) : string :=
  match k with KSingle => "b3_single" | KMulti => "b3_multi" | KJaeger => "jaeger" end.

Definition spec_roundtrip_nm (nm : string) (c : span_ctx) (o : option xobs) (same : bool) : list tok :=
  if ctx_valid c then
    match o with
    | None => fail (nm ++ "_roundtrip:lost")
    | Some x =>
        check (bytes_eqb (o_tid x) (c_tid c) && bytes_eqb (o_sid x) (c_sid c)) (nm ++ "_roundtrip:ids_differ") ++
        check (Bool.eqb (sampled_bit (o_flags x)) (sampled_bit (c_flags c))) (nm ++ "_roundtrip:sampled_lost") ++
        check (o_remote x) (nm ++ "_roundtrip:not_remote")
    end
  else spec_total o same.
Definition spec_roundtrip (k : prop_kind) (c : span_ctx) (o : option xobs) (same : bool) : list tok :=
  spec_roundtrip_nm (kind_name k) c o same.

(* the same sentence when Extract is handed a destination context that is not empty - whatever span (equal to the
   injected one, differing in one field, invalid, none) and whatever unrelated values it holds: the result's span is the
   injected identity marked remote, and the [nkeys] unrelated values of the destination are all still there *)
Definition xkind_name (x : xkind) : string :=
  match x with XOne k => kind_name k | XComposite => "composite" end.
Definition spec_roundtrip_into (x : xkind) (c : span_ctx) (nkeys : nat) (o : option xobs) (same : bool) (intact : Z) : list tok :=
  spec_roundtrip_nm (xkind_name x) c o same ++
  check (Z.eqb intact (Z.of_nat nkeys)) "extract_into:unrelated_values_lost".

(* concurrent Inject (scheduled cases): every thread injects its own context into its own carrier; afterwards each carrier is
   extracted on its own.  Each carrier must round-trip its own thread's identity, whatever the interleaving. *)
Fixpoint spec_pinj (k : prop_kind) (cs : list span_ctx) (os : list (option xobs * bool)) : list tok :=
  match cs, os with
  | [], [] => []
  | c :: cs', (o, same) :: os' => spec_roundtrip_nm ("concurrent_" ++ kind_name k) c o same ++ spec_pinj k cs' os'
  | _, _ => fail "obs:unparsable"
  end.
