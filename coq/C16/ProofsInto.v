(* C16 proofs, part 2b: Extract into an arbitrary destination context::Context (any span, any unrelated values),
   for each propagator and for CompositePropagator{B3 single, B3 multi, Jaeger}. *)
From V Require Import C16.Glue C16.ProofsHex C16.Proofs.
From Coq Require Import Lia.

Lemma bytes_eqb_neq : forall a b, a <> b -> bytes_eqb a b = false.
Proof. intros a b H. destruct (bytes_eqb a b) eqn:E; [apply bytes_eqb_eq in E; contradiction|reflexivity]. Qed.

Lemma get_span_set : forall d c, get_span (set_span d c) = c.
Proof. reflexivity. Qed.

Lemma ctx_get_set_other : forall key d c, key <> k_span -> ctx_get key (set_span d c) = ctx_get key d.
Proof.
  intros key d c H. unfold set_span. cbn [ctx_get].
  rewrite (bytes_eqb_neq k_span key) by (intro E; apply H; symmetry; exact E). reflexivity.
Qed.

Lemma extract_carrier_impl : forall k cr, extract_carrier k cr = install (extract_impl_carrier k cr).
Proof. destruct k; reflexivity. Qed.

Lemma extract1_install : forall cr dest k,
  extract1 cr dest k = match install (extract_impl_carrier k cr) with Some c' => set_span dest c' | None => dest end.
Proof. reflexivity. Qed.

(* ------------------------------------------------------------------ the composite's carrier *)
Definition composite_carrier (c : span_ctx) : carrier := b3_inject_multi c ++ b3_inject_single c ++ jaeger_inject c.

Lemma b3_single_value_not_nil : forall c, b3_single_value c <> [].
Proof. intro c. unfold b3_single_value. destruct (to_lower_hex (c_tid c)); discriminate. Qed.

Lemma composite_b3 : forall c, ctx_valid c = true ->
  install (extract_impl_carrier KSingle (composite_carrier c)) = roundtrip KSingle c.
Proof.
  intros c V. unfold roundtrip, inject, extract_carrier, composite_carrier, b3_inject_multi, b3_inject_single, jaeger_inject.
  rewrite V.
  change (install (extract_impl_carrier KSingle _))
    with (b3_extract (b3_single_value c) (to_lower_hex (c_tid c)) (to_lower_hex (c_sid c)) [sampled_char (c_flags c)]).
  rewrite (b3_single_precedence_lemma _ _ _ _ (b3_single_value_not_nil c)). reflexivity.
Qed.

Lemma composite_jaeger : forall c, ctx_valid c = true ->
  install (extract_impl_carrier KJaeger (composite_carrier c)) = roundtrip KJaeger c.
Proof.
  intros c V. unfold roundtrip, inject, extract_carrier, composite_carrier, b3_inject_multi, b3_inject_single, jaeger_inject.
  rewrite V. reflexivity.
Qed.

(* ------------------------------------------------------------------ valid context: the injected identity, remote, on top of dest *)
Definition preserves (dest out : context) : Prop :=
  forall key, key <> k_span -> ctx_get key out = ctx_get key dest.

Lemma roundtrip_into_valid_lemma : forall x c dest, wf_ctx c -> ctx_valid c = true ->
  agrees (get_span (roundtrip_into x c dest)) (c_tid c) (c_sid c) (sampled_bit (c_flags c)) /\
  length dest < length (roundtrip_into x c dest) /\
  preserves dest (roundtrip_into x c dest).
Proof.
  intros x c dest W V. destruct x as [k|].
  - unfold roundtrip_into, extract_x, inject_x. rewrite extract1_install, <- extract_carrier_impl.
    change (extract_carrier k (inject k c)) with (roundtrip k c).
    assert (R : exists c', roundtrip k c = Some c' /\ agrees c' (c_tid c) (c_sid c) (sampled_bit (c_flags c))).
    { destruct k; [apply b3_single_roundtrip_lemma|apply b3_multi_roundtrip_lemma|apply jaeger_roundtrip_lemma]; assumption. }
    destruct R as [c' [E A]]. rewrite E. rewrite get_span_set.
    split; [exact A|]. split; [cbn [set_span length]; lia|].
    intros key Hk. apply ctx_get_set_other. exact Hk.
  - unfold roundtrip_into, extract_x, inject_x, composite_members. cbn [fold_left].
    fold (composite_carrier c).
    destruct (b3_single_roundtrip_lemma c W V) as [c1 [E1 _]].
    destruct (jaeger_roundtrip_lemma c W V) as [c3 [E3 A3]].
    rewrite (extract1_install _ dest KSingle), (composite_b3 c V), E1.
    rewrite (extract1_install _ _ KMulti).
    change (extract_impl_carrier KMulti (composite_carrier c)) with (extract_impl_carrier KSingle (composite_carrier c)).
    rewrite (composite_b3 c V), E1.
    rewrite (extract1_install _ _ KJaeger), (composite_jaeger c V), E3.
    rewrite get_span_set. split; [exact A3|]. split; [cbn [set_span length]; lia|].
    intros key Hk. rewrite !ctx_get_set_other by exact Hk. reflexivity.
Qed.

(* ------------------------------------------------------------------ invalid context: nothing injected, dest returned as it is *)
Lemma roundtrip_into_invalid_lemma : forall x c dest, ctx_valid c = false -> roundtrip_into x c dest = dest.
Proof.
  intros x c dest V. unfold roundtrip_into, extract_x, inject_x, inject, b3_inject_single, b3_inject_multi, jaeger_inject.
  destruct x as [k|]; rewrite ?V; [destruct k; reflexivity|reflexivity].
Qed.

(* ------------------------------------------------------------------ the unrelated values *)
Lemma key_i_not_span : forall i, key_i i <> k_span.
Proof. intro i. unfold key_i, k_span. cbn. discriminate. Qed.

Lemma keys_intact_preserved : forall n dest out, preserves dest out -> keys_intact n out = keys_intact n dest.
Proof.
  induction n as [|n IH]; intros dest out P; [reflexivity|].
  cbn [keys_intact]. rewrite (P (key_i (S n)) (key_i_not_span (S n))), (IH dest out P). reflexivity.
Qed.

Lemma keys_intact_dest : forall n d, n <= 9 -> keys_intact n (make_dest d n) = n.
Proof.
  intros n d H.
  assert (E : n = 0 \/ n = 1 \/ n = 2 \/ n = 3 \/ n = 4 \/ n = 5 \/ n = 6 \/ n = 7 \/ n = 8 \/ n = 9) by lia.
  destruct d as [s|]; intuition (subst n; reflexivity).
Qed.

(* ------------------------------------------------------------------ the statement of Properties_C16.v *)
Lemma extract_into_any_context_lemma :
  (forall x c dest, wf_ctx c -> ctx_valid c = true ->
     let out := roundtrip_into x c dest in
     c_tid (get_span out) = c_tid c /\ c_sid (get_span out) = c_sid c /\
     sampled_bit (c_flags (get_span out)) = sampled_bit (c_flags c) /\ c_remote (get_span out) = true /\
     (forall key, key <> k_span -> ctx_get key out = ctx_get key dest)) /\
  (forall x c dest, ctx_valid c = false -> roundtrip_into x c dest = dest).
Proof.
  split.
  - intros x c dest W V. destruct (roundtrip_into_valid_lemma x c dest W V) as [[A1 [A2 [A3 A4]]] [_ P]].
    cbv zeta. repeat split; assumption.
  - exact roundtrip_into_invalid_lemma.
Qed.

(* non-vacuity: the destination holds the very span that was injected (local, flags 0x01), two unrelated values *)
Example ex_into_same_local :
  let c := ex_ctx x01 in
  let dest := make_dest (Some c) 2 in
  wf_ctx c /\ ctx_valid c = true /\ c_remote (get_span dest) = false /\
  option_map obs_of (observed_span dest (roundtrip_into XComposite c dest)) = Some (mk_xobs ex_tid ex_sid x01 true []) /\
  keys_intact 2 (roundtrip_into (XOne KSingle) c dest) = 2.
Proof. vm_compute. repeat split; reflexivity. Qed.
