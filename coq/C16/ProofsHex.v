(* C16 proofs, part 1: bytes, hex digits, splitting, id decoding.
   Per-byte facts are proved by exhaustive case analysis over the 256 bytes. *)
From V Require Import C16.Glue.
From Coq Require Import Lia ZifyBool ZifyNat ZifyN.

(* ------------------------------------------------------------------ bytes *)
Lemma bytes_eqb_refl : forall a, bytes_eqb a a = true.
Proof.
  induction a as [|x a IH]; cbn [bytes_eqb]; [reflexivity|].
  rewrite (Byte.byte_dec_lb (eq_refl x)), IH. reflexivity.
Qed.

Lemma bytes_eqb_eq : forall a b, bytes_eqb a b = true -> a = b.
Proof.
  induction a as [|x a IH]; destruct b as [|y b]; cbn [bytes_eqb]; intro H; try discriminate; [reflexivity|].
  apply andb_prop in H. destruct H as [H1 H2].
  apply Byte.byte_dec_bl in H1. apply IH in H2. subst. reflexivity.
Qed.

Lemma n2b_b2n : forall b, n2b (b2n b) = b.
Proof. intro b. unfold n2b, b2n. rewrite Byte.of_to_N. reflexivity. Qed.

Lemma all_zero_zeros : forall n, all_zero (zeros n) = true.
Proof. induction n as [|n IH]; [reflexivity|]. exact IH. Qed.

Lemma all_zero_app : forall a b, all_zero (a ++ b) = all_zero a && all_zero b.
Proof. intros a b. unfold all_zero. apply forallb_app. Qed.

Lemma all_zero_zeros_app : forall n l, all_zero (zeros n ++ l) = all_zero l.
Proof. intros n l. rewrite all_zero_app, all_zero_zeros. reflexivity. Qed.

Lemma length_zeros : forall n, length (zeros n) = n.
Proof. intro n. unfold zeros. apply repeat_length. Qed.

(* ------------------------------------------------------------------ hex digits: 256-case sweeps *)
Lemma lower_digits_hexbyte : forall b,
  hexbyte (lower_hex_digit (b2n b / 16)) (lower_hex_digit (b2n b mod 16)) = Some b.
Proof. destruct b; vm_compute; reflexivity. Qed.

Lemma lower_digits_islower : forall b,
  is_lower_hex (lower_hex_digit (b2n b / 16)) = true /\ is_lower_hex (lower_hex_digit (b2n b mod 16)) = true.
Proof. destruct b; vm_compute; split; reflexivity. Qed.

Lemma is_lower_hex_ishex : forall c, is_lower_hex c = true -> ishex c = true.
Proof. destruct c; vm_compute; intro H; try reflexivity; discriminate H. Qed.

Lemma ishex_not_sep : forall c, ishex c = true -> Byte.eqb c dash = false /\ Byte.eqb c colon = false.
Proof. destruct c; vm_compute; intro H; try discriminate H; split; reflexivity. Qed.

Lemma hexval_lt16 : forall c v, hexval c = Some v -> (v < 16)%N.
Proof. destruct c; vm_compute; intros v H; try discriminate H; injection H as E; subst v; reflexivity. Qed.

Lemma is_sampled_bit : forall f, is_sampled f = sampled_bit f.
Proof. destruct f; vm_compute; reflexivity. Qed.

Lemma jaeger_flags_sampled : forall f, is_sampled (jaeger_flags f) = sampled_bit f.
Proof. destruct f; vm_compute; reflexivity. Qed.

(* the hex table of detail/hex.h, as translated from the sources, is the table the model decodes with *)
Lemma hexint_is_kHexDigits : forall c, hexint c = nth (N.to_nat (b2n c)) kHexDigits 0%Z.
Proof. destruct c; vm_compute; reflexivity. Qed.

Definition l16 : list N := [0;1;2;3;4;5;6;7;8;9;10;11;12;13;14;15]%N.
Lemma in_l16 : forall v, (v < 16)%N -> In v l16.
Proof.
  intros v H. unfold l16.
  assert (E : (v = 0 \/ v = 1 \/ v = 2 \/ v = 3 \/ v = 4 \/ v = 5 \/ v = 6 \/ v = 7 \/ v = 8 \/ v = 9 \/ v = 10 \/
              v = 11 \/ v = 12 \/ v = 13 \/ v = 14 \/ v = 15)%N) by lia.
  cbn [In]. intuition auto.
Qed.

Lemma lor16_table :
  forallb (fun va => forallb (fun vb =>
     Byte.eqb (u8 (Z.lor (Z.of_N va * 16) (Z.of_N vb))) (n2b (16 * va + vb)%N)) l16) l16 = true.
Proof. vm_compute. reflexivity. Qed.

Lemma lor16 : forall va vb, (va < 16)%N -> (vb < 16)%N ->
  u8 (Z.lor (Z.of_N va * 16) (Z.of_N vb)) = n2b (16 * va + vb)%N.
Proof.
  intros va vb Ha Hb.
  pose proof lor16_table as T.
  rewrite forallb_forall in T. specialize (T va (in_l16 va Ha)).
  rewrite forallb_forall in T. specialize (T vb (in_l16 vb Hb)).
  apply Byte.byte_dec_bl in T. exact T.
Qed.

Lemma hexbyte_model : forall a b x, hexbyte a b = Some x ->
  ishex a = true /\ ishex b = true /\ u8 (Z.lor (hexint a * 16) (hexint b)) = x.
Proof.
  intros a b x H. unfold hexbyte in H. unfold ishex, hexint.
  destruct (hexval a) as [va|] eqn:Ea; [|discriminate H].
  destruct (hexval b) as [vb|] eqn:Eb; [|discriminate H].
  injection H as E. subst x. repeat split.
  apply lor16; [exact (hexval_lt16 a va Ea) | exact (hexval_lt16 b vb Eb)].
Qed.

Lemma hexbyte_zero_digit : forall a x, hexbyte ch_0 a = Some x -> ishex a = true /\ u8 (hexint a) = x.
Proof.
  intros a x H. unfold hexbyte in H. unfold ishex, hexint.
  change (hexval ch_0) with (Some 0%N) in H.
  destruct (hexval a) as [va|] eqn:Ea; [|discriminate H].
  injection H as E. subst x. split; [reflexivity|].
  pose proof (hexval_lt16 a va Ea) as L.
  unfold u8. rewrite Z.mod_small by lia. rewrite N2Z.id.
  replace (16 * 0 + va)%N with va by lia. reflexivity.
Qed.

(* ------------------------------------------------------------------ to_lower_hex *)
Lemma length_to_lower_hex : forall l, length (to_lower_hex l) = 2 * length l.
Proof. induction l as [|b l IH]; [reflexivity|]. cbn [to_lower_hex byte_to_lower_hex app length]. rewrite IH. lia. Qed.

Lemma unhex_to_lower_hex : forall l, unhex (to_lower_hex l) = Some l.
Proof.
  induction l as [|b l IH]; [reflexivity|].
  cbn [to_lower_hex byte_to_lower_hex app unhex].
  rewrite lower_digits_hexbyte, IH. reflexivity.
Qed.

Lemma to_lower_hex_islower : forall l, forallb is_lower_hex (to_lower_hex l) = true.
Proof.
  induction l as [|b l IH]; [reflexivity|].
  cbn [to_lower_hex byte_to_lower_hex app forallb].
  destruct (lower_digits_islower b) as [H1 H2]. rewrite H1, H2, IH. reflexivity.
Qed.

Lemma forallb_lower_ishex : forall s, forallb is_lower_hex s = true -> is_valid_hex s = true.
Proof.
  induction s as [|c s IH]; [reflexivity|]. cbn [forallb is_valid_hex]. intro H.
  apply andb_prop in H. destruct H as [H1 H2]. unfold is_valid_hex in IH. cbn [forallb].
  rewrite (is_lower_hex_ishex c H1), (IH H2). reflexivity.
Qed.

(* ------------------------------------------------------------------ splitting *)
Definition no_sep (c : byte) (s : bytes) : bool := forallb (fun b => negb (Byte.eqb b c)) s.

Lemma split_on_not_nil : forall c s, split_on c s <> [].
Proof.
  intros c s. destruct s as [|b s]; cbn [split_on]; [discriminate|].
  destruct (Byte.eqb b c); [discriminate|]. destruct (split_on c s); discriminate.
Qed.

Lemma split_on_app_sep : forall c a r, no_sep c a = true -> split_on c (a ++ c :: r) = a :: split_on c r.
Proof.
  intros c a r. induction a as [|b a IH]; intro H.
  - cbn [app split_on]. rewrite (Byte.byte_dec_lb (eq_refl c)). reflexivity.
  - cbn [no_sep forallb] in H. apply andb_prop in H. destruct H as [H1 H2].
    cbn [app split_on]. destruct (Byte.eqb b c); [discriminate H1|].
    rewrite (IH H2). reflexivity.
Qed.

Lemma split_on_no_sep : forall c a, no_sep c a = true -> split_on c a = [a].
Proof.
  intros c a. induction a as [|b a IH]; intro H; [reflexivity|].
  cbn [no_sep forallb] in H. apply andb_prop in H. destruct H as [H1 H2].
  cbn [split_on]. destruct (Byte.eqb b c); [discriminate H1|].
  rewrite (IH H2). reflexivity.
Qed.

Lemma valid_hex_no_dash : forall s, is_valid_hex s = true -> no_sep dash s = true.
Proof.
  induction s as [|c s IH]; [reflexivity|]. unfold is_valid_hex. cbn [forallb no_sep]. intro H.
  apply andb_prop in H. destruct H as [H1 H2].
  destruct (ishex_not_sep c H1) as [D _]. rewrite D. cbn [negb andb]. exact (IH H2).
Qed.

Lemma valid_hex_no_colon : forall s, is_valid_hex s = true -> no_sep colon s = true.
Proof.
  induction s as [|c s IH]; [reflexivity|]. unfold is_valid_hex. cbn [forallb no_sep]. intro H.
  apply andb_prop in H. destruct H as [H1 H2].
  destruct (ishex_not_sep c H1) as [_ D]. rewrite D. cbn [negb andb]. exact (IH H2).
Qed.

(* ------------------------------------------------------------------ unhex versus the model's HexToBinary *)
Lemma unhex_model : forall b s, unhex s = Some b ->
  is_valid_hex s = true /\ hex_pairs s = b /\ length s = 2 * length b.
Proof.
  induction b as [|x b IH]; intros s H.
  - destruct s as [|a [|a' s']]; cbn [unhex] in H; try discriminate H.
    + repeat split.
    + destruct (hexbyte a a'); [destruct (unhex s')|]; discriminate H.
  - destruct s as [|a [|a' s']]; cbn [unhex] in H; try discriminate H.
    destruct (hexbyte a a') as [y|] eqn:E; [|discriminate H].
    destruct (unhex s') as [r|] eqn:U; [|discriminate H].
    injection H as E1 E2. subst y r.
    destruct (hexbyte_model a a' x E) as [Ha [Ha' Hx]].
    destruct (IH s' U) as [V [P L]].
    unfold is_valid_hex in *. cbn [forallb hex_pairs length].
    rewrite Ha, Ha', V, Hx, P, L. repeat split. lia.
Qed.

Lemma unhex_zeros_even : forall j s, unhex (repeat ch_0 (2 * j) ++ s) = option_map (app (zeros j)) (unhex s).
Proof.
  induction j as [|j IH]; intro s.
  - change (repeat ch_0 (2 * 0) ++ s) with s. destruct (unhex s); reflexivity.
  - replace (2 * S j) with (S (S (2 * j))) by lia. cbn [repeat app unhex].
    change (hexbyte ch_0 ch_0) with (Some x00). rewrite IH.
    destruct (unhex s); reflexivity.
Qed.

Lemma hex_fits_true : forall s n, length s <= 2 * n -> hex_fits s n = true.
Proof. intros s n H. unfold hex_fits. destruct (Nat.ltb_spec (2 * n) (length s)); [lia|reflexivity]. Qed.

(* the SPEC's decoding of an id (pad with '0' digits, read pairs) is what HexToBinary computes *)
Lemma decode_id_model : forall n s b, decode_id n s = Some b ->
  is_valid_hex s = true /\ hex_to_binary s n = b /\ hex_fits s n = true /\ length b = n /\ s <> [].
Proof.
  intros n s b H. unfold decode_id in H.
  destruct (Nat.leb 1 (length s)) eqn:L1; [|discriminate H].
  destruct (Nat.leb (length s) (2 * n)) eqn:L2; [|discriminate H].
  cbn [andb] in H. apply Nat.leb_le in L1. apply Nat.leb_le in L2.
  assert (NE : s <> []) by (intro E; subst s; cbn in L1; lia).
  unfold hex_to_binary.
  destruct (Nat.ltb_spec (2 * n) (length s)) as [C|_]; [lia|].
  destruct (Nat.odd (length s)) eqn:O.
  - (* odd number of digits *)
    apply Nat.odd_spec in O. destruct O as [m Hm].
    destruct s as [|a s']; [cbn in L1; lia|]. cbn [length] in *.
    assert (Ls : length s' = 2 * m) by lia.
    replace (2 * n - S (length s')) with (2 * (n - m - 1) + 1) in H by lia.
    rewrite repeat_app in H. cbn [repeat] in H. rewrite <- app_assoc in H. cbn [app] in H.
    rewrite unhex_zeros_even in H. cbn [unhex] in H.
    destruct (hexbyte ch_0 a) as [y|] eqn:E; [|discriminate H].
    destruct (unhex s') as [r|] eqn:U; [|discriminate H].
    cbn [option_map] in H. injection H as E'. subst b.
    destruct (hexbyte_zero_digit a y E) as [Ha Hy].
    destruct (unhex_model r s' U) as [V [P L]].
    unfold is_valid_hex in *. cbn [forallb]. rewrite Ha, V, Hy, P.
    cbn [length]. repeat split; try assumption.
    + f_equal. f_equal. lia.
    + apply hex_fits_true. cbn [length]. lia.
    + rewrite app_length, length_zeros. cbn [length]. lia.
  - (* even number of digits *)
    assert (Ev : Nat.even (length s) = true) by (rewrite <- Nat.negb_odd, O; reflexivity).
    apply Nat.even_spec in Ev. destruct Ev as [m Hm].
    replace (2 * n - length s) with (2 * (n - m)) in H by lia.
    rewrite unhex_zeros_even in H.
    destruct (unhex s) as [r|] eqn:U; [|discriminate H].
    cbn [option_map] in H. injection H as E'. subst b.
    destruct (unhex_model r s U) as [V [P L]].
    rewrite P. repeat split; try assumption.
    + f_equal. f_equal. lia.
    + apply hex_fits_true. lia.
    + rewrite app_length, length_zeros. lia.
Qed.

Lemma decode_id_full : forall n l, length l = n -> n <> 0 -> decode_id n (to_lower_hex l) = Some l.
Proof.
  intros n l H Hn. unfold decode_id. rewrite length_to_lower_hex, H.
  destruct (Nat.leb_spec 1 (2 * n)) as [_|C]; [|lia].
  rewrite Nat.leb_refl, Nat.sub_diag. cbn [andb repeat app]. apply unhex_to_lower_hex.
Qed.

(* "64-bit trace ids left-padded with zeros": a 16-digit id decodes to eight zero bytes followed by its bytes *)
Lemma decode_id_short : forall t tb, length t = 16 -> unhex t = Some tb -> decode_id 16 t = Some (zeros 8 ++ tb).
Proof.
  intros t tb L U. unfold decode_id. rewrite L. cbn [Nat.leb Nat.mul Nat.add Nat.sub andb].
  change (repeat ch_0 16) with (repeat ch_0 (2 * 8)). rewrite unhex_zeros_even, U. reflexivity.
Qed.

(* length of what HexToBinary leaves in an n-byte buffer *)
Lemma length_hex_pairs_le : forall n s, length s <= 2 * n -> length (hex_pairs s) <= n.
Proof.
  induction n as [|n IH]; intros s H.
  - destruct s; [cbn; lia | cbn in H; lia].
  - destruct s as [|a [|b s']]; cbn [hex_pairs length]; try lia.
    cbn [length] in H. specialize (IH s'). lia.
Qed.

Lemma length_hex_to_binary : forall s n, length (hex_to_binary s n) = n.
Proof.
  intros s n. unfold hex_to_binary.
  destruct (Nat.ltb_spec (2 * n) (length s)) as [C|C]; [apply length_zeros|].
  rewrite app_length, length_zeros.
  destruct (Nat.odd (length s)) eqn:O.
  - destruct s as [|a s']; [discriminate O|]. cbn [length] in *.
    apply Nat.odd_spec in O. destruct O as [m Hm].
    assert (length (hex_pairs s') <= n - 1) by (apply length_hex_pairs_le; lia).
    assert (n >= 1) by lia. lia.
  - pose proof (length_hex_pairs_le n s C). lia.
Qed.

(* ------------------------------------------------------------------ converse: HexToBinary on valid hex that fits is the SPEC's decoding *)
Lemma ishex_hexval : forall a, ishex a = true -> exists v, hexval a = Some v.
Proof. intros a H. unfold ishex in H. destruct (hexval a) as [v|]; [exists v; reflexivity|discriminate H]. Qed.

Lemma hexbyte_of_valid : forall a b, ishex a = true -> ishex b = true ->
  hexbyte a b = Some (u8 (Z.lor (hexint a * 16) (hexint b))).
Proof.
  intros a b Ha Hb. destruct (ishex_hexval a Ha) as [va Ea]. destruct (ishex_hexval b Hb) as [vb Eb].
  unfold hexbyte, hexint. rewrite Ea, Eb. f_equal. symmetry.
  apply lor16; [exact (hexval_lt16 a va Ea)|exact (hexval_lt16 b vb Eb)].
Qed.

Lemma hexbyte_zero_of_valid : forall a, ishex a = true -> hexbyte ch_0 a = Some (u8 (hexint a)).
Proof.
  intros a Ha. destruct (ishex_hexval a Ha) as [va Ea].
  assert (E : hexbyte ch_0 a = Some (n2b (16 * 0 + va)%N)).
  { unfold hexbyte. change (hexval ch_0) with (Some 0%N). rewrite Ea. reflexivity. }
  destruct (hexbyte_zero_digit a _ E) as [_ Hy]. rewrite E, Hy. reflexivity.
Qed.

Lemma unhex_of_valid_even : forall m s, length s = 2 * m -> is_valid_hex s = true -> unhex s = Some (hex_pairs s).
Proof.
  induction m as [|m IH]; intros s L V.
  - destruct s; [reflexivity|cbn in L; lia].
  - destruct s as [|a [|b s']]; cbn [length] in L; try lia.
    unfold is_valid_hex in V. cbn [forallb] in V.
    apply andb_prop in V. destruct V as [Ha V]. apply andb_prop in V. destruct V as [Hb V].
    cbn [unhex hex_pairs]. rewrite (hexbyte_of_valid a b Ha Hb), (IH s' ltac:(lia) V). reflexivity.
Qed.

Lemma decode_id_of_model : forall n s, is_valid_hex s = true -> 1 <= length s -> length s <= 2 * n ->
  decode_id n s = Some (hex_to_binary s n).
Proof.
  intros n s V L1 L2. unfold decode_id.
  destruct (Nat.leb_spec 1 (length s)) as [_|C]; [|lia].
  destruct (Nat.leb_spec (length s) (2 * n)) as [_|C]; [|lia]. cbn [andb].
  unfold hex_to_binary. destruct (Nat.ltb_spec (2 * n) (length s)) as [C|_]; [lia|].
  destruct (Nat.odd (length s)) eqn:O.
  - apply Nat.odd_spec in O. destruct O as [m Hm].
    destruct s as [|a s']; [cbn in L1; lia|]. cbn [length] in *.
    assert (Ls : length s' = 2 * m) by lia.
    unfold is_valid_hex in V. cbn [forallb] in V. apply andb_prop in V. destruct V as [Ha V].
    pose proof (unhex_of_valid_even m s' Ls V) as U.
    destruct (unhex_model _ s' U) as [_ [_ Lp]].
    replace (2 * n - S (length s')) with (2 * (n - m - 1) + 1) by lia.
    rewrite repeat_app. cbn [repeat]. rewrite <- app_assoc. cbn [app].
    rewrite unhex_zeros_even. cbn [unhex]. rewrite (hexbyte_zero_of_valid a Ha), U. cbn [option_map length].
    f_equal. f_equal. f_equal. lia.
  - assert (Ev : Nat.even (length s) = true) by (rewrite <- Nat.negb_odd, O; reflexivity).
    apply Nat.even_spec in Ev. destruct Ev as [m Hm].
    pose proof (unhex_of_valid_even m s Hm V) as U.
    destruct (unhex_model _ s U) as [_ [_ Lp]].
    replace (2 * n - length s) with (2 * (n - m)) by lia.
    rewrite unhex_zeros_even, U. cbn [option_map]. f_equal. f_equal. f_equal. lia.
Qed.

(* an id that HexToBinary leaves non-zero comes from 1 .. 2n hex digits and is their left-padded value *)
Lemma installed_id_decodes : forall n s, is_valid_hex s = true -> all_zero (hex_to_binary s n) = false ->
  decode_id n s = Some (hex_to_binary s n).
Proof.
  intros n s V NZ. apply decode_id_of_model; [exact V| |].
  - destruct s as [|a s']; [|cbn [length]; lia]. exfalso.
    unfold hex_to_binary in NZ. destruct (Nat.ltb_spec (2 * n) (length (@nil byte))) as [C|_]; [cbn in C; lia|].
    cbn [length Nat.odd hex_pairs] in NZ. rewrite app_nil_r, all_zero_zeros in NZ. discriminate NZ.
  - unfold hex_to_binary in NZ. destruct (Nat.ltb_spec (2 * n) (length s)) as [C|C]; [|exact C].
    rewrite all_zero_zeros in NZ. discriminate NZ.
Qed.

Lemma decode_id_len : forall n s b, decode_id n s = Some b -> length s <= 2 * n.
Proof.
  intros n s b H. unfold decode_id in H.
  destruct (Nat.leb 1 (length s)); [|discriminate H].
  destruct (Nat.leb_spec (length s) (2 * n)) as [L|_]; [exact L|discriminate H].
Qed.

(* ------------------------------------------------------------------ SplitString versus positional cutting *)
Lemma index_of_from_shift : forall c s k, index_of_from c s (S k) = option_map S (index_of_from c s k).
Proof.
  intros c s. induction s as [|b s IH]; intro k; cbn [index_of_from]; [reflexivity|].
  destruct (Byte.eqb b c); [reflexivity|apply IH].
Qed.

Lemma cut_cons : forall c b s,
  cut c (b :: s) = if Byte.eqb b c then Some ([], s)
                   else match cut c s with Some (a, r) => Some (b :: a, r) | None => None end.
Proof.
  intros c b s. unfold cut, index_of. cbn [index_of_from].
  destruct (Byte.eqb b c); [reflexivity|]. rewrite index_of_from_shift.
  destruct (index_of_from c s 0); reflexivity.
Qed.

Lemma split_on_cut : forall c s,
  split_on c s = match cut c s with Some (a, r) => a :: split_on c r | None => [s] end.
Proof.
  intros c s. induction s as [|b s IH]; [reflexivity|].
  rewrite cut_cons. cbn [split_on]. destruct (Byte.eqb b c); [reflexivity|].
  rewrite IH. destruct (cut c s) as [[a r]|]; reflexivity.
Qed.
