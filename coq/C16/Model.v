(* MODEL of trace::propagation::B3PropagatorExtractor / B3Propagator / B3PropagatorMultiHeader
   (api/include/opentelemetry/trace/propagation/b3_propagator.h) and JaegerPropagator (jaeger.h),
   on top of detail::SplitString, detail::IsValidHex, detail::HexToBinary (Base.Bytes, C09.Model)
   and TraceId/SpanId::ToLowerBase16.  Mirrors what the code does.  Executable definitions only. *)
From V Require Export C09.Model.

Definition colon : byte := x3a.
Definition ch_0 : byte := x30.
Definition ch_1 : byte := x31.
Definition ch_d : byte := x64.

(* TraceFlags::IsSampled : rep_ & kIsSampled *)
Definition is_sampled (f : byte) : bool := negb (N.eqb (N.land (b2n f) (N.of_nat kIsSampled)) 0%N).

(* SpanContext::GetInvalid() = SpanContext(false, false) *)
Definition invalid_ctx : span_ctx := mk_ctx (zeros kTraceIdBytes) (zeros kSpanIdBytes) x00 false [].

(* Extract(): the extracted SpanContext is installed with SetSpan only when IsValid();
   None = "return context", the caller's context unchanged *)
Definition install (sc : span_ctx) : option span_ctx := if ctx_valid sc then Some sc else None.

(* TextMapPropagator::Extract on an abstract context::Context; [set_span] stands for trace::SetSpan *)
Definition extract_into {Ctx : Type} (set_span : Ctx -> span_ctx -> Ctx) (caller : Ctx) (sc : span_ctx) : Ctx :=
  match install sc with Some c => set_span caller c | None => caller end.

(* a TextMapCarrier backed by a map, dumped in key order; Get returns "" for an absent key *)
Definition carrier := list (bytes * bytes).
Fixpoint carrier_get (k : bytes) (c : carrier) : bytes :=
  match c with
  | [] => []
  | (k', v) :: c' => if bytes_eqb k' k then v else carrier_get k c'
  end.

Definition k_b3 : bytes := bs "b3".
Definition k_xtid : bytes := bs "X-B3-TraceId".
Definition k_xsid : bytes := bs "X-B3-SpanId".
Definition k_xsampled : bytes := bs "X-B3-Sampled".
Definition k_uber : bytes := bs "uber-trace-id".

Definition sampled_char (f : byte) : byte := if is_sampled f then ch_1 else ch_0.

(* ------------------------------------------------------------------ B3 *)

(* uint8_t buf[kTraceIdHexStrLength / 2], buf[kSpanIdHexStrLength / 2] *)
Definition b3_tid_bytes : nat := Nat.div kB3TraceIdHexStrLength 2.
Definition b3_sid_bytes : nat := Nat.div kB3SpanIdHexStrLength 2.

(* B3PropagatorExtractor::TraceFlagsFromHex *)
Definition b3_flags_from_hex (s : bytes) : byte :=
  match s with
  | [c] => if negb (Byte.eqb c ch_1) && negb (Byte.eqb c ch_d) then x00 else n2b (N.of_nat kIsSampled)
  | _ => x00
  end.

(* the part of ExtractImpl after the three field views have been chosen *)
Definition b3_from_fields (t s f : bytes) : span_ctx :=
  if negb (is_valid_hex t) || negb (is_valid_hex s) then invalid_ctx
  else
    let tid := hex_to_binary t b3_tid_bytes in     (* result of HexToBinary ignored: an over-long string leaves zeros *)
    let sid := hex_to_binary s b3_sid_bytes in
    if all_zero tid || all_zero sid then invalid_ctx
    else mk_ctx tid sid (b3_flags_from_hex f) true [].

(* B3PropagatorExtractor::ExtractImpl on the values Get returns for b3, X-B3-TraceId, X-B3-SpanId, X-B3-Sampled *)
Definition b3_extract_impl (b3 xt xs xf : bytes) : span_ctx :=
  if negb (is_nil b3) then
    let fs := split_string b3 dash 3 in
    if Nat.ltb (length fs) 2 then invalid_ctx
    else b3_from_fields (nth 0 fs []) (nth 1 fs []) (nth 2 fs [])   (* fields{} value-initialised: missing third = "" *)
  else b3_from_fields xt xs xf.

Definition b3_extract (b3 xt xs xf : bytes) : option span_ctx := install (b3_extract_impl b3 xt xs xf).
Definition b3_Extract {Ctx : Type} (set_span : Ctx -> span_ctx -> Ctx) (caller : Ctx) (b3 xt xs xf : bytes) : Ctx :=
  extract_into set_span caller (b3_extract_impl b3 xt xs xf).

Definition b3_extract_carrier (c : carrier) : option span_ctx :=
  b3_extract (carrier_get k_b3 c) (carrier_get k_xtid c) (carrier_get k_xsid c) (carrier_get k_xsampled c).

(* B3Propagator::Inject: the 51-byte b3 value *)
Definition b3_single_value (c : span_ctx) : bytes :=
  to_lower_hex (c_tid c) ++ [dash] ++ to_lower_hex (c_sid c) ++ [dash; sampled_char (c_flags c)].
Definition b3_inject_single (c : span_ctx) : carrier :=
  if ctx_valid c then [(k_b3, b3_single_value c)] else [].

(* B3PropagatorMultiHeader::Inject (entries in key order) *)
Definition b3_inject_multi (c : span_ctx) : carrier :=
  if ctx_valid c then
    [(k_xsampled, [sampled_char (c_flags c)]); (k_xsid, to_lower_hex (c_sid c)); (k_xtid, to_lower_hex (c_tid c))]
  else [].

(* ------------------------------------------------------------------ Jaeger *)

(* the bool HexToBinary returns *)
Definition hex_fits (s : bytes) (n : nat) : bool := negb (Nat.ltb (2 * n) (length s)).

(* JaegerPropagator::GetTraceFlags: jaeger_flags & kIsSampled (the propagator's private 0x01) *)
Definition jaeger_flags (b : byte) : byte := n2b (N.land (b2n b) 1%N).

(* JaegerPropagator::ExtractImpl *)
Definition jaeger_extract_impl (h : bytes) : span_ctx :=
  match split_string h colon 4 with
  | [t; s; _; f] =>
      if negb (is_valid_hex t) || negb (is_valid_hex s) || negb (is_valid_hex f) then invalid_ctx
      else if negb (hex_fits t 16) then invalid_ctx
      else if negb (hex_fits s 8) then invalid_ctx
      else if negb (hex_fits f 1) then invalid_ctx
      else mk_ctx (hex_to_binary t 16) (hex_to_binary s 8) (jaeger_flags (hd x00 (hex_to_binary f 1))) true []
  | _ => invalid_ctx
  end.

Definition jaeger_extract (h : bytes) : option span_ctx := install (jaeger_extract_impl h).
Definition jaeger_Extract {Ctx : Type} (set_span : Ctx -> span_ctx -> Ctx) (caller : Ctx) (h : bytes) : Ctx :=
  extract_into set_span caller (jaeger_extract_impl h).
Definition jaeger_extract_carrier (c : carrier) : option span_ctx := jaeger_extract (carrier_get k_uber c).

(* JaegerPropagator::Inject: trace-id(32):span-id(16):0:0<sampled> *)
Definition jaeger_value (c : span_ctx) : bytes :=
  to_lower_hex (c_tid c) ++ [colon] ++ to_lower_hex (c_sid c) ++ [colon; ch_0; colon; ch_0; sampled_char (c_flags c)].
Definition jaeger_inject (c : span_ctx) : carrier :=
  if ctx_valid c then [(k_uber, jaeger_value c)] else [].

(* ------------------------------------------------------------------ inject into an empty carrier, then extract *)
Inductive prop_kind := KSingle | KMulti | KJaeger.

Definition inject (k : prop_kind) (c : span_ctx) : carrier :=
  match k with KSingle => b3_inject_single c | KMulti => b3_inject_multi c | KJaeger => jaeger_inject c end.
Definition extract_carrier (k : prop_kind) (cr : carrier) : option span_ctx :=
  match k with KSingle | KMulti => b3_extract_carrier cr | KJaeger => jaeger_extract_carrier cr end.
Definition roundtrip (k : prop_kind) (c : span_ctx) : option span_ctx := extract_carrier k (inject k c).

(* ------------------------------------------------------------------ extraction into a destination context::Context
   A Context is a list of bindings, newest first: SetValue prepends a node, GetValue returns the first node with the key.
   Unrelated values are modelled by integers (the driver stores int64_t values under "verif.k<i>"). *)
Inductive cval := VSpan (c : span_ctx) | VInt (z : Z).
Definition context := list (bytes * cval).
Definition k_span : bytes := bs "active_span".        (* trace::kSpanKey *)

Fixpoint ctx_get (k : bytes) (c : context) : option cval :=
  match c with
  | [] => None
  | (k', v) :: c' => if bytes_eqb k' k then Some v else ctx_get k c'
  end.
(* trace::SetSpan / trace::GetSpan *)
Definition set_span (c : context) (s : span_ctx) : context := (k_span, VSpan s) :: c.
Definition get_span (c : context) : span_ctx :=
  match ctx_get k_span c with Some (VSpan s) => s | _ => invalid_ctx end.

(* ExtractImpl of one propagator on a carrier *)
Definition extract_impl_carrier (k : prop_kind) (cr : carrier) : span_ctx :=
  match k with
  | KSingle | KMulti =>
      b3_extract_impl (carrier_get k_b3 cr) (carrier_get k_xtid cr) (carrier_get k_xsid cr) (carrier_get k_xsampled cr)
  | KJaeger => jaeger_extract_impl (carrier_get k_uber cr)
  end.

(* one propagator, or CompositePropagator{B3Propagator, B3PropagatorMultiHeader, JaegerPropagator} *)
Inductive xkind := XOne (k : prop_kind) | XComposite.
Definition composite_members : list prop_kind := [KSingle; KMulti; KJaeger].

(* Inject into an empty map carrier (dumped in key order: X-B3-* < b3 < uber-trace-id) *)
Definition inject_x (x : xkind) (c : span_ctx) : carrier :=
  match x with
  | XOne k => inject k c
  | XComposite => b3_inject_multi c ++ b3_inject_single c ++ jaeger_inject c
  end.
(* Extract(carrier, dest): the composite threads the context through its members in order *)
Definition extract1 (cr : carrier) (dest : context) (k : prop_kind) : context :=
  extract_into set_span dest (extract_impl_carrier k cr).
Definition extract_x (x : xkind) (cr : carrier) (dest : context) : context :=
  match x with
  | XOne k => extract1 cr dest k
  | XComposite => fold_left (extract1 cr) composite_members dest
  end.
Definition roundtrip_into (x : xkind) (c : span_ctx) (dest : context) : context := extract_x x (inject_x x c) dest.

(* the destination the driver builds: [n] unrelated integer values, then possibly a span *)
Definition key_i (i : nat) : bytes := bs "verif.k" ++ [n2b (48 + N.of_nat i)%N].
Fixpoint dest_keys (n : nat) : context :=
  match n with 0 => [] | S m => (key_i n, VInt (100 + Z.of_nat n)) :: dest_keys m end.
Definition make_dest (d : option span_ctx) (n : nat) : context :=
  match d with Some s => set_span (dest_keys n) s | None => dest_keys n end.
(* how many of the unrelated values are still readable with their value *)
Fixpoint keys_intact (n : nat) (c : context) : nat :=
  match n with
  | 0 => 0
  | S m => (match ctx_get (key_i n) c with
            | Some (VInt z) => if Z.eqb z (100 + Z.of_nat n) then 1 else 0
            | _ => 0
            end) + keys_intact m c
  end.
(* what the driver sees of the span: None when the returned context has no new binding *)
Definition observed_span (dest out : context) : option span_ctx :=
  if Nat.eqb (length out) (length dest) then None else Some (get_span out).
