(* C16 proofs, part 2: theorems about the model of the B3 and Jaeger propagators. *)
From V Require Import C16.Glue C16.ProofsHex.
From Coq Require Import Lia.

(* a span context as the C++ types force it to be: 16-byte trace id, 8-byte span id *)
Definition wf_ctx (c : span_ctx) : Prop := length (c_tid c) = kTraceIdBytes /\ length (c_sid c) = kSpanIdBytes.

(* what "the extracted context agrees with (tid, sid, sampled)" means *)
Definition agrees (c : span_ctx) (tid sid : bytes) (smp : bool) : Prop :=
  c_tid c = tid /\ c_sid c = sid /\ sampled_bit (c_flags c) = smp /\ c_remote c = true.

Lemma valid_nonzero : forall c, ctx_valid c = true -> nonzero (c_tid c) = true /\ nonzero (c_sid c) = true.
Proof. intros c H. unfold ctx_valid in H. apply andb_prop in H. exact H. Qed.

Lemma install_some : forall sc, ctx_valid sc = true -> install sc = Some sc.
Proof. intros sc H. unfold install. rewrite H. reflexivity. Qed.

Lemma install_inv : forall sc c, install sc = Some c -> c = sc /\ ctx_valid c = true.
Proof.
  intros sc c H. unfold install in H. destruct (ctx_valid sc) eqn:V; [|discriminate H].
  injection H as E. subst c. split; [reflexivity|exact V].
Qed.

Lemma install_invalid : install invalid_ctx = None.
Proof. reflexivity. Qed.

Lemma mk_valid : forall tid sid f r ts, nonzero tid = true -> nonzero sid = true ->
  ctx_valid (mk_ctx tid sid f r ts) = true.
Proof. intros. unfold ctx_valid. cbn [c_tid c_sid]. unfold nonzero in *. rewrite H, H0. reflexivity. Qed.

(* ------------------------------------------------------------------ B3: the flags field *)
(* the extracted context is sampled exactly when the sampling field is "1" or "d" *)
Lemma b3_sampled_iff : forall f, sampled_bit (b3_flags_from_hex f) = true <-> (f = [ch_1] \/ f = [ch_d]).
Proof.
  intro f. destruct f as [|c [|c' f']]; cbn [b3_flags_from_hex].
  - split; [intro H; discriminate H | intros [H|H]; discriminate H].
  - destruct (Byte.eqb c ch_1) eqn:E1; cbn [negb andb].
    + apply Byte.byte_dec_bl in E1. subst c. split; [left; reflexivity | reflexivity].
    + destruct (Byte.eqb c ch_d) eqn:Ed; cbn [negb].
      * apply Byte.byte_dec_bl in Ed. subst c. split; [right; reflexivity | reflexivity].
      * split; [intro H; discriminate H|].
        intros [H|H]; injection H as H; subst c; [discriminate E1 | discriminate Ed].
  - split; [intro H; discriminate H | intros [H|H]; discriminate H].
Qed.

Definition smp_field (smp : option byte) : bytes := match smp with None => [] | Some c => [c] end.

Lemma b3_doc_sampling_flags : forall smp b, doc_b3_sampling smp = Some b ->
  sampled_bit (b3_flags_from_hex (smp_field smp)) = b /\ (forall c, smp = Some c -> Byte.eqb c dash = false).
Proof.
  intros smp b H. destruct smp as [c|]; cbn [doc_b3_sampling smp_field b3_flags_from_hex] in *.
  - destruct (Byte.eqb c ch_1) eqn:E1; cbn [orb negb andb] in *.
    + injection H as H. subst b. apply Byte.byte_dec_bl in E1. subst c. split; [reflexivity|].
      intros c' E. injection E as E. subst c'. reflexivity.
    + destruct (Byte.eqb c ch_d) eqn:Ed; cbn [negb] in *.
      * injection H as H. subst b. apply Byte.byte_dec_bl in Ed. subst c. split; [reflexivity|].
        intros c' E. injection E as E. subst c'. reflexivity.
      * destruct (Byte.eqb c ch_0) eqn:E0; [|discriminate H].
        injection H as H. subst b. apply Byte.byte_dec_bl in E0. subst c. split; [reflexivity|].
        intros c' E. injection E as E. subst c'. reflexivity.
  - injection H as H. subst b. split; [reflexivity|]. intros c E. discriminate E.
Qed.

(* ------------------------------------------------------------------ B3: ids *)
Lemma b3_from_fields_decoded : forall t s f tid sid,
  decode_id 16 t = Some tid -> decode_id 8 s = Some sid -> nonzero tid = true -> nonzero sid = true ->
  b3_from_fields t s f = mk_ctx tid sid (b3_flags_from_hex f) true [].
Proof.
  intros t s f tid sid Dt Ds Nt Ns.
  destruct (decode_id_model 16 t tid Dt) as [Vt [Ht _]].
  destruct (decode_id_model 8 s sid Ds) as [Vs [Hs _]].
  unfold b3_from_fields. rewrite Vt, Vs. cbn [negb orb].
  change b3_tid_bytes with 16. change b3_sid_bytes with 8. rewrite Ht, Hs.
  unfold nonzero in Nt, Ns.
  destruct (all_zero tid); [discriminate Nt|]. destruct (all_zero sid); [discriminate Ns|]. reflexivity.
Qed.

Lemma b3_fields_accepts : forall t s f tid sid,
  decode_id 16 t = Some tid -> decode_id 8 s = Some sid -> nonzero tid = true -> nonzero sid = true ->
  exists c, install (b3_from_fields t s f) = Some c /\
            agrees c tid sid (sampled_bit (b3_flags_from_hex f)).
Proof.
  intros t s f tid sid Dt Ds Nt Ns.
  rewrite (b3_from_fields_decoded t s f tid sid Dt Ds Nt Ns).
  eexists. split; [apply install_some; apply mk_valid; assumption|].
  repeat split.
Qed.

(* the fields SplitString finds in a header built as TraceId-SpanId[-SamplingState[-anything]] *)
Lemma b3_single_split : forall t s smp par xt xs xf,
  is_valid_hex t = true -> is_valid_hex s = true ->
  (forall c, smp = Some c -> Byte.eqb c dash = false) ->
  b3_extract_impl (build_b3 t s smp par) xt xs xf = b3_from_fields t s (smp_field smp).
Proof.
  intros t s smp par xt xs xf Vt Vs Hc. unfold b3_extract_impl.
  assert (NN : is_nil (build_b3 t s smp par) = false) by (unfold build_b3; destruct t; reflexivity).
  rewrite NN. cbn [negb].
  unfold split_string, build_b3. cbn [app].
  rewrite (split_on_app_sep dash t _ (valid_hex_no_dash t Vt)).
  destruct smp as [c|].
  - rewrite (split_on_app_sep dash s _ (valid_hex_no_dash s Vs)).
    pose proof (Hc c eq_refl) as Dc.
    destruct par as [p|].
    + cbn [split_on]. rewrite Dc. rewrite (Byte.byte_dec_lb (eq_refl dash)).
      cbn [firstn length Nat.ltb Nat.leb nth smp_field]. reflexivity.
    + cbn [split_on]. rewrite Dc. cbn [firstn length Nat.ltb Nat.leb nth smp_field]. reflexivity.
  - rewrite app_nil_r. rewrite (split_on_no_sep dash s (valid_hex_no_dash s Vs)).
    cbn [firstn length Nat.ltb Nat.leb nth smp_field]. reflexivity.
Qed.

(* ------------------------------------------------------------------ B3: acceptance of the documented variants *)
Lemma b3_single_accepts_lemma : forall t s smp par xt xs xf tid sid b,
  decode_id 16 t = Some tid -> decode_id 8 s = Some sid -> nonzero tid = true -> nonzero sid = true ->
  doc_b3_sampling smp = Some b ->
  exists c, b3_extract (build_b3 t s smp par) xt xs xf = Some c /\ agrees c tid sid b.
Proof.
  intros t s smp par xt xs xf tid sid b Dt Ds Nt Ns Hb.
  destruct (decode_id_model 16 t tid Dt) as [Vt _].
  destruct (decode_id_model 8 s sid Ds) as [Vs _].
  destruct (b3_doc_sampling_flags smp b Hb) as [Fb Hc].
  unfold b3_extract. rewrite (b3_single_split t s smp par xt xs xf Vt Vs Hc).
  rewrite <- Fb. apply b3_fields_accepts; assumption.
Qed.

Lemma b3_multi_accepts_lemma : forall xt xs xf tid sid,
  decode_id 16 xt = Some tid -> decode_id 8 xs = Some sid -> nonzero tid = true -> nonzero sid = true ->
  exists c, b3_extract [] xt xs xf = Some c /\ agrees c tid sid (sampled_bit (b3_flags_from_hex xf)).
Proof. intros. unfold b3_extract, b3_extract_impl. cbn [is_nil negb]. apply b3_fields_accepts; assumption. Qed.

Lemma b3_single_precedence_lemma : forall b3 xt xs xf, b3 <> [] -> b3_extract b3 xt xs xf = b3_extract b3 [] [] [].
Proof. intros b3 xt xs xf H. destruct b3 as [|x b3]; [contradiction|reflexivity]. Qed.

(* ------------------------------------------------------------------ B3: round trips *)
Lemma sampled_char_doc : forall f, doc_b3_sampling (Some (sampled_char f)) = Some (sampled_bit f).
Proof. intro f. unfold sampled_char. rewrite is_sampled_bit. destruct (sampled_bit f); reflexivity. Qed.

Lemma wf_decode : forall c, wf_ctx c ->
  decode_id 16 (to_lower_hex (c_tid c)) = Some (c_tid c) /\ decode_id 8 (to_lower_hex (c_sid c)) = Some (c_sid c).
Proof. intros c [H1 H2]. split; apply decode_id_full; try assumption; discriminate. Qed.

Lemma b3_single_roundtrip_lemma : forall c, wf_ctx c -> ctx_valid c = true ->
  exists c', roundtrip KSingle c = Some c' /\ agrees c' (c_tid c) (c_sid c) (sampled_bit (c_flags c)).
Proof.
  intros c W V. destruct (wf_decode c W) as [Dt Ds]. destruct (valid_nonzero c V) as [Nt Ns].
  unfold roundtrip, inject, extract_carrier, b3_inject_single. rewrite V.
  change (b3_extract_carrier [(k_b3, b3_single_value c)])
    with (b3_extract (build_b3 (to_lower_hex (c_tid c)) (to_lower_hex (c_sid c)) (Some (sampled_char (c_flags c))) None) [] [] []).
  apply b3_single_accepts_lemma; try assumption. apply sampled_char_doc.
Qed.

Lemma b3_multi_roundtrip_lemma : forall c, wf_ctx c -> ctx_valid c = true ->
  exists c', roundtrip KMulti c = Some c' /\ agrees c' (c_tid c) (c_sid c) (sampled_bit (c_flags c)).
Proof.
  intros c W V. destruct (wf_decode c W) as [Dt Ds]. destruct (valid_nonzero c V) as [Nt Ns].
  unfold roundtrip, inject, extract_carrier, b3_inject_multi. rewrite V.
  change (b3_extract_carrier _)
    with (b3_extract [] (to_lower_hex (c_tid c)) (to_lower_hex (c_sid c)) [sampled_char (c_flags c)]).
  destruct (b3_multi_accepts_lemma _ _ [sampled_char (c_flags c)] _ _ Dt Ds Nt Ns) as [c' [E A]].
  exists c'. split; [exact E|].
  destruct (b3_doc_sampling_flags (Some (sampled_char (c_flags c))) _ (sampled_char_doc (c_flags c))) as [Fb _].
  cbn [smp_field] in Fb. rewrite Fb in A. exact A.
Qed.

(* ------------------------------------------------------------------ Jaeger *)
Lemma jaeger_split : forall t s p f,
  is_valid_hex t = true -> is_valid_hex s = true -> no_sep colon p = true -> is_valid_hex f = true ->
  split_string (build_jaeger t s p f) colon 4 = [t; s; p; f].
Proof.
  intros t s p f Vt Vs Np Vf. unfold split_string, build_jaeger. cbn [app].
  rewrite (split_on_app_sep colon t _ (valid_hex_no_colon t Vt)).
  rewrite (split_on_app_sep colon s _ (valid_hex_no_colon s Vs)).
  rewrite (split_on_app_sep colon p _ Np).
  rewrite (split_on_no_sep colon f (valid_hex_no_colon f Vf)).
  reflexivity.
Qed.

Lemma jaeger_accepts_lemma : forall t s p f tid sid fl,
  decode_id 16 t = Some tid -> decode_id 8 s = Some sid -> decode_id 1 f = Some [fl] ->
  nonzero tid = true -> nonzero sid = true -> no_sep colon p = true ->
  exists c, jaeger_extract (build_jaeger t s p f) = Some c /\ agrees c tid sid (sampled_bit fl).
Proof.
  intros t s p f tid sid fl Dt Ds Df Nt Ns Np.
  destruct (decode_id_model 16 t tid Dt) as [Vt [Ht [Ft _]]].
  destruct (decode_id_model 8 s sid Ds) as [Vs [Hs [Fs _]]].
  destruct (decode_id_model 1 f [fl] Df) as [Vf [Hf [Ff _]]].
  unfold jaeger_extract, jaeger_extract_impl.
  rewrite (jaeger_split t s p f Vt Vs Np Vf).
  rewrite Vt, Vs, Vf, Ft, Fs, Ff, Ht, Hs, Hf. cbn [negb orb hd].
  eexists. split; [apply install_some; apply mk_valid; assumption|].
  repeat split. cbn [c_flags]. rewrite <- is_sampled_bit. apply jaeger_flags_sampled.
Qed.

Lemma jaeger_flags_field : forall f, decode_id 1 [ch_0; sampled_char f] = Some [if sampled_bit f then x01 else x00].
Proof. intro f. unfold sampled_char. rewrite is_sampled_bit. destruct (sampled_bit f); reflexivity. Qed.

Lemma jaeger_roundtrip_lemma : forall c, wf_ctx c -> ctx_valid c = true ->
  exists c', roundtrip KJaeger c = Some c' /\ agrees c' (c_tid c) (c_sid c) (sampled_bit (c_flags c)).
Proof.
  intros c W V. destruct (wf_decode c W) as [Dt Ds]. destruct (valid_nonzero c V) as [Nt Ns].
  unfold roundtrip, inject, extract_carrier, jaeger_inject. rewrite V.
  change (jaeger_extract_carrier [(k_uber, jaeger_value c)])
    with (jaeger_extract (build_jaeger (to_lower_hex (c_tid c)) (to_lower_hex (c_sid c)) [ch_0] [ch_0; sampled_char (c_flags c)])).
  destruct (jaeger_accepts_lemma _ _ [ch_0] _ _ _ _ Dt Ds (jaeger_flags_field (c_flags c)) Nt Ns eq_refl) as [c' [E A]].
  exists c'. split; [exact E|].
  destruct (sampled_bit (c_flags c)); exact A.
Qed.

(* ------------------------------------------------------------------ totality: identity or non-zero ids *)
Definition good_installed (c : span_ctx) : Prop :=
  nonzero (c_tid c) = true /\ nonzero (c_sid c) = true /\ length (c_tid c) = 16 /\ length (c_sid c) = 8 /\ c_remote c = true.

Lemma b3_from_fields_shape : forall t s f,
  b3_from_fields t s f = invalid_ctx \/
  (length (c_tid (b3_from_fields t s f)) = 16 /\ length (c_sid (b3_from_fields t s f)) = 8 /\ c_remote (b3_from_fields t s f) = true).
Proof.
  intros t s f. unfold b3_from_fields.
  destruct (negb (is_valid_hex t) || negb (is_valid_hex s)); [left; reflexivity|].
  destruct (all_zero (hex_to_binary t b3_tid_bytes) || all_zero (hex_to_binary s b3_sid_bytes)); [left; reflexivity|].
  right. cbn [c_tid c_sid c_remote]. rewrite !length_hex_to_binary. repeat split.
Qed.

Lemma b3_impl_shape : forall b3 xt xs xf,
  b3_extract_impl b3 xt xs xf = invalid_ctx \/
  (length (c_tid (b3_extract_impl b3 xt xs xf)) = 16 /\ length (c_sid (b3_extract_impl b3 xt xs xf)) = 8 /\
   c_remote (b3_extract_impl b3 xt xs xf) = true).
Proof.
  intros. unfold b3_extract_impl.
  destruct (negb (is_nil b3)); [|apply b3_from_fields_shape].
  destruct (Nat.ltb (length (split_string b3 dash 3)) 2); [left; reflexivity|apply b3_from_fields_shape].
Qed.

Lemma jaeger_impl_shape : forall h,
  jaeger_extract_impl h = invalid_ctx \/
  (length (c_tid (jaeger_extract_impl h)) = 16 /\ length (c_sid (jaeger_extract_impl h)) = 8 /\
   c_remote (jaeger_extract_impl h) = true).
Proof.
  intro h. unfold jaeger_extract_impl.
  destruct (split_string h colon 4) as [|t [|s [|p [|f [|x r]]]]]; try (left; reflexivity).
  destruct (negb (is_valid_hex t) || negb (is_valid_hex s) || negb (is_valid_hex f)); [left; reflexivity|].
  destruct (negb (hex_fits t 16)); [left; reflexivity|].
  destruct (negb (hex_fits s 8)); [left; reflexivity|].
  destruct (negb (hex_fits f 1)); [left; reflexivity|].
  right. cbn [c_tid c_sid c_remote]. rewrite !length_hex_to_binary. repeat split.
Qed.

Lemma install_shape : forall sc,
  (sc = invalid_ctx \/ (length (c_tid sc) = 16 /\ length (c_sid sc) = 8 /\ c_remote sc = true)) ->
  match install sc with None => True | Some c => c = sc /\ good_installed c end.
Proof.
  intros sc H. destruct (install sc) as [c|] eqn:E; [|exact I].
  destruct (install_inv sc c E) as [Ec V]. split; [exact Ec|]. subst c.
  destruct H as [H|[H1 [H2 H3]]].
  - subst sc. discriminate E.
  - destruct (valid_nonzero sc V) as [Nt Ns]. unfold good_installed. repeat split; assumption.
Qed.

Lemma b3_extract_total : forall b3 xt xs xf,
  match b3_extract b3 xt xs xf with None => True | Some c => good_installed c end.
Proof.
  intros. unfold b3_extract. pose proof (install_shape _ (b3_impl_shape b3 xt xs xf)) as H.
  destruct (install (b3_extract_impl b3 xt xs xf)); [exact (proj2 H)|exact I].
Qed.

Lemma jaeger_extract_total : forall h,
  match jaeger_extract h with None => True | Some c => good_installed c end.
Proof.
  intros. unfold jaeger_extract. pose proof (install_shape _ (jaeger_impl_shape h)) as H.
  destruct (install (jaeger_extract_impl h)); [exact (proj2 H)|exact I].
Qed.

(* on an abstract Context: the result of Extract is the caller's context itself, or SetSpan(caller, c) with c good *)
Lemma extract_into_total : forall (Ctx : Type) (set_span : Ctx -> span_ctx -> Ctx) (caller : Ctx) sc,
  (sc = invalid_ctx \/ (length (c_tid sc) = 16 /\ length (c_sid sc) = 8 /\ c_remote sc = true)) ->
  extract_into set_span caller sc = caller \/
  exists c, extract_into set_span caller sc = set_span caller c /\ good_installed c.
Proof.
  intros Ctx set_span caller sc H. unfold extract_into.
  pose proof (install_shape sc H) as S.
  destruct (install sc) as [c|]; [right; exists c; split; [reflexivity|exact (proj2 S)] | left; reflexivity].
Qed.

Lemma extract_total_lemma : forall (Ctx : Type) (set_span : Ctx -> span_ctx -> Ctx) (caller : Ctx),
  (forall b3 xt xs xf,
     b3_Extract set_span caller b3 xt xs xf = caller \/
     exists c, b3_Extract set_span caller b3 xt xs xf = set_span caller c /\ good_installed c) /\
  (forall h,
     jaeger_Extract set_span caller h = caller \/
     exists c, jaeger_Extract set_span caller h = set_span caller c /\ good_installed c).
Proof.
  intros. split; intros.
  - apply extract_into_total. apply b3_impl_shape.
  - apply extract_into_total. apply jaeger_impl_shape.
Qed.

(* ------------------------------------------------------------------ non-vacuity: concrete values meeting the hypotheses *)
Definition ex_tid : bytes := [x80; xf1; x98; xee; x56; x34; x3b; xa8; x64; xfe; x8b; x2a; x57; xd3; xef; xf7].
Definition ex_sid : bytes := [xe4; x57; xb5; xa2; xe4; xd8; x6b; xd1].
Definition ex_ctx (f : byte) : span_ctx := mk_ctx ex_tid ex_sid f false [].

Example ex_ctx_hyps : wf_ctx (ex_ctx xfe) /\ ctx_valid (ex_ctx xfe) = true.
Proof. split; [split; reflexivity|reflexivity]. Qed.

Example ex_roundtrip_single_ff :
  option_map obs_of (roundtrip KSingle (ex_ctx xff)) = Some (mk_xobs ex_tid ex_sid x01 true []).
Proof. vm_compute. reflexivity. Qed.
Example ex_roundtrip_multi_03 :
  option_map obs_of (roundtrip KMulti (ex_ctx x03)) = Some (mk_xobs ex_tid ex_sid x01 true []).
Proof. vm_compute. reflexivity. Qed.
Example ex_roundtrip_jaeger_fe :
  option_map obs_of (roundtrip KJaeger (ex_ctx xfe)) = Some (mk_xobs ex_tid ex_sid x00 true []).
Proof. vm_compute. reflexivity. Qed.

(* a 16-digit trace id with the debug flag and a parent id, next to conflicting multi headers *)
Example ex_b3_short_debug :
  let t := bs "80f198ee56343ba8" in let s := bs "e457b5a2e4d86bd1" in
  decode_id 16 t = Some (zeros 8 ++ firstn 8 ex_tid) /\ decode_id 8 s = Some ex_sid /\
  nonzero (zeros 8 ++ firstn 8 ex_tid) = true /\ nonzero ex_sid = true /\ doc_b3_sampling (Some ch_d) = Some true /\
  option_map obs_of (b3_extract (build_b3 t s (Some ch_d) (Some (bs "05e3ac9a4f6e3b90"))) (bs "ffff") (bs "zz") (bs "0"))
  = Some (mk_xobs (zeros 8 ++ firstn 8 ex_tid) ex_sid x01 true []).
Proof. vm_compute. repeat split; reflexivity. Qed.

Example ex_jaeger_short :
  decode_id 16 (bs "4bf92f3577b34da6") = Some (zeros 8 ++ [x4b; xf9; x2f; x35; x77; xb3; x4d; xa6]) /\
  decode_id 1 (bs "3") = Some [x03] /\ no_sep colon (bs "0") = true /\
  option_map obs_of (jaeger_extract (build_jaeger (bs "4bf92f3577b34da6") (bs "e457b5a2e4d86bd1") (bs "0") (bs "3")))
  = Some (mk_xobs (zeros 8 ++ [x4b; xf9; x2f; x35; x77; xb3; x4d; xa6]) ex_sid x01 true []).
Proof. vm_compute. repeat split; reflexivity. Qed.

(* the regression for F7 (repaired by c9c1ba8): X-B3-Sampled carrying the low hex digit of the flags byte
   ("3" for flags 0x03) would be extracted as not sampled *)
Example f7_regression : sampled_bit (b3_flags_from_hex (bs "3")) = false /\ sampled_bit x03 = true.
Proof. split; reflexivity. Qed.

(* both outcomes of Extract occur *)
Example ex_total_both :
  b3_extract (bs "0") [] [] [] = None /\ jaeger_extract (bs "0:0:0:1") = None /\
  (exists c, jaeger_extract (bs "1:1:0:1") = Some c).
Proof. repeat split; try reflexivity. eexists. vm_compute. reflexivity. Qed.

(* ------------------------------------------------------------------ the statements of Properties_C16.v, assembled *)
Lemma b3_accepts_variants_lemma :
  (* single header TraceId-SpanId[-SamplingState[-ParentSpanId]], whatever the X-B3-* headers hold *)
  (forall t s smp par xt xs xf tid sid b,
     decode_id 16 t = Some tid -> decode_id 8 s = Some sid -> nonzero tid = true -> nonzero sid = true ->
     doc_b3_sampling smp = Some b ->
     exists c, b3_extract (build_b3 t s smp par) xt xs xf = Some c /\
               c_tid c = tid /\ c_sid c = sid /\ sampled_bit (c_flags c) = b /\ c_remote c = true) /\
  (* multi header form, used when there is no b3 header: sampled exactly for "1" and "d" *)
  (forall xt xs xf tid sid,
     decode_id 16 xt = Some tid -> decode_id 8 xs = Some sid -> nonzero tid = true -> nonzero sid = true ->
     exists c, b3_extract [] xt xs xf = Some c /\
               c_tid c = tid /\ c_sid c = sid /\ c_remote c = true /\
               (sampled_bit (c_flags c) = true <-> (xf = [ch_1] \/ xf = [ch_d]))) /\
  (* a 16-digit (64-bit) trace id is the id left-padded with eight zero bytes *)
  (forall t tb, length t = 16 -> unhex t = Some tb -> decode_id 16 t = Some (zeros 8 ++ tb)) /\
  (* a non-empty b3 header takes precedence: the X-B3-* headers are not consulted *)
  (forall b3 xt xs xf, b3 <> [] -> b3_extract b3 xt xs xf = b3_extract b3 [] [] []).
Proof.
  split; [|split; [|split]].
  - exact b3_single_accepts_lemma.
  - intros xt xs xf tid sid Dt Ds Nt Ns.
    destruct (b3_multi_accepts_lemma xt xs xf tid sid Dt Ds Nt Ns) as [c [E [A1 [A2 [A3 A4]]]]].
    exists c. repeat split; try assumption.
    + intro H. apply b3_sampled_iff. rewrite <- A3. exact H.
    + intro H. rewrite A3. apply b3_sampled_iff. exact H.
  - exact decode_id_short.
  - exact b3_single_precedence_lemma.
Qed.

Lemma jaeger_accepts_variants_lemma :
  (forall t s p f tid sid fl,
     decode_id 16 t = Some tid -> decode_id 8 s = Some sid -> decode_id 1 f = Some [fl] ->
     nonzero tid = true -> nonzero sid = true -> no_sep colon p = true ->
     exists c, jaeger_extract (build_jaeger t s p f) = Some c /\
               c_tid c = tid /\ c_sid c = sid /\ sampled_bit (c_flags c) = sampled_bit fl /\ c_remote c = true).
Proof. exact jaeger_accepts_lemma. Qed.

(* an invalid context injects nothing, and extracting from the untouched carrier returns the caller's context *)
Lemma invalid_not_injected_lemma : forall k c, ctx_valid c = false -> inject k c = [] /\ roundtrip k c = None.
Proof.
  intros k c V. unfold roundtrip, inject, b3_inject_single, b3_inject_multi, jaeger_inject.
  destruct k; rewrite V; split; reflexivity.
Qed.

(* ------------------------------------------------------------------ installed ids are the decoded id fields of the header *)
Lemma b3_from_fields_ids : forall t s f c, install (b3_from_fields t s f) = Some c ->
  decode_id 16 t = Some (c_tid c) /\ decode_id 8 s = Some (c_sid c).
Proof.
  intros t s f c H. unfold b3_from_fields in H.
  destruct (negb (is_valid_hex t) || negb (is_valid_hex s)) eqn:V; [discriminate H|].
  apply Bool.orb_false_elim in V. destruct V as [Vt Vs].
  apply Bool.negb_false_iff in Vt. apply Bool.negb_false_iff in Vs.
  change b3_tid_bytes with 16 in H. change b3_sid_bytes with 8 in H.
  destruct (all_zero (hex_to_binary t 16) || all_zero (hex_to_binary s 8)) eqn:Z; [discriminate H|].
  apply Bool.orb_false_elim in Z. destruct Z as [Zt Zs].
  destruct (install_inv _ c H) as [E _]. subst c. cbn [c_tid c_sid].
  split; apply installed_id_decodes; assumption.
Qed.

Lemma b3_extract_ids_lemma : forall b3 xt xs xf c, b3_extract b3 xt xs xf = Some c ->
  decode_id 16 (fst (b3_id_fields b3 xt xs)) = Some (c_tid c) /\
  decode_id 8 (snd (b3_id_fields b3 xt xs)) = Some (c_sid c).
Proof.
  intros b3 xt xs xf c H. unfold b3_extract, b3_extract_impl in H. unfold b3_id_fields.
  destruct (is_nil b3); cbn [negb] in H.
  - cbn [fst snd]. exact (b3_from_fields_ids xt xs xf c H).
  - unfold split_string in H. unfold id_fields, field1.
    rewrite (split_on_cut dash b3) in H.
    destruct (cut dash b3) as [[t r]|]; [|discriminate H].
    rewrite (split_on_cut dash r) in H.
    destruct (cut dash r) as [[s r']|]; cbn [fst snd].
    + cbn [firstn length Nat.ltb Nat.leb nth] in H. exact (b3_from_fields_ids t s _ c H).
    + cbn [firstn length Nat.ltb Nat.leb nth] in H. exact (b3_from_fields_ids t r _ c H).
Qed.

Lemma jaeger_extract_ids_lemma : forall h c, jaeger_extract h = Some c ->
  decode_id 16 (fst (id_fields colon h)) = Some (c_tid c) /\
  decode_id 8 (snd (id_fields colon h)) = Some (c_sid c).
Proof.
  intros h c H. unfold jaeger_extract, jaeger_extract_impl, split_string in H. unfold id_fields, field1.
  rewrite (split_on_cut colon h) in H.
  destruct (cut colon h) as [[t r]|]; [|discriminate H].
  rewrite (split_on_cut colon r) in H.
  destruct (cut colon r) as [[s r']|]; cbn [fst snd]; [|discriminate H].
  change (firstn 4 (t :: s :: split_on colon r')) with (t :: s :: firstn 2 (split_on colon r')) in H.
  destruct (firstn 2 (split_on colon r')) as [|p [|f [|x rest]]]; cbv beta iota in H;
    try (rewrite install_invalid in H; discriminate H).
  destruct (negb (is_valid_hex t) || negb (is_valid_hex s) || negb (is_valid_hex f)) eqn:V; [discriminate H|].
  apply Bool.orb_false_elim in V. destruct V as [V _]. apply Bool.orb_false_elim in V. destruct V as [Vt Vs].
  apply Bool.negb_false_iff in Vt. apply Bool.negb_false_iff in Vs.
  destruct (negb (hex_fits t 16)); [discriminate H|].
  destruct (negb (hex_fits s 8)); [discriminate H|].
  destruct (negb (hex_fits f 1)); [discriminate H|].
  destruct (install_inv _ c H) as [E Vc]. subst c. cbn [c_tid c_sid].
  destruct (valid_nonzero _ Vc) as [Nt Ns]. cbn [c_tid c_sid] in Nt, Ns. unfold nonzero in Nt, Ns.
  apply Bool.negb_true_iff in Nt. apply Bool.negb_true_iff in Ns.
  split; apply installed_id_decodes; assumption.
Qed.

(* hence: an over-long, empty or non-hexadecimal id field never leads to an installed context *)
Lemma bad_id_field_not_installed_lemma :
  (forall b3 xt xs xf,
     decode_id 16 (fst (b3_id_fields b3 xt xs)) = None \/ decode_id 8 (snd (b3_id_fields b3 xt xs)) = None ->
     b3_extract b3 xt xs xf = None) /\
  (forall h,
     decode_id 16 (fst (id_fields colon h)) = None \/ decode_id 8 (snd (id_fields colon h)) = None ->
     jaeger_extract h = None).
Proof.
  split.
  - intros b3 xt xs xf H. destruct (b3_extract b3 xt xs xf) as [c|] eqn:E; [|reflexivity].
    destruct (b3_extract_ids_lemma _ _ _ _ _ E) as [A B]. destruct H as [H|H]; congruence.
  - intros h H. destruct (jaeger_extract h) as [c|] eqn:E; [|reflexivity].
    destruct (jaeger_extract_ids_lemma _ _ E) as [A B]. destruct H as [H|H]; congruence.
Qed.

Example ex_overlong_not_installed :
  b3_extract (bs "4-ce5bb2fc79ba06613-0") [] [] [] = None /\
  decode_id 8 (snd (b3_id_fields (bs "4-ce5bb2fc79ba06613-0") [] [])) = None /\
  decode_id 16 (fst (b3_id_fields (bs "4-ce5bb2fc79ba06613-0") [] [])) = Some (zeros 15 ++ [x04]).
Proof. repeat split; vm_compute; reflexivity. Qed.
