(* Glue between the token wire format and the C16 model/spec.  Extracted.
   cases:   RT  <S|M|J> x<tid16> x<sid8> <flags> <remote> x<tracestate header>
            EXT B <b3> <X-B3-TraceId> <X-B3-SpanId> <X-B3-Sampled>      (x<bytes> or NONE = header absent)
            EXT J <uber-trace-id>
            RTD <S|M|J|C> <ctx: 5 tokens as for RT> (SPAN <ctx: 5 tokens> | NOSPAN) <nkeys 0..9>
                inject ctx into an empty carrier, extract into a destination Context holding nkeys unrelated
                values and (SPAN) a span; C = CompositePropagator{B3 single, B3 multi, Jaeger}
            PINJ <S|M|J> | <ctx: 5 tokens> | <ctx> ... | s <tid> <flag> ...
                one thread per ctx injects it into its own carrier under the deterministic scheduler (every carrier.Set
                is a scheduling point; the schedule is part of the case and ignored by the model); afterwards every
                carrier is extracted; observation: the extraction parts of all threads, then  ; H ... ; H ...
   observations:  OK x<tid> x<sid> <flags> <remote> x<tracestate>  |  INVALID <caller's context returned unchanged>
                  followed, for RT/RTD, by   ; H x<key> x<value> ...   (the carrier after Inject, in key order)  or  ; NOHDR
                  preceded, for RTD, by   K <number of unrelated values still readable in the returned context>;
                  for RTD, INVALID means: the returned context's span is the destination's own (or still absent) *)
From V Require Export C16.Spec.
Local Open Scope Z_scope.

Inductive case :=
| CRt (k : prop_kind) (c : span_ctx)
| CExtB (b3 xt xs xf : bytes)
| CExtJ (h : bytes)
| CRtD (x : xkind) (c : span_ctx) (d : option span_ctx) (n : nat)
| CPinj (k : prop_kind) (cs : list span_ctx).

Definition opt_bytes (t : tok) : option bytes :=
  match t with TB b => Some b | TT _ => Some [] | TZ _ => None end.

Definition parse_kind (t : tok) : option prop_kind :=
  if is_tag "S" t then Some KSingle else if is_tag "M" t then Some KMulti else if is_tag "J" t then Some KJaeger else None.

Definition parse_ctx (l : list tok) : option span_ctx :=
  match l with
  | [TB tid; TB sid; TZ f; TZ r; TB tsh] =>
      if Nat.eqb (length tid) 16 && Nat.eqb (length sid) 8 && (0 <=? f) && (f <? 256)
      then Some (mk_ctx tid sid (n2b (Z.to_N f)) (Z.eqb r 1) (from_header tsh)) else None
  | _ => None
  end.

Definition parse_xkind (t : tok) : option xkind :=
  if is_tag "C" t then Some XComposite else option_map XOne (parse_kind t).

Definition parse_nkeys (z : Z) : option nat := if (0 <=? z) && (z <=? 9) then Some (Z.to_nat z) else None.

Definition parse_rtd (k : tok) (rest : list tok) : option case :=
  match parse_xkind k, parse_ctx (firstn 5 rest), skipn 5 rest with
  | Some x, Some cx, sp :: rest' =>
      if is_tag "NOSPAN" sp then
        match rest' with
        | [TZ n] => option_map (CRtD x cx None) (parse_nkeys n)
        | _ => None
        end
      else if is_tag "SPAN" sp then
        match parse_ctx (firstn 5 rest'), skipn 5 rest' with
        | Some dx, [TZ n] => option_map (CRtD x cx (Some dx)) (parse_nkeys n)
        | _, _ => None
        end
      else None
  | _, _, _ => None
  end.

(* the sections after "PINJ k": contexts, closed by the schedule section (which the model ignores) *)
Fixpoint parse_ctxs (secs : list (list tok)) : option (list span_ctx) :=
  match secs with
  | [] => Some []
  | sec :: r =>
      match sec with
      | t :: _ => if is_tag "s" t then Some []
                  else match parse_ctx sec, parse_ctxs r with
                       | Some c, Some cs => Some (c :: cs)
                       | _, _ => None
                       end
      | [] => None
      end
  end.
Definition parse_pinj (k : tok) (rest : list tok) : option case :=
  match parse_kind k, split_toks "|" rest with
  | Some kd, [] :: secs => match parse_ctxs secs with
                           | Some (c :: cs) => Some (CPinj kd (c :: cs))
                           | _ => None
                           end
  | _, _ => None
  end.

Definition parse_case (l : list tok) : option case :=
  match l with
  | t :: k :: rest =>
      if is_tag "PINJ" t then parse_pinj k rest else
      if is_tag "RTD" t then parse_rtd k rest else
      if is_tag "RT" t then
        match parse_kind k, parse_ctx rest with
        | Some kd, Some c => Some (CRt kd c)
        | _, _ => None
        end
      else if is_tag "EXT" t then
        if is_tag "B" k then
          match rest with
          | [a; b; c; d] => match opt_bytes a, opt_bytes b, opt_bytes c, opt_bytes d with
                            | Some w, Some x, Some y, Some z => Some (CExtB w x y z)
                            | _, _, _, _ => None
                            end
          | _ => None
          end
        else if is_tag "J" k then
          match rest with
          | [a] => match opt_bytes a with Some w => Some (CExtJ w) | None => None end
          | _ => None
          end
        else None
      else None
  | _ => None
  end.

Definition print_ext (o : option span_ctx) : list tok :=
  match o with
  | None => [tag "INVALID"; TZ 1]
  | Some c => [tag "OK"; TB (c_tid c); TB (c_sid c); TZ (Z.of_N (b2n (c_flags c))); tbool (c_remote c);
               TB (to_header (c_ts c))]
  end.

Fixpoint print_kvs (c : carrier) : list tok :=
  match c with
  | [] => []
  | (k, v) :: c' => TB k :: TB v :: print_kvs c'
  end.
Definition print_carrier (c : carrier) : list tok :=
  match c with [] => [tag "NOHDR"] | _ => tag "H" :: print_kvs c end.

(* the extraction part of an observation (anything after it is ignored) *)
Definition parse_ext (l : list tok) : option (option xobs * bool) :=
  match l with
  | TT t :: TZ same :: _ => if bytes_eqb t (bs "INVALID") then Some (None, Z.eqb same 1) else None
  | TT t :: TB tid :: TB sid :: TZ f :: TZ r :: TB h :: _ =>
      if bytes_eqb t (bs "OK") then Some (Some (mk_xobs tid sid (n2b (Z.to_N f)) (Z.eqb r 1) h), false) else None
  | _ => None
  end.

(* an observation: optional "K n" in front of the extraction part *)
Definition parse_obs (l : list tok) : option (option xobs * bool * Z) :=
  match l with
  | TT t :: TZ n :: rest =>
      if bytes_eqb t (bs "K") then
        match parse_ext rest with Some (o, same) => Some (o, same, n) | None => None end
      else match parse_ext l with Some (o, same) => Some (o, same, 0) | None => None end
  | _ => match parse_ext l with Some (o, same) => Some (o, same, 0) | None => None end
  end.

Definition model_rtd (x : xkind) (c : span_ctx) (d : option span_ctx) (n : nat) : list tok :=
  let dest := make_dest d n in
  let out := roundtrip_into x c dest in
  tag "K" :: tnat (keys_intact n out) :: print_ext (observed_span dest out) ++ tag ";" :: print_carrier (inject_x x c).

(* the extraction parts of several observations in a row: OK takes 6 tokens, INVALID 2 *)
Fixpoint parse_exts (n : nat) (l : list tok) : option (list (option xobs * bool)) :=
  match n with
  | O => Some []
  | S m => match parse_ext l with
           | Some (o, same) =>
               match parse_exts m (skipn (match o with Some _ => 6%nat | None => 2%nat end) l) with
               | Some r => Some ((o, same) :: r)
               | None => None
               end
           | None => None
           end
  end.

Fixpoint print_exts (os : list (option span_ctx)) : list tok :=
  match os with [] => [] | o :: os' => print_ext o ++ print_exts os' end.
Fixpoint print_carriers (cs : list carrier) : list tok :=
  match cs with [] => [] | c :: cs' => tag ";" :: print_carrier c ++ print_carriers cs' end.

Definition model_case (c : case) : list tok :=
  match c with
  | CPinj k cs => print_exts (map (roundtrip k) cs) ++ print_carriers (map (inject k) cs)
  | CRtD x c d n => model_rtd x c d n
  | CRt k c => print_ext (roundtrip k c) ++ tag ";" :: print_carrier (inject k c)
  | CExtB b3 xt xs xf => print_ext (b3_extract b3 xt xs xf)
  | CExtJ h => print_ext (jaeger_extract h)
  end.

Definition spec_case (c : case) (o : option xobs) (same : bool) (intact : Z) : list tok :=
  match c with
  | CRtD x c _ n => spec_roundtrip_into x c n o same intact
  | CPinj _ _ => []
  | CRt k c => spec_roundtrip k c o same
  | CExtB b3 xt xs xf => spec_b3_extract b3 xt xs xf o same
  | CExtJ h => spec_jaeger_extract h o same
  end.

Definition run_model (l : list tok) : list tok :=
  match parse_case l with
  | Some c => model_case c
  | None => bad_case
  end.

Definition run_spec (l obs : list tok) : list tok :=
  match parse_case l with
  | Some (CPinj k cs) => match parse_exts (length cs) obs with
                         | Some os => spec_pinj k cs os
                         | None => fail "obs:unparsable"
                         end
  | Some c => match parse_obs obs with
              | Some (o, same, intact) => spec_case c o same intact
              | None => fail "obs:unparsable"
              end
  | None => bad_case
  end.

(* branch tag of the model on this case, for coverage accounting *)
Definition b3_fields_tag (pre : string) (t s f : bytes) : string :=
  String.append pre
    (if negb (is_valid_hex t) || negb (is_valid_hex s) then "_bad_hex"
     else if Nat.ltb (2 * b3_tid_bytes) (length t) || Nat.ltb (2 * b3_sid_bytes) (length s) then "_too_long"
     else if all_zero (hex_to_binary t b3_tid_bytes) || all_zero (hex_to_binary s b3_sid_bytes) then "_zero_id"
     else if is_sampled (b3_flags_from_hex f) then "_ok_sampled" else "_ok_unsampled").

Definition doc_suffix (d : option (bytes * bytes * bool * string)) : string :=
  match d with Some (_, _, _, ft) => String.append "+doc_" ft | None => "" end.

Definition run_tag (l : list tok) : list tok :=
  match parse_case l with
  | Some (CRt k c) =>
      [tag (String.append "rt_" (String.append (kind_name k)
              (if ctx_valid c then (if is_sampled (c_flags c) then "_valid_sampled" else "_valid_unsampled") else "_invalid")))]
  | Some (CPinj k cs) =>
      [tag (String.append "pinj_" (String.append (kind_name k)
              (if forallb ctx_valid cs then (if Nat.eqb (length cs) 2%nat then "_2threads" else "_3threads") else "_some_invalid")))]
  | Some (CRtD x c d n) =>
      [tag (String.append "rtd_" (String.append (xkind_name x) (String.append
              (if ctx_valid c then "_valid" else "_invalid")
              (match d with
               | None => "_nospan"
               | Some dx => if negb (ctx_valid dx) then "_dst_invalid"
                            else if bytes_eqb (c_tid dx) (c_tid c) && bytes_eqb (c_sid dx) (c_sid c) && Byte.eqb (c_flags dx) (c_flags c)
                                 then (if c_remote dx then "_dst_same_remote" else "_dst_same_local")
                                 else "_dst_other"
               end))))]
  | Some (CExtB b3 xt xs xf) =>
      [tag (String.append
             (if is_nil b3 then
                if is_nil xt && is_nil xs && is_nil xf then "b3_empty" else b3_fields_tag "b3m" xt xs xf
              else
                let fs := split_string b3 dash 3 in
                if Nat.ltb (length fs) 2 then "b3s_one_field"
                else b3_fields_tag (if Nat.eqb (length fs) 2 then "b3s2" else "b3s3") (nth 0 fs []) (nth 1 fs []) (nth 2 fs []))
             (doc_suffix (doc_b3 b3 xt xs xf)))]
  | Some (CExtJ h) =>
      [tag (String.append
             (if is_nil h then "j_empty"
              else match split_string h colon 4 with
                   | [t; s; _; f] =>
                       if negb (is_valid_hex t) || negb (is_valid_hex s) || negb (is_valid_hex f) then "j_bad_hex"
                       else if negb (hex_fits t 16) || negb (hex_fits s 8) || negb (hex_fits f 1) then "j_too_long"
                       else match jaeger_extract h with
                            | Some c => if is_sampled (c_flags c) then "j_ok_sampled" else "j_ok_unsampled"
                            | None => "j_zero_id"
                            end
                   | _ => "j_few_fields"
                   end)
             (doc_suffix (doc_jaeger h)))]
  | None => bad_case
  end.
