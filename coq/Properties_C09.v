(* placeholder until C09/Proofs.v lands: nothing is claimed proved yet *)
From V Require Import C09.Glue.
Theorem c09_placeholder : True. Proof. exact I. Qed.
Print Assumptions c09_placeholder.
