(* C09 - W3C trace-context propagation: the property theorems, stated in full about the
   executable model (coq/C09/Model.v over coq/C14/Model.v) and the positional grammar of
   coq/C09/Spec.v.  Proofs are in coq/C09/Proofs*.v; nothing here but statements. *)
From V Require Import C09.Glue C09.ProofsHex C09.ProofsSplit C09.ProofsExtract C09.ProofsInject C09.ProofsMeets C09.ProofsTs.

(* --- sentence 1a: injecting any valid span context (16-byte trace id, 8-byte span id, any flags
   byte) writes a traceparent of exactly the level-1 form - 55 bytes, "00-", dashes at 2/35/52,
   32+16+2 LOWER-case hex digits ([shape_ok]) - that decodes to the same ids and flags, and the
   tracestate header iff ToHeader is non-empty.  The flags digits come from the table that
   tools/extract_consts.py reads out of trace_flags.h (Gen.Consts.kFlagsHexTable). *)
Theorem inject_shape : forall c : span_ctx,
  length (c_tid c) = 16 /\ length (c_sid c) = 8 -> ctx_valid c = true ->
  exists tp, inject c = Some (tp, if is_nil (to_header (c_ts c)) then None else Some (to_header (c_ts c))) /\
             shape_ok tp = true /\
             wf_traceparent tp = Some (c_tid c, c_sid c, c_flags c).
Proof. exact ProofsInject.inject_shape. Qed.
Print Assumptions inject_shape.

Theorem inject_tracestate : forall l : tstate,
  (l = [] -> (if is_nil (to_header l) then None else Some (to_header l)) = None) /\
  (l <> [] -> (if is_nil (to_header l) then None else Some (to_header l)) = Some (to_header l)).
Proof. exact ProofsInject.inject_tracestate. Qed.
Print Assumptions inject_tracestate.

(* the digit table of the code is the lower-case one, for all 256 flag bytes *)
Theorem flags_table_lower_case : forall f : byte, flags_hex f = byte_to_lower_hex f.
Proof. exact flags_hex_is_lower_hex. Qed.
Print Assumptions flags_table_lower_case.

(* ... and so are the tables of TraceId/SpanId::ToLowerBase16 (trace_id.h, span_id.h) *)
Theorem id_tables_lower_case : forall l : bytes,
  id_hex kTraceIdHexTable l = to_lower_hex l /\ id_hex kSpanIdHexTable l = to_lower_hex l.
Proof. exact ProofsHex.id_tables_lower_case. Qed.
Print Assumptions id_tables_lower_case.

(* --- sentence 1b: extracting the injected headers yields a remote context with the same trace id,
   span id, flags byte; its trace state is the re-parsed ToHeader rendering ... *)
Theorem inject_extract_roundtrip : forall c : span_ctx,
  length (c_tid c) = 16 /\ length (c_sid c) = 8 -> ctx_valid c = true ->
  exists tp ts, inject c = Some (tp, ts) /\
    extract tp (match ts with Some h => h | None => [] end) =
    Some (mk_ctx (c_tid c) (c_sid c) (c_flags c) true (from_header (to_header (c_ts c)))).
Proof. exact ProofsInject.inject_extract_roundtrip. Qed.
Print Assumptions inject_extract_roundtrip.

(* ... which is the same trace state whenever C14's header round trip holds for it *)
Theorem inject_extract_roundtrip_ts : forall c : span_ctx,
  length (c_tid c) = 16 /\ length (c_sid c) = 8 -> ctx_valid c = true ->
  from_header (to_header (c_ts c)) = c_ts c ->
  exists tp ts, inject c = Some (tp, ts) /\
    extract tp (match ts with Some h => h | None => [] end) =
    Some (mk_ctx (c_tid c) (c_sid c) (c_flags c) true (c_ts c)).
Proof. exact ProofsInject.inject_extract_roundtrip_ts. Qed.
Print Assumptions inject_extract_roundtrip_ts.

(* --- sentence 2: for EVERY pair of byte strings the split-based parser of the code decides exactly
   the positional W3C grammar (after trimming white space) and decodes the same fields:
   soundness and completeness in one equation *)
Theorem extract_eq_spec : forall tp_raw ts_raw : bytes, extract tp_raw ts_raw = spec_extract tp_raw ts_raw.
Proof. exact ProofsExtract.extract_eq_spec. Qed.
Print Assumptions extract_eq_spec.

Theorem extract_sound : forall (tp_raw ts_raw : bytes) (c : span_ctx), extract tp_raw ts_raw = Some c ->
  exists t s f, wf_traceparent (trim_ws tp_raw) = Some (t, s, f) /\ c = mk_ctx t s f true (from_header ts_raw).
Proof. exact ProofsExtract.extract_sound. Qed.
Print Assumptions extract_sound.

Theorem extract_complete : forall (tp_raw ts_raw t s : bytes) (f : byte),
  wf_traceparent (trim_ws tp_raw) = Some (t, s, f) ->
  extract tp_raw ts_raw = Some (mk_ctx t s f true (from_header ts_raw)).
Proof. exact ProofsExtract.extract_complete. Qed.
Print Assumptions extract_complete.

(* --- sentence 3: in every other case nothing is installed and the caller's context is returned;
   whatever is installed is valid and remote with 16/8-byte ids; an invalid context is never injected *)
Theorem extract_invalid_is_none : forall tp_raw ts_raw : bytes,
  wf_traceparent (trim_ws tp_raw) = None -> extract tp_raw ts_raw = None.
Proof. exact ProofsExtract.extract_invalid_is_none. Qed.
Print Assumptions extract_invalid_is_none.

Theorem extract_invalid_is_identity :
  forall (Ctx : Type) (set_span : Ctx -> span_ctx -> Ctx) (caller : Ctx) (tp_raw ts_raw : bytes),
  wf_traceparent (trim_ws tp_raw) = None -> extract_into set_span caller tp_raw ts_raw = caller.
Proof. exact ProofsInject.extract_invalid_is_identity. Qed.
Print Assumptions extract_invalid_is_identity.

Theorem invalid_never_installed :
  forall (Ctx : Type) (set_span : Ctx -> span_ctx -> Ctx) (caller : Ctx) (tp_raw ts_raw : bytes),
  extract_into set_span caller tp_raw ts_raw = caller \/
  exists c, extract_into set_span caller tp_raw ts_raw = set_span caller c /\
            ctx_valid c = true /\ c_remote c = true /\ (length (c_tid c) = 16 /\ length (c_sid c) = 8).
Proof. exact ProofsInject.invalid_never_installed. Qed.
Print Assumptions invalid_never_installed.

Theorem extract_installs_only_valid : forall (tp_raw ts_raw : bytes) (c : span_ctx),
  extract tp_raw ts_raw = Some c ->
  ctx_valid c = true /\ c_remote c = true /\ length (c_tid c) = 16 /\ length (c_sid c) = 8 /\
  c_ts c = from_header ts_raw.
Proof. exact ProofsExtract.extract_installs_only_valid. Qed.
Print Assumptions extract_installs_only_valid.

Theorem invalid_never_injected : forall c : span_ctx, ctx_valid c = false -> inject c = None.
Proof. exact ProofsInject.invalid_never_injected. Qed.
Print Assumptions invalid_never_injected.

Theorem invalid_never_injected_into : forall (car : list (bytes * bytes)) (c : span_ctx),
  ctx_valid c = false -> inject_into car c = car.
Proof. exact ProofsInject.invalid_never_injected_into. Qed.
Print Assumptions invalid_never_injected_into.

(* --- hex facts and index safety of the model's arithmetic *)
Theorem hex_roundtrip : forall (b : bytes) (n : nat), length b = n -> hex_to_binary (to_lower_hex b) n = b.
Proof. exact hex_to_binary_to_lower_hex. Qed.
Print Assumptions hex_roundtrip.

Theorem hex_table_is_model : forall b : byte, nth (N.to_nat (b2n b)) kHexDigits 0%Z = hexint b.
Proof. exact kHexDigits_is_hexint. Qed.
Print Assumptions hex_table_is_model.

Theorem hex_to_binary_index_safe : forall (s : bytes) (n : nat), length (hex_to_binary s n) = n.
Proof. exact ProofsHex.hex_to_binary_index_safe. Qed.
Print Assumptions hex_to_binary_index_safe.

Theorem split_index_safe : forall (s : bytes) (n : nat),
  length (split_string s dash n) <= n /\
  (0 < n -> 0 < length (split_string s dash n)) /\
  Forall (fun f => forallb (fun b => negb (Byte.eqb b dash)) f = true /\ length f <= length s) (split_string s dash n).
Proof. exact ProofsSplit.split_index_safe. Qed.
Print Assumptions split_index_safe.

(* --- the model meets every SPEC clause the runner evaluates on the implementation's observations *)
Theorem inject_meets_spec : forall c : span_ctx,
  length (c_tid c) = 16 /\ length (c_sid c) = 8 -> spec_inject_ok c (inject c) = [].
Proof. exact ProofsMeets.inject_meets_spec. Qed.
Print Assumptions inject_meets_spec.

Theorem extract_meets_spec : forall tp ts : bytes, spec_extract_ok tp ts (extract tp ts) true = [].
Proof. exact ProofsMeets.extract_meets_spec. Qed.
Print Assumptions extract_meets_spec.

Theorem roundtrip_meets_spec : forall c : span_ctx,
  length (c_tid c) = 16 /\ length (c_sid c) = 8 -> from_header (to_header (c_ts c)) = c_ts c ->
  spec_roundtrip_ok c (let car := inject_into [] c in
                       extract (carrier_get "traceparent" car) (carrier_get "tracestate" car)) true = [].
Proof. exact ProofsMeets.roundtrip_meets_spec. Qed.
Print Assumptions roundtrip_meets_spec.

(* through the wire format, for every case line that parses; parametric in the C14 fact that a
   parsed trace state survives ToHeader/FromHeader *)
Theorem model_meets_spec_param :
  (forall h : bytes, from_header (to_header (from_header h)) = from_header h) ->
  forall l : list tok, parse_case l <> None -> run_spec l (run_model l) = [].
Proof. exact ProofsMeets.model_meets_spec_param. Qed.
Print Assumptions model_meets_spec_param.

Theorem model_meets_spec_inj : forall (l : list tok) (c : span_ctx),
  parse_case l = Some (CInj c) -> run_spec l (run_model l) = [].
Proof. exact ProofsMeets.model_meets_spec_inj. Qed.
Print Assumptions model_meets_spec_inj.

(* --- closed with C14's theorems (coq/C14/Proofs.v: header_roundtrip, from_header_wf): for every
   valid context whose trace state is a valid one (every key passes IsValidKey, every value
   IsValidValue, at most kMaxKeyValuePairs = 32 members) the round trip returns the SAME trace state *)
Theorem inject_extract_roundtrip_full : forall c : span_ctx,
  length (c_tid c) = 16 /\ length (c_sid c) = 8 -> ctx_valid c = true ->
  Forall (fun e : entry => is_valid_key (fst e) = true /\ is_valid_value (snd e) = true) (c_ts c) /\
    length (c_ts c) <= kMaxKeyValuePairs ->
  exists tp ts, inject c = Some (tp, ts) /\
    extract tp (match ts with Some h => h | None => [] end) =
    Some (mk_ctx (c_tid c) (c_sid c) (c_flags c) true (c_ts c)).
Proof. exact ProofsTs.inject_extract_roundtrip_full. Qed.
Print Assumptions inject_extract_roundtrip_full.

Theorem roundtrip_meets_spec_full : forall c : span_ctx,
  length (c_tid c) = 16 /\ length (c_sid c) = 8 ->
  Forall (fun e : entry => is_valid_key (fst e) = true /\ is_valid_value (snd e) = true) (c_ts c) /\
    length (c_ts c) <= kMaxKeyValuePairs ->
  spec_roundtrip_ok c (let car := inject_into [] c in
                       extract (carrier_get "traceparent" car) (carrier_get "tracestate" car)) true = [].
Proof. exact ProofsTs.roundtrip_meets_spec_full. Qed.
Print Assumptions roundtrip_meets_spec_full.

(* the central theorem, unconditional: on every case line that parses (INJ, EXT and RT), the
   extracted SPEC checker reports nothing about the model's observation *)
Theorem model_meets_spec : forall l : list tok, parse_case l <> None -> run_spec l (run_model l) = [].
Proof. exact ProofsTs.model_meets_spec. Qed.
Print Assumptions model_meets_spec.
