(* C06 - counter measurements are conserved across readers, temporalities and threads.
   Statements about the model coq/C06/Model.v; proofs in coq/C06/Proofs*.v.

   Storage level (one SyncMetricStorage + TemporalMetricStorage = one stream): K is the type of attribute sets with a
   correct equality test, [mono] says whether the instrument is monotonic, n is the number of registered readers,
   [temps r] the temporality of reader r.  A history [hr] is ANY sequence (newest first) of the storage's atomic
   operations SAdd k v (one Record* under attribute_hashmap_lock_) and SCol r ts (the swap + buildMetrics of a Collect by
   reader r at time ts): every interleaving of recorder and collector threads is such a sequence.  [hist_wf] only asks
   that collecting readers are registered (r < n).  [out_at hr r ts] is the MetricData a Collect by r returns after hr,
   [outs hr] everything the callbacks were given during hr, [adds_all hr] / [adds_since r hr] the measurements of the
   whole history / since r's latest collection; [pointv o k] is the value o carries for attribute set k (0 if none),
   [sumv k l] the sum of the measurements of k in l.  Timestamps are arbitrary integers supplied with each collection
   (a clock oracle); the theorems relate them by equality only. *)
From V Require Import C06.Model C06.Spec C06.Glue C06.ProofsTable C06.ProofsStorage C06.ProofsReaders C06.ProofsWorld
     C06.ProofsSpec C06.ProofsMeets C06.ProofsFinal C06.Lts C06.ProofsLts C06.ProofsLtsBracket C06.ProofsLtsCons C06.ProofsLtsEx.
Local Open Scope Z_scope.

(* Sum Merge is associative and commutative with the fresh aggregation as unit ... *)
Theorem sum_merge_assoc_comm_unit : forall a b c,
  sum_merge a (sum_merge b c) = sum_merge (sum_merge a b) c /\ sum_merge a b = sum_merge b a /\
  sum_merge a 0 = a /\ sum_merge 0 a = a.
Proof. exact (fun a b c => conj (sum_merge_assoc a b c) (conj (sum_merge_comm a b) (sum_merge_unit a))). Qed.
Print Assumptions sum_merge_assoc_comm_unit.

(* ... and so is the merge of whole attribute tables, up to the order of the series *)
Theorem table_merge_assoc_comm_unit : forall (K : Type) (keqb : K -> K -> bool),
  (forall a b : K, keqb a b = true <-> a = b) ->
  forall (a b c : table K) (k : K),
    hsum K keqb k (tmerge K keqb a (tmerge K keqb b c)) = hsum K keqb k (tmerge K keqb (tmerge K keqb a b) c) /\
    hsum K keqb k (tmerge K keqb a b) = hsum K keqb k (tmerge K keqb b a) /\
    tmerge K keqb a [] = a /\ hsum K keqb k (tmerge K keqb [] a) = hsum K keqb k a.
Proof.
  exact (fun K keqb ok a b c k =>
           conj (tmerge_assoc_equiv K keqb ok a b c k)
                (conj (tmerge_comm_equiv K keqb ok a b k)
                      (conj (proj1 (tmerge_unit K keqb ok a)) (proj2 (tmerge_unit K keqb ok a) k)))).
Qed.
Print Assumptions table_merge_assoc_comm_unit.

(* delta: right after any collection by a delta reader, the points it has received for an attribute set over all its
   collections add up exactly to what was recorded for that set - whatever the other readers did, however Adds and
   Collects were interleaved *)
Theorem delta_conservation : forall (K : Type) (keqb : K -> K -> bool),
  (forall a b : K, keqb a b = true <-> a = b) ->
  forall (mono : bool) (n : nat) (temps : nat -> temporality) (hr : list (sop K)) (r : nat) (ts : Z) (k : K),
    hist_wf K n hr -> (r < n)%nat -> temps r = Delta ->
    recv K keqb r k (outs K keqb mono n temps (SCol r ts :: hr)) = sumv K keqb k (adds_all K mono hr).
Proof. exact delta_conservation. Qed.
Print Assumptions delta_conservation.

(* ... and at any moment: received so far + recorded since the reader's latest collection = recorded so far *)
Theorem delta_conservation_at_any_time : forall (K : Type) (keqb : K -> K -> bool),
  (forall a b : K, keqb a b = true <-> a = b) ->
  forall (mono : bool) (n : nat) (temps : nat -> temporality) (hr : list (sop K)) (r : nat) (k : K),
    hist_wf K n hr -> (r < n)%nat -> temps r = Delta ->
    recv K keqb r k (outs K keqb mono n temps hr) + sumv K keqb k (adds_since K mono r hr) = sumv K keqb k (adds_all K mono hr).
Proof. exact delta_conservation_general. Qed.
Print Assumptions delta_conservation_at_any_time.

(* each measurement falls in exactly one collection interval of a delta reader: the reader's intervals (the measurements
   between its successive collections) and what it has not collected yet partition the list of all measurements, and
   the point it received at each collection is the sum of exactly that interval *)
Theorem each_measurement_in_exactly_one_interval : forall (K : Type) (keqb : K -> K -> bool),
  (forall a b : K, keqb a b = true <-> a = b) ->
  forall (mono : bool) (n : nat) (temps : nat -> temporality) (hr : list (sop K)) (r : nat) (k : K),
    hist_wf K n hr -> (r < n)%nat -> temps r = Delta ->
    delta_points K keqb mono n temps r k hr = map (sumv K keqb k) (intervals K mono r hr) /\
    adds_all K mono hr = adds_since K mono r hr ++ concat (intervals K mono r hr).
Proof. exact each_measurement_in_exactly_one_interval. Qed.
Print Assumptions each_measurement_in_exactly_one_interval.

(* cumulative: every collection reports the running total of everything recorded since SDK start ... *)
Theorem cumulative_is_running_total : forall (K : Type) (keqb : K -> K -> bool),
  (forall a b : K, keqb a b = true <-> a = b) ->
  forall (mono : bool) (n : nat) (temps : nat -> temporality) (hr : list (sop K)) (r : nat) (ts : Z) (k : K),
    hist_wf K n hr -> (r < n)%nat -> temps r = Cumulative ->
    pointv K keqb (out_at K keqb mono n temps hr r ts) k = sumv K keqb k (adds_all K mono hr).
Proof. exact cumulative_point_is_running_total. Qed.
Print Assumptions cumulative_is_running_total.

(* ... in a MetricData that is there as soon as anything was ever recorded *)
Theorem cumulative_reports_once_recorded : forall (K : Type) (keqb : K -> K -> bool),
  (forall a b : K, keqb a b = true <-> a = b) ->
  forall (mono : bool) (n : nat) (temps : nat -> temporality) (hr : list (sop K)) (r : nat) (ts : Z),
    hist_wf K n hr -> (r < n)%nat -> temps r = Cumulative -> adds_all K mono hr <> [] ->
    out_at K keqb mono n temps hr r ts <> None.
Proof. exact cumulative_reports_once_recorded. Qed.
Print Assumptions cumulative_reports_once_recorded.

(* one reader's collection never takes measurements away from another: what reader r is given is the same (same
   temporality, same interval, same value for every attribute set) in any two histories that agree on the measurements
   and on r's own collections - in particular in the history from which all other readers' collections are removed *)
Theorem readers_independent : forall (K : Type) (keqb : K -> K -> bool),
  (forall a b : K, keqb a b = true <-> a = b) ->
  forall (mono : bool) (n : nat) (temps : nat -> temporality) (hr hr' : list (sop K)) (r : nat) (ts : Z),
    hist_wf K n hr -> hist_wf K n hr' -> (r < n)%nat -> own K r hr = own K r hr' ->
    md_equiv K keqb (out_at K keqb mono n temps hr r ts) (out_at K keqb mono n temps hr' r ts).
Proof. exact readers_independent. Qed.
Print Assumptions readers_independent.

Theorem readers_independent_alone : forall (K : Type) (keqb : K -> K -> bool),
  (forall a b : K, keqb a b = true <-> a = b) ->
  forall (mono : bool) (n : nat) (temps : nat -> temporality) (hr : list (sop K)) (r : nat) (ts : Z),
    hist_wf K n hr -> (r < n)%nat ->
    md_equiv K keqb (out_at K keqb mono n temps hr r ts) (out_at K keqb mono n temps (own K r hr) r ts).
Proof. exact readers_independent_alone. Qed.
Print Assumptions readers_independent_alone.

(* a reader's successive delta MetricData cover abutting intervals: each starts where the previous one this reader was
   given ended, the first at SDK start, and ends at the collection time *)
Theorem delta_intervals_abut : forall (K : Type) (keqb : K -> K -> bool),
  (forall a b : K, keqb a b = true <-> a = b) ->
  forall (mono : bool) (n : nat) (temps : nat -> temporality) (hr : list (sop K)) (r : nat) (ts : Z) (md : mdata K),
    hist_wf K n hr -> (r < n)%nat -> temps r = Delta -> out_at K keqb mono n temps hr r ts = Some md ->
    md_start md = last_end K r (outs K keqb mono n temps hr) /\ md_end md = ts.
Proof. exact delta_intervals_abut. Qed.
Print Assumptions delta_intervals_abut.

(* cumulative MetricData always start at SDK start *)
Theorem cumulative_starts_at_sdk_start : forall (K : Type) (keqb : K -> K -> bool),
  (forall a b : K, keqb a b = true <-> a = b) ->
  forall (mono : bool) (n : nat) (temps : nat -> temporality) (hr : list (sop K)) (r : nat) (ts : Z) (md : mdata K),
    hist_wf K n hr -> (r < n)%nat -> temps r = Cumulative -> out_at K keqb mono n temps hr r ts = Some md ->
    md_start md = sdk_start /\ md_end md = ts /\ md_temp md = Cumulative.
Proof. exact cumulative_starts_at_sdk_start. Qed.
Print Assumptions cumulative_starts_at_sdk_start.

(* SDK level.  every_handle_counts, at full strength: forall c ops, case_wf c ops = true -> spec_run c ops (run c ops) = [].
   REFUTED by the faithful model (F13): creating the same counter twice orphans the first handle's storage
   (storage_registry_ is keyed by the instrument name): 10 through handle 0 and 1 through handle 1 are reported as 1 *)
Theorem every_handle_counts_refuted :
  case_wf f13_cfg f13_ops = true /\
  run f13_cfg f13_ops = [(0%nat, [mkSData 0 c1 LongCounter (mkMD Cumulative 0 5 [([], 1)])])] /\
  spec_run f13_cfg f13_ops (run f13_cfg f13_ops) = fail "every_handle_counts:duplicate_instrument".
Proof. exact every_handle_counts_refuted_lemma. Qed.
Print Assumptions every_handle_counts_refuted.

(* every_view_stream_collected, at full strength: the same statement.  REFUTED (F14): of two views matching one
   instrument only the last one's stream is registered; the stream "v1" is never reported *)
Theorem every_view_stream_collected_refuted :
  case_wf f14_cfg f14_ops = true /\
  run f14_cfg f14_ops = [(0%nat, [mkSData 0 (bs "v2") LongCounter (mkMD Cumulative 0 3 [([], 3)])])] /\
  spec_run f14_cfg f14_ops (run f14_cfg f14_ops) = fail "every_view_stream_collected:two_views".
Proof. exact every_view_stream_collected_refuted_lemma. Qed.
Print Assumptions every_view_stream_collected_refuted.

(* the partial versions: in every script in which no instrument is created twice and exactly one view (or the default
   view) applies to every instrument ([case_good]), every handle is backed by exactly one storage, that storage is
   registered for collection, carries the stream name of the view, and its state is the state reached by the handle's own
   measurements and all collections since its creation - to which all storage-level theorems above apply *)
Theorem every_handle_counts_partial : forall (c : config) (ops : list op),
  case_good c ops = true ->
  forall (h m : nat) (k : ikind) (name : bytes),
    nth_error (newsr (rev (timed ops))) h = Some (m, k, name) ->
    nth_error (w_handles (wrun c world0 1 ops)) h = Some (k, [h]) /\
    In (m, name, h) (w_reg (wrun c world0 1 ops)) /\
    nth_error (w_stor (wrun c world0 1 ops)) h =
      Some (mkSD m name (sname c (m, k, name)) k,
            state akey akey_eqb (is_mono k) (nreaders c) (temp_of c) (projh h k (rev (timed ops)))).
Proof. exact good_world. Qed.
Print Assumptions every_handle_counts_partial.

(* model_meets_spec: on every such script the SPEC (coq/C06/Spec.v: per reader, stream and attribute set, the sums of the
   measurements per interval / since SDK start, abutting delta intervals, cumulative start, nothing but the configured
   streams) accepts everything the model's readers are given.  This is also every_view_stream_collected_partial. *)
Theorem model_meets_spec : forall (c : config) (ops : list op),
  case_good c ops = true -> spec_run c ops (run c ops) = [].
Proof. exact model_meets_spec_lemma. Qed.
Print Assumptions model_meets_spec.

Theorem every_view_stream_collected_partial : forall (c : config) (ops : list op),
  case_good c ops = true -> spec_run c ops (run c ops) = [].
Proof. exact model_meets_spec_lemma. Qed.
Print Assumptions every_view_stream_collected_partial.

(* the hypotheses are satisfiable: a script with two readers of different temporality, two meters, a renaming view *)
Theorem good_case_exists : case_good ex_cfg ex_ops = true /\ length (run ex_cfg ex_ops) = 4%nat.
Proof. exact good_case_exists. Qed.
Print Assumptions good_case_exists.

(* ================================================================================================ lock granularity
   coq/C06/Lts.v: the storage as an acceptor over the events the scheduler shim logs - per thread lock()/unlock() of
   attribute_hashmap_lock_ (A), TemporalMetricStorage::lock_ (T), Meter::storage_lock_ (M), calls and returns of Add and
   Collect.  An Add takes effect at the end of its critical section; a Collect is TWO critical sections: under A the live
   map is detached into the collector's local state, under T the detached map is pushed onto every reader's stash and the
   caller's stash is merged and reported; between them recorders (and, if [strict] = false, other collectors) run.
   [lrun strict tr = Some s]: the trace tr (newest event first) is accepted - tr ranges over ALL interleavings of any number
   of recorder threads and one collector thread per reader.  strict = true is the SDK's discipline: a collector holds M
   from before A until after T (Meter::Collect).  What stays outside: data races inside a critical section, weak memory. *)

(* every interleaving, Collects of the storage possibly overlapping: no measurement is lost or duplicated -
   recorded = reported_r + stash_r + detached maps not yet distributed + live, for every reader and attribute set *)
Theorem lock_granularity_conservation : forall (K : Type) (keqb : K -> K -> bool),
  (forall a b : K, keqb a b = true <-> a = b) ->
  forall (mono : bool) (n : nat) (temps : nat -> temporality) (T : nat) (strict : bool)
         (tr : list (nat * ev K)) (s : lstate K) (r : nat) (k : K),
    lrun K keqb mono n temps T strict tr = Some s -> (r < n)%nat ->
    sumv K keqb k (adds_all K mono (lin K tr)) =
    rep K keqb temps k s r + stash K keqb k (l_st K s) r + fsum n (fun q => det K keqb k (l_col K s q)) +
    osum K keqb k (s_cur K (l_st K s)).
Proof. exact (fun K keqb ok mono n temps T strict tr s r k H Hr => C_eq _ _ _ _ _ _ _ (lts_conservation K keqb ok mono n temps T strict tr s H) r k Hr). Qed.
Print Assumptions lock_granularity_conservation.

(* when no collector is between its critical sections, a Collect by r leaves reported_r + live = recorded *)
Theorem lock_granularity_quiescent_collect_exact : forall (K : Type) (keqb : K -> K -> bool),
  (forall a b : K, keqb a b = true <-> a = b) ->
  forall (mono : bool) (n : nat) (temps : nat -> temporality) (T : nat) (strict : bool)
         (tr : list (nat * ev K)) (t r : nat) (s : lstate K) (k : K),
    lrun K keqb mono n temps T strict ((t, ECUnlockT r) :: tr) = Some s -> no_detached K s ->
    rep K keqb temps k s r + osum K keqb k (s_cur K (l_st K s)) = sumv K keqb k (adds_all K mono (lin K tr)).
Proof. exact quiescent_collect_exact. Qed.
Print Assumptions lock_granularity_quiescent_collect_exact.

(* returned <= taken effect <= called, for every interleaving (measurements non-negative) *)
Theorem lock_granularity_returned_done_called : forall (K : Type) (keqb : K -> K -> bool),
  (forall a b : K, keqb a b = true <-> a = b) ->
  forall (mono : bool) (n : nat) (temps : nat -> temporality) (T : nat) (strict : bool)
         (tr : list (nat * ev K)) (s : lstate K) (k : K),
    lrun K keqb mono n temps T strict tr = Some s -> nonneg K (called K mono tr) ->
    sumv K keqb k (returned K mono tr) <= sumv K keqb k (adds_all K mono (lin K tr)) /\
    sumv K keqb k (adds_all K mono (lin K tr)) <= sumv K keqb k (called K mono tr).
Proof. exact returned_done_called. Qed.
Print Assumptions lock_granularity_returned_done_called.

(* under the SDK's discipline every interleaving IS the atomic history [lin tr] (every Add at the end of its critical
   section, every Collect where it detaches the live map): same storage, same MetricData for every callback.  Hence
   delta_conservation, each_measurement_in_exactly_one_interval, cumulative_is_running_total, readers_independent,
   delta_intervals_abut, cumulative_starts_at_sdk_start above hold for every interleaving at lock granularity *)
Theorem lock_granularity_linearizable : forall (K : Type) (keqb : K -> K -> bool) (mono : bool) (n : nat)
         (temps : nat -> temporality) (T : nat) (tr : list (nat * ev K)) (s : lstate K),
    lrun K keqb mono n temps T true tr = Some s -> quiet K s ->
    hist_wf K n (lin K tr) /\ l_st K s = state K keqb mono n temps (lin K tr) /\
    l_outs K s = outs K keqb mono n temps (lin K tr).
Proof. exact strict_linearizable. Qed.
Print Assumptions lock_granularity_linearizable.

(* accepted_trace_meets_spec_sched (per storage): at every return of a Collect by reader r, what the callback was given is
   what the atomic history before this Collect's swap gives; the value C06/SpecSched.v looks at - everything r's callbacks
   were given so far (delta) / the point just given (cumulative) - is exactly the sum of the measurements that took effect
   before the swap, at least what had returned before the Collect was called and at most what had been called when it
   returned.  PARTIAL with respect to SpecSched.spec_sched: proved per storage on the acceptor's events; that the projection
   of the driver's world-level trace onto a storage (coq/C06/Glue.v lts_events, tev_of) preserves these quantities, the
   "one MetricData per stream" clause and the clock bracket of md_end are glue, checked at run time only *)
Theorem accepted_trace_meets_spec_sched_partial : forall (K : Type) (keqb : K -> K -> bool),
  (forall a b : K, keqb a b = true <-> a = b) ->
  forall (mono : bool) (n : nat) (temps : nat -> temporality) (T : nat) (tr : list (nat * ev K)) (t r : nat)
         (o' : option (mdata K)) (s : lstate K) (k : K),
    lrun K keqb mono n temps T true ((t, EColRet r o') :: tr) = Some s -> nonneg K (called K mono tr) ->
    exists (ts : Z) (hr0 : list (sop K)),
      before_last_col K r (lin K tr) = Some (ts, hr0) /\
      md_equiv K keqb (out_at K keqb mono n temps hr0 r ts) o' /\
      (if is_delta (temps r) then got K keqb r k ((t, EColRet r o') :: tr) else pointv K keqb o' k) =
        sumv K keqb k (adds_all K mono hr0) /\
      sumv K keqb k (returned K mono (before_call K r tr)) <= sumv K keqb k (adds_all K mono hr0) /\
      sumv K keqb k (adds_all K mono hr0) <= sumv K keqb k (called K mono tr).
Proof. exact strict_bracket. Qed.
Print Assumptions accepted_trace_meets_spec_sched_partial.

(* ... and its MetricData starts where the previous one computed for r ended (SDK start if none; SDK start for a cumulative
   reader) and ends at the collection time *)
Theorem lock_granularity_intervals : forall (K : Type) (keqb : K -> K -> bool),
  (forall a b : K, keqb a b = true <-> a = b) ->
  forall (mono : bool) (n : nat) (temps : nat -> temporality) (T : nat) (tr : list (nat * ev K)) (t r : nat)
         (md' : mdata K) (s : lstate K),
    lrun K keqb mono n temps T true ((t, EColRet r (Some md')) :: tr) = Some s ->
    exists (ts : Z) (hr0 : list (sop K)),
      before_last_col K r (lin K tr) = Some (ts, hr0) /\ md_end md' = ts /\
      md_start md' = (if is_delta (temps r) then last_end K r (outs K keqb mono n temps hr0) else sdk_start).
Proof. exact strict_intervals. Qed.
Print Assumptions lock_granularity_intervals.

(* non-vacuity: an accepted interleaving in which an Add lands between the two critical sections of a Collect and two
   Collects overlap (nothing is lost; but the cumulative reader is given nothing for a measurement recorded before its
   Collect was called - why the bracket needs the SDK's serialization, under which that interleaving is impossible) *)
Theorem lock_granularity_overlap_example :
  option_map (fun s => (l_outs nat s, s_cur nat (l_st nat s), s_unrep nat (l_st nat s) 1%nat)) (ex_run false ex_overlap) =
    Some ([(1%nat, 11, None); (0%nat, 10, Some (mkMD Delta 0 10 [(7%nat, 3)]))], [(7%nat, 4)], Some [[(7%nat, 3)]]) /\
  ex_run true ex_overlap = None.
Proof. exact (conj ex_overlap_accepted ex_overlap_not_strict). Qed.
Print Assumptions lock_granularity_overlap_example.

(* the SDK's discipline with an Add between the critical sections: accepted, the measurement is in the next interval;
   the traces of the seeded defects C06_c (the Collect in progress reports that Add) and C06_e (the aggregation's lock is
   taken after attribute_hashmap_lock_ was released) are rejected *)
Theorem lock_granularity_defects_rejected :
  option_map (l_outs nat) (ex_run true ex_between) = Some [(0%nat, 10, None); (0%nat, 20, Some (mkMD Delta 0 20 [(7%nat, 4)]))] /\
  ex_run true ex_c06c = None /\ ex_run false ex_c06c = None /\
  ex_run true [(2, EAddCall 7%nat 4); (2, EALock); (2, EAUnlock 7%nat 4); (2, EOther)]%nat = None.
Proof. exact (conj ex_between_accepted (conj (proj1 ex_c06c_rejected) (conj (proj2 ex_c06c_rejected) ex_c06e_rejected))). Qed.
Print Assumptions lock_granularity_defects_rejected.
