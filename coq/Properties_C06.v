(* placeholder until C06/Proofs*.v land: nothing is claimed proved yet *)
From V Require Import C06.Glue.
Theorem c06_placeholder : True. Proof. exact I. Qed.
Print Assumptions c06_placeholder.
