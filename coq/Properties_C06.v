(* C06 - counter measurements are conserved across readers, temporalities and threads.
   Statements about the model coq/C06/Model.v; proofs in coq/C06/Proofs*.v.

   Storage level (one SyncMetricStorage + TemporalMetricStorage = one stream): K is the type of attribute sets with a
   correct equality test, [mono] says whether the instrument is monotonic, n is the number of registered readers,
   [temps r] the temporality of reader r.  A history [hr] is ANY sequence (newest first) of the storage's atomic
   operations SAdd k v (one Record* under attribute_hashmap_lock_) and SCol r ts (the swap + buildMetrics of a Collect by
   reader r at time ts): every interleaving of recorder and collector threads is such a sequence.  [hist_wf] only asks
   that collecting readers are registered (r < n).  [out_at hr r ts] is the MetricData a Collect by r returns after hr,
   [outs hr] everything the callbacks were given during hr, [adds_all hr] / [adds_since r hr] the measurements of the
   whole history / since r's latest collection; [pointv o k] is the value o carries for attribute set k (0 if none),
   [sumv k l] the sum of the measurements of k in l.  Timestamps are arbitrary integers supplied with each collection
   (a clock oracle); the theorems relate them by equality only. *)
From V Require Import C06.Model C06.Spec C06.Glue C06.ProofsTable C06.ProofsStorage C06.ProofsReaders C06.ProofsWorld
     C06.ProofsSpec C06.ProofsMeets C06.ProofsFinal.
Local Open Scope Z_scope.

(* Sum Merge is associative and commutative with the fresh aggregation as unit ... *)
Theorem sum_merge_assoc_comm_unit : forall a b c,
  sum_merge a (sum_merge b c) = sum_merge (sum_merge a b) c /\ sum_merge a b = sum_merge b a /\
  sum_merge a 0 = a /\ sum_merge 0 a = a.
Proof. exact (fun a b c => conj (sum_merge_assoc a b c) (conj (sum_merge_comm a b) (sum_merge_unit a))). Qed.
Print Assumptions sum_merge_assoc_comm_unit.

(* ... and so is the merge of whole attribute tables, up to the order of the series *)
Theorem table_merge_assoc_comm_unit : forall (K : Type) (keqb : K -> K -> bool),
  (forall a b : K, keqb a b = true <-> a = b) ->
  forall (a b c : table K) (k : K),
    hsum K keqb k (tmerge K keqb a (tmerge K keqb b c)) = hsum K keqb k (tmerge K keqb (tmerge K keqb a b) c) /\
    hsum K keqb k (tmerge K keqb a b) = hsum K keqb k (tmerge K keqb b a) /\
    tmerge K keqb a [] = a /\ hsum K keqb k (tmerge K keqb [] a) = hsum K keqb k a.
Proof.
  exact (fun K keqb ok a b c k =>
           conj (tmerge_assoc_equiv K keqb ok a b c k)
                (conj (tmerge_comm_equiv K keqb ok a b k)
                      (conj (proj1 (tmerge_unit K keqb ok a)) (proj2 (tmerge_unit K keqb ok a) k)))).
Qed.
Print Assumptions table_merge_assoc_comm_unit.

(* delta: right after any collection by a delta reader, the points it has received for an attribute set over all its
   collections add up exactly to what was recorded for that set - whatever the other readers did, however Adds and
   Collects were interleaved *)
Theorem delta_conservation : forall (K : Type) (keqb : K -> K -> bool),
  (forall a b : K, keqb a b = true <-> a = b) ->
  forall (mono : bool) (n : nat) (temps : nat -> temporality) (hr : list (sop K)) (r : nat) (ts : Z) (k : K),
    hist_wf K n hr -> (r < n)%nat -> temps r = Delta ->
    recv K keqb r k (outs K keqb mono n temps (SCol r ts :: hr)) = sumv K keqb k (adds_all K mono hr).
Proof. exact delta_conservation. Qed.
Print Assumptions delta_conservation.

(* ... and at any moment: received so far + recorded since the reader's latest collection = recorded so far *)
Theorem delta_conservation_at_any_time : forall (K : Type) (keqb : K -> K -> bool),
  (forall a b : K, keqb a b = true <-> a = b) ->
  forall (mono : bool) (n : nat) (temps : nat -> temporality) (hr : list (sop K)) (r : nat) (k : K),
    hist_wf K n hr -> (r < n)%nat -> temps r = Delta ->
    recv K keqb r k (outs K keqb mono n temps hr) + sumv K keqb k (adds_since K mono r hr) = sumv K keqb k (adds_all K mono hr).
Proof. exact delta_conservation_general. Qed.
Print Assumptions delta_conservation_at_any_time.

(* each measurement falls in exactly one collection interval of a delta reader: the reader's intervals (the measurements
   between its successive collections) and what it has not collected yet partition the list of all measurements, and
   the point it received at each collection is the sum of exactly that interval *)
Theorem each_measurement_in_exactly_one_interval : forall (K : Type) (keqb : K -> K -> bool),
  (forall a b : K, keqb a b = true <-> a = b) ->
  forall (mono : bool) (n : nat) (temps : nat -> temporality) (hr : list (sop K)) (r : nat) (k : K),
    hist_wf K n hr -> (r < n)%nat -> temps r = Delta ->
    delta_points K keqb mono n temps r k hr = map (sumv K keqb k) (intervals K mono r hr) /\
    adds_all K mono hr = adds_since K mono r hr ++ concat (intervals K mono r hr).
Proof. exact each_measurement_in_exactly_one_interval. Qed.
Print Assumptions each_measurement_in_exactly_one_interval.

(* cumulative: every collection reports the running total of everything recorded since SDK start ... *)
Theorem cumulative_is_running_total : forall (K : Type) (keqb : K -> K -> bool),
  (forall a b : K, keqb a b = true <-> a = b) ->
  forall (mono : bool) (n : nat) (temps : nat -> temporality) (hr : list (sop K)) (r : nat) (ts : Z) (k : K),
    hist_wf K n hr -> (r < n)%nat -> temps r = Cumulative ->
    pointv K keqb (out_at K keqb mono n temps hr r ts) k = sumv K keqb k (adds_all K mono hr).
Proof. exact cumulative_point_is_running_total. Qed.
Print Assumptions cumulative_is_running_total.

(* ... in a MetricData that is there as soon as anything was ever recorded *)
Theorem cumulative_reports_once_recorded : forall (K : Type) (keqb : K -> K -> bool),
  (forall a b : K, keqb a b = true <-> a = b) ->
  forall (mono : bool) (n : nat) (temps : nat -> temporality) (hr : list (sop K)) (r : nat) (ts : Z),
    hist_wf K n hr -> (r < n)%nat -> temps r = Cumulative -> adds_all K mono hr <> [] ->
    out_at K keqb mono n temps hr r ts <> None.
Proof. exact cumulative_reports_once_recorded. Qed.
Print Assumptions cumulative_reports_once_recorded.

(* one reader's collection never takes measurements away from another: what reader r is given is the same (same
   temporality, same interval, same value for every attribute set) in any two histories that agree on the measurements
   and on r's own collections - in particular in the history from which all other readers' collections are removed *)
Theorem readers_independent : forall (K : Type) (keqb : K -> K -> bool),
  (forall a b : K, keqb a b = true <-> a = b) ->
  forall (mono : bool) (n : nat) (temps : nat -> temporality) (hr hr' : list (sop K)) (r : nat) (ts : Z),
    hist_wf K n hr -> hist_wf K n hr' -> (r < n)%nat -> own K r hr = own K r hr' ->
    md_equiv K keqb (out_at K keqb mono n temps hr r ts) (out_at K keqb mono n temps hr' r ts).
Proof. exact readers_independent. Qed.
Print Assumptions readers_independent.

Theorem readers_independent_alone : forall (K : Type) (keqb : K -> K -> bool),
  (forall a b : K, keqb a b = true <-> a = b) ->
  forall (mono : bool) (n : nat) (temps : nat -> temporality) (hr : list (sop K)) (r : nat) (ts : Z),
    hist_wf K n hr -> (r < n)%nat ->
    md_equiv K keqb (out_at K keqb mono n temps hr r ts) (out_at K keqb mono n temps (own K r hr) r ts).
Proof. exact readers_independent_alone. Qed.
Print Assumptions readers_independent_alone.

(* a reader's successive delta MetricData cover abutting intervals: each starts where the previous one this reader was
   given ended, the first at SDK start, and ends at the collection time *)
Theorem delta_intervals_abut : forall (K : Type) (keqb : K -> K -> bool),
  (forall a b : K, keqb a b = true <-> a = b) ->
  forall (mono : bool) (n : nat) (temps : nat -> temporality) (hr : list (sop K)) (r : nat) (ts : Z) (md : mdata K),
    hist_wf K n hr -> (r < n)%nat -> temps r = Delta -> out_at K keqb mono n temps hr r ts = Some md ->
    md_start md = last_end K r (outs K keqb mono n temps hr) /\ md_end md = ts.
Proof. exact delta_intervals_abut. Qed.
Print Assumptions delta_intervals_abut.

(* cumulative MetricData always start at SDK start *)
Theorem cumulative_starts_at_sdk_start : forall (K : Type) (keqb : K -> K -> bool),
  (forall a b : K, keqb a b = true <-> a = b) ->
  forall (mono : bool) (n : nat) (temps : nat -> temporality) (hr : list (sop K)) (r : nat) (ts : Z) (md : mdata K),
    hist_wf K n hr -> (r < n)%nat -> temps r = Cumulative -> out_at K keqb mono n temps hr r ts = Some md ->
    md_start md = sdk_start /\ md_end md = ts /\ md_temp md = Cumulative.
Proof. exact cumulative_starts_at_sdk_start. Qed.
Print Assumptions cumulative_starts_at_sdk_start.

(* SDK level.  every_handle_counts, at full strength: forall c ops, case_wf c ops = true -> spec_run c ops (run c ops) = [].
   REFUTED by the faithful model (F13): creating the same counter twice orphans the first handle's storage
   (storage_registry_ is keyed by the instrument name): 10 through handle 0 and 1 through handle 1 are reported as 1 *)
Theorem every_handle_counts_refuted :
  case_wf f13_cfg f13_ops = true /\
  run f13_cfg f13_ops = [(0%nat, [mkSData 0 c1 LongCounter (mkMD Cumulative 0 5 [([], 1)])])] /\
  spec_run f13_cfg f13_ops (run f13_cfg f13_ops) = fail "every_handle_counts:duplicate_instrument".
Proof. exact every_handle_counts_refuted_lemma. Qed.
Print Assumptions every_handle_counts_refuted.

(* every_view_stream_collected, at full strength: the same statement.  REFUTED (F14): of two views matching one
   instrument only the last one's stream is registered; the stream "v1" is never reported *)
Theorem every_view_stream_collected_refuted :
  case_wf f14_cfg f14_ops = true /\
  run f14_cfg f14_ops = [(0%nat, [mkSData 0 (bs "v2") LongCounter (mkMD Cumulative 0 3 [([], 3)])])] /\
  spec_run f14_cfg f14_ops (run f14_cfg f14_ops) = fail "every_view_stream_collected:two_views".
Proof. exact every_view_stream_collected_refuted_lemma. Qed.
Print Assumptions every_view_stream_collected_refuted.

(* the partial versions: in every script in which no instrument is created twice and exactly one view (or the default
   view) applies to every instrument ([case_good]), every handle is backed by exactly one storage, that storage is
   registered for collection, carries the stream name of the view, and its state is the state reached by the handle's own
   measurements and all collections since its creation - to which all storage-level theorems above apply *)
Theorem every_handle_counts_partial : forall (c : config) (ops : list op),
  case_good c ops = true ->
  forall (h m : nat) (k : ikind) (name : bytes),
    nth_error (newsr (rev (timed ops))) h = Some (m, k, name) ->
    nth_error (w_handles (wrun c world0 1 ops)) h = Some (k, [h]) /\
    In (m, name, h) (w_reg (wrun c world0 1 ops)) /\
    nth_error (w_stor (wrun c world0 1 ops)) h =
      Some (mkSD m name (sname c (m, k, name)) k,
            state akey akey_eqb (is_mono k) (nreaders c) (temp_of c) (projh h k (rev (timed ops)))).
Proof. exact good_world. Qed.
Print Assumptions every_handle_counts_partial.

(* model_meets_spec: on every such script the SPEC (coq/C06/Spec.v: per reader, stream and attribute set, the sums of the
   measurements per interval / since SDK start, abutting delta intervals, cumulative start, nothing but the configured
   streams) accepts everything the model's readers are given.  This is also every_view_stream_collected_partial. *)
Theorem model_meets_spec : forall (c : config) (ops : list op),
  case_good c ops = true -> spec_run c ops (run c ops) = [].
Proof. exact model_meets_spec_lemma. Qed.
Print Assumptions model_meets_spec.

Theorem every_view_stream_collected_partial : forall (c : config) (ops : list op),
  case_good c ops = true -> spec_run c ops (run c ops) = [].
Proof. exact model_meets_spec_lemma. Qed.
Print Assumptions every_view_stream_collected_partial.

(* the hypotheses are satisfiable: a script with two readers of different temporality, two meters, a renaming view *)
Theorem good_case_exists : case_good ex_cfg ex_ops = true /\ length (run ex_cfg ex_ops) = 4%nat.
Proof. exact good_case_exists. Qed.
Print Assumptions good_case_exists.
