(* placeholder until C10/Proofs*.v land: nothing is claimed proved yet *)
From V Require Import C10.Glue.
Theorem c10_placeholder : True. Proof. exact I. Qed.
Print Assumptions c10_placeholder.
