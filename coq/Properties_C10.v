(* C10 - Contexts are immutable values and the runtime context is a per-thread stack.
   Every sentence of the property as a theorem about the model (coq/C10/Model.v); proofs in coq/C10/Proofs*.v. *)
From V Require Import C10.Glue C10.ProofsCtx C10.ProofsStack C10.ProofsSim C10.ProofsStep C10.ProofsCheck C10.ProofsProps.
From Coq Require Import Lia.
Local Open Scope nat_scope.

(* "A Context never changes after creation ... every previously obtained context keeps answering GetValue/HasKey
   exactly as before": for every reachable thread world, every further operation sequence, every named context. *)
Theorem context_immutable : forall ops t i key,
  reachable t -> i < length (t_pool t) ->
  let c := nth i (t_pool t) root in
  let t' := fst (run t ops) in
  nth i (t_pool t') root = c /\
  get_value (t_heap t') c key = get_value (t_heap t) c key /\
  has_key (t_heap t') c key = has_key (t_heap t) c key.
Proof. exact context_immutable_run. Qed.
Print Assumptions context_immutable.

(* "SetValue returns a new context in which the new key shadows older bindings ... the most recent binding of a key
   is the one returned" - and every other key answers as the parent does. *)
Theorem latest_binding_wins : forall h c k v k',
  let h' := fst (set_value h c k v) in
  let c' := snd (set_value h c k v) in
  get_value h' c' k = v /\ (k' <> k -> get_value h' c' k' = get_value h c k').
Proof. exact latest_binding_wins_set. Qed.
Print Assumptions latest_binding_wins.

(* SetValues, non-empty batch: the batch (iteration order) shadows the parent *)
Theorem latest_binding_wins_batch : forall h c b k, ctx_ok h c -> b <> [] ->
  get_value (fst (set_values h c b)) (snd (set_values h c b)) k =
  match find (fun p => bytes_eqb (fst p) k) b with Some p => snd p | None => get_value h c k end.
Proof. exact set_values_get. Qed.
Print Assumptions latest_binding_wins_batch.

(* keys are compared by (length, bytes): no prefix matches, NUL bytes and the empty key are ordinary;
   the key-less node of an empty batch matches nothing *)
Theorem key_comparison_exact : forall key n, node_matches key n = true <-> n_key n = Some key.
Proof. exact node_matches_spec. Qed.
Print Assumptions key_comparison_exact.

(* SetValues / Context(iterable) of an EMPTY iterable: every key, the empty key included, answers as the parent
   (finding F20, repaired in /repo 4bc3189; before the repair the empty key was shadowed) *)
Theorem setvalues_empty_batch_keeps_parent : forall h c k,
  get_value (fst (set_values h c [])) (snd (set_values h c [])) k = get_value h c k /\
  has_key (fst (set_values h c [])) (snd (set_values h c [])) k = has_key h c k.
Proof. exact set_values_empty_keeps_parent. Qed.
Print Assumptions setvalues_empty_batch_keeps_parent.

(* "The runtime context of a thread behaves as a stack": the array {size_, capacity_, base_[]} with Push / Resize /
   Pop / Detach as coded is a list, for every operation sequence, across every reallocation. *)
Theorem stack_refines_list : forall ops s,
  stack_wf s ->
  stack_wf (fold_left sop_stack ops s) /\ abs (fold_left sop_stack ops s) = fold_left sop_list ops (abs s).
Proof. exact stack_refines_list_ops. Qed.
Print Assumptions stack_refines_list.

Theorem stack_capacity_doubles : forall s c,
  st_cap (push s c) = if Nat.ltb (st_cap s) (S (st_size s)) then 2 * S (st_size s) else st_cap s.
Proof. exact push_capacity. Qed.
Print Assumptions stack_capacity_doubles.

(* the same for whole programs of the model against the SPEC's machine: in bounds, same list of names, same current *)
Theorem program_stack_refines_list : forall ops,
  let t := fst (run tstate0 ops) in
  let a := srun sstate0 ops in
  st_size (t_stk t) <= st_cap (t_stk t) /\ length (st_base (t_stk t)) = st_cap (t_stk t) /\
  abs (t_stk t) = map (fun i => nth i (t_pool t) root) (s_stack a) /\
  top (t_stk t) = nth (scur a) (t_pool t) root /\
  cur_idx t = Z.of_nat (scur a).
Proof. exact machine_stack_refines_list. Qed.
Print Assumptions program_stack_refines_list.

(* "Attach makes the given context current" *)
Theorem attach_makes_current : forall s c, stack_wf s -> top (push s c) = c.
Proof. exact ProofsProps.attach_makes_current. Qed.
Print Assumptions attach_makes_current.

(* "detaching a token restores the context that was current before the matching Attach" *)
Theorem detach_top_restores : forall s c, stack_wf s ->
  abs (fst (detach (push s c) c)) = abs s /\ snd (detach (push s c) c) = true /\
  top (fst (detach (push s c) c)) = top s.
Proof. exact ProofsProps.detach_top_restores. Qed.
Print Assumptions detach_top_restores.

Theorem balanced_sequence_restores : forall p s, balanced p -> stack_wf s ->
  abs (fold_left sop_stack p s) = abs s /\ top (fold_left sop_stack p s) = top s.
Proof. exact ProofsProps.balanced_sequence_restores. Qed.
Print Assumptions balanced_sequence_restores.

(* "also when tokens are detached out of order, which unwinds everything attached above it";
   "a context attached more than once is matched most-recent-first" ([c] does not occur in [above]) *)
Theorem detach_out_of_order_unwinds_to_most_recent : forall s c above below, stack_wf s ->
  abs s = above ++ c :: below -> ~ In c above ->
  abs (fst (detach s c)) = below /\ snd (detach s c) = true.
Proof. exact ProofsProps.detach_out_of_order_unwinds_to_most_recent. Qed.
Print Assumptions detach_out_of_order_unwinds_to_most_recent.

(* "a foreign token changes nothing" *)
Theorem detach_foreign_noop : forall s c, stack_wf s -> ~ In c (abs s) ->
  fst (detach s c) = s /\ snd (detach s c) = (is_nilb (abs s) && ctx_eqb c root).
Proof. exact ProofsProps.detach_foreign_noop. Qed.
Print Assumptions detach_foreign_noop.

(* "releasing a Scope re-activates the previously active span" *)
Theorem scope_release_reactivates_previous_span : forall t sp p,
  reachable t -> balanced p ->
  let t1 := fst (step t (OScope sp)) in
  let c := nth (length (t_pool t)) (t_pool t1) root in
  nth (length (t_toks t)) (t_toks t1) TDead = TScope c /\
  top (t_stk t1) = c /\ cur_span t1 = sp /\
  let s2 := fold_left sop_stack p (t_stk t1) in
  abs (fst (detach s2 c)) = abs (t_stk t) /\
  top (fst (detach s2 c)) = top (t_stk t) /\
  forall ex, span_of (get_value (ex ++ t_heap t1) (top (fst (detach s2 c))) span_key) = cur_span t.
Proof. exact ProofsProps.scope_release_reactivates_previous_span. Qed.
Print Assumptions scope_release_reactivates_previous_span.

(* "what one thread attaches is never visible to another": under every schedule *)
Theorem threads_isolated : forall sched m t,
  fst (mrun m sched) t = fst (run (m t) (proj t sched)) /\
  map snd (filter (fun p => Nat.eqb (fst p) t) (snd (mrun m sched))) = step_outs (m t) (proj t sched).
Proof. exact ProofsProps.threads_isolated. Qed.
Print Assumptions threads_isolated.

(* the checker that ./check runs on the implementation's observations accepts the model's observation of EVERY
   program that parses (threads included) *)
Theorem model_meets_spec : forall l m ts,
  parse_case l = Some (m, ts) -> run_spec l (run_model l) = [].
Proof. exact model_meets_spec_wire. Qed.
Print Assumptions model_meets_spec.

Theorem model_meets_spec_purity : forall l, is_purity l = true -> run_spec l (run_model l) = [].
Proof. exact model_meets_spec_purity_line. Qed.
Print Assumptions model_meets_spec_purity.

Theorem model_meets_spec_cases : forall m ts, check_case m ts (run_case m ts) = [].
Proof. exact check_case_model. Qed.
Print Assumptions model_meets_spec_cases.
