(* C08 - Metric series are keyed by attribute-set value; filters and limits lose nothing.
   Every theorem is about the executable model coq/C08/Model.v (tied to the C++ by the differential run of ./check C08, in which the
   model replays the iteration orders the implementation used); the cardinality-limit default and the overflow attribute come from
   Gen/Consts.v, regenerated from /repo on every run.  A table is the list of its entries in iteration order; every place where the
   code walks a freshly built unordered_map takes the order as an input, and the theorems hold for every such input. *)
From V Require Import C08.Glue C08.ProofsAttrs C08.ProofsHash C08.ProofsTable C08.ProofsStorage C08.ProofsMeets C08.ProofsWin C08.ProofsSeries.
From Coq Require Import Permutation.
Local Open Scope Z_scope.

(* ---- "the attribute sets, after the view's attribute filter has removed the keys it does not allow ...": the ordered map the
   code builds answers, for EVERY key (a whole byte string: embedded NULs, keys that are prefixes of each other), exactly what the
   measurement says about that key - the value of the last pair with that key if the key is in the allow-list, nothing otherwise *)
Theorem filter_by_full_key : forall f kvs k,
  assoc k (mk_attrs f kvs) = kept f kvs k /\
  (In k (map fst (mk_attrs f kvs)) <-> In k (map fst kvs) /\ match f with FNone => True | FAllow l => In k l end).
Proof. exact (fun f kvs k => conj (mk_attrs_denotes f kvs k) (filter_by_full_key_lemma f kvs k)). Qed.
Print Assumptions filter_by_full_key.

(* ---- "... are equal as key-to-value maps": the code's comparison of two ordered maps decides equality of the maps the two
   measurements denote ([sets_equal], the SPEC: no sorting, no insertion), for all values - a NaN is the same value as a NaN *)
Theorem maps_equal_iff_sets_equal : forall f a b, attrs_eqb (mk_attrs f a) (mk_attrs f b) = sets_equal f a b.
Proof. exact attrs_eqb_iff_sets_equal. Qed.
Print Assumptions maps_equal_iff_sets_equal.

(* ---- "Two measurements on one instrument contribute to the same series exactly when [they are equal sets]": in every table
   state t and for every limit, the second measurement is answered with the entry the first one was answered with if the sets are
   equal; and if it is answered with the same entry then the sets are equal or that entry is the overflow series *)
Theorem same_series_iff_equal_maps : forall L f a b d t,
  (sets_equal f a b = true ->
     attrs_eqb (series_key L (mk_attrs f a) t) (series_key L (mk_attrs f b) (record L (mk_attrs f a) d t)) = true) /\
  (attrs_eqb (series_key L (mk_attrs f a) t) (series_key L (mk_attrs f b) (record L (mk_attrs f a) d t)) = true ->
     sets_equal f a b = true \/ attrs_eqb (series_key L (mk_attrs f a) t) overflow_attrs = true).
Proof. exact same_series_iff_equal_sets. Qed.
Print Assumptions same_series_iff_equal_maps.

(* regression of the repaired F26 / F26b: sets holding a NaN (two different NaN payloads) are one series, for a delta reader and
   on the merge path of a cumulative reader, and the SPEC checker accepts the reports *)
Theorem nan_attribute_value_regression :
  attrs_eqb (mk_attrs FNone nan_kvs) (mk_attrs FNone nan_kvs') = true /\
  run_ops f26_cfg f26_ops [[(nan_key, 2)]; [(nan_key, 2)]] (init_storage f26_cfg) = [CReport [(nan_key, 2)]] /\
  run_ops f26b_cfg f26b_ops [[(nan_key, 1)]; [(nan_key, 1)]; [(nan_key', 2)]; [(nan_key', 3)]] (init_storage f26b_cfg) =
    [CReport [(nan_key, 1)]; CReport [(nan_key', 3)]] /\
  storage_clauses true f26b_cfg f26b_ops [RPoints [(nan_key, 1)]; RPoints [(nan_key', 3)]] = [].
Proof. exact nan_value_regression. Qed.
Print Assumptions nan_attribute_value_regression.

(* ---- and in every report of every history no attribute set is split over two series: the keys of a reported table are pairwise
   different under the map comparison *)
Theorem reported_series_distinct : forall c ops walks t, (1 <= c_limit c)%nat ->
  In (CReport t) (run_ops c ops walks (init_storage c)) -> kdistinct t.
Proof. exact (fun c ops walks t => reported_series_distinct_lemma c ops walks t). Qed.
Print Assumptions reported_series_distinct.

(* ---- and no series appears out of thin air: every attribute set of every report of every history is the overflow set or the
   filtered set of a measurement that was recorded (whose keys are, by filter_by_full_key, exactly its allowed keys) *)
Theorem reported_sets_are_recorded_sets : forall c ops walks t e,
  In (CReport t) (run_ops c ops walks (init_storage c)) -> In e t ->
  fst e = overflow_attrs \/ (exists v, In (ORec0 v) ops /\ fst e = []) \/
  exists kvs v, In (ORec kvs v) ops /\ fst e = mk_attrs (c_filter c) kvs.
Proof. exact reported_sets_recorded_lemma. Qed.
Print Assumptions reported_sets_are_recorded_sets.

(* ---- "the order in which the caller lists the keys, and duplicates resolved last-wins, make no difference" *)
Theorem order_insensitive_last_wins :
  (forall f a b, NoDup (map fst a) -> Permutation a b -> mk_attrs f a = mk_attrs f b) /\
  (forall f l1 x y l2, fst x <> fst y -> mk_attrs f (l1 ++ x :: y :: l2) = mk_attrs f (l1 ++ y :: x :: l2)) /\
  (forall f l1 k v l2 v' l3, mk_attrs f (l1 ++ (k, v) :: l2 ++ (k, v') :: l3) = mk_attrs f (l1 ++ l2 ++ (k, v') :: l3)) /\
  (forall f l1 kv l2, allowed f (fst kv) = false -> mk_attrs f (l1 ++ kv :: l2) = mk_attrs f (l1 ++ l2)) /\
  (forall f a b, (forall k, kept f a k = kept f b k) -> mk_attrs f a = mk_attrs f b).
Proof.
  exact (conj permutation_distinct_keys (conj swap_distinct_keys (conj shadowed_pair_irrelevant
        (conj filtered_pair_irrelevant mk_attrs_ext)))).
Qed.
Print Assumptions order_insensitive_last_wins.

(* ---- "and equal sets always hash equally": for ANY std::hash<std::string> and any std::hash<double> that respects the value
   comparison of doubles (+0.0 and -0.0 alike; every NaN alike - GetHash<double> hands it the quiet NaN), maps that compare equal
   have equal GetHashForAttributeMap values - so operator== of FilteredOrderedAttributeMap (cached hash first) is the map
   comparison - and equal sets of measurements hash equally *)
Theorem equal_maps_equal_hash : forall (h_str : bytes -> Z) (h_dbl : Z -> Z),
  (forall a b, dbl_eqb a b = true -> h_dbl a = h_dbl b) ->
  (forall a b, attrs_eqb a b = true -> hash_attrs h_str h_dbl a = hash_attrs h_str h_dbl b) /\
  (forall a b, key_eqb h_str h_dbl a b = attrs_eqb a b) /\
  (forall f a b, sets_equal f a b = true ->
     hash_attrs h_str h_dbl (mk_attrs f a) = hash_attrs h_str h_dbl (mk_attrs f b)).
Proof.
  exact (fun h_str h_dbl H => conj (equal_maps_equal_hash_lemma h_str h_dbl H)
           (conj (key_eqb_is_attrs_eqb h_str h_dbl H) (equal_sets_equal_hash h_str h_dbl H))).
Qed.
Print Assumptions equal_maps_equal_hash.

(* ---- "the number of series reported stays within the limit": every report of every history, for every configuration
   (limit >= 1, any filter, any collectors of either temporality), every number of cycles, every walk order *)
Theorem series_le_limit_every_cycle : forall c ops walks t, (1 <= c_limit c)%nat ->
  In (CReport t) (run_ops c ops walks (init_storage c)) -> (length t <= c_limit c)%nat.
Proof. exact (fun c ops walks t => series_le_limit_lemma c ops walks t). Qed.
Print Assumptions series_le_limit_every_cycle.

(* ---- "the excess is folded into the single overflow series, so that the total over all reported series still equals everything
   recorded, for delta and cumulative readers alike".  [results_ok c P Q rs ops hist marks] (C08/ProofsStorage.v) walks the history:
   each Collect(i) has a result; a report's total is the sum of the collector's window - the measurements since its previous
   collection for a delta collector, all measurements for a cumulative one - a collection without callback has an empty-sum
   window, and the run ends early only with a rejected walk order or a crash.  Table level: record and the merge step add exactly
   the value handed in, whichever entry (the overflow one included) receives it. *)
Theorem overflow_conserves_total :
  (forall c ops walks, (1 <= c_limit c)%nat ->
     results_ok c (fun _ => True) (run_ops c ops walks (init_storage c)) ops [] (map (fun _ => O) (c_temps c))) /\
  (forall L k d t, total (record L k d t) = total t + d) /\
  (forall L t k d, total (merge_in L t (k, d)) = total t + d).
Proof. exact (conj conservation_lemma (conj record_total merge_in_total)). Qed.
Print Assumptions overflow_conserves_total.

(* ---- the same run satisfies all of it at once: size, distinct keys, totals *)
Theorem every_history_ok : forall c ops walks, (1 <= c_limit c)%nat ->
  results_ok c (P1 (c_limit c)) (run_ops c ops walks (init_storage c)) ops [] (map (fun _ => O) (c_temps c)).
Proof. exact history_ok_all. Qed.
Print Assumptions every_history_ok.

(* ---- a collection always completes: the table operations and the merge are total functions in the model (no null aggregation is
   ever handed out - the repaired F26b), so a Collect ends without callback, with a report, or - only in the differential run -
   with a walk order that is not one of the model's table *)
Theorem collect_completes : forall c ops walks r, In r (run_ops c ops walks (init_storage c)) ->
  r = CNoCb \/ (exists t, r = CReport t) \/ r = CReject.
Proof. exact collect_completes_lemma. Qed.
Print Assumptions collect_completes.

(* ---- inside the individual series: while fewer distinct attribute sets than the limit have occurred on the storage, nothing is
   folded - for every collector, every report r of every history and walk order: the keys of r are pairwise different, every
   measurement of the collector's window has its series, and the series of every key holds exactly the sum of the window's
   measurements with that key ([exact], C08/ProofsSeries.v; [results_win] walks the history like [results_ok], the ghost state being
   the representatives of the distinct sets seen so far, advanced by [add_rep] at every record) *)
Theorem series_exact_below_limit : forall c ops walks,
  results_win c _ (gstep c) (WpE c) (run_ops c ops walks (init_storage c)) ops [] [] (map (fun _ => O) (c_temps c)).
Proof. exact reports_exact_below_limit. Qed.
Print Assumptions series_exact_below_limit.

(* ---- the SPEC checkers that ./check runs on the implementation's observations accept the model's output, all clauses:
   pairs of attribute sets (EQ cases), directly driven hash maps (HM cases), storage histories (ST / MP cases) including the two
   checks that look inside the individual series (every reported set is the set of a measurement of the window or the overflow
   set; with fewer distinct sets than the limit every series holds exactly the sum of its own measurements).  The only hypothesis
   besides limit >= 1 is that the walk orders fed to the model are orders of its tables (always the case in the differential run
   unless the tie is broken). *)
Theorem model_meets_spec :
  (forall f a b, eq_clauses f a b (eq_model f a b) = []) /\
  (forall L f ops walks, (1 <= L)%nat -> ~ In HRReject (run_hops L f ops walks []) ->
     hashmap_clauses L (existsb hop_nan ops) (run_hops L f ops walks []) = []) /\
  (forall c ops walks, (1 <= c_limit c)%nat -> ~ In CReject (run_ops c ops walks (init_storage c)) ->
     storage_clauses true c ops (map robs_of (run_ops c ops walks (init_storage c))) = []).
Proof. exact (conj eq_meets_spec (conj hashmap_meets_spec storage_meets_spec)). Qed.
Print Assumptions model_meets_spec.
