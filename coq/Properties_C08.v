(* placeholder until C08/Proofs*.v land: nothing is claimed proved yet *)
From V Require Import C08.Glue.
Theorem c08_placeholder : True. Proof. exact I. Qed.
Print Assumptions c08_placeholder.
