(* C20 proofs, part 7: string_view.  compare = unsigned lexicographic order (a total order consistent
   with ==), find = least index >= pos, substr = clamped slice or out_of_range, C-string constructor = strlen. *)
From V Require Import C20.Spec.
From Coq Require Import Lia Arith PeanoNat.
Require Import ZifyBool ZifyNat ZifyN.
Local Open Scope N_scope.

(* ---------------------------------------------------------------- bytes *)
Lemma b2n_inj x y : b2n x = b2n y -> x = y.
Proof.
  unfold b2n. intros H. pose proof (Byte.of_to_N x) as A. pose proof (Byte.of_to_N y) as B.
  rewrite H in A. congruence.
Qed.
Lemma byte_eqb_eq x y : Byte.eqb x y = true <-> x = y.
Proof. split; [apply Byte.byte_dec_bl|apply Byte.byte_dec_lb]. Qed.
Lemma byte_eqb_refl x : Byte.eqb x x = true. Proof. now apply byte_eqb_eq. Qed.
Lemma bytes_eqb_eq a b : bytes_eqb a b = true <-> a = b.
Proof.
  revert b. induction a as [|x a IH]; intros [|y b]; cbn; split; try discriminate; auto.
  - intros H. apply andb_prop in H as [H1 H2]. apply byte_eqb_eq in H1. apply IH in H2. congruence.
  - intros H. inversion H; subst. apply andb_true_intro. split; [apply byte_eqb_refl|now apply IH].
Qed.

(* ---------------------------------------------------------------- lexicographic order *)
Lemma lex_eq a b : lex_cmp a b = Eq <-> a = b.
Proof.
  revert b. induction a as [|x a IH]; intros [|y b]; cbn; split; try discriminate; auto.
  - destruct (N.compare_spec (b2n x) (b2n y)) as [E|L|G]; try discriminate.
    intros H. apply IH in H. apply b2n_inj in E. congruence.
  - intros H. inversion H; subst. rewrite N.compare_refl. now apply IH.
Qed.
Lemma lex_antisym a b : lex_cmp b a = CompOpp (lex_cmp a b).
Proof.
  revert b. induction a as [|x a IH]; intros [|y b]; cbn; auto.
  rewrite (N.compare_antisym (b2n x) (b2n y)). destruct (N.compare (b2n x) (b2n y)); cbn; auto.
Qed.
Lemma lex_trans a b c : lex_cmp a b = Lt -> lex_cmp b c = Lt -> lex_cmp a c = Lt.
Proof.
  revert b c. induction a as [|x a IH]; intros [|y b] [|z c]; cbn; try discriminate; auto.
  destruct (N.compare_spec (b2n x) (b2n y)) as [E1|L1|G1]; try discriminate;
  destruct (N.compare_spec (b2n y) (b2n z)) as [E2|L2|G2]; try discriminate; intros H1 H2.
  - rewrite E1, E2, N.compare_refl. eapply IH; eauto.
  - assert (b2n x < b2n z) as L by lia. apply N.compare_lt_iff in L. now rewrite L.
  - assert (b2n x < b2n z) as L by lia. apply N.compare_lt_iff in L. now rewrite L.
  - assert (b2n x < b2n z) as L by lia. apply N.compare_lt_iff in L. now rewrite L.
Qed.
(* a proper prefix sorts first; the first differing byte decides, as an unsigned value *)
Lemma lex_prefix a x s : lex_cmp a (a ++ x :: s) = Lt.
Proof. induction a as [|y a IH]; cbn; auto. now rewrite N.compare_refl. Qed.
Lemma lex_first_diff p x y s t : b2n x < b2n y -> lex_cmp (p ++ x :: s) (p ++ y :: t) = Lt.
Proof.
  intros L. induction p as [|z p IH]; cbn.
  - apply N.compare_lt_iff in L. now rewrite L.
  - now rewrite N.compare_refl.
Qed.

(* ---------------------------------------------------------------- compare mirrors the order *)
Lemma sv_compare_cons x y a b :
  sv_compare (x :: a) (y :: b) =
  if b2n x <? b2n y then (-1)%Z else if b2n y <? b2n x then 1%Z else sv_compare a b.
Proof.
  unfold sv_compare. cbn [length Nat.min memcmp].
  destruct (b2n x <? b2n y); [reflexivity|]. destruct (b2n y <? b2n x); reflexivity.
Qed.
Lemma sv_compare_lex a b : sv_compare a b = cmp_sign (lex_cmp a b).
Proof.
  revert b. induction a as [|x a IH]; intros [|y b]; try reflexivity.
  rewrite sv_compare_cons. cbn [lex_cmp].
  destruct (N.compare_spec (b2n x) (b2n y)) as [E|L|G].
  - rewrite E, N.ltb_irrefl. apply IH.
  - apply N.ltb_lt in L. now rewrite L.
  - assert (b2n x <? b2n y = false) as -> by (apply N.ltb_ge; lia). apply N.ltb_lt in G. now rewrite G.
Qed.

Lemma equal_range_eq a b : length a = length b -> (equal_range a b = true <-> a = b).
Proof.
  revert b. induction a as [|x a IH]; intros [|y b] L; cbn in *; try discriminate; split; auto; try discriminate.
  - intros H. apply andb_prop in H as [H1 H2]. apply byte_eqb_eq in H1. apply IH in H2; [congruence|lia].
  - intros H. inversion H; subst. apply andb_true_intro. split; [apply byte_eqb_refl|apply IH; auto].
Qed.
Lemma sv_eq_iff a b : sv_eq a b = true <-> a = b.
Proof.
  unfold sv_eq. split.
  - intros H. apply andb_prop in H as [H1 H2]. apply Nat.eqb_eq in H1. now apply equal_range_eq.
  - intros ->. rewrite Nat.eqb_refl. now apply equal_range_eq.
Qed.
Lemma sv_eq_bytes_eqb a b : sv_eq a b = bytes_eqb a b.
Proof. apply eq_true_iff_eq. now rewrite sv_eq_iff, bytes_eqb_eq. Qed.

(* compare_total_order: trichotomy, consistency with ==, antisymmetry, transitivity, and <,> *)
Theorem compare_total_order_all :
  (forall a b, sv_compare a b = (-1)%Z \/ sv_compare a b = 0%Z \/ sv_compare a b = 1%Z) /\
  (forall a b, sv_compare a b = 0%Z <-> a = b) /\
  (forall a b, sv_eq a b = true <-> sv_compare a b = 0%Z) /\
  (forall a b, sv_compare b a = (- sv_compare a b)%Z) /\
  (forall a b c, (sv_compare a b < 0)%Z -> (sv_compare b c < 0)%Z -> (sv_compare a c < 0)%Z) /\
  (forall a b c, (sv_compare a b <= 0)%Z -> (sv_compare b c <= 0)%Z -> (sv_compare a c <= 0)%Z) /\
  (forall a b, sv_lt a b = true <-> (sv_compare a b < 0)%Z) /\
  (forall a b, sv_gt a b = true <-> sv_lt b a = true) /\
  (forall a b, sv_compare a b = cmp_sign (lex_cmp a b)).
Proof.
  assert (Z0 : forall a b, sv_compare a b = 0%Z <-> a = b).
  { intros a b. rewrite sv_compare_lex, <- lex_eq. destruct (lex_cmp a b); cbn; split; congruence. }
  assert (AS : forall a b, sv_compare b a = (- sv_compare a b)%Z).
  { intros a b. rewrite !sv_compare_lex, lex_antisym. now destruct (lex_cmp a b). }
  assert (LT : forall a b, (sv_compare a b < 0)%Z <-> lex_cmp a b = Lt).
  { intros a b. rewrite sv_compare_lex. destruct (lex_cmp a b); cbn; split; try congruence; lia. }
  assert (TR : forall a b c, (sv_compare a b < 0)%Z -> (sv_compare b c < 0)%Z -> (sv_compare a c < 0)%Z).
  { intros a b c. rewrite !LT. apply lex_trans. }
  repeat (match goal with |- _ /\ _ => split end).
  - intros a b. rewrite sv_compare_lex. destruct (lex_cmp a b); cbn; auto.
  - apply Z0.
  - intros a b. rewrite sv_eq_iff. symmetry. apply Z0.
  - apply AS.
  - apply TR.
  - intros a b c H1 H2.
    destruct (Z.eq_dec (sv_compare a b) 0) as [E1|N1]; [apply Z0 in E1; subst; auto|].
    destruct (Z.eq_dec (sv_compare b c) 0) as [E2|N2]; [apply Z0 in E2; subst; auto|].
    assert (sv_compare a c < 0)%Z by (apply (TR a b c); lia). lia.
  - intros a b. unfold sv_lt. apply Z.ltb_lt.
  - intros a b. unfold sv_gt, sv_lt. rewrite (AS a b), !Z.ltb_lt. lia.
  - apply sv_compare_lex.
Qed.

(* bytes >= 0x80 sort after ASCII (unsigned comparison), a proper prefix sorts first *)
Example compare_unsigned : sv_compare [x7f] [x80] = (-1)%Z /\ sv_compare [xff] [x00] = 1%Z /\
                           sv_compare [x61] [x61; x00] = (-1)%Z /\ sv_compare [x61; x00] [x61] = 1%Z.
Proof. repeat split; reflexivity. Qed.

(* ---------------------------------------------------------------- find *)
Lemma nth_is_lt s i c : nth_is s i c = true -> (i < length s)%nat.
Proof.
  unfold nth_is. destruct (nth_error s i) eqn:E; [|discriminate]. intros _.
  apply nth_error_Some. congruence.
Qed.
Lemma nth_is_cons_S b s j c : nth_is (b :: s) (S j) c = nth_is s j c. Proof. reflexivity. Qed.
Lemma nth_is_skipn p s j c : nth_is (skipn p s) j c = nth_is s (p + j) c.
Proof.
  revert s. induction p as [|p IH]; intros s; [reflexivity|]. destruct s as [|b s]; cbn [skipn Nat.add].
  - unfold nth_is. now destruct j.
  - rewrite nth_is_cons_S. apply IH.
Qed.

Lemma iof_some c s : forall i r, index_of_from c s i = Some r ->
  exists k, r = (i + k)%nat /\ nth_is s k c = true /\ forall j, (j < k)%nat -> nth_is s j c = false.
Proof.
  induction s as [|b s IH]; intros i r H; cbn [index_of_from] in H; [discriminate|].
  destruct (Byte.eqb b c) eqn:E.
  - inversion H; subst. exists 0%nat. repeat split; [lia|unfold nth_is; cbn; exact E|intros j Hj; lia].
  - destruct (IH (S i) r H) as (k & -> & Hk & Hm). exists (S k). repeat split; [lia|exact Hk|].
    intros [|j] Hj; [unfold nth_is; cbn; exact E|]. rewrite nth_is_cons_S. apply Hm. lia.
Qed.
Lemma iof_none c s : forall i, index_of_from c s i = None -> forall j, nth_is s j c = false.
Proof.
  induction s as [|b s IH]; intros i H j; cbn [index_of_from] in H.
  - unfold nth_is. now destruct j.
  - destruct (Byte.eqb b c) eqn:E; [discriminate|]. destruct j as [|j]; [unfold nth_is; cbn; exact E|].
    rewrite nth_is_cons_S. eapply IH; eauto.
Qed.

(* find_spec: the result is the least index >= pos holding ch; npos exactly when there is none *)
Theorem find_spec_all : forall s ch pos, len s < npos ->
  let r := sv_find s ch pos in
  (r <> npos -> pos <= r < len s /\ nth_is s (N.to_nat r) ch = true /\
                forall j, pos <= N.of_nat j -> N.of_nat j < r -> nth_is s j ch = false) /\
  (r = npos -> forall j, pos <= N.of_nat j -> nth_is s j ch = false).
Proof.
  intros s ch pos Hlen r. unfold r, sv_find, len in *. destruct (pos <? N.of_nat (length s)) eqn:P.
  - apply N.ltb_lt in P. unfold index_of. destruct (index_of_from ch (skipn (N.to_nat pos) s) 0) as [i|] eqn:F.
    + destruct (iof_some _ _ _ _ F) as (k & -> & Hk & Hm). cbn [Nat.add] in *.
      rewrite nth_is_skipn in Hk. pose proof (nth_is_lt _ _ _ Hk) as L.
      split; [|intros E; lia]. intros _. split; [lia|]. split.
      * replace (N.to_nat (pos + N.of_nat k)) with (N.to_nat pos + k)%nat by lia. exact Hk.
      * intros j J1 J2. replace j with (N.to_nat pos + (j - N.to_nat pos))%nat by lia.
        rewrite <- nth_is_skipn. apply Hm. lia.
    + split; [congruence|]. intros _ j J. replace j with (N.to_nat pos + (j - N.to_nat pos))%nat by lia.
      rewrite <- nth_is_skipn. eapply iof_none; eauto.
  - apply N.ltb_ge in P. split; [congruence|]. intros _ j J.
    destruct (nth_is s j ch) eqn:E; auto. apply nth_is_lt in E. lia.
Qed.

Lemma find_okb_model s ch pos : len s < npos -> find_okb s ch pos (sv_find s ch pos) = true.
Proof.
  intros Hlen. destruct (find_spec_all s ch pos Hlen) as [A B]. cbv zeta in A, B. unfold find_okb.
  destruct (sv_find s ch pos =? npos) eqn:E.
  - apply N.eqb_eq in E. specialize (B E). apply forallb_forall. intros j Hj.
    destruct (N.of_nat j <? pos) eqn:L; [apply orb_true_r|]. apply N.ltb_ge in L. now rewrite B.
  - apply N.eqb_neq in E. destruct (A E) as ((A1 & A2) & A3 & A4).
    apply andb_true_intro; split; [apply andb_true_intro; split; [apply andb_true_intro; split|]|].
    + now apply N.leb_le.
    + now apply N.ltb_lt.
    + exact A3.
    + apply forallb_forall. intros j Hj. apply in_seq in Hj.
      destruct (N.of_nat j <? pos) eqn:L; [apply orb_true_r|]. apply N.ltb_ge in L. rewrite A4; auto. lia.
Qed.

Example find_examples : sv_find [x61; x00; x62; x00] x00 0 = 1 /\ sv_find [x61; x00; x62; x00] x00 2 = 3 /\
                        sv_find [x61; x00] x00 2 = npos /\ sv_find [x61] x62 0 = npos /\ sv_find [] x61 0 = npos.
Proof. repeat split; reflexivity. Qed.

(* ---------------------------------------------------------------- substr *)
Lemma firstn_map_nth {A} (d : A) (s : list A) k : (k <= length s)%nat ->
  firstn k s = map (fun i => nth i s d) (seq 0 k).
Proof.
  revert k. induction s as [|b s IH]; intros [|k] H; cbn [firstn length] in *; auto; [lia|].
  cbn [seq map nth]. f_equal. rewrite <- seq_shift, map_map. apply IH. lia.
Qed.
Lemma nth_skipn {A} (d : A) p (s : list A) i : nth i (skipn p s) d = nth (p + i) s d.
Proof.
  revert s. induction p as [|p IH]; intros s; [reflexivity|]. destruct s as [|b s]; cbn [skipn Nat.add nth].
  - now destruct i.
  - apply IH.
Qed.
Lemma firstn_skipn_map {A} (d : A) (s : list A) p k : (p + k <= length s)%nat ->
  firstn k (skipn p s) = map (fun i => nth (p + i) s d) (seq 0 k).
Proof.
  intros H. rewrite (firstn_map_nth d) by (rewrite skipn_length; lia).
  apply map_ext. intros i. apply nth_skipn.
Qed.

Lemma sv_substr_ref s pos n : sv_substr s pos n = ref_substr s pos n.
Proof.
  unfold sv_substr, ref_substr, len. destruct (N.of_nat (length s) <? pos) eqn:P.
  - apply N.ltb_lt in P. assert (pos <=? N.of_nat (length s) = false) as -> by (apply N.leb_gt; lia). reflexivity.
  - apply N.ltb_ge in P. assert (pos <=? N.of_nat (length s) = true) as -> by (apply N.leb_le; lia).
    f_equal. apply firstn_skipn_map. lia.
Qed.

(* substr_spec: out_of_range exactly when pos > size(); otherwise the clamped slice, element by element *)
Theorem substr_spec_all : forall s pos n,
  (sv_substr s pos n = None <-> len s < pos) /\
  (forall t, sv_substr s pos n = Some t ->
     N.of_nat (length t) = N.min n (len s - pos) /\
     forall i, (i < length t)%nat -> nth_error t i = nth_error s (N.to_nat pos + i)).
Proof.
  intros s pos n. unfold sv_substr, len. destruct (N.of_nat (length s) <? pos) eqn:P.
  - apply N.ltb_lt in P. split; [tauto|discriminate].
  - apply N.ltb_ge in P. split; [split; [discriminate|lia]|]. intros t H. inversion H as [Ht]; clear H.
    set (k := N.to_nat (N.min n (N.of_nat (length s) - pos))) in *.
    assert (Hk : (N.to_nat pos + k <= length s)%nat) by lia.
    assert (L : length (firstn k (skipn (N.to_nat pos) s)) = k) by (rewrite firstn_length, skipn_length; lia).
    split; [rewrite L; lia|]. intros i Hi. rewrite L in Hi.
    rewrite (firstn_skipn_map x00) by lia.
    rewrite (nth_error_nth' s x00) by lia.
    erewrite map_nth_error; [reflexivity|]. rewrite nth_error_nth' with (d := 0%nat) by (rewrite seq_length; lia).
    now rewrite seq_nth by lia.
Qed.

Example substr_examples :
  sv_substr [x61; x62; x63] 1 npos = Some [x62; x63] /\ sv_substr [x61; x62; x63] 3 5 = Some [] /\
  sv_substr [x61; x62; x63] 4 0 = None /\ sv_substr [x61; x62; x63] 1 1 = Some [x62] /\ sv_substr [] 0 npos = Some [].
Proof. repeat split; reflexivity. Qed.

(* ---------------------------------------------------------------- the C-string constructor *)
Lemma cstr_prefix s : firstn (length (cstr s)) s = cstr s.
Proof. induction s as [|b s IH]; auto. cbn [cstr]. destruct (Byte.eqb b x00); cbn; [auto|now rewrite IH]. Qed.
Lemma cstr_nonul s : forallb (fun b => negb (Byte.eqb b x00)) (cstr s) = true.
Proof. induction s as [|b s IH]; auto. cbn [cstr]. destruct (Byte.eqb b x00) eqn:E; cbn; [auto|now rewrite E, IH]. Qed.
Lemma cstr_stop s : Nat.eqb (length (cstr s)) (length s) || nth_is s (length (cstr s)) x00 = true.
Proof.
  induction s as [|b s IH]; auto. cbn [cstr]. destruct (Byte.eqb b x00) eqn:E.
  - cbn [length]. unfold nth_is. cbn. rewrite E. reflexivity.
  - cbn [length]. rewrite nth_is_cons_S. exact IH.
Qed.
Lemma cstr_okb_model s : cstr_okb s (cstr s) = true.
Proof.
  unfold cstr_okb. rewrite cstr_prefix, cstr_nonul, cstr_stop.
  assert (bytes_eqb (cstr s) (cstr s) = true) as -> by now apply bytes_eqb_eq. reflexivity.
Qed.
Lemma cstr_index_of s : cstr s = match index_of x00 s with Some i => firstn i s | None => s end.
Proof.
  unfold index_of.
  assert (G : forall i, cstr s = match index_of_from x00 s i with Some r => firstn (r - i) s | None => s end).
  { induction s as [|b s IH]; intros i; cbn [cstr index_of_from]; auto.
    destruct (Byte.eqb b x00) eqn:E.
    - now rewrite Nat.sub_diag.
    - specialize (IH (S i)). destruct (index_of_from x00 s (S i)) as [r|] eqn:F.
      + destruct (iof_some _ _ _ _ F) as (k & -> & _). replace (S i + k - i)%nat with (S k) by lia.
        replace (S i + k - S i)%nat with k in IH by lia. cbn [firstn]. now rewrite IH.
      + now rewrite IH. }
  rewrite (G 0%nat). destruct (index_of_from x00 s 0); auto. now rewrite Nat.sub_0_r.
Qed.
