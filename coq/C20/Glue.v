(* Glue between the token wire format and the C20 model/spec.  Extracted. *)
From V Require Export C20.Spec.
Local Open Scope Z_scope.

Inductive case :=
| CSV (c : svcase)
| CSP (c : spcase)
| CPT (ops : list pop)
| CVR (ops : list vop)
| CFR (ops : list fop)
| CCH (shared : bool) (ops : list cop)
| CCONV (k : nat).

Definition z_nat (z : Z) : option nat := if (0 <=? z) && (z <? 1000000) then Some (Z.to_nat z) else None.
Definition z_N (z : Z) : option N := if (0 <=? z) && (z <=? Z.of_N npos) then Some (Z.to_N z) else None.
Definition z_byte (z : Z) : option byte := if (0 <=? z) && (z <? 256) then Some (n2b (Z.to_N z)) else None.

Definition parse_sv (l : list tok) : option svcase :=
  match l with
  | [a; b; TZ pos; TZ n; TZ pos2; TZ n2; TZ ch] =>
      match (match a with TB x => Some x | _ => None end), (match b with TB x => Some x | _ => None end),
            z_N pos, z_N n, z_N pos2, z_N n2, z_byte ch with
      | Some a, Some b, Some pos, Some n, Some pos2, Some n2, Some ch => Some (mksv a b pos n pos2 n2 ch)
      | _, _, _, _, _, _, _ => None
      end
  | _ => None
  end.

(* SVA buf off1 len1 off2 len2 pos n pos2 n2 ch: both operands are slices of ONE buffer (the views may start at the
   same address, be identical, nested or overlapping); the model and the SPEC only see the byte contents *)
Definition parse_sva (l : list tok) : option svcase :=
  match l with
  | [TB buf; TZ o1; TZ l1; TZ o2; TZ l2; TZ pos; TZ n; TZ pos2; TZ n2; TZ ch] =>
      match z_nat o1, z_nat l1, z_nat o2, z_nat l2, z_N pos, z_N n, z_N pos2, z_N n2, z_byte ch with
      | Some o1, Some l1, Some o2, Some l2, Some pos, Some n, Some pos2, Some n2, Some ch =>
          if Nat.leb (o1 + l1) (length buf) && Nat.leb (o2 + l2) (length buf)
          then Some (mksv (slice buf o1 l1) (slice buf o2 l2) pos n pos2 n2 ch) else None
      | _, _, _, _, _, _, _, _, _ => None
      end
  | _ => None
  end.

Definition parse_sp (l : list tok) : option spcase :=
  match l with
  | [TB buf; TZ off; TZ cnt; TZ idx; TZ v; TZ ext] =>
      match z_nat off, z_nat cnt, z_nat idx, z_byte v, z_nat ext with
      | Some off, Some cnt, Some idx, Some v, Some ext =>
          let c := mksp buf off cnt idx v ext in
          if sp_wf c && (Nat.eqb ext 0 || Nat.eqb ext 4) then Some c else None
      | _, _, _, _, _ => None
      end
  | _ => None
  end.

Definition parse_pop (l : list tok) : option pop :=
  match l with
  | [t; TZ d] =>
      match z_nat d with
      | None => None
      | Some d =>
          if is_tag "unull" t then Some (UNull d) else if is_tag "uan" t then Some (UAn d)
          else if is_tag "urst" t then Some (URst d) else if is_tag "udel" t then Some (UDel d)
          else if is_tag "uval" t then Some (UVal d) else if is_tag "ustd" t then Some (UStd d)
          else if is_tag "snull" t then Some (SNull d) else if is_tag "san" t then Some (SAn d)
          else if is_tag "sdel" t then Some (SDel d) else if is_tag "sval" t then Some (SVal d)
          else None
      end
  | [t; TZ d; TZ x] =>
      match z_nat d with
      | None => None
      | Some d =>
          if is_tag "unew" t then Some (UNew d x) else if is_tag "urstn" t then Some (URstN d x)
          else if is_tag "usetv" t then Some (USetV d x) else if is_tag "snew" t then Some (SNew d x)
          else if is_tag "ssetv" t then Some (SSetV d x) else if is_tag "sfromstd" t then Some (SFromStd d x)
          else match z_nat x with
               | None => None
               | Some s =>
                   if is_tag "umc" t then Some (UMc d s) else if is_tag "uma" t then Some (UMa d s)
                   else if is_tag "urel" t then Some (URel d s) else if is_tag "uadopt" t then Some (UAdopt d s)
                   else if is_tag "uswap" t then Some (USwap d s) else if is_tag "ueq" t then Some (UEq d s)
                   else if is_tag "scc" t then Some (SCc d s) else if is_tag "smc" t then Some (SMc d s)
                   else if is_tag "sca" t then Some (SCa d s) else if is_tag "sma" t then Some (SMa d s)
                   else if is_tag "sswap" t then Some (SSwap d s) else if is_tag "seq" t then Some (SEq d s)
                   else if is_tag "sfromu" t then Some (SFromU d s)
                   else None
               end
      end
  | _ => None
  end.

Definition parse_vop (l : list tok) : option vop :=
  match l with
  | [t; TZ d] =>
      match z_nat d with
      | None => None
      | Some d => if is_tag "vempthrow" t then Some (VEmpThrow d) else if is_tag "vidx" t then Some (VIdx d)
                  else if is_tag "vvis" t then Some (VVis d) else if is_tag "vself" t then Some (VSelf d) else None
      end
  | [t; TZ d; TZ x] =>
      match z_nat d with
      | None => None
      | Some d =>
          if is_tag "vholds" t then (if (0 <=? x) && (x <=? 5) then Some (VHolds d x) else None)
          else if is_tag "vget" t then (if (0 <=? x) && (x <=? 5) then Some (VGet d x) else None)
          else if is_tag "vgetif" t then (if (0 <=? x) && (x <=? 5) then Some (VGetIf d x) else None)
          else match z_nat x with
               | None => None
               | Some s =>
                   if is_tag "vcp" t then Some (VCp d s) else if is_tag "vmv" t then Some (VMv d s)
                   else if is_tag "vswap" t then Some (VSwap d s) else if is_tag "vcc" t then Some (VCc d s)
                   else if is_tag "vmc" t then Some (VMc d s) else if is_tag "vvis2" t then Some (VVis2 d s)
                   else if is_tag "vcmp" t then Some (VCmp d s) else None
               end
      end
  | [t; TZ d; TZ i; x] =>
      match z_nat d, mkval i x with
      | Some d, Some v => if is_tag "vset" t then Some (VSet d v) else if is_tag "vemp" t then Some (VEmp d v) else None
      | _, _ => None
      end
  | _ => None
  end.

Definition parse_fop (l : list tok) : option fop :=
  match l with
  | [t] => if is_tag "bool" t then Some FBool else if is_tag "boolc" t then Some FBoolC
           else if is_tag "drop" t then Some FDrop else None
  | [t; TZ k] => if is_tag "bind" t then option_map FBind (z_nat k)
                 else if is_tag "copy" t then option_map FCopy (z_nat k) else None
  | [t; TZ a; TZ b] => if is_tag "call" t then Some (FCall a b) else if is_tag "ccall" t then Some (FCopyCall a b)
                       else if is_tag "callc" t then Some (FCallC a b) else None
  | _ => None
  end.

Definition parse_cop (l : list tok) : option cop :=
  match l with
  | [t] =>
      if is_tag "push" t then Some CPush else if is_tag "pushaux" t then Some CPushAux
      else if is_tag "append" t then Some CAppend else if is_tag "pop" t then Some CPop
      else if is_tag "pop2" t then Some CPop2 else if is_tag "popr" t then Some CPopR
      else if is_tag "popc" t then Some CPopC else if is_tag "cuttail" t then Some CCutTail
      else if is_tag "split" t then Some CSplit else if is_tag "join" t then Some CJoin
      else if is_tag "swapaux" t then Some CSwapAux else if is_tag "swaptail" t then Some CSwapTail
      else if is_tag "detach" t then Some CDetach else if is_tag "movehead" t then Some CMoveHead
      else if is_tag "selfnext" t then Some CSelfNext else if is_tag "clear" t then Some CClear
      else if is_tag "clearaux" t then Some CClearAux else None
  | _ => None
  end.

Fixpoint parse_all {A} (f : list tok -> option A) (segs : list (list tok)) : option (list A) :=
  match segs with
  | [] => Some []
  | s :: segs' => match f s, parse_all f segs' with Some x, Some r => Some (x :: r) | _, _ => None end
  end.
Definition op_segs (l : list tok) : list (list tok) :=
  filter (fun s => match s with [] => false | _ => true end) (split_toks ";" l).

Definition parse_case (l : list tok) : option case :=
  match l with
  | t :: rest =>
      if is_tag "SV" t then option_map CSV (parse_sv rest)
      else if is_tag "SVA" t then option_map CSV (parse_sva rest)
      else if is_tag "SP" t then option_map CSP (parse_sp rest)
      else if is_tag "PT" t then option_map CPT (parse_all parse_pop (op_segs rest))
      else if is_tag "VR" t then option_map CVR (parse_all parse_vop (op_segs rest))
      else if is_tag "FR" t then option_map CFR (parse_all parse_fop (op_segs rest))
      else if is_tag "CHU" t then option_map (CCH false) (parse_all parse_cop (op_segs rest))
      else if is_tag "CHS" t then option_map (CCH true) (parse_all parse_cop (op_segs rest))
      else if is_tag "CONV" t then
        match rest with
        | [TZ k] => match z_nat k with
                    | Some k => if Nat.ltb k (length conv_table) then Some (CCONV k) else None
                    | None => None
                    end
        | _ => None
        end
      else None
  | [] => None
  end.

(* --- printers of the model's observations *)
Definition sv_obs (c : svcase) : list tok :=
  let a := sv_a c in let b := sv_b c in
  let pos := sv_pos c in let n := sv_n c in
  let bc := cstr b in
  [tag "size"; tN (len a); tag "empty"; tbool (Nat.eqb (length a) 0); tag "it"; TB a; tag "str"; TB a; tag "os"; TB a;
   tag "at"; opt_byte_tok (sv_at a pos);
   tag "cmp"; TZ (sv_compare a b); tag "eq"; tbool (sv_eq a b); tag "ne"; tbool (negb (sv_eq a b));
   tag "eqs"; tbool (sv_eq a b); tag "lt"; tbool (sv_lt a b); tag "gt"; tbool (sv_gt a b);
   tag "find"; tN (sv_find a (sv_ch c) pos);
   tag "sub"; opt_b_tok (sv_substr a pos n);
   tag "cmp3"; opt_z_tok (sv_compare3 a pos n b);
   tag "cmp5"; opt_z_tok (sv_compare5 a pos n b (sv_pos2 c) (sv_n2 c));
   tag "cstr"; TB (cstr a);
   tag "cmpc"; TZ (sv_compare a bc); tag "eqc"; tbool (sv_eq a bc);
   tag "cmpcn"; opt_z_tok (sv_compare3 a pos n (firstn (N.to_nat (N.min (sv_n2 c) (len b))) b));
   tag "cmpc3"; opt_z_tok (sv_compare3 a pos n bc);
   tag "h1"; TZ 1; tag "h2"; (if sv_eq a b then TZ 1 else tag "-");
   tag "std"; TZ 1].

Definition sp_obs (c : spcase) : list tok :=
  let buf := sp_buf c in let off := sp_off c in let cnt := sp_cnt c in
  let e := sp_elems buf off cnt in
  [tag "size"; tnat cnt; tag "empty"; tbool (Nat.eqb cnt 0); tag "doff"; tnat off;
   tag "it"; TB e; tag "fl"; TB e; tag "cp"; TB e; tag "conv"; TB e; tag "asg"; TB e;
   tag "at"; opt_byte_tok (if Nat.ltb (sp_idx c) cnt then Some (sp_get buf off (sp_idx c)) else None);
   tag "vec"; TB (sp_elems buf 0 (length buf));
   tag "arr"; TB (sp_elems (firstn 4 (buf ++ repeat x00 4)) 0 4);
   tag "carr"; TB (sp_elems (firstn 3 (buf ++ repeat x00 3)) 0 3);
   tag "fix"; (if sp_fixed_ok (sp_ext c) cnt then TB e else tag "TERM");
   tag "wr"; TB (if Nat.ltb (sp_idx c) cnt then sp_write buf off (sp_idx c) (sp_val c) else buf);
   tag "std"; TZ 1].

Fixpoint join_segs (segs : list (list tok)) : list tok :=
  match segs with
  | [] => []
  | [s] => s
  | s :: segs' => s ++ tag ";" :: join_segs segs'
  end.
Definition std_trailer : list tok := [tag "std"; TZ 1].

Definition conv_obs (k : nat) : list tok :=
  match nth_error conv_table k with
  | Some (alts, arg) => [tag "n"; TZ (conv_select alts arg); tag "s"; TZ (conv_select_std alts arg)]
  | None => bad_case
  end.

Definition run_model (l : list tok) : list tok :=
  match parse_case l with
  | Some (CSV c) => sv_obs c
  | Some (CSP c) => sp_obs c
  | Some (CPT ops) => join_segs (prun pinit ops ++ [std_trailer])
  | Some (CVR ops) => join_segs (vrun vinit ops ++ [std_trailer])
  | Some (CFR ops) => join_segs (frun finit ops ++ [std_trailer])
  | Some (CCH sh ops) => join_segs (crun sh cinit ops ++ [std_trailer])
  | Some (CCONV k) => conv_obs k
  | None => bad_case
  end.

(* --- branch tags for coverage accounting *)
Fixpoint common_prefix (a b : bytes) : nat :=
  match a, b with
  | x :: a', y :: b' => if Byte.eqb x y then S (common_prefix a' b') else O
  | _, _ => O
  end.
Definition sv_tag (c : svcase) : string :=
  let a := sv_a c in let b := sv_b c in
  let p := common_prefix a b in
  if N.ltb (len a) (sv_pos c) then "sv_oor"
  else if N.eqb (len a) (sv_pos c) then "sv_pos_at_end"
  else if bytes_eqb a b then "sv_equal"
  else if Nat.eqb p (length a) || Nat.eqb p (length b) then "sv_prefix"
  else if N.leb 128 (b2n (nth p a x00)) || N.leb 128 (b2n (nth p b x00)) then "sv_differ_high_byte"
  else if existsb (fun x => Byte.eqb x x00) a then "sv_embedded_nul"
  else "sv_differ".
Definition pop_is_self (op : pop) : bool :=
  match op with
  | UMa d s | USwap d s | SCa d s | SMa d s | SSwap d s => Nat.eqb d s
  | _ => false
  end.
Definition sva_tag (l : list tok) : option string :=
  match l with
  | t :: _ :: TZ o1 :: TZ l1 :: TZ o2 :: TZ l2 :: _ =>
      if is_tag "SVA" t
      then Some (if Z.eqb o1 o2 then (if Z.eqb l1 l2 then "sva_identical"%string
                                      else if Z.eqb l1 0 || Z.eqb l2 0 then "sva_same_start_empty"%string else "sva_same_start"%string)
                 else if (o1 + l1 <=? o2) || (o2 + l2 <=? o1) then "sva_disjoint"%string else "sva_overlap"%string)
      else None
  | _ => None
  end.
Definition run_tag (l : list tok) : list tok :=
  match parse_case l with
  | Some (CSV c) => [tag (match sva_tag l with Some s => s | None => sv_tag c end)]
  | Some (CSP c) => [tag (if Nat.eqb (sp_cnt c) 0 then "sp_empty"
                          else if negb (Nat.eqb (sp_cnt c) (sp_ext c)) then "sp_fixed_mismatch"
                          else if Nat.ltb (sp_idx c) (sp_cnt c) then "sp_index_in" else "sp_index_out")]
  | Some (CPT ops) => [tag (match ops with [] => "pt_empty" | _ => if existsb pop_is_self ops then "pt_self" else "pt" end)]
  | Some (CVR ops) => [tag (match ops with [] => "vr_empty" | _ => "vr" end)]
  | Some (CFR ops) => [tag (match ops with [] => "fr_empty" | _ => if existsb (fun o => match o with FCopy _ => true | _ => false end) ops then "fr_copy" else "fr" end)]
  | Some (CCH sh ops) => [tag (match ops with [] => "ch_empty" | _ => if sh then "chs" else "chu" end)]
  | Some (CCONV k) => [tag "conv"]
  | None => bad_case
  end.

Definition run_spec (l obs : list tok) : list tok :=
  match parse_case l with
  | Some (CSV c) => spec_sv c obs
  | Some (CSP c) => spec_sp c obs
  | Some (CPT ops) => spec_pt ops (split_toks ";" obs)
  | Some (CVR ops) => spec_vr ops (split_toks ";" obs)
  | Some (CFR ops) => spec_fr ops (split_toks ";" obs)
  | Some (CCH sh ops) => spec_ch sh ops (split_toks ";" obs)
  | Some (CCONV k) => spec_conv k obs
  | None => bad_case
  end.
