(* SPEC for C20: what std::string_view, an index-checked slice, std::unique_ptr / std::shared_ptr
   (as an ownership graph with "destroyed when the last owner goes"), a tagged sum and plain
   application are specified to do, written independently of how the nostd headers compute it.
   Everything is bool / list tok valued so that it runs on the implementation's observations. *)
From V Require Export C20.Model.
Local Open Scope N_scope.

(* ---------------------------------------------------------------- observations as labelled fields *)
Fixpoint get_field (lbl : string) (obs : list tok) : option tok :=
  match obs with
  | l :: v :: rest => if is_tag lbl l then Some v else get_field lbl rest
  | _ => None
  end.
Definition field_is (lbl : string) (obs : list tok) (expect : tok) : bool :=
  match get_field lbl obs with Some v => tok_eqb v expect | None => false end.
Definition tagb (t : bytes) : tok := TT t.
Definition failb (clause : string) (feature : bytes) : list tok := [TT (bs clause ++ feature)].
Definition checkb (b : bool) (clause : string) (feature : bytes) : list tok := if b then [] else failb clause feature.

(* ---------------------------------------------------------------- string_view *)

(* lexicographic order on unsigned bytes *)
Fixpoint lex_cmp (a b : bytes) : comparison :=
  match a, b with
  | [], [] => Eq
  | [], _ :: _ => Lt
  | _ :: _, [] => Gt
  | x :: a', y :: b' => match N.compare (b2n x) (b2n y) with Eq => lex_cmp a' b' | c => c end
  end.
Definition cmp_sign (c : comparison) : Z := match c with Lt => -1 | Eq => 0 | Gt => 1 end%Z.

(* the slice [pos, pos + min n (len - pos)) written position by position *)
Definition ref_substr (s : bytes) (pos n : N) : option bytes :=
  if pos <=? len s
  then Some (map (fun i => nth (N.to_nat pos + i) s x00) (seq 0 (N.to_nat (N.min n (len s - pos)))))
  else None.

(* r is the least index >= pos holding ch, or npos when there is none *)
Definition nth_is (s : bytes) (i : nat) (ch : byte) : bool :=
  match nth_error s i with Some b => Byte.eqb b ch | None => false end.
Definition find_okb (s : bytes) (ch : byte) (pos r : N) : bool :=
  if r =? npos
  then forallb (fun i => negb (nth_is s i ch) || (N.of_nat i <? pos)) (seq 0 (length s))
  else (pos <=? r) && (r <? len s) && nth_is s (N.to_nat r) ch &&
       forallb (fun i => negb (nth_is s i ch) || (N.of_nat i <? pos)) (seq 0 (N.to_nat r)).

(* strlen: the longest NUL-free prefix *)
Definition cstr_okb (s r : bytes) : bool :=
  bytes_eqb r (firstn (length r) s) && forallb (fun b => negb (Byte.eqb b x00)) r &&
  (Nat.eqb (length r) (length s) || nth_is s (length r) x00).

Definition opt_z_tok (o : option Z) : tok := match o with Some z => TZ z | None => tag "OOR" end.
Definition opt_b_tok (o : option bytes) : tok := match o with Some b => TB b | None => tag "OOR" end.
Definition opt_byte_tok (o : option byte) : tok := match o with Some b => TZ (Z.of_N (b2n b)) | None => tag "-" end.

Definition ref_compare (a b : bytes) : Z := cmp_sign (lex_cmp a b).
Definition ref_compare_sub (a : bytes) (p1 n1 : N) (b : bytes) (sub2 : option (N * N)) : option Z :=
  match ref_substr a p1 n1 with
  | None => None
  | Some x => match sub2 with
              | None => Some (ref_compare x b)
              | Some (p, n) => match ref_substr b p n with Some y => Some (ref_compare x y) | None => None end
              end
  end.

Record svcase := mksv { sv_a : bytes; sv_b : bytes; sv_pos : N; sv_n : N; sv_pos2 : N; sv_n2 : N; sv_ch : byte }.

Definition spec_sv (c : svcase) (obs : list tok) : list tok :=
  let a := sv_a c in let b := sv_b c in
  check (field_is "size" obs (tN (len a)) && field_is "empty" obs (tbool (Nat.eqb (length a) 0)) && field_is "it" obs (TB a) &&
         field_is "str" obs (TB a) && field_is "os" obs (TB a) &&
         field_is "at" obs (opt_byte_tok (if sv_pos c <? len a then nth_error a (N.to_nat (sv_pos c)) else None)))
        "sv_access:elements" ++
  check (field_is "cmp" obs (TZ (ref_compare a b))) "sv_compare:sign" ++
  check (field_is "eq" obs (tbool (bytes_eqb a b)) && field_is "ne" obs (tbool (negb (bytes_eqb a b))) &&
         field_is "eqs" obs (tbool (bytes_eqb a b))) "sv_eq:value" ++
  check (field_is "lt" obs (tbool (Z.ltb (ref_compare a b) 0)) && field_is "gt" obs (tbool (Z.ltb 0 (ref_compare a b)))) "sv_order:lt_gt" ++
  check (match get_field "find" obs with Some (TZ r) => (0 <=? r)%Z && find_okb a (sv_ch c) (sv_pos c) (Z.to_N r) | _ => false end)
        "sv_find:least_index" ++
  (match ref_substr a (sv_pos c) (sv_n c) with
   | Some t => check (field_is "sub" obs (TB t)) "sv_substr:slice"
   | None => check (field_is "sub" obs (tag "OOR")) "sv_substr:out_of_range"
   end) ++
  check (field_is "cmp3" obs (opt_z_tok (ref_compare_sub a (sv_pos c) (sv_n c) b None)) &&
         field_is "cmp5" obs (opt_z_tok (ref_compare_sub a (sv_pos c) (sv_n c) b (Some (sv_pos2 c, sv_n2 c)))))
        "sv_compare_sub:value" ++
  check (match get_field "cstr" obs with Some (TB r) => cstr_okb a r | _ => false end) "sv_cstr:strlen" ++
  check (match get_field "cstr" obs, get_field "cmpc" obs, get_field "eqc" obs, get_field "cmpcn" obs, get_field "cmpc3" obs with
         | Some (TB _), Some zc, Some ec, Some zn, Some z3 =>
             (* comparisons against a C string see b up to its first NUL *)
             let bc := match index_of x00 b with Some i => firstn i b | None => b end in
             tok_eqb zc (TZ (ref_compare a bc)) && tok_eqb ec (tbool (bytes_eqb a bc)) &&
             tok_eqb z3 (opt_z_tok (ref_compare_sub a (sv_pos c) (sv_n c) bc None)) &&
             tok_eqb zn (opt_z_tok (ref_compare_sub a (sv_pos c) (sv_n c)
                                      (firstn (N.to_nat (N.min (sv_n2 c) (len b))) b) None))
         | _, _, _, _, _ => false
         end) "sv_compare_cstr:value" ++
  check (field_is "h1" obs (TZ 1)) "sv_hash:differs_from_std" ++
  check (if bytes_eqb a b then field_is "h2" obs (TZ 1) else true) "sv_hash:equal_keys_unequal_hash" ++
  check (field_is "std" obs (TZ 1)) "std_equiv:string_view".

(* ---------------------------------------------------------------- span *)

Record spcase := mksp { sp_buf : bytes; sp_off : nat; sp_cnt : nat; sp_idx : nat; sp_val : byte; sp_ext : nat }.
Definition sp_wf (c : spcase) : bool := Nat.leb (sp_off c + sp_cnt c) (length (sp_buf c)).
Definition slice (buf : bytes) (off cnt : nat) : bytes := firstn cnt (skipn off buf).

Definition spec_sp (c : spcase) (obs : list tok) : list tok :=
  let e := slice (sp_buf c) (sp_off c) (sp_cnt c) in
  check (field_is "size" obs (tnat (sp_cnt c)) && field_is "empty" obs (tbool (Nat.eqb (sp_cnt c) 0)) && field_is "doff" obs (tnat (sp_off c)))
        "span_size:value" ++
  check (field_is "it" obs (TB e) && field_is "fl" obs (TB e) && field_is "cp" obs (TB e) && field_is "conv" obs (TB e) && field_is "asg" obs (TB e))
        "span_elements:slice" ++
  check (field_is "at" obs (opt_byte_tok (if Nat.ltb (sp_idx c) (sp_cnt c) then nth_error e (sp_idx c) else None)))
        "span_index:element" ++
  check (field_is "vec" obs (TB (sp_buf c)) && field_is "arr" obs (TB (firstn 4 (sp_buf c ++ repeat x00 4))) && field_is "carr" obs (TB (firstn 3 (sp_buf c ++ repeat x00 3))))
        "span_container:elements" ++
  check (field_is "fix" obs (if Nat.eqb (sp_cnt c) (sp_ext c) then TB e else tag "TERM")) "span_fixed:extent_mismatch" ++
  check (field_is "wr" obs (if Nat.ltb (sp_idx c) (sp_cnt c)
                   then TB (firstn (sp_off c + sp_idx c) (sp_buf c) ++ [sp_val c] ++ skipn (S (sp_off c + sp_idx c)) (sp_buf c))
                   else TB (sp_buf c))) "span_write:through" ++
  check (field_is "std" obs (TZ 1)) "std_equiv:span".

(* ---------------------------------------------------------------- unique_ptr / shared_ptr: ownership graph *)

(* abstract state: who points where (handles 0..9), payload values, ids handed out so far.
   An object is alive exactly as long as some handle (smart or raw) points to it. *)
Record ast := mkast { ah : nat -> hv; aval : nat -> Z; anext : nat }.
Definition ainit : ast := mkast (fun i => if is_r i then Null else Absent) (fun _ => 0%Z) 0.

(* take what s holds (leaving it null) and put it into d *)
Definition transfer (h : nat -> hv) (d s : nat) : nat -> hv := let v := nonabs (h s) in upd (upd h s Null) d v.
Definition aset (a : ast) (h : nat -> hv) : ast := mkast h (aval a) (anext a).

Definition aresult (a : ast) (op : pop) : list tok :=
  match op with
  | UVal d | SVal d => match ah a d with Ptr o => [TZ (aval a o)] | _ => [tag "null"] end
  | UEq d s | SEq d s => let same := match ah a d, ah a s with Ptr x, Ptr y => Nat.eqb x y | Ptr _, _ | _, Ptr _ => false | _, _ => true end in
                         let nul := match ah a d with Ptr _ => false | _ => true end in
                         [tbool same; tbool nul; tbool (negb same); tbool (negb nul)]
  | _ => []
  end.

(* the ownership graph after an operation *)
Definition ahs (h : nat -> hv) (next : nat) (op : pop) : nat -> hv :=
  match op with
  | UNew d _ | URstN d _ | SNew d _ | SFromStd d _ => upd h d (Ptr next)
  | UNull d | UAn d | URst d | SNull d | SAn d => upd h d Null
  | UMc d s | UMa d s | SMc d s | SMa d s | SFromU d s => transfer h d s
  | URel d r => transfer h r d
  | UAdopt d r => transfer h d r
  | USwap d s | SSwap d s => upd (upd h d (h s)) s (h d)
  | UDel d | SDel d => upd h d Absent
  | SCc d s | SCa d s => upd h d (nonabs (h s))
  | USetV _ _ | SSetV _ _ | UVal _ | SVal _ | UEq _ _ | SEq _ _ | UStd _ => h
  end.
Definition aexec (a : ast) (op : pop) : ast :=
  let h := ah a in
  mkast (ahs h (anext a) op)
        (match op with
         | UNew _ v | URstN _ v | SNew _ v | SFromStd _ v => upd (aval a) (anext a) v
         | USetV d v | SSetV d v => match h d with Ptr o => upd (aval a) o v | _ => aval a end
         | _ => aval a
         end)
        (match op with UNew _ _ | URstN _ _ | SNew _ _ | SFromStd _ _ => S (anext a) | _ => anext a end).
Definition astep (a : ast) (op : pop) : ast * list tok :=
  if hvalid (ah a) op then (aexec a op, aresult a op) else (a, [tag "skip"]).
Definition aend (a : ast) : ast := aset a (fun i => if is_r i then Null else Absent).

Definition points (v : hv) (o : nat) : bool := match v with Ptr x => Nat.eqb x o | _ => false end.
Definition owned (h : nat -> hv) (o : nat) : bool := existsb (fun i => points (h i) o) (seq 0 10).
Definition mem (o : nat) (l : list nat) : bool := existsb (Nat.eqb o) l.
Definition same_set (got expect : list nat) : bool :=
  Nat.eqb (length got) (length expect) && forallb (fun o => mem o expect) got && forallb (fun o => mem o got) expect.

Definition tok_nat (t : tok) : option nat := match t with TZ z => if (0 <=? z)%Z then Some (Z.to_nat z) else None | _ => None end.
Fixpoint toks_nats (l : list tok) : option (list nat) :=
  match l with
  | [] => Some []
  | t :: l' => match tok_nat t, toks_nats l' with Some n, Some r => Some (n :: r) | _, _ => None end
  end.

(* one observation segment: result tokens, destroyed ids, live count, handle tokens *)
Definition parse_pseg (seg : list tok) : option (list tok * list nat * tok * list tok) :=
  match split_toks "D" seg with
  | [res; r1] =>
      match split_toks "L" r1 with
      | [ids; r2] =>
          match split_toks "H" r2, toks_nats ids with
          | [[n]; hsx], Some d => Some (res, d, n, hsx)
          | _, _ => None
          end
      | _ => None
      end
  | _ => None
  end.

Definition selfname (n : string) (d s : nat) : bytes := bs n ++ (if Nat.eqb d s then bs "_self" else []).
Definition pop_name (op : pop) : bytes :=
  match op with
  | UNew _ _ => bs "unew" | UNull _ => bs "unull" | UMc _ _ => bs "umc" | UMa d s => selfname "uma" d s | UAn _ => bs "uan"
  | URst _ => bs "urst" | URstN _ _ => bs "urstn" | URel _ _ => bs "urel" | UAdopt _ _ => bs "uadopt"
  | USwap d s => selfname "uswap" d s | UDel _ => bs "udel" | UVal _ => bs "uval" | USetV _ _ => bs "usetv" | UEq _ _ => bs "ueq"
  | UStd _ => bs "ustd" | SNew _ _ => bs "snew" | SNull _ => bs "snull" | SCc _ _ => bs "scc" | SMc _ _ => bs "smc"
  | SCa d s => selfname "sca" d s | SMa d s => selfname "sma" d s | SAn _ => bs "san" | SSwap d s => selfname "sswap" d s
  | SDel _ => bs "sdel" | SVal _ => bs "sval" | SSetV _ _ => bs "ssetv" | SEq _ _ => bs "seq" | SFromU _ _ => bs "sfromu"
  | SFromStd _ _ => bs "sfromstd"
  end.

(* what one step must look like, given the ownership graph before (h) and after (h') *)
Definition spec_pseg (h h' : nat -> hv) (next' : nat) (res : list tok) (name : bytes) (seg : list tok) : list tok :=
  match parse_pseg seg with
  | None => fail "obs:unparsable"
  | Some (r, d, n, hsx) =>
      checkb (toks_eqb r res) "own_result:" name ++
      checkb (toks_eqb hsx (map (fun i => hv_tok (h' i)) (seq 0 10))) "own_handles:" name ++
      checkb (same_set d (filter (fun o => owned h o && negb (owned h' o)) (seq 0 next'))) "own_destroyed:" name ++
      checkb (tok_eqb n (tnat (length (filter (owned h') (seq 0 next'))))) "own_live:" name
  end.

Definition seg_destroyed (seg : list tok) : list nat :=
  match parse_pseg seg with Some (_, d, _, _) => d | None => [] end.

Fixpoint spec_prun (a : ast) (ops : list pop) (segs : list (list tok)) : list tok :=
  match ops, segs with
  | [], [seg] => let a' := aend a in spec_pseg (ah a) (ah a') (anext a') [tag "end"] (bs "end") seg
  | op :: ops', seg :: segs' =>
      let (a', res) := astep a op in
      spec_pseg (ah a) (ah a') (anext a') res (pop_name op) seg ++ spec_prun a' ops' segs'
  | _, _ => fail "obs:segment_count"
  end.

Definition afinal_next (ops : list pop) : nat :=
  anext (fold_left (fun a op => fst (astep a op)) ops ainit).

(* segments = one per op, the teardown segment, then the trailer "std 1" *)
Definition spec_pt (ops : list pop) (segs : list (list tok)) : list tok :=
  let body := removelast segs in
  let trailer := last segs [] in
  spec_prun ainit ops body ++
  check (same_set (flat_map seg_destroyed body) (seq 0 (afinal_next ops))) "own_exactly_once:whole_case" ++
  check (toks_eqb trailer [tag "std"; TZ 1]) "std_equiv:smart_ptr".

(* ---------------------------------------------------------------- variant: a tagged sum *)

Definition vlist := list vval.
Fixpoint lset {A} (l : list A) (i : nat) (v : A) : list A :=
  match l with
  | [] => []
  | x :: l' => match i with O => v :: l' | S i' => x :: lset l' i' v end
  end.
Definition lget (l : vlist) (i : nat) : vval := nth i l VNone.
Definition emptied (v : vval) : vval := match v with VStr _ => VStr [] | VCnt _ => VCnt (-1) | x => x end.

Definition tag_of (v : vval) : string :=
  match v with VMono => "mono" | VBool _ => "bool" | VInt _ => "int" | VStr _ => "str" | VCnt _ => "cnt" | VNone => "BAD" end.
Definition payload (v : vval) : list tok :=
  match v with VMono | VNone => [] | VBool b => [tbool b] | VInt z | VCnt z => [TZ z] | VStr s => [TB s] end.
Definition vrender (v : vval) : list tok := tag (tag_of v) :: payload v.
Definition vcmp (a b : vval) : comparison :=
  match Z.compare (vindex a) (vindex b) with
  | Eq => match a, b with
          | VBool x, VBool y => match x, y with false, true => Lt | true, false => Gt | _, _ => Eq end
          | VInt x, VInt y | VCnt x, VCnt y => Z.compare x y
          | VStr x, VStr y => lex_cmp x y
          | _, _ => Eq
          end
  | c => c
  end.

Definition sresult (l : vlist) (op : vop) : list tok :=
  match op with
  | VIdx d => [TZ (vindex (lget l d)); tbool (match lget l d with VNone => true | _ => false end)]
  | VHolds d i => [tbool (Z.eqb (vindex (lget l d)) i)]
  | VGet d i => if Z.eqb (vindex (lget l d)) i && (0 <=? i)%Z then TZ i :: (match lget l d with VMono => [tag "m"] | v => payload v end) else [tag "BAD"]
  | VGetIf d i => if Z.eqb (vindex (lget l d)) i && (0 <=? i)%Z then TZ i :: (match lget l d with VMono => [tag "m"] | v => payload v end) else [tag "nil"]
  | VVis d => match lget l d with VNone => [tag "BAD"] | v => vrender v end
  | VVis2 d s => match lget l d, lget l s with
                 | VNone, _ | _, VNone => [tag "BAD"]
                 | a, b => vrender a ++ vrender b
                 end
  | VCmp d s => let c := vcmp (lget l d) (lget l s) in
                [tbool (match c with Eq => true | _ => false end); tbool (match c with Eq => false | _ => true end);
                 tbool (match c with Lt => true | _ => false end); tbool (match c with Gt => true | _ => false end);
                 tbool (match c with Gt => false | _ => true end); tbool (match c with Lt => false | _ => true end)]
  | _ => []
  end.
Definition sexec (l : vlist) (op : vop) : vlist :=
  match op with
  | VSet d x | VEmp d x => lset l d x
  | VEmpThrow d => lset l d VNone
  | VCp d s | VCc d s => lset l d (lget l s)
  | VMv d s | VMc d s => lset (lset l d (lget l s)) s (emptied (lget l s))
  | VSwap d s => lset (lset l d (lget l s)) s (lget l d)
  | _ => l
  end.
Definition vstate_toks (l : vlist) : list tok :=
  flat_map (fun v => TZ (vindex v) :: (match v with VMono => [tag "m"] | VNone => [tag "v"] | x => payload x end)) l.
Definition count_cnt (l : vlist) : nat := length (filter is_cnt l).

Definition vop_name (op : vop) : bytes :=
  match op with
  | VSet _ _ => bs "vset" | VEmp _ _ => bs "vemp" | VEmpThrow _ => bs "vempthrow" | VCp d s => bs "vcp" ++ (if Nat.eqb d s then bs "_self" else [])
  | VMv _ _ => bs "vmv" | VSwap d s => bs "vswap" ++ (if Nat.eqb d s then bs "_self" else []) | VCc _ _ => bs "vcc" | VMc _ _ => bs "vmc"
  | VIdx _ => bs "vidx" | VHolds _ _ => bs "vholds" | VGet _ _ => bs "vget" | VGetIf _ _ => bs "vgetif" | VVis _ => bs "vvis"
  | VVis2 _ _ => bs "vvis2" | VCmp _ _ => bs "vcmp" | VSelf _ => bs "vself"
  end.

Definition spec_vseg (l' : vlist) (res : list tok) (name : bytes) (seg : list tok) : list tok :=
  match split_toks "L" seg with
  | [r; rest] =>
      match split_toks "S" rest with
      | [[n]; stx] =>
          checkb (toks_eqb r res) "variant_result:" name ++
          checkb (toks_eqb stx (vstate_toks l')) "variant_state:" name ++
          checkb (tok_eqb n (tnat (count_cnt l'))) "variant_live:" name
      | _ => fail "obs:unparsable"
      end
  | _ => fail "obs:unparsable"
  end.
Fixpoint spec_vrun (l : vlist) (ops : list vop) (segs : list (list tok)) : list tok :=
  match ops, segs with
  | [], [] => []
  | op :: ops', seg :: segs' =>
      if vvalid op
      then let l' := sexec l op in spec_vseg l' (sresult l op) (vop_name op) seg ++ spec_vrun l' ops' segs'
      else spec_vseg l [tag "skip"] (vop_name op) seg ++ spec_vrun l ops' segs'
  | _, _ => fail "obs:segment_count"
  end.
Definition spec_vr (ops : list vop) (segs : list (list tok)) : list tok :=
  spec_vrun [VMono; VMono; VMono] ops (removelast segs) ++
  check (toks_eqb (last segs []) [tag "std"; TZ 1]) "std_equiv:variant".

(* converting construction: std::variant (P0608R3) never picks bool for a non-bool argument and never narrows *)
Definition narrowing (a p : cty) : bool :=
  match a, p with
  | CI32, (CU32 | CDbl | CFlt) | CU32, (CI32 | CDbl | CFlt) | CI64, (CI32 | CU32 | CDbl | CFlt)
  | CDbl, (CI32 | CU32 | CI64 | CFlt) | CFlt, (CI32 | CU32 | CI64) => true
  | _, _ => false
  end.
Definition p0608_keep (arg p : cty) : bool :=
  (match p with CBool => cty_eqb arg CBool | _ => true end) && negb (narrowing arg p).
Definition conv_select_std (alts : list cty) (arg : cty) : Z :=
  match best_alt arg alts 0 (p0608_keep arg) with Some (_, i) => Z.of_nat i | None => (-1)%Z end.
Definition spec_conv (k : nat) (obs : list tok) : list tok :=
  match nth_error conv_table k with
  | None => fail "obs:unparsable"
  | Some (alts, arg) =>
      match get_field "n" obs, get_field "s" obs with
      | Some n, Some s =>
          check (tok_eqb s (TZ (conv_select_std alts arg))) "variant_conv:std_table" ++
          check (tok_eqb n s) (if cty_eqb arg CCStr then "variant_conv:bool_preferred_to_string" else "variant_conv:alternative_selected")
      | _, _ => fail "obs:unparsable"
      end
  end.

(* ---------------------------------------------------------------- function_ref: calling the referenced callable *)

Local Open Scope Z_scope.
Definition call_ref (k : nat) (calls acc a b : Z) : Z * Z * Z (* result, calls', acc' *) :=
  match k with
  | O => (a + b * (calls + 1), calls + 1, acc)
  | S O => (a - 2 * b, calls, acc)
  | _ => ((acc + a) * 3 + b, calls, acc + a)
  end.
(* a copy of a callable reference refers to the callable the source referred to when the copy was made (an empty
   source gives an empty copy); re-binding or destroying the source afterwards does not affect the copy *)
Definition spec_fcall (target : option nat) (calls acc a b : Z) : Z * Z * list tok :=
  match target with
  | None => (calls, acc, [tag "skip"])
  | Some k => if Nat.ltb k 3 then let '(r, c, x) := call_ref k calls acc a b in (c, x, [TZ r])
              else (calls, acc, [tag "null"])
  end.
Definition spec_fbool (target : option nat) : list tok :=
  match target with None => [tag "skip"] | Some k => [tbool (Nat.ltb k 3)] end.
Definition spec_fstep (bound copy : option nat) (calls acc : Z) (op : fop) : option nat * option nat * Z * Z * list tok :=
  match op with
  | FBind k => if Nat.ltb k 5 then (Some k, copy, calls, acc, []) else (bound, copy, calls, acc, [tag "skip"])
  | FCall a b | FCopyCall a b => let '(c, x, res) := spec_fcall bound calls acc a b in (bound, copy, c, x, res)
  | FBool => (bound, copy, calls, acc, spec_fbool bound)
  | FCopy m => match bound with
               | Some k => if Nat.ltb m 3 then (bound, Some k, calls, acc, []) else (bound, copy, calls, acc, [tag "skip"])
               | None => (bound, copy, calls, acc, [tag "skip"])
               end
  | FCallC a b => let '(c, x, res) := spec_fcall copy calls acc a b in (bound, copy, c, x, res)
  | FBoolC => (bound, copy, calls, acc, spec_fbool copy)
  | FDrop => (None, copy, calls, acc, [])
  end.
Fixpoint spec_frun (bound copy : option nat) (calls acc : Z) (ops : list fop) (segs : list (list tok)) : list tok :=
  match ops, segs with
  | [], [] => []
  | op :: ops', seg :: segs' =>
      let '(bound', copy', calls', acc', res) := spec_fstep bound copy calls acc op in
      checkb (toks_eqb seg (res ++ [tag "C"; TZ calls'; TZ acc'])) "function_ref:"
             (match op with FCopy _ | FCallC _ _ | FBoolC | FDrop => bs "copy" | _ => bs "application" end) ++
      spec_frun bound' copy' calls' acc' ops' segs'
  | _, _ => fail "obs:segment_count"
  end.
Definition spec_fr (ops : list fop) (segs : list (list tok)) : list tok :=
  spec_frun None None 0 0 ops (removelast segs) ++
  check (toks_eqb (last segs []) [tag "std"; TZ 1]) "std_equiv:function_ref".

(* ---------------------------------------------------------------- self-referential nodes: two disjoint chains *)

(* What std::unique_ptr / std::shared_ptr do to the two chains (as lists from the root), independent of the order in
   which release / delete / store happen inside the member functions. *)
Definition sroots (hd aux : list nat) (next : nat) (op : cop) : list nat * list nat :=
  match op with
  | CPush => (next :: hd, aux)
  | CPushAux => (hd, next :: aux)
  | CAppend => (hd ++ [next], aux)
  | CPop | CPopR | CPopC => (tl hd, aux)
  | CPop2 => (tl (tl hd), aux)
  | CCutTail => (firstn 1 hd, aux)
  | CSplit => (firstn 1 hd, tl hd)
  | CJoin => (firstn 1 hd ++ aux, [])
  | CSwapAux => (aux, hd)
  | CSwapTail => (firstn 1 hd ++ aux, tl hd)
  | CDetach => (tl hd, firstn 1 hd)
  | CMoveHead => (aux, [])
  | CSelfNext => (hd, aux)
  | CClear => ([], aux)
  | CClearAux => (hd, [])
  end.
Definition creates (op : cop) : bool := match op with CPush | CPushAux | CAppend => true | _ => false end.
Definition svalid (shared : bool) (hd : list nat) (op : cop) : bool :=
  match op with
  | CPush | CPushAux | CAppend | CSwapAux | CMoveHead | CClear | CClearAux => true
  | CPop | CCutTail | CSplit | CJoin | CSwapTail | CSelfNext => Nat.leb 1 (length hd)
  | CPop2 => Nat.leb 2 (length hd)
  | CPopR | CDetach => negb shared && Nat.leb 1 (length hd)
  | CPopC => shared && Nat.leb 1 (length hd)
  end.
Definition cop_name (op : cop) : bytes :=
  match op with
  | CPush => bs "push" | CPushAux => bs "pushaux" | CAppend => bs "append" | CPop => bs "pop" | CPop2 => bs "pop2"
  | CPopR => bs "popr" | CPopC => bs "popc" | CCutTail => bs "cuttail" | CSplit => bs "split" | CJoin => bs "join"
  | CSwapAux => bs "swapaux" | CSwapTail => bs "swaptail" | CDetach => bs "detach" | CMoveHead => bs "movehead"
  | CSelfNext => bs "selfnext" | CClear => bs "clear" | CClearAux => bs "clearaux"
  end.

Definition parse_cseg (seg : list tok) : option (list tok * list nat * tok * list nat * list nat) :=
  match split_toks "D" seg with
  | [res; r1] =>
      match split_toks "L" r1 with
      | [ids; r2] =>
          match split_toks "H" r2 with
          | [[n]; r3] =>
              match split_toks "A" r3 with
              | [h; a] => match toks_nats ids, toks_nats h, toks_nats a with
                          | Some d, Some h, Some a => Some (res, d, n, h, a)
                          | _, _, _ => None
                          end
              | _ => None
              end
          | _ => None
          end
      | _ => None
      end
  | _ => None
  end.
Fixpoint nats_eqb (a b : list nat) : bool :=
  match a, b with
  | [], [] => true
  | x :: a', y :: b' => Nat.eqb x y && nats_eqb a' b'
  | _, _ => false
  end.

(* one step: the chains afterwards, the nodes destroyed (exactly those no longer reachable, front to back), the count *)
Definition spec_cseg (hd aux hd' aux' : list nat) (res : list tok) (name : bytes) (seg : list tok) : list tok :=
  match parse_cseg seg with
  | None => fail "obs:unparsable"
  | Some (r, d, n, h, a) =>
      checkb (toks_eqb r res) "chain_result:" name ++
      checkb (nats_eqb h hd' && nats_eqb a aux') "chain_links:" name ++
      checkb (nats_eqb d (filter (fun o => negb (mem o (hd' ++ aux'))) (hd ++ aux))) "chain_destroyed:" name ++
      checkb (tok_eqb n (tnat (length (hd' ++ aux')))) "chain_live:" name
  end.
Fixpoint spec_crun (shared : bool) (hd aux : list nat) (next : nat) (ops : list cop) (segs : list (list tok)) : list tok :=
  match ops, segs with
  | [], [seg] => spec_cseg hd aux [] [] [tag "end"] (bs "end") seg
  | op :: ops', seg :: segs' =>
      if svalid shared hd op
      then let (hd', aux') := sroots hd aux next op in
           spec_cseg hd aux hd' aux' [] (cop_name op) seg ++
           spec_crun shared hd' aux' (if creates op then S next else next) ops' segs'
      else spec_cseg hd aux hd aux [tag "skip"] (cop_name op) seg ++ spec_crun shared hd aux next ops' segs'
  | _, _ => fail "obs:segment_count"
  end.
Definition seg_cdestroyed (seg : list tok) : list nat :=
  match parse_cseg seg with Some (_, d, _, _, _) => d | None => [] end.
Definition ccreated (ops : list cop) (shared : bool) : nat :=
  (* number of nodes the case creates: every valid creating op *)
  length (filter creates ops).
Definition spec_ch (shared : bool) (ops : list cop) (segs : list (list tok)) : list tok :=
  let body := removelast segs in
  spec_crun shared [] [] 0 ops body ++
  check (same_set (flat_map seg_cdestroyed body) (seq 0 (ccreated ops shared))) "chain_exactly_once:whole_case" ++
  check (toks_eqb (last segs []) [tag "std"; TZ 1]) "std_equiv:node_chain".
