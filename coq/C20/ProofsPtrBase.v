(* C20 proofs, part 1: the well-formedness invariant of the unique_ptr / shared_ptr heap and its
   preservation by every primitive step of the model. *)
From V Require Import C20.Spec.
From Coq Require Import Lia Arith PeanoNat.
Require Import ZifyBool.

(* number of handles (incl. the temporaries) that point to object o *)
Definition cntl (h : nat -> hv) (o : nat) (l : list nat) : nat := length (filter (fun i => points (h i) o) l).
Definition cnt (h : nat -> hv) (o : nat) : nat := cntl h o (seq 0 NH).
Definition b2 (b : bool) : nat := if b then 1 else 0.

Lemma upd_same {A} (f : nat -> A) i v : upd f i v i = v.
Proof. unfold upd. now rewrite Nat.eqb_refl. Qed.
Lemma upd_other {A} (f : nat -> A) i v j : j <> i -> upd f i v j = f j.
Proof. unfold upd. intros H. destruct (Nat.eqb_spec j i); congruence. Qed.

Lemma cntl_cons h o x l : cntl h o (x :: l) = b2 (points (h x) o) + cntl h o l.
Proof. unfold cntl. cbn [filter]. destruct (points (h x) o); reflexivity. Qed.
Lemma cntl_nil h o : cntl h o [] = 0. Proof. reflexivity. Qed.

Lemma cntl_upd_notin h o l i v : ~ In i l -> cntl (upd h i v) o l = cntl h o l.
Proof.
  induction l as [|x l IH]; intros Hn; auto. rewrite !cntl_cons.
  rewrite upd_other by (intro; subst; apply Hn; now left).
  rewrite IH; auto. intro; apply Hn; now right.
Qed.

Lemma cntl_upd h o l i v : NoDup l -> In i l ->
  cntl (upd h i v) o l + b2 (points (h i) o) = cntl h o l + b2 (points v o).
Proof.
  induction l as [|x l IH]; intros Hnd Hin; [destruct Hin|].
  inversion Hnd as [|? ? Hx Hnd']; subst. rewrite !cntl_cons.
  destruct (Nat.eq_dec x i) as [->|Hne].
  - rewrite upd_same. rewrite (cntl_upd_notin h o l i v Hx). lia.
  - rewrite upd_other by auto. destruct Hin as [->|Hin]; [congruence|].
    specialize (IH Hnd' Hin). lia.
Qed.

Lemma cnt_upd h o i v : i < NH -> cnt (upd h i v) o + b2 (points (h i) o) = cnt h o + b2 (points v o).
Proof. intros. apply cntl_upd; [apply seq_NoDup|apply in_seq; lia]. Qed.

Lemma cntl_ext h h' o l : (forall i, In i l -> h i = h' i) -> cntl h o l = cntl h' o l.
Proof.
  induction l as [|x l IH]; intros E; auto. rewrite !cntl_cons.
  rewrite (E x) by now left. rewrite IH; auto. intros; apply E; now right.
Qed.
Lemma cnt_ext h h' o : (forall i, i < NH -> h i = h' i) -> cnt h o = cnt h' o.
Proof. intros E. apply cntl_ext. intros i Hi. apply in_seq in Hi. apply E; lia. Qed.

Lemma cntl_pos h o l i : In i l -> h i = Ptr o -> 1 <= cntl h o l.
Proof.
  induction l as [|x l IH]; intros Hin E; [destruct Hin|]. rewrite cntl_cons.
  destruct Hin as [->|Hin].
  - rewrite E. cbn [points]. rewrite Nat.eqb_refl. cbn [b2]. lia.
  - specialize (IH Hin E). lia.
Qed.
Lemma cnt_pos h o i : i < NH -> h i = Ptr o -> 1 <= cnt h o.
Proof. intros. eapply cntl_pos; eauto. apply in_seq; lia. Qed.

Lemma cntl_zero h o l : cntl h o l = 0 -> forall i, In i l -> h i <> Ptr o.
Proof. intros Z i Hi E. pose proof (cntl_pos h o l i Hi E). lia. Qed.

Lemma cntl_ex h o l : 1 <= cntl h o l -> exists i, In i l /\ h i = Ptr o.
Proof.
  induction l as [|x l IH]; [rewrite cntl_nil; lia|]. rewrite cntl_cons.
  destruct (points (h x) o) eqn:P; cbn [b2].
  - intros _. exists x. split; [now left|]. unfold points in P. destruct (h x); try discriminate.
    apply Nat.eqb_eq in P. now subst.
  - intros H. destruct (IH H) as (i & Hi & E). exists i. split; [now right|auto].
Qed.

Lemma points_ptr v o : points v o = true <-> v = Ptr o.
Proof.
  unfold points. destruct v; split; try discriminate.
  - intros H. apply Nat.eqb_eq in H. now subst.
  - intros H. inversion H. apply Nat.eqb_refl.
Qed.
Lemma points_nonabs v o : points (nonabs v) o = points v o.
Proof. now destruct v. Qed.

Lemma NoDup_app_one {A} (l : list A) a : NoDup l -> ~ In a l -> NoDup (l ++ [a]).
Proof.
  induction l as [|x l IH]; intros Hnd Hn; cbn.
  - constructor; [tauto|constructor].
  - inversion Hnd; subst. constructor.
    + rewrite in_app_iff. cbn. intros [H|[H|[]]]; [auto|subst; apply Hn; now left].
    + apply IH; auto. intro; apply Hn; now right.
Qed.

Definition nonptr (v : hv) : Prop := match v with Ptr _ => False | _ => True end.
Lemma nonptr_points v o : nonptr v -> points v o = false.
Proof. now destruct v. Qed.

Definition alive (st : pst) (o : nat) : bool := Nat.ltb o (nxt st) && o_alive (objs st o).
Definition ctl (st : pst) (o : nat) : option nat := o_ctl (objs st o).
Definition want (st : pst) (o : nat) : nat :=
  if alive st o then match ctl st o with Some n => n | None => 1 end else 0.

Record WF (st : pst) : Prop := {
  W_bad : bad st = false;
  W_cnt : forall o, cnt (hs st) o = want st o;
  W_pos : forall o, alive st o = true -> ctl st o <> Some 0;
  W_kind : forall i o, i < NH -> hs st i = Ptr o -> (is_s i = true <-> ctl st o <> None);
  W_log : NoDup (plog st);
  W_dead : forall o, In o (plog st) <-> (o < nxt st /\ o_alive (objs st o) = false)
}.

Lemma WF_init : WF pinit.
Proof.
  constructor.
  - reflexivity.
  - intros o. reflexivity.
  - intros o A. unfold alive in A. cbn in A. discriminate.
  - intros i o Hi E. cbn in E. destruct (is_r i); discriminate.
  - constructor.
  - intros o. cbn. split; [tauto|lia].
Qed.

(* a handle that points somewhere points to a live object, which has at least one owner *)
Lemma WF_ptr_alive st i o : WF st -> i < NH -> hs st i = Ptr o -> alive st o = true.
Proof.
  intros W Hi E. pose proof (cnt_pos _ _ _ Hi E) as P. rewrite (W_cnt st W) in P.
  unfold want in P. destruct (alive st o); auto; lia.
Qed.
Lemma WF_alive_owned st o : WF st -> alive st o = true -> 1 <= cnt (hs st) o.
Proof.
  intros W A. rewrite (W_cnt st W). unfold want. rewrite A.
  pose proof (W_pos st W o A). destruct (ctl st o) as [[|n]|]; try lia. congruence.
Qed.

(* ---------------------------------------------------------------- primitives *)

Ltac simp_st := cbn [seth seto set_bad hs objs nxt plog bad o_alive o_ctl o_val] in *.

Lemma alive_seth st i v o : alive (seth st i v) o = alive st o. Proof. reflexivity. Qed.
Lemma ctl_seth st i v o : ctl (seth st i v) o = ctl st o. Proof. reflexivity. Qed.
Lemma want_seth st i v o : want (seth st i v) o = want st o. Proof. reflexivity. Qed.

(* overwrite a handle that points nowhere with a value that points nowhere *)
Lemma WF_mark st x v : WF st -> x < NH -> nonptr (hs st x) -> nonptr v -> WF (seth st x v).
Proof.
  intros W Hx Hn Hv. constructor; cbn [seth bad plog nxt objs hs]; try apply W.
  - intros o. pose proof (cnt_upd (hs st) o x v Hx) as C.
    rewrite (nonptr_points _ o Hn), (nonptr_points _ o Hv) in C. cbn [b2] in C.
    rewrite want_seth, <- (W_cnt st W). lia.
  - intros i o Hi E. unfold upd in E. destruct (Nat.eqb_spec i x).
    + subst v. destruct Hv.
    + apply (W_kind st W); auto.
Qed.

Lemma WF_move st dst src : WF st -> dst < NH -> src < NH -> nonptr (hs st dst) -> is_s dst = is_s src ->
  WF (h_move st dst src).
Proof.
  intros W Hd Hs Hn Hk. unfold h_move. set (v := nonabs (hs st src)).
  constructor; cbn [seth bad plog nxt objs hs]; try apply W.
  - intros o. change (want (seth (seth st dst v) src Null) o) with (want st o). rewrite <- (W_cnt st W).
    pose proof (cnt_upd (upd (hs st) dst v) o src Null Hs) as C1.
    pose proof (cnt_upd (hs st) o dst v Hd) as C2.
    rewrite (nonptr_points _ o Hn) in C2. cbn [points b2] in *.
    assert (P : points (upd (hs st) dst v src) o = points (hs st src) o).
    { unfold upd. destruct (Nat.eqb_spec src dst); auto. subst v. apply points_nonabs. }
    rewrite P in C1. unfold v in C2 at 2. rewrite points_nonabs in C2. lia.
  - intros i o Hi E. unfold upd in E. destruct (Nat.eqb_spec i src); [discriminate|].
    destruct (Nat.eqb_spec i dst).
    + subst i. unfold v in E. destruct (hs st src) eqn:S; try discriminate. cbn in E. inversion E; subst.
      rewrite Hk. apply (W_kind st W src o Hs S).
    + apply (W_kind st W); auto.
Qed.

Lemma hs_move st dst src i :
  hs (h_move st dst src) i = upd (upd (hs st) dst (nonabs (hs st src))) src Null i.
Proof. reflexivity. Qed.

(* --- deleting the object a unique/raw handle owns *)
Lemma WF_kill st x : WF st -> x < NH -> is_s x = false -> WF (h_kill st x).
Proof.
  intros W Hx Hk. unfold h_kill. destruct (hs st x) as [| |o] eqn:E; auto.
  pose proof (WF_ptr_alive st x o W Hx E) as A.
  assert (C : ctl st o = None).
  { destruct (ctl st o) eqn:C; auto. exfalso.
    assert (is_s x = true) by (apply (W_kind st W x o Hx E); congruence). congruence. }
  assert (Hcnt : cnt (hs st) o = 1).
  { rewrite (W_cnt st W). unfold want. now rewrite A, C. }
  unfold alive in A. apply andb_prop in A as [A1 A2]. apply Nat.ltb_lt in A1.
  unfold delete_obj. rewrite A2.
  constructor; simp_st; try apply W.
  - intros o'. pose proof (cnt_upd (hs st) o' x Null Hx) as U. rewrite E in U. cbn [points b2] in U.
    unfold want, alive, ctl. simp_st.
    destruct (Nat.eq_dec o' o) as [->|Hne].
    + rewrite upd_same. simp_st. rewrite Nat.eqb_refl in U. rewrite andb_false_r. cbn [b2] in U. lia.
    + rewrite !upd_other by auto.
      assert (Nat.eqb o o' = false) as Hf by (apply Nat.eqb_neq; congruence). rewrite Hf in U. cbn [b2] in U.
      pose proof (W_cnt st W o') as Q. unfold want, alive, ctl in Q. lia.
  - intros o' A'. unfold alive, ctl in *. simp_st.
    destruct (Nat.eq_dec o' o) as [->|Hne].
    + rewrite upd_same in A'. simp_st. rewrite andb_false_r in A'. discriminate.
    + rewrite !upd_other in * by auto. apply (W_pos st W o'). exact A'.
  - intros i o' Hi Ei. unfold ctl. simp_st.
    destruct (Nat.eq_dec i x) as [->|Hix]; [rewrite upd_same in Ei; discriminate|].
    rewrite upd_other in Ei by auto.
    destruct (Nat.eq_dec o' o) as [->|Hne]; [rewrite upd_same|rewrite upd_other by auto]; simp_st;
      apply (W_kind st W i _ Hi Ei).
  - apply NoDup_app_one; [apply W|]. intro I. apply (W_dead st W) in I. destruct I as [_ I]. congruence.
  - intros o'. rewrite in_app_iff. cbn [In]. rewrite (W_dead st W o').
    destruct (Nat.eq_dec o' o) as [->|Hne]; [rewrite upd_same|rewrite upd_other by auto]; simp_st.
    + split; [intros _; split; auto|intros _; right; auto].
    + split; [intros [H|[H|[]]]; [auto|congruence]|intros H; left; auto].
Qed.

Lemma cnt_two h o i j : i < NH -> j < NH -> i <> j -> h i = Ptr o -> h j = Ptr o -> 2 <= cnt h o.
Proof.
  intros Hi Hj Hne Ei Ej. pose proof (cnt_upd h o i Null Hi) as U. rewrite Ei in U. cbn [points b2] in U.
  rewrite Nat.eqb_refl in U. cbn [b2] in U.
  assert (1 <= cnt (upd h i Null) o) by (apply (cnt_pos _ _ j Hj); rewrite upd_other; auto). lia.
Qed.

Lemma cnt_fresh st o : WF st -> nxt st <= o -> cnt (hs st) o = 0.
Proof.
  intros W Ho. rewrite (W_cnt st W). unfold want, alive.
  assert (Nat.ltb o (nxt st) = false) as -> by (apply Nat.ltb_ge; lia). reflexivity.
Qed.

Lemma WF_new st x v : WF st -> x < NH -> nonptr (hs st x) -> is_s x = false -> WF (h_new st x v).
Proof.
  intros W Hx Hn Hk. pose proof (cnt_fresh st (nxt st) W (le_n _)) as F.
  unfold h_new. constructor; simp_st; try apply W.
  - intros o. pose proof (cnt_upd (hs st) o x (Ptr (nxt st)) Hx) as U.
    rewrite (nonptr_points _ o Hn) in U. cbn [points b2] in U.
    unfold want, alive, ctl. simp_st.
    destruct (Nat.eq_dec o (nxt st)) as [->|Hne].
    + rewrite upd_same. simp_st. rewrite Nat.eqb_refl in U. cbn [b2] in U.
      assert (Nat.ltb (nxt st) (S (nxt st)) = true) as -> by (apply Nat.ltb_lt; lia). cbn [andb]. lia.
    + rewrite !upd_other by auto.
      assert (Nat.eqb (nxt st) o = false) as Hf by (apply Nat.eqb_neq; congruence). rewrite Hf in U. cbn [b2] in U.
      pose proof (W_cnt st W o) as Q. unfold want, alive, ctl in Q.
      assert (Nat.ltb o (S (nxt st)) = Nat.ltb o (nxt st)) as -> by (destruct (Nat.ltb_spec o (S (nxt st))), (Nat.ltb_spec o (nxt st)); auto; lia).
      lia.
  - intros o A. unfold alive, ctl in *. simp_st.
    destruct (Nat.eq_dec o (nxt st)) as [->|Hne].
    + rewrite upd_same. simp_st. discriminate.
    + rewrite !upd_other in * by auto. apply (W_pos st W o). unfold alive, ctl.
      apply andb_prop in A as [A1 A2]. apply Nat.ltb_lt in A1. rewrite A2, andb_true_r. apply Nat.ltb_lt. lia.
  - intros i o Hi Ei. unfold ctl. simp_st.
    destruct (Nat.eq_dec i x) as [->|Hix].
    + rewrite upd_same in Ei. inversion Ei; subst o. rewrite upd_same. simp_st. rewrite Hk. split; [discriminate|congruence].
    + rewrite upd_other in Ei by auto.
      assert (o <> nxt st). { intro; subst o. pose proof (cnt_pos _ _ _ Hi Ei). lia. }
      rewrite upd_other by auto. apply (W_kind st W i o Hi Ei).
  - intros o. rewrite (W_dead st W o).
    destruct (Nat.eq_dec o (nxt st)) as [->|Hne].
    + rewrite upd_same. simp_st. split; [lia|intros [_ H]; discriminate].
    + rewrite upd_other by auto. split; intros [H1 H2]; split; auto; lia.
Qed.

Lemma WF_share st dst src : WF st -> dst < NH -> src < NH -> nonptr (hs st dst) -> is_s dst = true -> is_s src = false ->
  WF (h_share st dst src).
Proof.
  intros W Hd Hs Hn Kd Ks. assert (Hds : dst <> src) by (intro; subst; congruence).
  unfold h_share. destruct (hs st src) as [| |o] eqn:E.
  1,2: apply WF_mark; auto; [apply WF_mark; auto; exact I | cbn; rewrite upd_other by auto; rewrite E; exact I | exact I].
  pose proof (WF_ptr_alive st src o W Hs E) as A.
  assert (C : ctl st o = None).
  { destruct (ctl st o) eqn:C; auto. exfalso.
    assert (is_s src = true) by (apply (W_kind st W src o Hs E); congruence). congruence. }
  assert (Hcnt : cnt (hs st) o = 1) by (rewrite (W_cnt st W); unfold want; now rewrite A, C).
  constructor; simp_st; try apply W.
  - intros o'.
    pose proof (cnt_upd (upd (hs st) dst (Ptr o)) o' src Null Hs) as U1.
    pose proof (cnt_upd (hs st) o' dst (Ptr o) Hd) as U2.
    rewrite upd_other in U1 by auto. rewrite E in U1. rewrite (nonptr_points _ o' Hn) in U2. cbn [points b2] in *.
    unfold want, alive, ctl. simp_st. pose proof (W_cnt st W o') as Q. unfold want, alive, ctl in Q.
    destruct (Nat.eq_dec o' o) as [->|Hne].
    + rewrite upd_same. simp_st. unfold alive in A. rewrite A in *. unfold ctl in C. rewrite C in Q. lia.
    + rewrite upd_other by auto. lia.
  - intros o' A'. unfold alive, ctl in *. simp_st.
    destruct (Nat.eq_dec o' o) as [->|Hne]; [rewrite upd_same; simp_st; discriminate|].
    rewrite upd_other in * by auto. apply (W_pos st W o' A').
  - intros i o' Hi Ei. unfold ctl. simp_st.
    destruct (Nat.eq_dec i src) as [->|His]; [rewrite upd_same in Ei; discriminate|].
    rewrite upd_other in Ei by auto.
    destruct (Nat.eq_dec i dst) as [->|Hid].
    + rewrite upd_same in Ei. inversion Ei; subst o'. rewrite upd_same. simp_st. rewrite Kd. split; [discriminate|reflexivity].
    + rewrite upd_other in Ei by auto.
      assert (o' <> o). { intro; subst o'. pose proof (cnt_two _ _ _ _ Hi Hs His Ei E). lia. }
      rewrite upd_other by auto. apply (W_kind st W i o' Hi Ei).
  - intros o'. rewrite (W_dead st W o').
    destruct (Nat.eq_dec o' o) as [->|Hne]; [rewrite upd_same|rewrite upd_other by auto]; simp_st; tauto.
Qed.

Lemma WF_copy st dst src : WF st -> dst < NH -> src < NH -> nonptr (hs st dst) -> is_s dst = true -> is_s src = true ->
  WF (s_copy_to st dst src).
Proof.
  intros W Hd Hs Hn Kd Ks. unfold s_copy_to. destruct (hs st src) as [| |o] eqn:E.
  1,2: apply WF_mark; auto; exact I.
  pose proof (WF_ptr_alive st src o W Hs E) as A.
  assert (C : ctl st o <> None) by (apply (W_kind st W src o Hs E); auto).
  unfold sp_acquire. unfold ctl in C. destruct (o_ctl (objs st o)) as [n|] eqn:Cn; [|congruence].
  constructor; simp_st; try apply W.
  - intros o'. pose proof (cnt_upd (hs st) o' dst (Ptr o) Hd) as U.
    rewrite (nonptr_points _ o' Hn) in U. cbn [points b2] in U.
    unfold want, alive, ctl. simp_st. pose proof (W_cnt st W o') as Q. unfold want, alive, ctl in Q.
    destruct (Nat.eq_dec o' o) as [->|Hne].
    + rewrite upd_same. simp_st. unfold alive in A. rewrite A in *. rewrite Cn in Q. rewrite Nat.eqb_refl in U. cbn [b2] in U. lia.
    + rewrite upd_other by auto.
      assert (Nat.eqb o o' = false) as Hf by (apply Nat.eqb_neq; congruence). rewrite Hf in U. cbn [b2] in U. lia.
  - intros o' A'. unfold alive, ctl in *. simp_st.
    destruct (Nat.eq_dec o' o) as [->|Hne]; [rewrite upd_same; simp_st; discriminate|].
    rewrite upd_other in * by auto. apply (W_pos st W o' A').
  - intros i o' Hi Ei. unfold ctl. simp_st.
    destruct (Nat.eq_dec o' o) as [->|Hne].
    + rewrite upd_same. simp_st.
      destruct (Nat.eq_dec i dst) as [->|Hid]; [rewrite Kd; split; [discriminate|reflexivity]|].
      rewrite upd_other in Ei by auto. pose proof (W_kind st W i o Hi Ei) as K. unfold ctl in K. rewrite Cn in K.
      split; [discriminate|intros _; apply K; discriminate].
    + rewrite upd_other by auto.
      destruct (Nat.eq_dec i dst) as [->|Hid]; [rewrite upd_same in Ei; congruence|].
      rewrite upd_other in Ei by auto. apply (W_kind st W i o' Hi Ei).
  - intros o'. rewrite (W_dead st W o').
    destruct (Nat.eq_dec o' o) as [->|Hne]; [rewrite upd_same|rewrite upd_other by auto]; simp_st; tauto.
Qed.

Lemma WF_drop st x : WF st -> x < NH -> is_s x = true -> WF (s_drop st x).
Proof.
  intros W Hx Kx. unfold s_drop. destruct (hs st x) as [| |o] eqn:E; auto.
  pose proof (WF_ptr_alive st x o W Hx E) as A.
  assert (C : ctl st o <> None) by (apply (W_kind st W x o Hx E); auto).
  pose proof (cnt_pos _ _ _ Hx E) as P. pose proof (W_cnt st W o) as Q. unfold want in Q. rewrite A in Q.
  unfold sp_release. unfold ctl in *. destruct (o_ctl (objs st o)) as [[|n]|] eqn:Cn; [lia| |congruence].
  pose proof A as A0. unfold alive in A. apply andb_prop in A as [A1 A2]. apply Nat.ltb_lt in A1.
  destruct (Nat.eqb_spec n 0) as [->|Hn0].
  - (* last reference: the object is deleted *)
    unfold delete_obj. simp_st. rewrite upd_same. simp_st. rewrite A2.
    constructor; simp_st; try apply W.
    + intros o'. pose proof (cnt_upd (hs st) o' x Null Hx) as U. rewrite E in U. cbn [points b2] in U.
      unfold want, alive, ctl. simp_st. pose proof (W_cnt st W o') as Q'. unfold want, alive, ctl in Q'.
      destruct (Nat.eq_dec o' o) as [->|Hne].
      * rewrite upd_same. simp_st. rewrite andb_false_r. rewrite Nat.eqb_refl in U. cbn [b2] in U. lia.
      * rewrite !upd_other by auto.
        assert (Nat.eqb o o' = false) as Hf by (apply Nat.eqb_neq; congruence). rewrite Hf in U. cbn [b2] in U. lia.
    + intros o' A'. unfold alive, ctl in *. simp_st.
      destruct (Nat.eq_dec o' o) as [->|Hne].
      * rewrite upd_same in A'. simp_st. rewrite andb_false_r in A'. discriminate.
      * rewrite !upd_other in * by auto. apply (W_pos st W o' A').
    + intros i o' Hi Ei. unfold ctl. simp_st.
      destruct (Nat.eq_dec i x) as [->|Hix]; [rewrite upd_same in Ei; discriminate|].
      rewrite upd_other in Ei by auto. pose proof (W_kind st W i o' Hi Ei) as K. unfold ctl in K.
      destruct (Nat.eq_dec o' o) as [->|Hne]; [rewrite upd_same; simp_st; rewrite Cn in K|rewrite !upd_other by auto; auto].
      split; [discriminate|intros _; apply K; discriminate].
    + apply NoDup_app_one; [apply W|]. intro I. apply (W_dead st W) in I. destruct I as [_ I]. congruence.
    + intros o'. rewrite in_app_iff. cbn [In]. rewrite (W_dead st W o').
      destruct (Nat.eq_dec o' o) as [->|Hne]; [rewrite upd_same|rewrite !upd_other by auto]; simp_st.
      * split; [intros _; split; auto|intros _; right; auto].
      * split; [intros [H|[H|[]]]; [auto|congruence]|intros H; left; auto].
  - constructor; simp_st; try apply W.
    + intros o'. pose proof (cnt_upd (hs st) o' x Null Hx) as U. rewrite E in U. cbn [points b2] in U.
      unfold want, alive, ctl. simp_st. pose proof (W_cnt st W o') as Q'. unfold want, alive, ctl in Q'.
      destruct (Nat.eq_dec o' o) as [->|Hne].
      * rewrite upd_same. simp_st. unfold alive in A0. rewrite A0 in Q'. rewrite A2, andb_true_r. apply Nat.ltb_lt in A1. rewrite A1. rewrite Cn in Q'. rewrite Nat.eqb_refl in U. cbn [b2] in U. lia.
      * rewrite !upd_other by auto.
        assert (Nat.eqb o o' = false) as Hf by (apply Nat.eqb_neq; congruence). rewrite Hf in U. cbn [b2] in U. lia.
    + intros o' A'. unfold alive, ctl in *. simp_st.
      destruct (Nat.eq_dec o' o) as [->|Hne]; [rewrite upd_same; simp_st; congruence|].
      rewrite !upd_other in * by auto. apply (W_pos st W o' A').
    + intros i o' Hi Ei. unfold ctl. simp_st.
      destruct (Nat.eq_dec i x) as [->|Hix]; [rewrite upd_same in Ei; discriminate|].
      rewrite upd_other in Ei by auto. pose proof (W_kind st W i o' Hi Ei) as K. unfold ctl in K.
      destruct (Nat.eq_dec o' o) as [->|Hne]; [rewrite upd_same; simp_st; rewrite Cn in K|rewrite !upd_other by auto; auto].
      split; [discriminate|intros _; apply K; discriminate].
    + intros o'. rewrite (W_dead st W o').
      destruct (Nat.eq_dec o' o) as [->|Hne]; [rewrite upd_same|rewrite !upd_other by auto]; simp_st; tauto.
Qed.
