(* C20 proofs, part 6: the unique_ptr / shared_ptr machine refines the ownership-graph SPEC, hence the
   observations the model prints pass the SPEC checker for every operation sequence (model_meets_spec, PT part). *)
From V Require Import C20.Spec C20.ProofsPtrBase C20.ProofsPtrOps C20.ProofsPtr.
From Coq Require Import Lia Arith PeanoNat Permutation.
Require Import ZifyBool.

(* ---------------------------------------------------------------- token plumbing *)
Definition nosep (sep : string) (l : list tok) : Prop := forallb (fun t => negb (is_tag sep t)) l = true.

Lemma aux_nosep sep l cur : nosep sep l -> split_toks_aux sep l cur = [rev cur ++ l].
Proof.
  revert cur. induction l as [|x l IH]; intros cur H; cbn [split_toks_aux].
  - now rewrite app_nil_r.
  - unfold nosep in H. cbn [forallb] in H. apply andb_prop in H as [Hx Hl].
    destruct (is_tag sep x); [discriminate|]. rewrite IH by exact Hl. cbn [rev]. now rewrite <- app_assoc.
Qed.
Lemma aux_app sep l1 t l2 cur : nosep sep l1 -> is_tag sep t = true ->
  split_toks_aux sep (l1 ++ t :: l2) cur = (rev cur ++ l1) :: split_toks_aux sep l2 [].
Proof.
  revert cur. induction l1 as [|x l1 IH]; intros cur H Ht; cbn [split_toks_aux app].
  - rewrite Ht. now rewrite app_nil_r.
  - unfold nosep in H. cbn [forallb] in H. apply andb_prop in H as [Hx Hl].
    destruct (is_tag sep x); [discriminate|]. rewrite IH by auto. cbn [rev]. now rewrite <- app_assoc.
Qed.
Lemma split_nosep sep l : nosep sep l -> split_toks sep l = [l].
Proof. intros. unfold split_toks. now rewrite aux_nosep. Qed.
Lemma split_app sep l1 t l2 : nosep sep l1 -> is_tag sep t = true ->
  split_toks sep (l1 ++ t :: l2) = l1 :: split_toks sep l2.
Proof. intros. unfold split_toks. now rewrite aux_app. Qed.

Lemma nosep_app sep a b : nosep sep a -> nosep sep b -> nosep sep (a ++ b).
Proof. unfold nosep. intros. rewrite forallb_app. now apply andb_true_intro. Qed.
Lemma nosep_map_num {A} sep (f : A -> tok) l : (forall x, exists z, f x = TZ z) -> nosep sep (map f l).
Proof.
  intros F. unfold nosep. induction l as [|x l IH]; auto. cbn [map forallb]. destruct (F x) as [z ->]. exact IH.
Qed.
Lemma tnat_num n : exists z, tnat n = TZ z. Proof. eexists; reflexivity. Qed.
Lemma hv_tok_num v : exists z, hv_tok v = TZ z. Proof. destruct v; eexists; reflexivity. Qed.

Lemma bytes_eqb_refl b : bytes_eqb b b = true.
Proof. induction b as [|x b IH]; auto. cbn. rewrite IH. destruct x; reflexivity. Qed.
Lemma tok_eqb_refl t : tok_eqb t t = true.
Proof. destruct t; cbn; auto using bytes_eqb_refl, Z.eqb_refl. Qed.
Lemma toks_eqb_refl l : toks_eqb l l = true.
Proof. induction l as [|x l IH]; auto. cbn. now rewrite tok_eqb_refl, IH. Qed.

Lemma toks_nats_tnat l : toks_nats (map tnat l) = Some l.
Proof.
  induction l as [|x l IH]; auto. cbn [map toks_nats]. rewrite IH. unfold tnat, tok_nat.
  assert ((0 <=? Z.of_nat x)%Z = true) as -> by lia. now rewrite Nat2Z.id.
Qed.

(* result tokens never contain the section tags *)
Definition plain (res : list tok) : Prop := nosep "D" res /\ nosep "L" res /\ nosep "H" res.
Lemma plain_pexec st op : plain (snd (pexec st op)).
Proof.
  destruct op; cbn [pexec snd]; try (repeat split; reflexivity).
  all: unfold deref; destruct (hs st d); try (repeat split; reflexivity);
       destruct (o_alive (objs st o)); repeat split; reflexivity.
Qed.
Lemma plain_pstep st op : plain (snd (pstep st op)).
Proof. unfold pstep. destruct (pvalid st op); [apply plain_pexec|repeat split; reflexivity]. Qed.

Lemma parse_pobs st st' res : plain res -> bad st' = false ->
  parse_pseg (pobs st st' res) =
  Some (res, skipn (length (plog st)) (plog st'), tnat (live_count st'), map (fun i => hv_tok (hs st' i)) (seq 0 10)).
Proof.
  intros (PD & PL & PH) B. unfold parse_pseg, pobs. rewrite B, app_nil_r.
  set (D := skipn (length (plog st)) (plog st')). set (hsx := map (fun i => hv_tok (hs st' i)) (seq 0 10)).
  change (res ++ [tag "D"] ++ map tnat D ++ [tag "L"; tnat (live_count st'); tag "H"] ++ hsx)
    with (res ++ tag "D" :: (map tnat D ++ tag "L" :: ([tnat (live_count st')] ++ tag "H" :: hsx))).
  rewrite split_app by (auto; reflexivity).
  assert (N1 : nosep "D" (map tnat D ++ tag "L" :: [tnat (live_count st')] ++ tag "H" :: hsx)).
  { apply nosep_app; [apply nosep_map_num, tnat_num|]. 
    change (tag "L" :: [tnat (live_count st')] ++ tag "H" :: hsx) with ([tag "L"; tnat (live_count st'); tag "H"] ++ hsx).
    apply nosep_app; [reflexivity|apply nosep_map_num; intros; apply hv_tok_num]. }
  rewrite (split_nosep "D" _ N1).
  rewrite split_app by (try reflexivity; apply nosep_map_num, tnat_num).
  assert (N2 : nosep "L" ([tnat (live_count st')] ++ tag "H" :: hsx)).
  { change ([tnat (live_count st')] ++ tag "H" :: hsx) with ([tnat (live_count st'); tag "H"] ++ hsx).
    apply nosep_app; [reflexivity|apply nosep_map_num; intros; apply hv_tok_num]. }
  rewrite (split_nosep "L" _ N2).
  rewrite split_app by reflexivity.
  rewrite split_nosep by (apply nosep_map_num; intros; apply hv_tok_num).
  rewrite toks_nats_tnat. reflexivity.
Qed.

(* ---------------------------------------------------------------- refinement to the ownership graph *)
Record Rel (st : pst) (a : ast) : Prop := {
  R_h : forall i, i < 10 -> hs st i = ah a i;
  R_n : nxt st = anext a;
  R_v : forall o, val st o = aval a o
}.
Lemma Rel_init : Rel pinit ainit.
Proof. constructor; reflexivity. Qed.

Ltac guards :=
  repeat match goal with
  | |- context [uix ?d] => destruct (uix d) eqn:?
  | |- context [six ?d] => destruct (six d) eqn:?
  | |- context [rix ?d] => destruct (rix d) eqn:?
  end.
Ltac bnd := unfold uix, six, rix in *; lia.

Lemma hvalid_ext h h' op : (forall i, i < 10 -> h i = h' i) -> hvalid h op = hvalid h' op.
Proof.
  intros E. destruct op; cbn [hvalid]; unfold hpresent; guards; cbn [andb]; try reflexivity;
    repeat match goal with |- context [h ?x] => rewrite (E x) by bnd end; reflexivity.
Qed.

Lemma valid_bounds h op : hvalid h op = true ->
  match op with
  | UNew d _ | UNull d | UAn d | URst d | URstN d _ | UDel d | UVal d | USetV d _ | UStd d
  | SNew d _ | SNull d | SAn d | SDel d | SVal d | SSetV d _ | SFromStd d _ => d < 10
  | UMc d s | UMa d s | USwap d s | UEq d s | URel d s | UAdopt d s
  | SCc d s | SMc d s | SCa d s | SMa d s | SSwap d s | SEq d s | SFromU d s => d < 10 /\ s < 10
  end.
Proof.
  intros V. destruct op; cbn [hvalid] in V;
    repeat match type of V with (_ && _) = true => let V2 := fresh "V" in apply andb_prop in V as [V V2] end;
    try split; bnd.
Qed.

Lemma ahs_ext h h' n op : (forall i, i < 10 -> h i = h' i) -> hvalid h op = true ->
  forall i, i < 10 -> ahs h n op i = ahs h' n op i.
Proof.
  intros E V i Hi. pose proof (valid_bounds h op V) as B.
  destruct op; cbn [ahs]; unfold transfer, upd; try destruct B as [B1 B2];
    repeat match goal with |- context [h ?x] => rewrite (E x) by lia end; reflexivity.
Qed.

Lemma owned_ext h h' o : (forall i, i < 10 -> h i = h' i) -> owned h o = owned h' o.
Proof.
  intros E. unfold owned. apply eq_true_iff_eq. rewrite !existsb_exists.
  split; intros (i & Hi & P); exists i; (split; [auto|]); apply in_seq in Hi; [rewrite <- E by lia|rewrite E by lia]; auto.
Qed.

Lemma refine_step st a op : Rel st a -> WF st -> Shape st ->
  Rel (pnext st op) (fst (astep a op)) /\ snd (pstep st op) = snd (astep a op).
Proof.
  intros [Rh Rn Rv] W Sh. unfold pnext, pstep, astep, pvalid.
  rewrite (hvalid_ext (hs st) (ah a) op Rh). destruct (hvalid (ah a) op) eqn:V; [|split; [constructor|]; auto].
  assert (V' : pvalid st op = true) by (unfold pvalid; now rewrite (hvalid_ext (hs st) (ah a) op Rh)).
  destruct (pexec_sum st op W Sh V') as [W' Sh' L Hh Hn Hv Hnew]. cbn [fst snd].
  pose proof (valid_bounds _ _ V) as B.
  split; [constructor|].
  - intros i Hi. rewrite Hh by auto. cbn [aexec ah]. rewrite Rn. apply ahs_ext; auto.
  - rewrite Hn. destruct op; cbn [aexec anext]; congruence.
  - intros o. rewrite Hv.
    destruct op; cbn [aexec aval ah]; unfold upd; rewrite ?Rn, ?Rv; try reflexivity.
    all: rewrite Rh by lia; destruct (ah a d); rewrite ?Rv; reflexivity.
  - destruct op; cbn [pexec snd aresult]; try reflexivity.
    all: try (unfold deref; rewrite <- Rh by lia; destruct (hs st d) as [| |o] eqn:E; auto;
              destruct (no_dangling st d o W ltac:(unfold NH; lia) E) as [_ A]; rewrite A; cbn [snd];
              now rewrite <- Rv).
    all: destruct B as [B1 B2]; rewrite <- !Rh by lia; destruct (hs st d), (hs st s); reflexivity.
Qed.

(* ---------------------------------------------------------------- the SPEC checker accepts the model's observations *)
Lemma mem_In o l : mem o l = true <-> In o l.
Proof.
  unfold mem. rewrite existsb_exists. split.
  - intros (x & Hx & E). apply Nat.eqb_eq in E. now subst.
  - intros H. exists o. split; auto. apply Nat.eqb_refl.
Qed.
Lemma same_set_intro got expect : NoDup got -> NoDup expect -> (forall o, In o got <-> In o expect) ->
  same_set got expect = true.
Proof.
  intros N1 N2 I. unfold same_set.
  assert (length got = length expect).
  { apply Nat.le_antisymm; apply NoDup_incl_length; auto; intros o Ho; apply I; auto. }
  apply andb_true_intro; split; [apply andb_true_intro; split|].
  - now apply Nat.eqb_eq.
  - apply forallb_forall. intros o Ho. apply mem_In, I, Ho.
  - apply forallb_forall. intros o Ho. apply mem_In, I, Ho.
Qed.

Lemma skipn_app_exact {A} (l d : list A) : skipn (length l) (l ++ d) = d.
Proof. induction l; auto. Qed.

Lemma checkb_true c f : checkb true c f = []. Proof. reflexivity. Qed.

(* one segment: model state st -> st', graph a -> a' related, destruction characterised *)
Lemma spec_pseg_ok st st' a a' res name D :
  Rel st a -> Rel st' a' -> WF st' -> Shape st' -> plain res ->
  plog st' = plog st ++ D -> NoDup D ->
  (forall o, In o D <-> owned (hs st) o = true /\ owned (hs st') o = false) ->
  (forall o, In o D -> o < nxt st') ->
  spec_pseg (ah a) (ah a') (anext a') res name (pobs st st' res) = [].
Proof.
  intros R R' W' Sh' P E ND HD Hlt. unfold spec_pseg.
  rewrite (parse_pobs st st' res P (W_bad st' W')). rewrite E, skipn_app_exact.
  rewrite toks_eqb_refl, checkb_true. cbn [app].
  assert (Hh : map (fun i => hv_tok (hs st' i)) (seq 0 10) = map (fun i => hv_tok (ah a' i)) (seq 0 10)).
  { apply map_ext_in. intros i Hi. apply in_seq in Hi. now rewrite (R_h st' a' R') by lia. }
  rewrite Hh, toks_eqb_refl, checkb_true. cbn [app].
  assert (HS : same_set D (filter (fun o => owned (ah a) o && negb (owned (ah a') o)) (seq 0 (anext a'))) = true).
  { apply same_set_intro; auto; [apply NoDup_filter, seq_NoDup|]. intros o. rewrite filter_In, in_seq.
    rewrite <- (owned_ext (hs st) (ah a) o (R_h st a R)), <- (owned_ext (hs st') (ah a') o (R_h st' a' R')).
    rewrite <- (R_n st' a' R'). rewrite HD. split.
    - intros [A B]. split; [split; [lia|]|now rewrite A, B]. cbn. apply Hlt. apply HD. auto.
    - intros [_ X]. apply andb_prop in X as [A B]. split; auto. now destruct (owned (hs st') o). }
  rewrite HS, checkb_true. cbn [app].
  rewrite (live_count_owned st' W' Sh'). rewrite (R_n st' a' R').
  assert (HF : filter (owned (hs st')) (seq 0 (anext a')) = filter (owned (ah a')) (seq 0 (anext a'))).
  { apply filter_ext. intros o. apply owned_ext. apply (R_h st' a' R'). }
  rewrite HF, tok_eqb_refl. reflexivity.
Qed.

Lemma destroyed_lt st st' D o : WF st' -> plog st' = plog st ++ D -> In o D -> o < nxt st'.
Proof.
  intros W' E Ho. assert (In o (plog st')) as I by (rewrite E; apply in_app_iff; auto).
  apply (W_dead st' W') in I. tauto.
Qed.

Lemma aend_rel st a : Rel st a -> WF st -> Shape st -> Rel (teardown st) (aend a).
Proof.
  intros R W Sh. destruct (teardown_ok st W Sh) as ((W' & Sh' & L & N) & H). constructor.
  - intros i Hi. rewrite H by auto. reflexivity.
  - rewrite N. apply R.
  - intros o. cbn [aend aset aval]. rewrite <- (R_v st a R). 
    unfold teardown. cbn [fold_left]. unfold u_clear, s_clear, u_dtor, s_dtor, u_reset.
    repeat match goal with |- context [if ?c then _ else _] => destruct c end;
      repeat (autorewrite with valdb); reflexivity.
Qed.

Lemma spec_prun_ok ops : forall st a, Rel st a -> WF st -> Shape st ->
  spec_prun a ops (prun st ops) = [].
Proof.
  induction ops as [|op ops IH]; intros st a R W Sh; cbn [prun spec_prun].
  - destruct (teardown_ok st W Sh) as ((W' & Sh' & [D E] & N) & H).
    destruct (step_destroyed st (teardown st) D W Sh W' Sh' ltac:(lia) ltac:(intros; lia) E) as [ND HD].
    apply (spec_pseg_ok st (teardown st) a (aend a) _ _ D); auto using aend_rel.
    + repeat split; reflexivity.
    + intros o Ho. eapply destroyed_lt; eauto.
  - destruct (pstep st op) as [st' res] eqn:Ps. destruct (astep a op) as [a' res'] eqn:As.
    destruct (refine_step st a op R W Sh) as [R' Er]. destruct (pstep_inv st op W Sh) as [W' Sh'].
    destruct (pstep_destroyed st op W Sh) as (D & E & ND & HD).
    unfold pnext in *. rewrite Ps, As in *. cbn [fst snd] in *. subst res'.
    rewrite (spec_pseg_ok st st' a a' res (pop_name op) D); auto.
    + cbn [app]. apply IH; auto.
    + pose proof (plain_pstep st op) as P. now rewrite Ps in P.
    + intros o Ho. eapply destroyed_lt; eauto.
Qed.

(* ---------------------------------------------------------------- the whole case *)
Lemma seg_destroyed_pobs st st' res : plain res -> bad st' = false ->
  seg_destroyed (pobs st st' res) = skipn (length (plog st)) (plog st').
Proof. intros P B. unfold seg_destroyed. now rewrite (parse_pobs st st' res P B). Qed.

Lemma total_destroyed ops : forall st, WF st -> Shape st ->
  plog (teardown (fold_left pnext ops st)) = plog st ++ flat_map seg_destroyed (prun st ops).
Proof.
  induction ops as [|op ops IH]; intros st W Sh; cbn [prun fold_left flat_map].
  - destruct (teardown_ok st W Sh) as ((W' & Sh' & [D E] & N) & H).
    rewrite seg_destroyed_pobs; [|repeat split; reflexivity|apply W'].
    rewrite app_nil_r, E, skipn_app_exact. reflexivity.
  - destruct (pstep st op) as [st' res] eqn:Ps.
    destruct (pstep_inv st op W Sh) as [W' Sh']. destruct (pstep_destroyed st op W Sh) as (D & E & _).
    pose proof (plain_pstep st op) as P. unfold pnext in *. rewrite Ps in *. cbn [fst snd] in *.
    cbn [flat_map]. rewrite seg_destroyed_pobs; auto; [|apply W'].
    rewrite (IH st' W' Sh'), E, skipn_app_exact, app_assoc. reflexivity.
Qed.

Lemma fold_rel ops : forall st a, Rel st a -> WF st -> Shape st ->
  Rel (fold_left pnext ops st) (fold_left (fun a op => fst (astep a op)) ops a).
Proof.
  induction ops as [|op ops IH]; intros st a R W Sh; cbn [fold_left]; auto.
  destruct (refine_step st a op R W Sh) as [R' _]. destruct (pstep_inv st op W Sh) as [W' Sh']. apply IH; auto.
Qed.

Theorem model_meets_spec_pt : forall ops, spec_pt ops (prun pinit ops ++ [[tag "std"; TZ 1]]) = [].
Proof.
  intros ops. unfold spec_pt. rewrite removelast_last, last_last.
  rewrite (spec_prun_ok ops pinit ainit Rel_init WF_init Shape_init). cbn [app].
  pose proof (total_destroyed ops pinit WF_init Shape_init) as T. cbn [plog pinit app] in T.
  destruct (reach_inv ops) as [W Sh]. unfold run_ops in *.
  destruct (teardown_all_destroyed _ W Sh) as (_ & Pm & _).
  destruct (teardown_ok _ W Sh) as ((W' & _) & _).
  assert (N : afinal_next ops = nxt (fold_left pnext ops pinit)).
  { unfold afinal_next. symmetry. apply (R_n _ _ (fold_rel ops pinit ainit Rel_init WF_init Shape_init)). }
  rewrite same_set_intro; [reflexivity| | |].
  - rewrite <- T. apply W'.
  - apply seq_NoDup.
  - intros o. rewrite <- T, N. split; intros H; [eapply Permutation_in; eauto|eapply Permutation_in; [apply Permutation_sym|]; eauto].
Qed.
