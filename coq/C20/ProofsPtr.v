(* C20 proofs, part 5: the invariant holds in every reachable state of the unique_ptr / shared_ptr
   machine; consequences: ownership_exactly_one_destruction and the refinement to the ownership graph. *)
From V Require Import C20.Spec C20.ProofsPtrBase C20.ProofsPtrOps C20.ProofsPtrU C20.ProofsPtrS.
From Coq Require Import Lia Arith PeanoNat Permutation.
Require Import ZifyBool.

Lemma Sum_same st op st' :
  WF st -> Shape st -> WF st' -> hs st' = hs st -> nxt st' = nxt st -> plog st' = plog st ->
  (forall i, i < 10 -> ahs (hs st) (nxt st) op i = hs st i) ->
  anext (aexec (mkast (hs st) (val st) (nxt st)) op) = nxt st ->
  (forall o, val st' o = aval (aexec (mkast (hs st) (val st) (nxt st)) op) o) ->
  Sum st op st'.
Proof.
  intros W Sh W' Eh En El Ea Ex Ev. constructor; auto.
  - destruct Sh. constructor; rewrite Eh; auto.
  - apply lext_same; auto.
  - intros i Hi. rewrite Eh. symmetry. apply Ea; auto.
  - congruence.
  - intros o Ho. lia.
Qed.

Lemma deref_state st d : WF st -> d < NH -> fst (deref st d) = st.
Proof.
  intros W Hd. unfold deref. destruct (hs st d) as [| |o] eqn:E; auto.
  pose proof (WF_ptr_alive st d o W Hd E) as A. unfold alive in A. apply andb_prop in A as [_ A]. now rewrite A.
Qed.

Lemma pexec_sum st op : WF st -> Shape st -> pvalid st op = true -> Sum st op (fst (pexec st op)).
Proof.
  intros W Sh V. destruct op.
  - apply sum_UNew; auto.
  - apply sum_UNull; auto.
  - apply sum_UMc; auto.
  - apply sum_UMa; auto.
  - apply sum_UAn; auto.
  - apply sum_URst; auto.
  - apply sum_URstN; auto.
  - apply sum_URel; auto.
  - apply sum_UAdopt; auto.
  - apply sum_USwap; auto.
  - apply sum_UDel; auto.
  - (* UVal *) cbn [pexec]. rewrite deref_state; auto; [apply Sum_same; auto|split_valid V; consts; lia].
  - (* USetV *) cbn [pexec fst]. assert (Hd : d < NH) by (split_valid V; consts; lia).
    apply Sum_same; auto using WF_setval, hs_setval, nxt_setval, plog_setval.
    intros o. cbn [aexec aval ah]. unfold val, setval.
    destruct (hs st d) as [| |x] eqn:E; auto.
    pose proof (WF_ptr_alive st d x W Hd E) as A. unfold alive in A. apply andb_prop in A as [_ A]. rewrite A.
    simp_st. unfold upd. destruct (Nat.eqb_spec o x); auto.
  - (* UEq *) cbn [pexec fst]. apply Sum_same; auto.
  - apply sum_UStd; auto.
  - apply sum_SNew; auto.
  - apply sum_SNull; auto.
  - apply sum_SCc; auto.
  - apply sum_SMc; auto.
  - apply sum_SCa; auto.
  - apply sum_SMa; auto.
  - apply sum_SAn; auto.
  - apply sum_SSwap; auto.
  - apply sum_SDel; auto.
  - (* SVal *) cbn [pexec]. rewrite deref_state; auto; [apply Sum_same; auto|split_valid V; consts; lia].
  - (* SSetV *) cbn [pexec fst]. assert (Hd : d < NH) by (split_valid V; consts; lia).
    apply Sum_same; auto using WF_setval, hs_setval, nxt_setval, plog_setval.
    intros o. cbn [aexec aval ah]. unfold val, setval.
    destruct (hs st d) as [| |x] eqn:E; auto.
    pose proof (WF_ptr_alive st d x W Hd E) as A. unfold alive in A. apply andb_prop in A as [_ A]. rewrite A.
    simp_st. unfold upd. destruct (Nat.eqb_spec o x); auto.
  - (* SEq *) cbn [pexec fst]. apply Sum_same; auto.
  - apply sum_SFromU; auto.
  - apply sum_SFromStd; auto.
Qed.

(* ---------------------------------------------------------------- reachable states *)
Definition pnext (st : pst) (op : pop) : pst := fst (pstep st op).
Definition run_ops (ops : list pop) : pst := fold_left pnext ops pinit.

Lemma pstep_inv st op : WF st -> Shape st -> WF (pnext st op) /\ Shape (pnext st op).
Proof.
  intros W Sh. unfold pnext, pstep. destruct (pvalid st op) eqn:V; auto.
  destruct (pexec_sum st op W Sh V). auto.
Qed.

Lemma fold_inv ops st : WF st -> Shape st -> WF (fold_left pnext ops st) /\ Shape (fold_left pnext ops st).
Proof.
  revert st. induction ops as [|op ops IH]; intros st W Sh; cbn [fold_left]; auto.
  destruct (pstep_inv st op W Sh). apply IH; auto.
Qed.
Lemma reach_inv ops : WF (run_ops ops) /\ Shape (run_ops ops).
Proof. apply fold_inv; [apply WF_init|apply Shape_init]. Qed.

(* ---------------------------------------------------------------- alive <-> owned *)
Lemma owned_iff h o : owned h o = true <-> exists i, i < 10 /\ h i = Ptr o.
Proof.
  unfold owned. rewrite existsb_exists. split.
  - intros (i & Hi & P). apply in_seq in Hi. apply points_ptr in P. exists i. split; [lia|auto].
  - intros (i & Hi & E). exists i. split; [apply in_seq; lia|now apply points_ptr].
Qed.

Lemma alive_iff_owned st o : WF st -> Shape st -> (alive st o = true <-> owned (hs st) o = true).
Proof.
  intros W Sh. rewrite owned_iff. split.
  - intros A. pose proof (WF_alive_owned st o W A) as P. apply cntl_ex in P. destruct P as (i & Hi & E).
    apply in_seq in Hi. exists i. split; auto. destruct Sh as [S1 S2 S3 _].
    unfold NH, T1, T2, TR in *.
    destruct (Nat.eq_dec i 10) as [->|]; [congruence|]. destruct (Nat.eq_dec i 11) as [->|]; [congruence|].
    destruct (Nat.eq_dec i 12) as [->|]; [congruence|]. lia.
  - intros (i & Hi & E). apply (WF_ptr_alive st i o W); auto. unfold NH; lia.
Qed.

Lemma live_count_owned st : WF st -> Shape st ->
  live_count st = length (filter (owned (hs st)) (seq 0 (nxt st))).
Proof.
  intros W Sh. unfold live_count. f_equal. apply filter_ext_in. intros o Ho. apply in_seq in Ho.
  pose proof (alive_iff_owned st o W Sh) as I. unfold alive in I.
  assert (Nat.ltb o (nxt st) = true) as L by (apply Nat.ltb_lt; lia). rewrite L in I. cbn [andb] in I.
  destruct (o_alive (objs st o)), (owned (hs st) o); auto; [symmetry; apply I; auto|apply I; auto].
Qed.

Lemma dead_iff_unowned st o : WF st -> Shape st -> (In o (plog st) <-> o < nxt st /\ owned (hs st) o = false).
Proof.
  intros W Sh. rewrite (W_dead st W). pose proof (alive_iff_owned st o W Sh) as I. unfold alive in I.
  split; intros [L D]; split; auto.
  - assert (Nat.ltb o (nxt st) = true) as Lb by (apply Nat.ltb_lt; lia). rewrite Lb, D in I. cbn [andb] in I.
    destruct (owned (hs st) o); auto. destruct I as [_ I]. discriminate (I eq_refl).
  - assert (Nat.ltb o (nxt st) = true) as Lb by (apply Nat.ltb_lt; lia). rewrite Lb, D in I. cbn [andb] in I.
    destruct (o_alive (objs st o)); auto. destruct I as [I _]. discriminate (I eq_refl).
Qed.

(* ---------------------------------------------------------------- what one step destroys *)
Lemma NoDup_app_parts {A} (l1 l2 : list A) : NoDup (l1 ++ l2) -> NoDup l2 /\ forall x, In x l2 -> ~ In x l1.
Proof.
  induction l1 as [|a l1 IH]; cbn; intros H; [split; auto|].
  inversion H as [|? ? Hn Hd]; subst. destruct (IH Hd) as [N D]. split; auto.
  intros x Hx [->|Hi]; [apply Hn; apply in_app_iff; auto|eapply D; eauto].
Qed.

Lemma step_destroyed st st' D :
  WF st -> Shape st -> WF st' -> Shape st' -> nxt st <= nxt st' ->
  (forall o, nxt st <= o < nxt st' -> alive st' o = true) ->
  plog st' = plog st ++ D ->
  NoDup D /\ forall o, In o D <-> (owned (hs st) o = true /\ owned (hs st') o = false).
Proof.
  intros W Sh W' Sh' Hn Hnew E.
  pose proof (W_log st' W') as ND. rewrite E in ND. destruct (NoDup_app_parts _ _ ND) as [NDD Disj].
  split; auto. intros o. split.
  - intros Ho. assert (In o (plog st')) as I' by (rewrite E; apply in_app_iff; auto).
    apply (dead_iff_unowned st' o W' Sh') in I'. destruct I' as [L' U']. split; auto.
    destruct (owned (hs st) o) eqn:O; auto. exfalso.
    destruct (Nat.lt_ge_cases o (nxt st)) as [L|G].
    + apply (Disj o Ho). apply (dead_iff_unowned st o W Sh). auto.
    + assert (alive st' o = true) as A by (apply Hnew; lia).
      apply (alive_iff_owned st' o W' Sh') in A. congruence.
  - intros [O U]. apply (alive_iff_owned st o W Sh) in O. unfold alive in O. apply andb_prop in O as [L A].
    apply Nat.ltb_lt in L.
    assert (In o (plog st')) as I' by (apply (dead_iff_unowned st' o W' Sh'); split; auto; lia).
    rewrite E in I'. apply in_app_iff in I' as [I|I]; auto.
    apply (W_dead st W) in I. destruct I as [_ I]. congruence.
Qed.

Lemma anext_mono a op : anext a <= anext (aexec a op).
Proof. destruct op; cbn; lia. Qed.

Lemma pstep_destroyed st op : WF st -> Shape st ->
  exists D, plog (pnext st op) = plog st ++ D /\ NoDup D /\
            forall o, In o D <-> (owned (hs st) o = true /\ owned (hs (pnext st op)) o = false).
Proof.
  intros W Sh. unfold pnext, pstep. destruct (pvalid st op) eqn:V.
  - destruct (pexec_sum st op W Sh V) as [W' Sh' [D E] Hh Hn Hv Hnew]. exists D. split; auto.
    apply step_destroyed; auto. rewrite Hn. apply (anext_mono (mkast (hs st) (val st) (nxt st)) op).
  - cbn [fst]. exists []. split; [now rewrite app_nil_r|]. split; [constructor|].
    intros o. split; [intros []|]. intros [A B]. congruence.
Qed.

(* ---------------------------------------------------------------- teardown at the end of a case *)
Definition Frame (st st' : pst) : Prop := WF st' /\ Shape st' /\ lext st st' /\ nxt st' = nxt st.
Lemma mkFrame st st' : WF st' -> Shape st' -> lext st st' -> nxt st' = nxt st -> Frame st st'.
Proof. unfold Frame. auto. Qed.
Lemma Frame_trans a b c : Frame a b -> Frame b c -> Frame a c.
Proof. intros (W1 & S1 & L1 & N1) (W2 & S2 & L2 & N2). apply mkFrame; auto; [eapply lext_trans; eauto|congruence]. Qed.

Lemma u_clear_ok st d : WF st -> Shape st -> d < 4 ->
  Frame st (u_clear st d) /\ forall i, i < 10 -> hs (u_clear st d) i = upd (hs st) d Absent i.
Proof.
  intros W Sh Hd. unfold u_clear, present. destruct (hpresent (hs st) d) eqn:P.
  - assert (V : pvalid st (UDel d) = true).
    { unfold pvalid, hvalid, uix. rewrite P. apply andb_true_intro. split; auto. apply Nat.ltb_lt; lia. }
    destruct (sum_UDel st d W Sh V) as [W' Sh' L Hh Hn _ _]. cbn [pexec fst] in *. split; [apply mkFrame|]; auto.
  - apply absent_of in P. split; [apply mkFrame; auto; apply lext_refl|].
    intros i Hi. unfold upd. destruct (Nat.eqb_spec i d); congruence.
Qed.
Lemma s_clear_ok st d : WF st -> Shape st -> 4 <= d < 8 ->
  Frame st (s_clear st d) /\ forall i, i < 10 -> hs (s_clear st d) i = upd (hs st) d Absent i.
Proof.
  intros W Sh Hd. unfold s_clear, present. destruct (hpresent (hs st) d) eqn:P.
  - assert (V : pvalid st (SDel d) = true).
    { unfold pvalid, hvalid, six. rewrite P. repeat (apply andb_true_intro; split); auto; [apply Nat.leb_le|apply Nat.ltb_lt]; lia. }
    destruct (sum_SDel st d W Sh V) as [W' Sh' L Hh Hn _ _]. cbn [pexec fst] in *. split; [apply mkFrame|]; auto.
  - apply absent_of in P. split; [apply mkFrame; auto; apply lext_refl|].
    intros i Hi. unfold upd. destruct (Nat.eqb_spec i d); congruence.
Qed.
Lemma r_kill_ok st r : WF st -> Shape st -> 8 <= r < 10 ->
  Frame st (h_kill st r) /\ forall i, i < 10 -> hs (h_kill st r) i = upd (hs st) r Null i.
Proof.
  intros W Sh Hr. destruct Sh as [S1 S2 S3 S4].
  assert (Rr : hs st r <> Absent) by (apply S4; unfold rix; lia).
  assert (Hk : forall i, hs (h_kill st r) i = upd (hs st) r Null i).
  { intros i. rewrite hs_kill. unfold upd. destruct (Nat.eqb_spec i r); auto. destruct (hs st r); auto; congruence. }
  split; [apply mkFrame|].
  - apply WF_kill; auto; [unfold NH; lia|unfold is_s; lia].
  - constructor.
    + rewrite Hk, upd_other; auto. unfold T1; lia.
    + rewrite Hk, upd_other; auto. unfold T2; lia.
    + rewrite Hk, upd_other; auto. unfold TR; lia.
    + intros q Hq. rewrite Hk. unfold upd. destruct (Nat.eqb_spec q r); [discriminate|auto].
  - apply lext_kill.
  - apply nxt_kill.
  - intros i _. apply Hk.
Qed.

Lemma teardown_ok st : WF st -> Shape st ->
  Frame st (teardown st) /\ forall i, i < 10 -> hs (teardown st) i = if is_r i then Null else Absent.
Proof.
  intros W0 S0. unfold teardown. cbn [fold_left].
  destruct (u_clear_ok st 0 W0 S0 ltac:(lia)) as (F1 & H1). pose proof F1 as (W1 & S1 & _).
  destruct (u_clear_ok _ 1 W1 S1 ltac:(lia)) as (F2 & H2). pose proof F2 as (W2 & S2 & _).
  destruct (u_clear_ok _ 2 W2 S2 ltac:(lia)) as (F3 & H3). pose proof F3 as (W3 & S3 & _).
  destruct (u_clear_ok _ 3 W3 S3 ltac:(lia)) as (F4 & H4). pose proof F4 as (W4 & S4 & _).
  destruct (s_clear_ok _ 4 W4 S4 ltac:(lia)) as (F5 & H5). pose proof F5 as (W5 & S5 & _).
  destruct (s_clear_ok _ 5 W5 S5 ltac:(lia)) as (F6 & H6). pose proof F6 as (W6 & S6 & _).
  destruct (s_clear_ok _ 6 W6 S6 ltac:(lia)) as (F7 & H7). pose proof F7 as (W7 & S7 & _).
  destruct (s_clear_ok _ 7 W7 S7 ltac:(lia)) as (F8 & H8). pose proof F8 as (W8 & S8 & _).
  destruct (r_kill_ok _ 8 W8 S8 ltac:(lia)) as (F9 & H9). pose proof F9 as (W9 & S9 & _).
  destruct (r_kill_ok _ 9 W9 S9 ltac:(lia)) as (F10 & H10).
  split.
  - do 9 (eapply Frame_trans; [eassumption|]). assumption.
  - intros i Hi.
    do 10 (destruct i as [|i];
           [repeat (first [rewrite H10 by lia|rewrite H9 by lia|rewrite H8 by lia|rewrite H7 by lia|rewrite H6 by lia
                          |rewrite H5 by lia|rewrite H4 by lia|rewrite H3 by lia|rewrite H2 by lia|rewrite H1 by lia];
                    unfold upd; cbn [Nat.eqb]); reflexivity|]).
    lia.
Qed.

(* ---------------------------------------------------------------- the ownership theorem *)
Lemma no_dangling st i o : WF st -> i < NH -> hs st i = Ptr o -> o < nxt st /\ o_alive (objs st o) = true.
Proof.
  intros W Hi E. pose proof (WF_ptr_alive st i o W Hi E) as A. unfold alive in A.
  apply andb_prop in A as [A1 A2]. apply Nat.ltb_lt in A1. auto.
Qed.

Lemma teardown_all_destroyed st : WF st -> Shape st ->
  bad (teardown st) = false /\ Permutation (plog (teardown st)) (seq 0 (nxt st)) /\ live_count (teardown st) = 0.
Proof.
  intros W Sh. destruct (teardown_ok st W Sh) as ((W' & Sh' & L & N) & H).
  assert (U : forall o, owned (hs (teardown st)) o = false).
  { intros o. destruct (owned (hs (teardown st)) o) eqn:O; auto. apply owned_iff in O. destruct O as (i & Hi & E).
    rewrite H in E by auto. destruct (is_r i); discriminate. }
  split; [apply W'|]. split.
  - apply NoDup_Permutation; [apply W'|apply seq_NoDup|]. intros o.
    rewrite (dead_iff_unowned _ o W' Sh'), N, in_seq. split; [intros [? _]; lia|intros ?; split; [lia|apply U]].
  - rewrite (live_count_owned _ W' Sh'). 
    assert (E : filter (owned (hs (teardown st))) (seq 0 (nxt (teardown st))) = []).
    { induction (seq 0 (nxt (teardown st))) as [|x l IH]; auto. cbn [filter]. now rewrite U. }
    now rewrite E.
Qed.

Theorem ownership_exactly_one_destruction_all : forall ops,
  let st := run_ops ops in
  (* no double delete, no dereference of a destroyed object, no handle left dangling *)
  bad st = false /\
  (forall i o, i < 10 -> hs st i = Ptr o -> o < nxt st /\ o_alive (objs st o) = true) /\
  (* an object is alive exactly as long as it has an owner; the live-instance count is the number of owned objects *)
  (forall o, o < nxt st -> (o_alive (objs st o) = true <-> owned (hs st) o = true)) /\
  live_count st = length (filter (owned (hs st)) (seq 0 (nxt st))) /\
  (* destroyed at most once, and exactly the objects without an owner have been destroyed *)
  NoDup (plog st) /\
  (forall o, In o (plog st) <-> o < nxt st /\ owned (hs st) o = false) /\
  (* every further operation destroys exactly the objects whose last owner goes in that operation, once each *)
  (forall op, exists D, plog (pnext st op) = plog st ++ D /\ NoDup D /\
              forall o, In o D <-> owned (hs st) o = true /\ owned (hs (pnext st op)) o = false) /\
  (* when all handles are gone every object ever created has been destroyed exactly once *)
  bad (teardown st) = false /\ Permutation (plog (teardown st)) (seq 0 (nxt st)) /\ live_count (teardown st) = 0.
Proof.
  intros ops st. destruct (reach_inv ops) as [W Sh]. fold st in W, Sh.
  split; [apply W|]. split.
  { intros i o Hi E. apply (no_dangling st i o W); auto. unfold NH; lia. }
  split.
  { intros o Ho. pose proof (alive_iff_owned st o W Sh) as I. unfold alive in I.
    assert (Nat.ltb o (nxt st) = true) as L by (apply Nat.ltb_lt; lia). rewrite L in I. exact I. }
  split; [apply live_count_owned; auto|]. split; [apply W|]. split; [intros o; apply dead_iff_unowned; auto|].
  split; [intros op; apply pstep_destroyed; auto|]. apply teardown_all_destroyed; auto.
Qed.

(* non-vacuity: a sequence with aliasing and the self-assignments really creates, shares and destroys objects *)
Example ownership_example :
  let st := run_ops [SNew 4 1; SCc 5 4; SCa 4 4; SMa 5 5; SSwap 4 4; UNew 0 2; SFromU 6 0; SDel 4] in
  nxt st = 2 /\ plog st = [] /\ live_count st = 2 /\ plog (pnext st (SDel 5)) = [0] /\ plog (teardown st) = [0; 1].
Proof. vm_compute. repeat split; reflexivity. Qed.
