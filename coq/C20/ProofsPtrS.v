(* C20 proofs, part 4: every shared_ptr operation of the model (incl. self copy-assignment, self
   move-assignment, self swap, construction from a unique_ptr) establishes the summary. *)
From V Require Import C20.Spec C20.ProofsPtrBase C20.ProofsPtrOps.
From Coq Require Import Lia Arith PeanoNat.
Require Import ZifyBool.

Lemma sum_SNew st d v : WF st -> Shape st -> pvalid st (SNew d v) = true -> Sum st (SNew d v) (fst (pexec st (SNew d v))).
Proof. intros W Sh V. start st V Sh. clear_case st d; go st d d. Qed.
Lemma sum_SFromStd st d v : WF st -> Shape st -> pvalid st (SFromStd d v) = true -> Sum st (SFromStd d v) (fst (pexec st (SFromStd d v))).
Proof. intros W Sh V. start st V Sh. clear_case st d; go st d d. Qed.
Lemma sum_SNull st d : WF st -> Shape st -> pvalid st (SNull d) = true -> Sum st (SNull d) (fst (pexec st (SNull d))).
Proof. intros W Sh V. start st V Sh. clear_case st d; go st d d. Qed.
Lemma sum_SCc st d s : WF st -> Shape st -> pvalid st (SCc d s) = true -> Sum st (SCc d s) (fst (pexec st (SCc d s))).
Proof. intros W Sh V. start st V Sh. assert (Hds : d <> s) by lia. clear_case st d; go st d s. Qed.
Lemma sum_SMc st d s : WF st -> Shape st -> pvalid st (SMc d s) = true -> Sum st (SMc d s) (fst (pexec st (SMc d s))).
Proof. intros W Sh V. start st V Sh. assert (Hds : d <> s) by lia. clear_case st d; go st d s. Qed.
Lemma sum_SCa st d s : WF st -> Shape st -> pvalid st (SCa d s) = true -> Sum st (SCa d s) (fst (pexec st (SCa d s))).
Proof. intros W Sh V. start st V Sh. destruct (Nat.eq_dec s d) as [->|Hds]; [go st d d|go st d s]. Qed.
Lemma sum_SMa st d s : WF st -> Shape st -> pvalid st (SMa d s) = true -> Sum st (SMa d s) (fst (pexec st (SMa d s))).
Proof. intros W Sh V. start st V Sh. destruct (Nat.eq_dec s d) as [->|Hds]; [go st d d|go st d s]. Qed.
Lemma sum_SAn st d : WF st -> Shape st -> pvalid st (SAn d) = true -> Sum st (SAn d) (fst (pexec st (SAn d))).
Proof. intros W Sh V. start st V Sh. go st d d. Qed.
Lemma sum_SSwap st d s : WF st -> Shape st -> pvalid st (SSwap d s) = true -> Sum st (SSwap d s) (fst (pexec st (SSwap d s))).
Proof. intros W Sh V. start st V Sh. destruct (Nat.eq_dec s d) as [->|Hds]; [go st d d|go st d s]. Qed.
Lemma sum_SDel st d : WF st -> Shape st -> pvalid st (SDel d) = true -> Sum st (SDel d) (fst (pexec st (SDel d))).
Proof. intros W Sh V. start st V Sh. go st d d. Qed.
Lemma sum_SFromU st d s : WF st -> Shape st -> pvalid st (SFromU d s) = true -> Sum st (SFromU d s) (fst (pexec st (SFromU d s))).
Proof. intros W Sh V. start st V Sh. assert (Hds : d <> s) by lia. clear_case st d; go st d s. Qed.
