(* C20 proofs, part 2: frame lemmas of the primitives, then every public unique_ptr / shared_ptr
   operation preserves the invariant and has the effect on the ownership graph that Spec.ahs states. *)
From V Require Import C20.Spec C20.ProofsPtrBase.
From Coq Require Import Lia Arith PeanoNat.
Require Import ZifyBool.

Definition demote (v : hv) : hv := match v with Ptr _ => Null | x => x end.
Lemma nonptr_demote v : nonptr (demote v). Proof. now destruct v. Qed.
Lemma nonptr_null : nonptr Null. Proof. exact I. Qed.
Lemma nonptr_absent : nonptr Absent. Proof. exact I. Qed.

Lemma hs_delete st o : hs (delete_obj st o) = hs st.
Proof. unfold delete_obj. now destruct (o_alive (objs st o)). Qed.
Lemma hs_acquire st o : hs (sp_acquire st o) = hs st.
Proof. unfold sp_acquire. now destruct (o_ctl (objs st o)). Qed.
Lemma hs_release st o : hs (sp_release st o) = hs st.
Proof.
  unfold sp_release. destruct (o_ctl (objs st o)) as [[|n]|]; auto.
  destruct (Nat.eqb n 0); auto. now rewrite hs_delete.
Qed.

Lemma hs_seth st x v i : hs (seth st x v) i = upd (hs st) x v i. Proof. reflexivity. Qed.
Lemma hs_kill st x i : hs (h_kill st x) i = upd (hs st) x (demote (hs st x)) i.
Proof.
  unfold h_kill. destruct (hs st x) eqn:E; cbn [demote]; simp_st; try rewrite hs_delete; auto;
    unfold upd; destruct (Nat.eqb_spec i x); subst; auto.
Qed.
Lemma hs_drop st x i : hs (s_drop st x) i = upd (hs st) x (demote (hs st x)) i.
Proof.
  unfold s_drop. destruct (hs st x) eqn:E; cbn [demote]; simp_st; try rewrite hs_release; auto;
    unfold upd; destruct (Nat.eqb_spec i x); subst; auto.
Qed.
Lemma hs_share st d s i : hs (h_share st d s) i = upd (upd (hs st) d (nonabs (hs st s))) s Null i.
Proof. unfold h_share. destruct (hs st s); reflexivity. Qed.
Lemma hs_copy st d s i : hs (s_copy_to st d s) i = upd (hs st) d (nonabs (hs st s)) i.
Proof. unfold s_copy_to. destruct (hs st s); simp_st; try rewrite hs_acquire; reflexivity. Qed.
Lemma hs_new st x v i : hs (h_new st x v) i = upd (hs st) x (Ptr (nxt st)) i. Proof. reflexivity. Qed.

(* nxt *)
Lemma nxt_delete st o : nxt (delete_obj st o) = nxt st.
Proof. unfold delete_obj. now destruct (o_alive (objs st o)). Qed.
Lemma nxt_release st o : nxt (sp_release st o) = nxt st.
Proof.
  unfold sp_release. destruct (o_ctl (objs st o)) as [[|n]|]; auto.
  destruct (Nat.eqb n 0); auto. now rewrite nxt_delete.
Qed.
Lemma nxt_acquire st o : nxt (sp_acquire st o) = nxt st.
Proof. unfold sp_acquire. now destruct (o_ctl (objs st o)). Qed.
Lemma nxt_seth st x v : nxt (seth st x v) = nxt st. Proof. reflexivity. Qed.
Lemma nxt_move st d s : nxt (h_move st d s) = nxt st. Proof. reflexivity. Qed.
Lemma nxt_kill st x : nxt (h_kill st x) = nxt st.
Proof. unfold h_kill. destruct (hs st x); auto. simp_st. apply nxt_delete. Qed.
Lemma nxt_drop st x : nxt (s_drop st x) = nxt st.
Proof. unfold s_drop. destruct (hs st x); auto. simp_st. apply nxt_release. Qed.
Lemma nxt_share st d s : nxt (h_share st d s) = nxt st.
Proof. unfold h_share. now destruct (hs st s). Qed.
Lemma nxt_copy st d s : nxt (s_copy_to st d s) = nxt st.
Proof. unfold s_copy_to. destruct (hs st s); auto. simp_st. apply nxt_acquire. Qed.
Lemma nxt_new st x v : nxt (h_new st x v) = S (nxt st). Proof. reflexivity. Qed.

(* payload values *)
Definition val (st : pst) (o : nat) : Z := o_val (objs st o).
Lemma val_delete st o o' : val (delete_obj st o) o' = val st o'.
Proof.
  unfold delete_obj, val. destruct (o_alive (objs st o)); auto. simp_st.
  unfold upd. destruct (Nat.eqb_spec o' o); subst; auto.
Qed.
Lemma val_release st o o' : val (sp_release st o) o' = val st o'.
Proof.
  unfold sp_release. destruct (o_ctl (objs st o)) as [[|n]|]; auto.
  assert (E : val (seto st o (mkobj (o_alive (objs st o)) (Some n) (o_val (objs st o)))) o' = val st o').
  { unfold val. simp_st. unfold upd. destruct (Nat.eqb_spec o' o); subst; auto. }
  destruct (Nat.eqb n 0); auto. now rewrite val_delete.
Qed.
Lemma val_acquire st o o' : val (sp_acquire st o) o' = val st o'.
Proof.
  unfold sp_acquire, val. destruct (o_ctl (objs st o)); auto. simp_st.
  unfold upd. destruct (Nat.eqb_spec o' o); subst; auto.
Qed.
Lemma val_seth st x v o : val (seth st x v) o = val st o. Proof. reflexivity. Qed.
Lemma val_move st d s o : val (h_move st d s) o = val st o. Proof. reflexivity. Qed.
Lemma val_kill st x o : val (h_kill st x) o = val st o.
Proof. unfold h_kill. destruct (hs st x); auto. rewrite val_seth. apply val_delete. Qed.
Lemma val_drop st x o : val (s_drop st x) o = val st o.
Proof. unfold s_drop. destruct (hs st x); auto. rewrite val_seth. apply val_release. Qed.
Lemma val_share st d s o : val (h_share st d s) o = val st o.
Proof.
  unfold h_share. destruct (hs st s) as [| |x]; auto. unfold val. simp_st.
  unfold upd. destruct (Nat.eqb_spec o x); subst; auto.
Qed.
Lemma val_copy st d s o : val (s_copy_to st d s) o = val st o.
Proof. unfold s_copy_to. destruct (hs st s); auto. rewrite val_seth. apply val_acquire. Qed.
Lemma val_new st x v o : val (h_new st x v) o = upd (val st) (nxt st) v o.
Proof. unfold val, h_new. simp_st. unfold upd. destruct (Nat.eqb_spec o (nxt st)); auto. Qed.

(* the destruction log only grows *)
Definition lext (st st' : pst) : Prop := exists D, plog st' = plog st ++ D.
Lemma lext_refl st : lext st st. Proof. exists []. now rewrite app_nil_r. Qed.
Lemma lext_trans a b c : lext a b -> lext b c -> lext a c.
Proof. intros [D1 E1] [D2 E2]. exists (D1 ++ D2). now rewrite E2, E1, app_assoc. Qed.
Lemma lext_same st st' : plog st' = plog st -> lext st st'.
Proof. intros E. exists []. now rewrite app_nil_r. Qed.
Ltac lx := first [apply lext_refl | apply lext_same; reflexivity].
Lemma lext_delete st o : lext st (delete_obj st o).
Proof. unfold delete_obj. destruct (o_alive (objs st o)); [exists [o]; reflexivity|lx]. Qed.
Lemma lext_release st o : lext st (sp_release st o).
Proof.
  unfold sp_release. destruct (o_ctl (objs st o)) as [[|n]|]; try lx.
  destruct (Nat.eqb n 0); [|lx].
  eapply lext_trans; [|apply lext_delete]. lx.
Qed.
Lemma lext_acquire st o : lext st (sp_acquire st o).
Proof. unfold sp_acquire. destruct (o_ctl (objs st o)); lx. Qed.
Lemma lext_seth st x v : lext st (seth st x v). Proof. lx. Qed.
Lemma lext_move st d s : lext st (h_move st d s). Proof. lx. Qed.
Lemma lext_kill st x : lext st (h_kill st x).
Proof. unfold h_kill. destruct (hs st x); try lx. eapply lext_trans; [apply lext_delete|lx]. Qed.
Lemma lext_drop st x : lext st (s_drop st x).
Proof. unfold s_drop. destruct (hs st x); try lx. eapply lext_trans; [apply lext_release|lx]. Qed.
Lemma lext_share st d s : lext st (h_share st d s).
Proof. unfold h_share. destruct (hs st s); lx. Qed.
Lemma lext_copy st d s : lext st (s_copy_to st d s).
Proof. unfold s_copy_to. destruct (hs st s); try lx. eapply lext_trans; [apply lext_acquire|lx]. Qed.
Lemma lext_new st x v : lext st (h_new st x v). Proof. lx. Qed.

Global Hint Rewrite hs_seth hs_move hs_kill hs_drop hs_share hs_copy hs_new : hsdb.
Global Hint Rewrite nxt_seth nxt_move nxt_kill nxt_drop nxt_share nxt_copy nxt_new : nxtdb.
Global Hint Rewrite val_seth val_move val_kill val_drop val_share val_copy val_new : valdb.
Global Hint Resolve lext_seth lext_move lext_kill lext_drop lext_share lext_copy lext_new lext_refl : lextdb.

(* between public operations the temporaries are gone and the caller's raw pointers exist *)
Record Shape (st : pst) : Prop := {
  S_t1 : hs st T1 = Absent;
  S_t2 : hs st T2 = Absent;
  S_tr : hs st TR = Null;
  S_raw : forall r, rix r = true -> hs st r <> Absent
}.
Lemma Shape_init : Shape pinit.
Proof. constructor; try reflexivity. intros r H. cbn. unfold rix in H. unfold is_r. destruct (_ || _) eqn:E; [discriminate|lia]. Qed.

Lemma absent_of st d : hpresent (hs st) d = false -> hs st d = Absent.
Proof. unfold hpresent. destruct (hs st d); auto; discriminate. Qed.

(* writing the payload through a handle *)
Lemma WF_setval st d v : WF st -> d < NH -> WF (setval st d v).
Proof.
  intros W Hd. unfold setval. destruct (hs st d) as [| |o] eqn:E; auto.
  pose proof (WF_ptr_alive st d o W Hd E) as A. unfold alive in A. apply andb_prop in A as [A1 A2]. rewrite A2.
  constructor; simp_st; try apply W.
  - intros o'. rewrite (W_cnt st W). unfold want, alive, ctl. simp_st.
    destruct (Nat.eq_dec o' o) as [->|Hne]; [rewrite upd_same; simp_st; now rewrite A2|now rewrite upd_other].
  - intros o' A'. unfold alive, ctl in *. simp_st.
    destruct (Nat.eq_dec o' o) as [->|Hne]; [rewrite upd_same; simp_st; apply (W_pos st W o); unfold alive; now rewrite A1, A2|].
    rewrite !upd_other in * by auto. apply (W_pos st W o' A').
  - intros i o' Hi Ei. unfold ctl. simp_st.
    destruct (Nat.eq_dec o' o) as [->|Hne]; [rewrite upd_same|rewrite upd_other by auto]; simp_st; apply (W_kind st W i _ Hi Ei).
  - intros o'. rewrite (W_dead st W o').
    destruct (Nat.eq_dec o' o) as [->|Hne]; [rewrite upd_same; simp_st; split; intros [? ?]; congruence|now rewrite upd_other].
Qed.
Lemma hs_setval st d v : hs (setval st d v) = hs st.
Proof. unfold setval. destruct (hs st d); auto. now destruct (o_alive (objs st o)). Qed.
Lemma nxt_setval st d v : nxt (setval st d v) = nxt st.
Proof. unfold setval. destruct (hs st d); auto. now destruct (o_alive (objs st o)). Qed.
Lemma plog_setval st d v : plog (setval st d v) = plog st.
Proof. unfold setval. destruct (hs st d); auto. now destruct (o_alive (objs st o)). Qed.

(* What one public operation must establish (st' = state after it). *)
Record Sum (st : pst) (op : pop) (st' : pst) : Prop := {
  Q_wf : WF st'; Q_shape : Shape st'; Q_lext : lext st st';
  Q_hs : forall i, i < 10 -> hs st' i = ahs (hs st) (nxt st) op i;
  Q_nxt : nxt st' = anext (aexec (mkast (hs st) (val st) (nxt st)) op);
  Q_val : forall o, val st' o = aval (aexec (mkast (hs st) (val st) (nxt st)) op) o;
  Q_new : forall o, nxt st <= o < nxt st' -> alive st' o = true
}.

Ltac consts := unfold NH, TR, T1, T2, is_s, is_r, uix, six, rix in *.
Ltac eqb_lia :=
  unfold TR, T1, T2;
  repeat match goal with
  | |- context [Nat.eqb ?a ?b] =>
      first [ replace (Nat.eqb a b) with true by (symmetry; apply Nat.eqb_eq; lia)
            | replace (Nat.eqb a b) with false by (symmetry; apply Nat.eqb_neq; lia) ]
  end.
Ltac norm := repeat (progress (autorewrite with hsdb nxtdb; unfold upd; eqb_lia)).
Ltac lext_chain := repeat first [ apply lext_refl | (eapply lext_trans; [| first [apply lext_move | apply lext_kill | apply lext_seth | apply lext_drop | apply lext_share | apply lext_copy | apply lext_new]]) ].
Ltac split_valid V :=
  unfold pvalid, hvalid in V;
  repeat match type of V with (_ && _) = true => let V2 := fresh "V" in apply andb_prop in V as [V V2] end.
Ltac unf := repeat (progress unfold u_move_ctor, u_move_assign, u_reset, u_release, u_dtor, u_swap, s_copy_assign, s_move_assign, s_swap,
            s_move_to, s_dtor, s_reset, s_from_raw in * ).
Ltac wf_step := first [ apply WF_move | apply WF_kill | apply WF_mark | apply WF_new | apply WF_share | apply WF_copy | apply WF_drop ].
Ltac simp_hv := cbn [nonptr nonabs demote] in *.
Ltac use_hs := repeat match goal with H : hs _ _ = _ |- _ => rewrite H end.
Ltac side :=
  match goal with
  | |- _ < _ => consts; lia
  | |- @eq bool _ _ => consts; lia
  | |- nonptr _ => norm; use_hs; simp_hv; first [ exact I | apply nonptr_demote | idtac ]
  | _ => idtac
  end.
Ltac wf_chain := repeat wf_step; auto; side.
Ltac contra_present :=
  unfold hpresent in *;
  repeat match goal with H : hs ?st ?x = _, H2 : context [hs ?st ?x] |- _ => rewrite H in H2 end; discriminate.
Ltac close_hv st :=
  use_hs; simp_hv; try reflexivity; try congruence;
  repeat match goal with |- context [hs st ?x] => destruct (hs st x) eqn:? end; simp_hv; try reflexivity; try congruence;
  try contra_present.

Ltac sum_rest st d s :=
  constructor;
  [ assumption
  | constructor; [| | |intros r Hr; consts]; norm; use_hs; simp_hv; auto; try congruence;
    repeat match goal with |- context [Nat.eqb ?a ?b] => destruct (Nat.eqb_spec a b) end; auto; close_hv st
  | lext_chain
  | intros i Hi; cbn [ahs]; unfold transfer;
    destruct (Nat.eq_dec i d) as [->|Hid]; [|destruct (Nat.eq_dec i s) as [->|His]]; norm; close_hv st
  | autorewrite with nxtdb; reflexivity
  | intros o; repeat (progress (autorewrite with valdb nxtdb; unfold upd)); cbn [aexec aval]; unfold upd; use_hs; try reflexivity
  | intros o Ho; autorewrite with nxtdb in Ho; try lia;
    try (assert (o = nxt st) by lia; subst o; apply (WF_ptr_alive _ d); [auto | consts; lia | norm; reflexivity]) ].

Ltac start st V Sh := split_valid V; destruct Sh as [St1 St2 Str Sraw]; cbn [pexec fst]; unf; consts.
Ltac go st d s := match goal with |- Sum _ _ ?x => assert (WF' : WF x) by wf_chain end; sum_rest st d s.
Ltac clear_case st d := unfold u_clear, s_clear, present; destruct (hpresent (hs st) d) eqn:Pd; [|apply absent_of in Pd]; unf.
Global Opaque h_move h_kill h_share s_copy_to s_drop h_new.
