(* C20 proofs, part 10: model_meets_spec at the level of the extracted entry points: for every case line
   that parses, run_spec applied to run_model's observation reports no failed clause. *)
From V Require Import C20.Glue C20.ProofsPtrBase C20.ProofsPtrOps C20.ProofsPtr C20.ProofsPtrSpec C20.ProofsSV C20.ProofsSVSpec C20.ProofsVar C20.ProofsChain.
From Coq Require Import Lia Arith PeanoNat.
Require Import ZifyBool ZifyNat ZifyN.

Lemma split_join segs : segs <> [] -> Forall (nosep ";") segs -> split_toks ";" (join_segs segs) = segs.
Proof.
  induction segs as [|s segs IH]; intros N F; [congruence|]. inversion F as [|? ? Fs Fr]; subst.
  destruct segs as [|s2 rest].
  - cbn [join_segs]. now apply split_nosep.
  - change (join_segs (s :: s2 :: rest)) with (s ++ tag ";" :: join_segs (s2 :: rest)).
    rewrite split_app by (auto; reflexivity). f_equal. apply IH; [discriminate|auto].
Qed.

Lemma nosemi_num {A} (f : A -> tok) l : (forall x, exists z, f x = TZ z) -> nosep ";" (map f l).
Proof. apply nosep_map_num. Qed.

Lemma nosemi_pstep st op : nosep ";" (snd (pstep st op)).
Proof.
  unfold pstep. destruct (pvalid st op); [|reflexivity].
  destruct op; cbn [pexec snd]; try reflexivity.
  all: unfold deref; destruct (hs st d); try reflexivity; destruct (o_alive (objs st o)); reflexivity.
Qed.
Lemma nosemi_pobs st st' res : nosep ";" res -> nosep ";" (pobs st st' res).
Proof.
  intros R. unfold pobs. apply nosep_app; [exact R|]. apply nosep_app; [reflexivity|].
  apply nosep_app; [apply nosemi_num, tnat_num|]. apply nosep_app; [reflexivity|].
  apply nosep_app; [apply nosemi_num; intros; apply hv_tok_num|]. destruct (bad st'); reflexivity.
Qed.
Lemma nosemi_prun ops : forall st, Forall (nosep ";") (prun st ops).
Proof.
  induction ops as [|op ops IH]; intros st; cbn [prun].
  - constructor; [apply nosemi_pobs; reflexivity|constructor].
  - pose proof (nosemi_pstep st op) as P. destruct (pstep st op) as [st' res]. constructor; [apply nosemi_pobs; exact P|apply IH].
Qed.

Lemma nosemi_vval v : nosep ";" (vval_toks v). Proof. destruct v; reflexivity. Qed.
Lemma nosemi_vstep st op : nosep ";" (snd (vstep st op)).
Proof.
  unfold vstep. destruct (vvalid op); [|reflexivity].
  destruct op; cbn [vexec snd]; try reflexivity.
  - unfold vget. destruct (_ && _); cbn [option_map opt_toks]; [apply nosemi_vval|reflexivity].
  - unfold vget. destruct (_ && _); cbn [option_map opt_toks]; [apply nosemi_vval|reflexivity].
  - destruct (st d); reflexivity.
  - destruct (st d), (st s); reflexivity.
Qed.
Lemma nosemi_vrun ops : forall st, Forall (nosep ";") (vrun st ops).
Proof.
  induction ops as [|op ops IH]; intros st; cbn [vrun]; [constructor|].
  pose proof (nosemi_vstep st op) as P. destruct (vstep st op) as [st' res]. constructor; [|apply IH].
  unfold vobs. apply nosep_app; [exact P|]. apply nosep_app; [reflexivity|]. apply nosep_flat_vval. apply nosemi_vval.
Qed.
Lemma nosemi_fcall st t a b : nosep ";" (snd (fcall_via st t a b)).
Proof.
  unfold fcall_via. destruct t as [k|]; [|reflexivity]. destruct (fcallable k); [|reflexivity].
  destruct (fapply st k a b); reflexivity.
Qed.
Lemma nosemi_frun ops : forall st, Forall (nosep ";") (frun st ops).
Proof.
  induction ops as [|op ops IH]; intros st; cbn [frun]; [constructor|].
  assert (P : nosep ";" (snd (fexec st op))).
  { destruct op; cbn [fexec]; try apply nosemi_fcall; try reflexivity.
    - destruct (Nat.ltb k 5); reflexivity.
    - unfold fbool_via. destruct (f_bound st); reflexivity.
    - destruct (f_bound st); [destruct (Nat.ltb m 3)|]; reflexivity.
    - unfold fbool_via. destruct (f_copy st); reflexivity. }
  destruct (fexec st op) as [st' res]. constructor; [|apply IH].
  unfold fobs. apply nosep_app; [exact P|reflexivity].
Qed.
Lemma nosemi_crun sh ops : forall st, Forall (nosep ";") (crun sh st ops).
Proof.
  assert (O : forall st st' res, nosep ";" res -> nosep ";" (cobs st st' res)).
  { intros st st' res R. unfold cobs. apply nosep_app; [exact R|]. apply nosep_app; [reflexivity|].
    apply nosep_app; [apply nosemi_num, tnat_num|]. apply nosep_app; [reflexivity|].
    apply nosep_app; [apply nosemi_num, tnat_num|]. apply nosep_app; [reflexivity|apply nosemi_num, tnat_num]. }
  induction ops as [|op ops IH]; intros st; cbn [crun].
  - constructor; [apply O; reflexivity|constructor].
  - assert (P : nosep ";" (snd (cstep sh st op))) by (unfold cstep; destruct (cvalid sh st op); reflexivity).
    destruct (cstep sh st op) as [st' res]. constructor; [apply O; exact P|apply IH].
Qed.

Lemma Forall_snoc {A} (P : A -> Prop) l x : Forall P l -> P x -> Forall P (l ++ [x]).
Proof. intros. apply Forall_app. split; auto. Qed.

Definition wf_case (c : case) : Prop :=
  match c with
  | CSV s => (len (sv_a s) < npos)%N
  | CSP s => sp_wf s = true                                   (* parse_sp only returns such spans *)
  | CCONV k => match nth_error conv_table k with
               | Some (alts, arg) => arg = CCStr -> In CCStr alts      (* outside finding F24 *)
               | None => False
               end
  | _ => True
  end.

Theorem model_meets_spec_all : forall l c, parse_case l = Some c -> wf_case c -> run_spec l (run_model l) = [].
Proof.
  intros l c P Wc. unfold run_spec, run_model. rewrite P. destruct c as [s|s|ops|ops|ops|sh ops|k].
  - now apply model_meets_spec_sv.
  - now apply model_meets_spec_sp.
  - rewrite split_join; [apply model_meets_spec_pt|destruct (prun pinit ops); discriminate|].
    apply Forall_snoc; [apply nosemi_prun|reflexivity].
  - rewrite split_join; [apply model_meets_spec_vr|destruct (vrun vinit ops); discriminate|].
    apply Forall_snoc; [apply nosemi_vrun|reflexivity].
  - rewrite split_join; [apply model_meets_spec_fr|destruct (frun finit ops); discriminate|].
    apply Forall_snoc; [apply nosemi_frun|reflexivity].
  - rewrite split_join; [apply model_meets_spec_ch|destruct (crun sh cinit ops); discriminate|].
    apply Forall_snoc; [apply nosemi_crun|reflexivity].
  - cbn [wf_case] in Wc. destruct (nth_error conv_table k) as [[alts arg]|] eqn:E; [|contradiction].
    eapply variant_conv_partial; eauto.
Qed.

(* hashing consistent with equality: the hash specialisation hashes the bytes of the view, so whatever
   byte-string hash is used, keys that compare equal hash equally *)
Lemma hash_respects_eq_all : forall (h : bytes -> N) a b, sv_eq a b = true -> h a = h b.
Proof. intros h a b E. apply sv_eq_iff in E. now subst. Qed.
Example hash_respects_eq_nonvacuous : sv_eq [x61; x00; x62] [x61; x00; x62] = true /\ sv_eq [x61; x00] [x61] = false.
Proof. split; reflexivity. Qed.
Example model_meets_spec_nonvacuous :
  parse_case [tag "PT"; tag "snew"; TZ 4; TZ 1; tag ";"; tag "sca"; TZ 4; TZ 4] =
    Some (CPT [SNew 4 1; SCa 4 4]) /\ wf_case (CPT [SNew 4 1; SCa 4 4]) /\
  (exists c, parse_case [tag "SV"; TB [x61]; TB [x62]; TZ 0; TZ 1; TZ 0; TZ 0; TZ 97] = Some (CSV c) /\ wf_case (CSV c)).
Proof. repeat split. eexists. split; [reflexivity|]. cbn. reflexivity. Qed.
