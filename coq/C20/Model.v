(* MODEL of the nostd vocabulary types (api/include/opentelemetry/nostd/{string_view,span,
   unique_ptr,shared_ptr,function_ref,variant}.h, WITH_STL=OFF).  Executable definitions only.
   Every definition mirrors what the C++ does (field by field, statement by statement), not what
   the std type is specified to do; Spec.v states the latter. *)
From V Require Export Base.Bytes.
Local Open Scope N_scope.

(* ------------------------------------------------------------------ string_view *)

Definition npos : N := 18446744073709551615.          (* static_cast<size_type>(-1) *)
Definition len (s : bytes) : N := N.of_nat (length s).
Definition sgn (z : Z) : Z := Z.sgn z.

(* Traits::compare(p, q, n): memcmp on unsigned bytes over the first n positions (sign only) *)
Fixpoint memcmp (a b : bytes) (n : nat) : Z :=
  match n with
  | O => 0%Z
  | S n' =>
      match a, b with
      | x :: a', y :: b' =>
          if b2n x <? b2n y then (-1)%Z else if b2n y <? b2n x then 1%Z else memcmp a' b' n'
      | _, _ => 0%Z
      end
  end.

(* string_view::compare(string_view) *)
Definition sv_compare (a b : bytes) : Z :=
  let r := memcmp a b (Nat.min (length a) (length b)) in
  if Z.eqb r 0
  then (if Nat.eqb (length a) (length b) then 0 else if Nat.ltb (length a) (length b) then -1 else 1)%Z
  else r.

(* std::equal(lhs.begin, lhs.end, rhs.begin) *)
Fixpoint equal_range (a b : bytes) : bool :=
  match a with
  | [] => true
  | x :: a' => match b with y :: b' => Byte.eqb x y && equal_range a' b' | [] => false end
  end.
Definition sv_eq (a b : bytes) : bool := Nat.eqb (length a) (length b) && equal_range a b.
Definition sv_lt (a b : bytes) : bool := Z.ltb (sv_compare a b) 0.
Definition sv_gt (a b : bytes) : bool := Z.ltb 0 (sv_compare a b).

(* string_view::substr: None = std::out_of_range thrown *)
Definition sv_substr (s : bytes) (pos n : N) : option bytes :=
  if len s <? pos then None
  else Some (firstn (N.to_nat (N.min n (len s - pos))) (skipn (N.to_nat pos) s)).

(* string_view::find(char, pos) *)
Definition sv_find (s : bytes) (ch : byte) (pos : N) : N :=
  if pos <? len s then
    match index_of ch (skipn (N.to_nat pos) s) with
    | Some i => pos + N.of_nat i
    | None => npos
    end
  else npos.

Definition sv_compare3 (a : bytes) (p1 n1 : N) (b : bytes) : option Z :=
  match sv_substr a p1 n1 with Some x => Some (sv_compare x b) | None => None end.
Definition sv_compare5 (a : bytes) (p1 n1 : N) (b : bytes) (p2 n2 : N) : option Z :=
  match sv_substr a p1 n1 with
  | Some x => match sv_substr b p2 n2 with Some y => Some (sv_compare x y) | None => None end
  | None => None
  end.

(* string_view(const char ptr): strlen *)
Fixpoint cstr (s : bytes) : bytes :=
  match s with
  | [] => []
  | b :: s' => if Byte.eqb b x00 then [] else b :: cstr s'
  end.

(* operator[] (unchecked in the code; the driver only indexes inside) *)
Definition sv_at (s : bytes) (i : N) : option byte := if i <? len s then nth_error s (N.to_nat i) else None.

(* ------------------------------------------------------------------ span *)

(* a span is (data_ = base + off, extent_ = cnt) over a buffer; element i is buffer[off + i] *)
Definition sp_get (buf : bytes) (off i : nat) : byte := nth (off + i) buf x00.
Definition sp_elems (buf : bytes) (off cnt : nat) : bytes := map (sp_get buf off) (seq 0 cnt).
Fixpoint set_nth (l : bytes) (i : nat) (v : byte) : bytes :=
  match l with
  | [] => []
  | x :: l' => match i with O => v :: l' | S i' => x :: set_nth l' i' v end
  end.
(* s[i] = v through a span<uint8_t> *)
Definition sp_write (buf : bytes) (off i : nat) (v : byte) : bytes := set_nth buf (off + i) v.
(* span<T, Extent>(ptr, count): std::terminate unless count = Extent *)
Definition sp_fixed_ok (extent cnt : nat) : bool := Nat.eqb cnt extent.

(* ------------------------------------------------------------------ unique_ptr / shared_ptr *)

(* Handle table: unique_ptr slots 0..3, shared_ptr slots 4..7, raw pointers kept by the caller 8..9,
   temporaries of the shared_ptr member functions 10 (tmp of operator=) and 11 (tmp of swap), and 12 = the raw
   pointer value in flight between release() and reset(p) / a constructor argument. *)
Inductive hv := Absent | Null | Ptr (o : nat).
Definition NH : nat := 13.
Definition T1 : nat := 10.
Definition T2 : nat := 11.
Definition TR : nat := 12.
Definition is_s (i : nat) : bool := (Nat.leb 4 i && Nat.ltb i 8) || Nat.eqb i 10 || Nat.eqb i 11.
Definition is_r (i : nat) : bool := (Nat.leb 8 i && Nat.ltb i 10) || Nat.eqb i 12.

Record obj := mkobj { o_alive : bool; o_ctl : option nat (* control block use count *); o_val : Z }.
Record pst := mkpst { hs : nat -> hv; objs : nat -> obj; nxt : nat; plog : list nat; bad : bool }.

Definition upd {A} (f : nat -> A) (i : nat) (v : A) : nat -> A := fun j => if Nat.eqb j i then v else f j.
Definition dead_obj : obj := mkobj false None 0.
Definition pinit : pst :=
  mkpst (fun i => if is_r i then Null else Absent) (fun _ => dead_obj) 0 [] false.

Definition seth (st : pst) (i : nat) (v : hv) : pst := mkpst (upd (hs st) i v) (objs st) (nxt st) (plog st) (bad st).
Definition seto (st : pst) (o : nat) (x : obj) : pst := mkpst (hs st) (upd (objs st) o x) (nxt st) (plog st) (bad st).
Definition set_bad (st : pst) : pst := mkpst (hs st) (objs st) (nxt st) (plog st) true.
Definition nonabs (v : hv) : hv := match v with Ptr o => Ptr o | _ => Null end.

(* x = new Obj(v) *)
Definition h_new (st : pst) (x : nat) (v : Z) : pst :=
  mkpst (upd (hs st) x (Ptr (nxt st))) (upd (objs st) (nxt st) (mkobj true None v)) (S (nxt st)) (plog st) (bad st).

(* delete p : a second delete of the same object is the double free ASan would report *)
Definition delete_obj (st : pst) (o : nat) : pst :=
  let x := objs st o in
  if o_alive x
  then mkpst (hs st) (upd (objs st) o (mkobj false (o_ctl x) (o_val x))) (nxt st) (plog st ++ [o]) (bad st)
  else set_bad st.

(* std::shared_ptr control block *)
Definition sp_acquire (st : pst) (o : nat) : pst :=
  let x := objs st o in
  match o_ctl x with
  | Some n => seto st o (mkobj (o_alive x) (Some (S n)) (o_val x))
  | None => set_bad st
  end.
Definition sp_release (st : pst) (o : nat) : pst :=
  let x := objs st o in
  match o_ctl x with
  | Some (S n) =>
      let st' := seto st o (mkobj (o_alive x) (Some n) (o_val x)) in
      if Nat.eqb n 0 then delete_obj st' o else st'
  | _ => set_bad st
  end.

(* dst = std::move(src) for a pointer-like field whose previous content is NOT released first (a raw pointer
   assignment, or placement-new of a wrapper from std::move(ptr_)); with dst = src the result is null *)
Definition h_move (st : pst) (dst src : nat) : pst :=
  let v := nonabs (hs st src) in seth (seth st dst v) src Null.
(* if (ptr_ != nullptr) delete ptr_;   (ptr_ is overwritten right after) *)
Definition h_kill (st : pst) (x : nat) : pst :=
  match hs st x with
  | Ptr o => seth (delete_obj st o) x Null
  | _ => st
  end.
(* std::shared_ptr<T> p(raw): a control block with use count 1 takes over the raw pointer *)
Definition h_share (st : pst) (dst src : nat) : pst :=
  match hs st src with
  | Ptr o => let x := objs st o in
             seth (seth (seto st o (mkobj (o_alive x) (Some 1%nat) (o_val x))) dst (Ptr o)) src Null
  | _ => seth (seth st dst Null) src Null
  end.

(* --- unique_ptr.h  (TR holds the value returned by release() / passed to reset(p)) *)
Definition u_release (st : pst) (d : nat) : pst := h_move st TR d.             (* result = ptr_; ptr_ = nullptr *)
Definition u_reset (st : pst) (d : nat) : pst := h_move (h_kill st d) d TR.   (* if (ptr_) delete ptr_; ptr_ = p *)
Definition u_dtor (st : pst) (d : nat) : pst := seth (u_reset st d) d Absent.
Definition u_move_ctor (st : pst) (d s : nat) : pst := h_move (u_release st s) d TR.
Definition u_move_assign (st : pst) (d s : nat) : pst := u_reset (u_release st s) d.
Definition u_swap (st : pst) (d s : nat) : pst := h_move (h_move (h_move st TR d) d s) s TR.

(* --- shared_ptr.h : the wrapper in the placement buffer holds a std::shared_ptr *)
(* CopyTo(buffer): placement-new a copy of the wrapper (nothing is destroyed in the buffer first) *)
Definition s_copy_to (st : pst) (dst src : nat) : pst :=
  match hs st src with
  | Ptr o => seth (sp_acquire st o) dst (Ptr o)
  | _ => seth st dst Null
  end.
(* MoveTo(buffer): placement-new a wrapper from std::move(ptr_) (nothing destroyed first) *)
Definition s_move_to (st : pst) (dst src : nat) : pst := h_move st dst src.
(* ptr_.reset() / ~std::shared_ptr *)
Definition s_drop (st : pst) (x : nat) : pst :=
  match hs st x with
  | Ptr o => seth (sp_release st o) x Null
  | _ => st
  end.
Definition s_dtor (st : pst) (x : nat) : pst := seth (s_drop st x) x Absent.
Definition s_reset (st : pst) (x : nat) : pst := s_drop st x.                  (* operator=(nullptr_t) *)
(* this->swap(other): tmp{move(other)}; wrapper().MoveTo(other.buffer_); tmp.wrapper().MoveTo(buffer_); ~tmp *)
Definition s_swap (st : pst) (this other : nat) : pst :=
  let st1 := s_move_to st T2 other in
  let st2 := s_move_to st1 other this in
  let st3 := s_move_to st2 this T2 in
  s_dtor st3 T2.
(* operator=(const shared_ptr&): tmp{other}; swap(tmp); ~tmp      (as repaired by fe06a79) *)
Definition s_copy_assign (st : pst) (d s : nat) : pst :=
  let st1 := s_copy_to st T1 s in
  let st2 := s_swap st1 d T1 in
  s_dtor st2 T1.
(* operator=(shared_ptr&&): tmp{move(other)}; swap(tmp); ~tmp *)
Definition s_move_assign (st : pst) (d s : nat) : pst :=
  let st1 := s_move_to st T1 s in
  let st2 := s_swap st1 d T1 in
  s_dtor st2 T1.
(* shared_ptr(pointer) / shared_ptr(unique_ptr&&): std::shared_ptr<T> ptr_(raw) moved into the wrapper *)
Definition s_from_raw (st : pst) (d : nat) : pst := h_share st d TR.

(* public operations of one lock-step case *)
Inductive pop :=
| UNew (d : nat) (v : Z) | UNull (d : nat) | UMc (d s : nat) | UMa (d s : nat) | UAn (d : nat)
| URst (d : nat) | URstN (d : nat) (v : Z) | URel (d r : nat) | UAdopt (d r : nat) | USwap (d s : nat)
| UDel (d : nat) | UVal (d : nat) | USetV (d : nat) (v : Z) | UEq (d s : nat) | UStd (d : nat)
| SNew (d : nat) (v : Z) | SNull (d : nat) | SCc (d s : nat) | SMc (d s : nat) | SCa (d s : nat)
| SMa (d s : nat) | SAn (d : nat) | SSwap (d s : nat) | SDel (d : nat) | SVal (d : nat)
| SSetV (d : nat) (v : Z) | SEq (d s : nat) | SFromU (d s : nat) | SFromStd (d : nat) (v : Z).

Definition hpresent (h : nat -> hv) (i : nat) : bool := match h i with Absent => false | _ => true end.
Definition present (st : pst) (i : nat) : bool := hpresent (hs st) i.
Definition uix (d : nat) : bool := Nat.ltb d 4.
Definition six (d : nat) : bool := Nat.leb 4 d && Nat.ltb d 8.
Definition rix (d : nat) : bool := Nat.leb 8 d && Nat.ltb d 10.

(* can the harness perform the operation?  (operands exist; constructors need a distinct source) *)
Definition hvalid (h : nat -> hv) (op : pop) : bool :=
  match op with
  | UNew d _ | UNull d => uix d
  | UMc d s => uix d && uix s && negb (Nat.eqb d s) && hpresent h s
  | UMa d s | USwap d s | UEq d s => uix d && uix s && hpresent h d && hpresent h s
  | UAn d | URst d | URstN d _ | UDel d | UVal d | USetV d _ | UStd d => uix d && hpresent h d
  | URel d r | UAdopt d r => uix d && rix r && hpresent h d
  | SNew d _ | SNull d | SFromStd d _ => six d
  | SCc d s | SMc d s => six d && six s && negb (Nat.eqb d s) && hpresent h s
  | SCa d s | SMa d s | SSwap d s | SEq d s => six d && six s && hpresent h d && hpresent h s
  | SAn d | SDel d | SVal d | SSetV d _ => six d && hpresent h d
  | SFromU d s => six d && uix s && hpresent h s
  end.
Definition pvalid (st : pst) (op : pop) : bool := hvalid (hs st) op.

(* destroy whatever handle occupies a slot that is about to be constructed afresh *)
Definition u_clear (st : pst) (d : nat) : pst := if present st d then u_dtor st d else st.
Definition s_clear (st : pst) (d : nat) : pst := if present st d then s_dtor st d else st.

Definition deref (st : pst) (d : nat) : pst * list tok :=
  match hs st d with
  | Ptr o => if o_alive (objs st o) then (st, [TZ (o_val (objs st o))]) else (set_bad st, [tag "DEAD"])
  | _ => (st, [tag "null"])
  end.
Definition setval (st : pst) (d : nat) (v : Z) : pst :=
  match hs st d with
  | Ptr o => let x := objs st o in
             if o_alive x then seto st o (mkobj true (o_ctl x) v) else set_bad st
  | _ => st
  end.
Definition ptr_eq (a b : hv) : bool :=
  match a, b with
  | Ptr x, Ptr y => Nat.eqb x y
  | Ptr _, _ | _, Ptr _ => false
  | _, _ => true
  end.
Definition is_null (a : hv) : bool := match a with Ptr _ => false | _ => true end.

Definition pexec (st : pst) (op : pop) : pst * list tok :=
  match op with
  | UNew d v => (h_move (h_new (u_clear st d) TR v) d TR, [])             (* unique_ptr(pointer) : ptr_{ptr} *)
  | UNull d => (seth (u_clear st d) d Null, [])
  | UMc d s => (u_move_ctor (u_clear st d) d s, [])
  | UMa d s => (u_move_assign st d s, [])
  | UAn d | URst d => (u_reset st d, [])                                  (* reset(nullptr) *)
  | URstN d v => (u_reset (h_new st TR v) d, [])
  | URel d r =>
      (* the caller deletes what it still held in raw[r], then keeps d.release() there *)
      (h_move (u_release (h_kill st r) d) r TR, [])
  | UAdopt d r => (u_reset (h_move st TR r) d, [])                        (* p = raw[r]; raw[r] = nullptr; d.reset(p) *)
  | USwap d s => (u_swap st d s, [])
  | UDel d => (u_dtor st d, [])
  | UVal d | SVal d => deref st d
  | USetV d v | SSetV d v => (setval st d v, [])
  | UEq d s | SEq d s => (st, [tbool (ptr_eq (hs st d) (hs st s)); tbool (is_null (hs st d));
                            tbool (negb (ptr_eq (hs st d) (hs st s))); tbool (negb (is_null (hs st d)))])
  | UStd d => (u_reset (u_release st d) d, [])                            (* through a std::unique_ptr and back *)
  | SNew d v | SFromStd d v => (s_from_raw (h_new (s_clear st d) TR v) d, [])
  | SNull d => (seth (s_clear st d) d Null, [])
  | SCc d s => (s_copy_to (s_clear st d) d s, [])
  | SMc d s => (s_move_to (s_clear st d) d s, [])
  | SCa d s => (s_copy_assign st d s, [])
  | SMa d s => (s_move_assign st d s, [])
  | SAn d => (s_reset st d, [])
  | SSwap d s => (s_swap st d s, [])
  | SDel d => (s_dtor st d, [])
  | SFromU d s => (s_from_raw (u_release (s_clear st d) s) d, [])
  end.

Definition pstep (st : pst) (op : pop) : pst * list tok :=
  if pvalid st op then pexec st op else (st, [tag "skip"]).

(* end of the case: every handle is destroyed, the caller deletes its raw pointers *)
Definition teardown (st : pst) : pst :=
  let st1 := fold_left (fun s d => u_clear s d) [0; 1; 2; 3]%nat st in
  let st2 := fold_left (fun s d => s_clear s d) [4; 5; 6; 7]%nat st1 in
  fold_left (fun s r => h_kill s r) [8; 9]%nat st2.

Definition live_count (st : pst) : nat :=
  length (filter (fun o => o_alive (objs st o)) (seq 0 (nxt st))).

Definition hv_tok (v : hv) : tok :=
  match v with Absent => TZ (-2) | Null => TZ (-1) | Ptr o => tnat o end.

(* observation after one operation: result, objects destroyed by it (in order), live instances, handles *)
Definition pobs (st st' : pst) (res : list tok) : list tok :=
  res ++ [tag "D"] ++ map tnat (skipn (length (plog st)) (plog st')) ++
  [tag "L"; tnat (live_count st'); tag "H"] ++ map (fun i => hv_tok (hs st' i)) (seq 0 10) ++
  (if bad st' then [tag "UB"] else []).

Fixpoint prun (st : pst) (ops : list pop) : list (list tok) :=
  match ops with
  | [] => let st' := teardown st in [pobs st st' [tag "end"]]
  | op :: ops' => let (st', res) := pstep st op in pobs st st' res :: prun st' ops'
  end.

(* ------------------------------------------------------------------ variant *)

(* nostd::variant<monostate, bool, int64_t, std::string, Counted, Thrower> *)
Inductive vval := VMono | VBool (b : bool) | VInt (z : Z) | VStr (s : bytes) | VCnt (z : Z) | VNone (* valueless_by_exception *).
Definition vindex (v : vval) : Z :=
  match v with VMono => 0 | VBool _ => 1 | VInt _ => 2 | VStr _ => 3 | VCnt _ => 4 | VNone => -1 end%Z.
Definition vval_toks (v : vval) : list tok :=
  match v with
  | VMono => [TZ 0; tag "m"]
  | VBool b => [TZ 1; tbool b]
  | VInt z => [TZ 2; TZ z]
  | VStr s => [TZ 3; TB s]
  | VCnt z => [TZ 4; TZ z]
  | VNone => [TZ (-1); tag "v"]
  end.
(* what a moved-from alternative looks like (std::string: empty; Counted: -1) *)
Definition moved_from (v : vval) : vval :=
  match v with VStr _ => VStr [] | VCnt _ => VCnt (-1) | x => x end.
Definition vholds (v : vval) (i : Z) : bool := Z.eqb (vindex v) i.
(* get<I>: None = bad_variant_access *)
Definition vget (v : vval) (i : Z) : option vval := if vholds v i && negb (Z.eqb i (-1)) then Some v else None.
(* visit with the rendering visitor: the overload selected by the held alternative *)
Definition vvisit {R} (fm : R) (fb : bool -> R) (fi : Z -> R) (fs : bytes -> R) (fc : Z -> R) (v : vval) : option R :=
  match v with
  | VMono => Some fm | VBool b => Some (fb b) | VInt z => Some (fi z) | VStr s => Some (fs s) | VCnt z => Some (fc z)
  | VNone => None
  end.
Definition render (v : vval) : option (list tok) :=
  vvisit [tag "mono"] (fun b => [tag "bool"; tbool b]) (fun z => [tag "int"; TZ z]) (fun s => [tag "str"; TB s])
         (fun z => [tag "cnt"; TZ z]) v.

Definition bool_lt (a b : bool) : bool := negb a && b.
Definition str_lt (a b : bytes) : bool := Z.ltb (sv_compare a b) 0.   (* char_traits<char>::compare *)
(* operator== / operator< of variant *)
Definition v_eq (a b : vval) : bool :=
  match a, b with
  | VNone, VNone | VMono, VMono => true
  | VBool x, VBool y => Bool.eqb x y
  | VInt x, VInt y | VCnt x, VCnt y => Z.eqb x y
  | VStr x, VStr y => bytes_eqb x y
  | _, _ => false
  end.
Definition v_lt (a b : vval) : bool :=
  match b with
  | VNone => false
  | _ => match a with
         | VNone => true
         | _ => if Z.ltb (vindex a) (vindex b) then true
                else if Z.ltb (vindex b) (vindex a) then false
                else match a, b with
                     | VBool x, VBool y => bool_lt x y
                     | VInt x, VInt y | VCnt x, VCnt y => Z.ltb x y
                     | VStr x, VStr y => str_lt x y
                     | _, _ => false
                     end
         end
  end.

Definition mkval (i : Z) (t : tok) : option vval :=
  match i, t with
  | 0%Z, _ => Some VMono
  | 1%Z, TZ z => Some (VBool (negb (Z.eqb z 0)))
  | 2%Z, TZ z => Some (VInt z)
  | 3%Z, TB s => Some (VStr s)
  | 4%Z, TZ z => Some (VCnt z)
  | _, _ => None
  end.

Inductive vop :=
| VSet (d : nat) (x : vval)        (* v = T(x)           converting assignment *)
| VEmp (d : nat) (x : vval)        (* v.emplace<I>(x)    *)
| VEmpThrow (d : nat)              (* v.emplace<Thrower>(...) throws *)
| VCp (d s : nat) | VMv (d s : nat) | VSwap (d s : nat) | VCc (d s : nat) | VMc (d s : nat)
| VIdx (d : nat) | VHolds (d : nat) (i : Z) | VGet (d : nat) (i : Z) | VGetIf (d : nat) (i : Z)
| VVis (d : nat) | VVis2 (d s : nat) | VCmp (d s : nat)
| VSelf (d : nat).                (* v = get<index>(v): assignment from a reference to its own held value *)

Definition NV : nat := 3.
Definition vst := nat -> vval.
Definition vinit : vst := fun _ => VMono.
Definition vvalid (op : vop) : bool :=
  match op with
  | VSet d _ | VEmp d _ | VEmpThrow d | VIdx d | VHolds d _ | VGet d _ | VGetIf d _ | VVis d | VSelf d => Nat.ltb d NV
  | VCp d s | VSwap d s | VVis2 d s | VCmp d s => Nat.ltb d NV && Nat.ltb s NV
  | VMv d s | VCc d s | VMc d s => Nat.ltb d NV && Nat.ltb s NV && negb (Nat.eqb d s)
  end.
Definition opt_toks (o : option (list tok)) (dflt : string) : list tok :=
  match o with Some l => l | None => [tag dflt] end.
Definition vexec (st : vst) (op : vop) : vst * list tok :=
  match op with
  | VSet d x | VEmp d x => (upd st d x, [])
  | VEmpThrow d => (upd st d VNone, [])
  | VCp d s | VCc d s => (upd st d (st s), [])
  | VMv d s | VMc d s => (upd (upd st d (st s)) s (moved_from (st s)), [])
  | VSwap d s => (upd (upd st d (st s)) s (st d), [])
  | VSelf d => (st, [])
  | VIdx d => (st, [TZ (vindex (st d)); tbool (Z.eqb (vindex (st d)) (-1))])
  | VHolds d i => (st, [tbool (vholds (st d) i)])
  | VGet d i => (st, opt_toks (option_map vval_toks (vget (st d) i)) "BAD")
  | VGetIf d i => (st, opt_toks (option_map vval_toks (vget (st d) i)) "nil")
  | VVis d => (st, opt_toks (render (st d)) "BAD")
  | VVis2 d s => (st, match render (st d), render (st s) with
                      | Some a, Some b => a ++ b
                      | _, _ => [tag "BAD"]
                      end)
  | VCmp d s => (st, [tbool (v_eq (st d) (st s)); tbool (negb (v_eq (st d) (st s)));
                      tbool (v_lt (st d) (st s)); tbool (v_lt (st s) (st d));
                      tbool (negb (v_lt (st s) (st d))); tbool (negb (v_lt (st d) (st s)))])
  end.
Definition vstep (st : vst) (op : vop) : vst * list tok :=
  if vvalid op then vexec st op else (st, [tag "skip"]).
Definition is_cnt (v : vval) : bool := match v with VCnt _ => true | _ => false end.
Definition vlive (st : vst) : nat := length (filter (fun i => is_cnt (st i)) (seq 0 NV)).
Definition vobs (st' : vst) (res : list tok) : list tok :=
  res ++ [tag "L"; tnat (vlive st'); tag "S"] ++ flat_map (fun i => vval_toks (st' i)) (seq 0 NV).
Fixpoint vrun (st : vst) (ops : list vop) : list (list tok) :=
  match ops with
  | [] => []
  | op :: ops' => let (st', res) := vstep st op in vobs st' res :: vrun st' ops'
  end.

(* --- converting construction variant<Ts...>(T&&): which alternative absl's overload set picks *)
Inductive cty := CBool | CI32 | CU32 | CI64 | CDbl | CFlt | CCStr | CStr | CMono.
Definition cty_eqb (a b : cty) : bool :=
  match a, b with
  | CBool, CBool | CI32, CI32 | CU32, CU32 | CI64, CI64 | CDbl, CDbl | CFlt, CFlt | CCStr, CCStr | CStr, CStr | CMono, CMono => true
  | _, _ => false
  end.
Definition is_arith (t : cty) : bool :=
  match t with CBool | CI32 | CU32 | CI64 | CDbl | CFlt => true | _ => false end.
(* implicit conversion sequence rank from an argument of type [a] to a parameter of type [p]:
   0 exact, 1 promotion, 2 conversion, 3 conversion of a pointer to bool, 4 user-defined; None = not viable *)
Definition conv_rank (a p : cty) : option nat :=
  if cty_eqb a p then Some 0%nat
  else match a, p with
       | CFlt, CDbl => Some 1%nat
       | CBool, CI32 => Some 1%nat
       | CCStr, CBool => Some 3%nat
       | CCStr, CStr => Some 4%nat
       | _, _ => if is_arith a && is_arith p then Some 2%nat else None
       end.
Fixpoint best_alt (arg : cty) (alts : list cty) (i : nat) (keep : cty -> bool) : option (nat * nat) (* rank, index *) :=
  match alts with
  | [] => None
  | p :: alts' =>
      let rest := best_alt arg alts' (S i) keep in
      match (if keep p then conv_rank arg p else None) with
      | None => rest
      | Some r => match rest with
                  | Some (r', j) => if Nat.leb r r' then Some (r, i) else Some (r', j)
                  | None => Some (r, i)
                  end
      end
  end.
(* absl::variant (C++17 as published): plain overload resolution over all alternatives *)
Definition conv_select (alts : list cty) (arg : cty) : Z :=
  match best_alt arg alts 0 (fun _ => true) with Some (_, i) => Z.of_nat i | None => (-1)%Z end.

(* the fixed table of instantiations the driver compiles against both variants *)
Definition conv_table : list (list cty * cty) :=
  [ ([CBool; CStr], CCStr); ([CBool; CStr], CBool); ([CBool; CI64; CStr], CStr); ([CBool; CCStr; CStr], CCStr);
    ([CI64; CStr], CI64); ([CDbl; CStr], CFlt); ([CStr; CBool], CCStr);
    ([CMono; CBool; CI32; CU32; CI64; CDbl; CStr], CCStr); ([CMono; CBool; CI32; CU32; CI64; CDbl; CStr], CI32);
    ([CMono; CBool; CI32; CU32; CI64; CDbl; CStr], CDbl); ([CI32; CDbl], CFlt); ([CMono; CBool; CI32; CU32; CI64; CDbl; CStr], CBool) ].

(* ------------------------------------------------------------------ function_ref *)

(* callables: 0 lambda capturing a call counter by reference, 1 function pointer, 2 functor object with an
   accumulator, 3 nullptr, 4 null function pointer.  function_ref = application of the referenced callable.
   Two references: the source [f_bound] (a named, non-const object whose storage is re-used by later binds) and a
   copy [f_copy] made from it; function_ref(const function_ref&) copies callable_ and invoker_, so the copy keeps
   referring to the callable the source referred to WHEN THE COPY WAS MADE. *)
Record fst_ := mkf { f_calls : Z; f_acc : Z; f_bound : option nat; f_copy : option nat }.
Definition finit : fst_ := mkf 0 0 None None.
Inductive fop :=
| FBind (k : nat) | FCall (a b : Z) | FCopyCall (a b : Z) | FBool
| FCopy (m : nat)          (* copy-construct from the source: 0 non-const lvalue, 1 const lvalue, 2 rvalue *)
| FCallC (a b : Z) | FBoolC (* through the stored copy *)
| FDrop.                   (* the source object is destroyed (its storage is overwritten) *)
Local Open Scope Z_scope.
Definition fapply (st : fst_) (k : nat) (a b : Z) : fst_ * Z :=
  match k with
  | 0%nat => let c := f_calls st + 1 in (mkf c (f_acc st) (f_bound st) (f_copy st), a + b * c)
  | 1%nat => (st, a - 2 * b)
  | _ => let acc := f_acc st + a in (mkf (f_calls st) acc (f_bound st) (f_copy st), acc * 3 + b)
  end.
Definition fcallable (k : nat) : bool := Nat.ltb k 3.
Definition fcall_via (st : fst_) (target : option nat) (a b : Z) : fst_ * list tok :=
  match target with
  | Some k => if fcallable k then let (st', r) := fapply st k a b in (st', [TZ r]) else (st, [tag "null"])
  | None => (st, [tag "skip"])
  end.
Definition fbool_via (st : fst_) (target : option nat) : fst_ * list tok :=
  match target with
  | Some k => (st, [tbool (fcallable k)])
  | None => (st, [tag "skip"])
  end.
Definition fexec (st : fst_) (op : fop) : fst_ * list tok :=
  match op with
  | FBind k => if Nat.ltb k 5 then (mkf (f_calls st) (f_acc st) (Some k) (f_copy st), []) else (st, [tag "skip"])
  | FCall a b | FCopyCall a b => fcall_via st (f_bound st) a b
  | FBool => fbool_via st (f_bound st)
  | FCopy m => match f_bound st with
               | Some k => if Nat.ltb m 3 then (mkf (f_calls st) (f_acc st) (f_bound st) (Some k), []) else (st, [tag "skip"])
               | None => (st, [tag "skip"])
               end
  | FCallC a b => fcall_via st (f_copy st) a b
  | FBoolC => fbool_via st (f_copy st)
  | FDrop => (mkf (f_calls st) (f_acc st) None (f_copy st), [])
  end.
Definition fobs (st : fst_) (res : list tok) : list tok := res ++ [tag "C"; TZ (f_calls st); TZ (f_acc st)].
Fixpoint frun (st : fst_) (ops : list fop) : list (list tok) :=
  match ops with
  | [] => []
  | op :: ops' => let (st', res) := fexec st op in fobs st' res :: frun st' ops'
  end.

(* ------------------------------------------------------------------ self-referential nodes *)

(* struct Node { P<Node> next; };  with P = unique_ptr (CHU) or shared_ptr (CHS), two roots [head] and [aux].
   Every node has exactly one owner at operation boundaries, so the heap is two disjoint chains, written as the
   lists of node ids from the root; destroying a chain destroys its nodes front to back (~Node runs, then the
   member [next] is destroyed).  Each operation is what the unique_ptr / shared_ptr member functions do when the
   SOURCE or the TARGET handle is a member of the pointee of the other one:
     move assignment  d = std::move(s):  p = s.release(); then the old pointee of d is deleted; then d = p. *)
Record cst := mkc { c_hd : list nat; c_aux : list nat; c_nxt : nat; c_log : list nat }.
Definition cinit : cst := mkc [] [] 0 [].
Inductive cop :=
| CPush        (* n = new Node; n->next = std::move(head); head = std::move(n) *)
| CPushAux     (* the same on aux *)
| CAppend      (* tail->next = P(new Node)   (head = ... when the chain is empty) *)
| CPop         (* head = std::move(head->next) *)
| CPop2        (* head = std::move(head->next->next) *)
| CPopR        (* unique only: head.reset(head->next.release()) *)
| CPopC        (* shared only: head = head->next   (copy assignment from a member of the pointee) *)
| CCutTail     (* head->next.reset()  /  head->next = nullptr *)
| CSplit       (* aux = std::move(head->next) *)
| CJoin        (* head->next = std::move(aux) *)
| CSwapAux     (* head.swap(aux) *)
| CSwapTail    (* head->next.swap(aux) *)
| CDetach      (* unique only: n = head.get(); head.swap(n->next); aux.reset(n->next.release())   (swap(head, head->next)) *)
| CMoveHead    (* head = std::move(aux) *)
| CSelfNext    (* head->next = std::move(head->next) *)
| CClear       (* head.reset() / head = nullptr *)
| CClearAux.
Definition cvalid (shared : bool) (st : cst) (op : cop) : bool :=
  match op with
  | CPush | CPushAux | CAppend | CSwapAux | CMoveHead | CClear | CClearAux => true
  | CPop | CCutTail | CSplit | CJoin | CSwapTail | CSelfNext => match c_hd st with [] => false | _ => true end
  | CPop2 => match c_hd st with _ :: _ :: _ => true | _ => false end
  | CPopR | CDetach => negb shared && match c_hd st with [] => false | _ => true end
  | CPopC => shared && match c_hd st with [] => false | _ => true end
  end.
Definition cexec (st : cst) (op : cop) : cst :=
  let hd := c_hd st in let aux := c_aux st in let n := c_nxt st in let lg := c_log st in
  match op with
  | CPush => mkc (n :: hd) aux (S n) lg
  | CPushAux => mkc hd (n :: aux) (S n) lg
  | CAppend => mkc (hd ++ [n]) aux (S n) lg
  | CPop | CPopR | CPopC => match hd with h :: t => mkc t aux n (lg ++ [h]) | [] => st end
  | CPop2 => match hd with h1 :: h2 :: t => mkc t aux n (lg ++ [h1; h2]) | _ => st end
  | CCutTail => match hd with h :: t => mkc [h] aux n (lg ++ t) | [] => st end
  | CSplit => match hd with h :: t => mkc [h] t n (lg ++ aux) | [] => st end
  | CJoin => match hd with h :: t => mkc (h :: aux) [] n (lg ++ t) | [] => st end
  | CSwapAux => mkc aux hd n lg
  | CSwapTail => match hd with h :: t => mkc (h :: aux) t n lg | [] => st end
  | CDetach => match hd with h :: t => mkc t [h] n (lg ++ aux) | [] => st end
  | CMoveHead => mkc aux [] n (lg ++ hd)
  | CSelfNext => st
  | CClear => mkc [] aux n (lg ++ hd)
  | CClearAux => mkc hd [] n (lg ++ aux)
  end.
Definition cstep (shared : bool) (st : cst) (op : cop) : cst * list tok :=
  if cvalid shared st op then (cexec st op, []) else (st, [tag "skip"]).
Definition cend (st : cst) : cst := mkc [] [] (c_nxt st) (c_log st ++ c_hd st ++ c_aux st).
Definition cobs (st st' : cst) (res : list tok) : list tok :=
  res ++ [tag "D"] ++ map tnat (skipn (length (c_log st)) (c_log st')) ++
  [tag "L"; tnat (length (c_hd st') + length (c_aux st')); tag "H"] ++ map tnat (c_hd st') ++ [tag "A"] ++ map tnat (c_aux st').
Fixpoint crun (shared : bool) (st : cst) (ops : list cop) : list (list tok) :=
  match ops with
  | [] => [cobs st (cend st) [tag "end"]]
  | op :: ops' => let (st', res) := cstep shared st op in cobs st st' res :: crun shared st' ops'
  end.
