(* C20 proofs, part 8: the string_view and span observations of the model pass the SPEC checker. *)
From V Require Import C20.Glue C20.ProofsSV C20.ProofsPtrSpec.
From Coq Require Import Lia Arith PeanoNat.
Require Import ZifyBool ZifyNat ZifyN.
Local Open Scope N_scope.

Lemma field_is_intro lbl obs v e : get_field lbl obs = Some v -> v = e -> field_is lbl obs e = true.
Proof. intros G ->. unfold field_is. rewrite G. apply tok_eqb_refl. Qed.

Section SV.
Variable c : svcase.
Let a := sv_a c. Let b := sv_b c. Let pos := sv_pos c. Let n := sv_n c.

Ltac fld := unfold a, b, pos, n; reflexivity.
Lemma f_size : get_field "size" (sv_obs c) = Some (tN (len a)). Proof. fld. Qed.
Lemma f_empty : get_field "empty" (sv_obs c) = Some (tbool (Nat.eqb (length a) 0)). Proof. fld. Qed.
Lemma f_it : get_field "it" (sv_obs c) = Some (TB a). Proof. fld. Qed.
Lemma f_str : get_field "str" (sv_obs c) = Some (TB a). Proof. fld. Qed.
Lemma f_os : get_field "os" (sv_obs c) = Some (TB a). Proof. fld. Qed.
Lemma f_at : get_field "at" (sv_obs c) = Some (opt_byte_tok (sv_at a pos)). Proof. fld. Qed.
Lemma f_cmp : get_field "cmp" (sv_obs c) = Some (TZ (sv_compare a b)). Proof. fld. Qed.
Lemma f_eq : get_field "eq" (sv_obs c) = Some (tbool (sv_eq a b)). Proof. fld. Qed.
Lemma f_ne : get_field "ne" (sv_obs c) = Some (tbool (negb (sv_eq a b))). Proof. fld. Qed.
Lemma f_eqs : get_field "eqs" (sv_obs c) = Some (tbool (sv_eq a b)). Proof. fld. Qed.
Lemma f_lt : get_field "lt" (sv_obs c) = Some (tbool (sv_lt a b)). Proof. fld. Qed.
Lemma f_gt : get_field "gt" (sv_obs c) = Some (tbool (sv_gt a b)). Proof. fld. Qed.
Lemma f_find : get_field "find" (sv_obs c) = Some (tN (sv_find a (sv_ch c) pos)). Proof. fld. Qed.
Lemma f_sub : get_field "sub" (sv_obs c) = Some (opt_b_tok (sv_substr a pos n)). Proof. fld. Qed.
Lemma f_cmp3 : get_field "cmp3" (sv_obs c) = Some (opt_z_tok (sv_compare3 a pos n b)). Proof. fld. Qed.
Lemma f_cmp5 : get_field "cmp5" (sv_obs c) = Some (opt_z_tok (sv_compare5 a pos n b (sv_pos2 c) (sv_n2 c))). Proof. fld. Qed.
Lemma f_cstr : get_field "cstr" (sv_obs c) = Some (TB (cstr a)). Proof. fld. Qed.
Lemma f_cmpc : get_field "cmpc" (sv_obs c) = Some (TZ (sv_compare a (cstr b))). Proof. fld. Qed.
Lemma f_eqc : get_field "eqc" (sv_obs c) = Some (tbool (sv_eq a (cstr b))). Proof. fld. Qed.
Lemma f_cmpcn : get_field "cmpcn" (sv_obs c) =
  Some (opt_z_tok (sv_compare3 a pos n (firstn (N.to_nat (N.min (sv_n2 c) (len b))) b))). Proof. fld. Qed.
Lemma f_cmpc3 : get_field "cmpc3" (sv_obs c) = Some (opt_z_tok (sv_compare3 a pos n (cstr b))). Proof. fld. Qed.
Lemma f_h1 : get_field "h1" (sv_obs c) = Some (TZ 1). Proof. fld. Qed.
Lemma f_h2 : get_field "h2" (sv_obs c) = Some (if sv_eq a b then TZ 1 else tag "-"). Proof. fld. Qed.
Lemma f_std : get_field "std" (sv_obs c) = Some (TZ 1). Proof. fld. Qed.
End SV.

Lemma ref_compare_model a b : ref_compare a b = sv_compare a b.
Proof. unfold ref_compare. symmetry. apply sv_compare_lex. Qed.
Lemma compare3_model a p n b : sv_compare3 a p n b = ref_compare_sub a p n b None.
Proof. unfold sv_compare3, ref_compare_sub. rewrite sv_substr_ref. destruct (ref_substr a p n); auto. now rewrite ref_compare_model. Qed.
Lemma compare5_model a p n b p2 n2 : sv_compare5 a p n b p2 n2 = ref_compare_sub a p n b (Some (p2, n2)).
Proof.
  unfold sv_compare5, ref_compare_sub. rewrite !sv_substr_ref. destruct (ref_substr a p n); auto.
  destruct (ref_substr b p2 n2); auto. now rewrite ref_compare_model.
Qed.

Theorem model_meets_spec_sv : forall c, len (sv_a c) < npos -> spec_sv c (sv_obs c) = [].
Proof.
  intros c Hlen. unfold spec_sv.
  rewrite (field_is_intro _ _ _ _ (f_size c) eq_refl), (field_is_intro _ _ _ _ (f_empty c) eq_refl),
          (field_is_intro _ _ _ _ (f_it c) eq_refl), (field_is_intro _ _ _ _ (f_str c) eq_refl),
          (field_is_intro _ _ _ _ (f_os c) eq_refl),
          (field_is_intro "at" (sv_obs c) _ (opt_byte_tok (if sv_pos c <? len (sv_a c) then nth_error (sv_a c) (N.to_nat (sv_pos c)) else None)) (f_at c) eq_refl).
  rewrite (field_is_intro _ _ _ _ (f_cmp c)) by (now rewrite ref_compare_model).
  rewrite (field_is_intro _ _ _ _ (f_eq c)) by (now rewrite sv_eq_bytes_eqb).
  rewrite (field_is_intro _ _ _ _ (f_ne c)) by (now rewrite sv_eq_bytes_eqb).
  rewrite (field_is_intro _ _ _ _ (f_eqs c)) by (now rewrite sv_eq_bytes_eqb).
  rewrite (field_is_intro _ _ _ _ (f_lt c)) by (now rewrite ref_compare_model).
  rewrite (field_is_intro _ _ _ _ (f_gt c)) by (now rewrite ref_compare_model).
  rewrite (f_find c). unfold tN. rewrite N2Z.id, (find_okb_model _ _ _ Hlen).
  assert ((0 <=? Z.of_N (sv_find (sv_a c) (sv_ch c) (sv_pos c)))%Z = true) as -> by lia.
  assert (Hsub : match ref_substr (sv_a c) (sv_pos c) (sv_n c) with
                 | Some t => check (field_is "sub" (sv_obs c) (TB t)) "sv_substr:slice"
                 | None => check (field_is "sub" (sv_obs c) (tag "OOR")) "sv_substr:out_of_range"
                 end = []).
  { pose proof (f_sub c) as F. rewrite sv_substr_ref in F.
    destruct (ref_substr (sv_a c) (sv_pos c) (sv_n c)) as [t|];
      [rewrite (field_is_intro "sub" (sv_obs c) _ (TB t) F eq_refl)|rewrite (field_is_intro "sub" (sv_obs c) _ (tag "OOR") F eq_refl)]; reflexivity. }
  rewrite Hsub.
  rewrite (field_is_intro _ _ _ _ (f_cmp3 c)) by (now rewrite compare3_model).
  rewrite (field_is_intro _ _ _ _ (f_cmp5 c)) by (now rewrite compare5_model).
  rewrite (f_cstr c), cstr_okb_model, (f_cmpc c), (f_eqc c), (f_cmpcn c), (f_cmpc3 c).
  rewrite <- cstr_index_of, !ref_compare_model, <- !compare3_model, <- sv_eq_bytes_eqb, !tok_eqb_refl.
  rewrite (field_is_intro _ _ _ _ (f_h1 c) eq_refl), (field_is_intro _ _ _ _ (f_std c) eq_refl).
  assert (Hh2 : (if bytes_eqb (sv_a c) (sv_b c) then field_is "h2" (sv_obs c) (TZ 1) else true) = true).
  { rewrite <- sv_eq_bytes_eqb. destruct (sv_eq (sv_a c) (sv_b c)) eqn:E; auto.
    apply (field_is_intro _ _ _ _ (f_h2 c)). now rewrite E. }
  rewrite Hh2. reflexivity.
Qed.

(* ---------------------------------------------------------------- span = index-checked slice *)
Local Open Scope nat_scope.
Lemma sp_elems_slice buf off cnt : off + cnt <= length buf -> sp_elems buf off cnt = slice buf off cnt.
Proof. intros H. unfold sp_elems, slice, sp_get. symmetry. now apply firstn_skipn_map. Qed.

Lemma slice_nth buf off cnt i : off + cnt <= length buf -> i < cnt ->
  nth_error (slice buf off cnt) i = Some (sp_get buf off i).
Proof.
  intros H Hi. rewrite <- sp_elems_slice by auto. unfold sp_elems.
  rewrite nth_error_map, (nth_error_nth' _ 0) by (rewrite seq_length; lia).
  now rewrite seq_nth by lia.
Qed.

Lemma set_nth_split (l : bytes) k v : k < length l -> set_nth l k v = firstn k l ++ [v] ++ skipn (S k) l.
Proof.
  revert k. induction l as [|x l IH]; intros k H; cbn [length] in H; [lia|].
  destruct k as [|k]; cbn [set_nth firstn skipn app]; auto. rewrite IH by lia. reflexivity.
Qed.

(* span_spec: a span is the slice [off, off+cnt) of its buffer: size, elements, indexing, write-through *)
Theorem span_slice_all : forall buf off cnt, off + cnt <= length buf ->
  sp_elems buf off cnt = firstn cnt (skipn off buf) /\
  length (sp_elems buf off cnt) = cnt /\
  (forall i, i < cnt -> nth_error (sp_elems buf off cnt) i = nth_error buf (off + i)) /\
  (forall i v, i < cnt -> sp_write buf off i v = firstn (off + i) buf ++ [v] ++ skipn (S (off + i)) buf) /\
  (forall i v j, i < cnt -> j <> off + i -> nth_error (sp_write buf off i v) j = nth_error buf j).
Proof.
  intros buf off cnt H. split; [now apply sp_elems_slice|]. split; [unfold sp_elems; now rewrite map_length, seq_length|].
  split; [|split].
  - intros i Hi. rewrite sp_elems_slice, slice_nth by auto. unfold sp_get. symmetry. apply nth_error_nth'. lia.
  - intros i v Hi. apply set_nth_split. lia.
  - intros i v j Hi Hj. unfold sp_write. revert j Hj. generalize (off + i) as k. clear.
    induction buf as [|x l IH]; intros k j Hj; cbn [set_nth]; auto.
    destruct k as [|k]; destruct j as [|j]; cbn [nth_error]; auto; try lia.
Qed.

Section SP.
Variable c : spcase.
Let buf := sp_buf c. Let off := sp_off c. Let cnt := sp_cnt c.
Let e := sp_elems buf off cnt.
Ltac fld := unfold e, buf, off, cnt; reflexivity.
Lemma g_size : get_field "size" (sp_obs c) = Some (tnat cnt). Proof. fld. Qed.
Lemma g_empty : get_field "empty" (sp_obs c) = Some (tbool (Nat.eqb cnt 0)). Proof. fld. Qed.
Lemma g_doff : get_field "doff" (sp_obs c) = Some (tnat off). Proof. fld. Qed.
Lemma g_it : get_field "it" (sp_obs c) = Some (TB e). Proof. fld. Qed.
Lemma g_fl : get_field "fl" (sp_obs c) = Some (TB e). Proof. fld. Qed.
Lemma g_cp : get_field "cp" (sp_obs c) = Some (TB e). Proof. fld. Qed.
Lemma g_conv : get_field "conv" (sp_obs c) = Some (TB e). Proof. fld. Qed.
Lemma g_asg : get_field "asg" (sp_obs c) = Some (TB e). Proof. fld. Qed.
Lemma g_at : get_field "at" (sp_obs c) =
  Some (opt_byte_tok (if Nat.ltb (sp_idx c) cnt then Some (sp_get buf off (sp_idx c)) else None)). Proof. fld. Qed.
Lemma g_vec : get_field "vec" (sp_obs c) = Some (TB (sp_elems buf 0 (length buf))). Proof. fld. Qed.
Lemma g_arr : get_field "arr" (sp_obs c) = Some (TB (sp_elems (firstn 4 (buf ++ repeat x00 4)) 0 4)). Proof. fld. Qed.
Lemma g_carr : get_field "carr" (sp_obs c) = Some (TB (sp_elems (firstn 3 (buf ++ repeat x00 3)) 0 3)). Proof. fld. Qed.
Lemma g_fix : get_field "fix" (sp_obs c) = Some (if sp_fixed_ok (sp_ext c) cnt then TB e else tag "TERM"). Proof. fld. Qed.
Lemma g_wr : get_field "wr" (sp_obs c) =
  Some (TB (if Nat.ltb (sp_idx c) cnt then sp_write buf off (sp_idx c) (sp_val c) else buf)). Proof. fld. Qed.
Lemma g_std : get_field "std" (sp_obs c) = Some (TZ 1). Proof. fld. Qed.
End SP.

Lemma sp_elems_whole (l : bytes) : sp_elems l 0 (length l) = l.
Proof. rewrite sp_elems_slice by lia. unfold slice. cbn [skipn]. apply firstn_all. Qed.
Lemma sp_elems_fixed (l : bytes) k : length l = k -> sp_elems l 0 k = l.
Proof. intros <-. apply sp_elems_whole. Qed.

Theorem model_meets_spec_sp : forall c, sp_wf c = true -> spec_sp c (sp_obs c) = [].
Proof.
  intros c Hwf. unfold sp_wf in Hwf. apply Nat.leb_le in Hwf. unfold spec_sp.
  pose proof (sp_elems_slice _ _ _ Hwf) as ES.
  rewrite (field_is_intro _ _ _ _ (g_size c) eq_refl), (field_is_intro _ _ _ _ (g_empty c) eq_refl),
          (field_is_intro _ _ _ _ (g_doff c) eq_refl).
  rewrite (field_is_intro _ _ _ _ (g_it c)), (field_is_intro _ _ _ _ (g_fl c)), (field_is_intro _ _ _ _ (g_cp c)),
          (field_is_intro _ _ _ _ (g_conv c)), (field_is_intro _ _ _ _ (g_asg c)) by (now rewrite ES).
  rewrite (field_is_intro _ _ _ _ (g_at c)).
  2:{ destruct (Nat.ltb_spec (sp_idx c) (sp_cnt c)); auto. now rewrite slice_nth. }
  rewrite (field_is_intro _ _ _ _ (g_vec c)) by (now rewrite sp_elems_whole).
  rewrite (field_is_intro _ _ _ _ (g_arr c)).
  2:{ rewrite sp_elems_fixed; auto. rewrite firstn_length, app_length, repeat_length. lia. }
  rewrite (field_is_intro _ _ _ _ (g_carr c)).
  2:{ rewrite sp_elems_fixed; auto. rewrite firstn_length, app_length, repeat_length. lia. }
  rewrite (field_is_intro _ _ _ _ (g_fix c)).
  2:{ unfold sp_fixed_ok. destruct (Nat.eqb (sp_cnt c) (sp_ext c)); auto. now rewrite ES. }
  rewrite (field_is_intro _ _ _ _ (g_wr c)).
  2:{ destruct (Nat.ltb_spec (sp_idx c) (sp_cnt c)); auto. unfold sp_write. rewrite set_nth_split by lia. reflexivity. }
  rewrite (field_is_intro _ _ _ _ (g_std c) eq_refl). reflexivity.
Qed.
