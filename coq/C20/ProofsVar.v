(* C20 proofs, part 9: variant (tagged sum: index / holds_alternative / get / get_if / visit / assignment /
   comparison), converting construction (finding F24), function_ref = application. *)
From V Require Import C20.Glue C20.ProofsSV C20.ProofsPtrSpec.
From Coq Require Import Lia Arith PeanoNat.
Require Import ZifyBool ZifyNat ZifyN.
Local Open Scope Z_scope.

(* ---------------------------------------------------------------- get / holds / visit *)
Theorem variant_get_visit_all :
  (* holds_alternative<I> <-> index() = I *)
  (forall v i, vholds v i = true <-> vindex v = i) /\
  (* get<I> succeeds exactly on the held alternative of a variant that is not valueless, and returns it *)
  (forall v i, vget v i = Some v <-> (vindex v = i /\ v <> VNone)) /\
  (forall v i, vget v i = None <-> (vindex v <> i \/ v = VNone)) /\
  (forall v i x, vget v i = Some x -> x = v) /\
  (* visit calls the overload of the held alternative with its payload; a valueless variant throws *)
  (forall R (fm : R) fb fi fs fc,
     vvisit fm fb fi fs fc VMono = Some fm /\
     (forall b, vvisit fm fb fi fs fc (VBool b) = Some (fb b)) /\
     (forall z, vvisit fm fb fi fs fc (VInt z) = Some (fi z)) /\
     (forall s, vvisit fm fb fi fs fc (VStr s) = Some (fs s)) /\
     (forall z, vvisit fm fb fi fs fc (VCnt z) = Some (fc z)) /\
     vvisit fm fb fi fs fc VNone = None) /\
  (forall R (fm : R) fb fi fs fc v, vvisit fm fb fi fs fc v = None <-> vget v (vindex v) = None) /\
  (* index is one of the alternatives, or npos (-1) exactly for the valueless state *)
  (forall v, (0 <= vindex v <= 4 /\ v <> VNone) \/ (vindex v = -1 /\ v = VNone)).
Proof.
  repeat (match goal with |- _ /\ _ => split end).
  - intros v i. unfold vholds. apply Z.eqb_eq.
  - intros v i. unfold vget, vholds.
    destruct v; cbn [vindex]; (match goal with |- context [Z.eqb ?a i] => destruct (Z.eqb_spec a i) as [E|E]; [subst i|] end); cbn; split;
      try discriminate; try (intros [? ?]; congruence); try (intros _; split; [reflexivity|discriminate]).
  - intros v i. unfold vget, vholds.
    destruct v; cbn [vindex]; (match goal with |- context [Z.eqb ?a i] => destruct (Z.eqb_spec a i) as [E|E]; [subst i|] end); cbn; split;
      try discriminate; auto; try (intros [?|?]; congruence).
  - intros v i x. unfold vget. destruct (_ && _); congruence.
  - intros. repeat split.
  - intros R fm fb fi fs fc v. destruct v; cbn; split; try discriminate; auto.
  - intros v. destruct v; cbn; [left|left|left|left|left|right]; split; try lia; congruence.
Qed.

(* assignment / emplace select the new alternative, leave the other variants alone, and the number of live
   Counted payloads is the number of variants holding one *)
Theorem variant_assign_all : forall st d x, (d < NV)%nat ->
  let st' := fst (vstep st (VSet d x)) in
  st' d = x /\ vindex (st' d) = vindex x /\ (forall j, j <> d -> st' j = st j) /\
  fst (vstep st (VEmp d x)) d = x /\
  vlive st' = length (filter (fun i => is_cnt (st' i)) (seq 0 NV)).
Proof.
  intros st d x Hd. unfold vstep. cbn [vvalid]. assert (Nat.ltb d NV = true) as -> by (apply Nat.ltb_lt; lia).
  cbn [vexec fst]. unfold upd. rewrite Nat.eqb_refl. repeat split; auto.
  intros j Hj. destruct (Nat.eqb_spec j d); congruence.
Qed.

Example variant_example :
  let st := fst (vstep (fst (vstep vinit (VSet 0 (VCnt 5)))) (VSet 0 (VStr [x61]))) in
  vindex (st 0%nat) = 3 /\ vget (st 0%nat) 3 = Some (VStr [x61]) /\ vget (st 0%nat) 4 = None /\ vlive st = 0%nat.
Proof. repeat split; reflexivity. Qed.

(* ---------------------------------------------------------------- comparison *)
Lemma str_lt_lex x y : str_lt x y = match lex_cmp x y with Lt => true | _ => false end.
Proof. unfold str_lt. rewrite sv_compare_lex. now destruct (lex_cmp x y). Qed.
Lemma bytes_eqb_lex x y : bytes_eqb x y = match lex_cmp x y with Eq => true | _ => false end.
Proof.
  destruct (lex_cmp x y) eqn:E.
  - apply bytes_eqb_eq. now apply lex_eq.
  - destruct (bytes_eqb x y) eqn:B; auto. apply bytes_eqb_eq in B. apply lex_eq in B. congruence.
  - destruct (bytes_eqb x y) eqn:B; auto. apply bytes_eqb_eq in B. apply lex_eq in B. congruence.
Qed.

Lemma vcmp_model a b :
  v_eq a b = (match vcmp a b with Eq => true | _ => false end) /\
  v_lt a b = (match vcmp a b with Lt => true | _ => false end) /\
  v_lt b a = (match vcmp a b with Gt => true | _ => false end).
Proof.
  assert (ZC : forall z z0 : Z,
             (z =? z0) = (match z ?= z0 with Eq => true | _ => false end) /\
             (z <? z0) = (match z ?= z0 with Lt => true | _ => false end) /\
             (z0 <? z) = (match z ?= z0 with Gt => true | _ => false end)).
  { intros z z0. destruct (Z.compare_spec z z0); repeat split; lia. }
  destruct a, b; cbn; try (repeat split; reflexivity).
  - destruct b0, b; repeat split; reflexivity.
  - unfold v_lt. cbn. apply ZC.
  - unfold v_lt. cbn. rewrite !str_lt_lex, bytes_eqb_lex, (lex_antisym s s0). destruct (lex_cmp s s0); repeat split; reflexivity.
  - unfold v_lt. cbn. apply ZC.
Qed.

(* ---------------------------------------------------------------- the SPEC checker accepts the variant model *)
Definition VRel (st : vst) (l : vlist) : Prop := l = [st 0%nat; st 1%nat; st 2%nat].

Lemma lget_rel st l d : VRel st l -> (d < 3)%nat -> lget l d = st d.
Proof. intros -> H. unfold lget. destruct d as [|[|[|d]]]; try reflexivity; lia. Qed.
Lemma lset_rel st l d x : VRel st l -> (d < 3)%nat -> VRel (upd st d x) (lset l d x).
Proof. intros -> H. unfold VRel. destruct d as [|[|[|d]]]; try reflexivity; lia. Qed.

Lemma vval_toks_eq v :
  vval_toks v = TZ (vindex v) :: (match v with VMono => [tag "m"] | VNone => [tag "v"] | x => payload x end).
Proof. now destruct v. Qed.
Lemma vstate_rel st l : VRel st l -> flat_map (fun i => vval_toks (st i)) (seq 0 NV) = vstate_toks l.
Proof. intros ->. cbn [NV seq flat_map vstate_toks]. now rewrite !vval_toks_eq. Qed.
Lemma vlive_rel st l : VRel st l -> vlive st = count_cnt l.
Proof.
  intros ->. unfold vlive, count_cnt. cbn [NV seq filter].
  destruct (is_cnt (st 0%nat)), (is_cnt (st 1%nat)), (is_cnt (st 2%nat)); reflexivity.
Qed.

Definition vplain (res : list tok) : Prop := nosep "L" res /\ nosep "S" res.
Lemma vplain_vval v : vplain (vval_toks v). Proof. destruct v; split; reflexivity. Qed.
Lemma vplain_render v : vplain (opt_toks (render v) "BAD"). Proof. destruct v; split; reflexivity. Qed.
Lemma vplain_vexec st op : vplain (snd (vexec st op)).
Proof.
  destruct op; cbn [vexec snd]; try (split; reflexivity).
  - unfold vget. destruct (_ && _); cbn [option_map opt_toks]; [apply vplain_vval|split; reflexivity].
  - unfold vget. destruct (_ && _); cbn [option_map opt_toks]; [apply vplain_vval|split; reflexivity].
  - apply vplain_render.
  - destruct (st d), (st s); split; reflexivity.
Qed.
Lemma nosep_flat_vval sep st l : (forall v, nosep sep (vval_toks v)) -> nosep sep (flat_map (fun i : nat => vval_toks (st i)) l).
Proof. intros H. induction l as [|x l IH]; [reflexivity|]. cbn [flat_map]. apply nosep_app; auto. Qed.

Lemma spec_vseg_ok st' l' res name : VRel st' l' -> vplain res -> spec_vseg l' res name (vobs st' res) = [].
Proof.
  intros R [PL PS]. unfold spec_vseg, vobs.
  change (res ++ [tag "L"; tnat (vlive st'); tag "S"] ++ flat_map (fun i => vval_toks (st' i)) (seq 0 NV))
    with (res ++ tag "L" :: ([tnat (vlive st')] ++ tag "S" :: flat_map (fun i => vval_toks (st' i)) (seq 0 NV))).
  rewrite split_app by (auto; reflexivity).
  assert (N1 : nosep "L" ([tnat (vlive st')] ++ tag "S" :: flat_map (fun i => vval_toks (st' i)) (seq 0 NV))).
  { change ([tnat (vlive st')] ++ tag "S" :: flat_map (fun i => vval_toks (st' i)) (seq 0 NV))
      with ([tnat (vlive st'); tag "S"] ++ flat_map (fun i => vval_toks (st' i)) (seq 0 NV)).
    apply nosep_app; [reflexivity|]. apply nosep_flat_vval. intros v. apply vplain_vval. }
  rewrite (split_nosep "L" _ N1).
  rewrite split_app by reflexivity.
  rewrite split_nosep by (apply nosep_flat_vval; intros v; apply vplain_vval).
  rewrite toks_eqb_refl, (vstate_rel st' l' R), toks_eqb_refl, (vlive_rel st' l' R), tok_eqb_refl. reflexivity.
Qed.

Lemma vexec_refines st l op : VRel st l -> vvalid op = true ->
  VRel (fst (vexec st op)) (sexec l op) /\ snd (vexec st op) = sresult l op.
Proof.
  intros R V. destruct op; cbn [vvalid] in V;
    repeat match type of V with (_ && _) = true => let V2 := fresh "V" in apply andb_prop in V as [V V2] end;
    repeat match goal with H : Nat.ltb _ NV = true |- _ => apply Nat.ltb_lt in H; unfold NV in H end;
    cbn [vexec sexec sresult fst snd]; rewrite ?(lget_rel st l d R), ?(lget_rel st l s R) by lia.
  - split; [apply lset_rel; auto|reflexivity].
  - split; [apply lset_rel; auto|reflexivity].
  - split; [apply lset_rel; auto|reflexivity].
  - split; [apply lset_rel; auto|reflexivity].
  - split; [apply lset_rel; [apply lset_rel|]; auto|reflexivity].
  - split; [apply lset_rel; [apply lset_rel|]; auto|reflexivity].
  - split; [apply lset_rel; auto|reflexivity].
  - split; [apply lset_rel; [apply lset_rel|]; auto|reflexivity].
  - (* VIdx *) split; auto. now destruct (st d).
  - (* VHolds *) split; auto.
  - (* VGet *) split; auto. unfold vget, vholds. destruct (st d); cbn [vindex];
      (match goal with |- context [Z.eqb ?a i] => destruct (Z.eqb_spec a i) as [E|E]; [subst i|] end); reflexivity.
  - (* VGetIf *) split; auto. unfold vget, vholds. destruct (st d); cbn [vindex];
      (match goal with |- context [Z.eqb ?a i] => destruct (Z.eqb_spec a i) as [E|E]; [subst i|] end); reflexivity.
  - (* VVis *) split; auto. now destruct (st d).
  - (* VVis2 *) split; auto. now destruct (st d), (st s).
  - (* VCmp *) split; auto. destruct (vcmp_model (st d) (st s)) as (E1 & E2 & E3). rewrite E1, E2, E3.
    now destruct (vcmp (st d) (st s)).
  - (* VSelf *) split; auto.
Qed.

Lemma spec_vrun_ok ops : forall st l, VRel st l -> spec_vrun l ops (vrun st ops) = [].
Proof.
  induction ops as [|op ops IH]; intros st l R; cbn [vrun spec_vrun]; auto.
  unfold vstep. destruct (vvalid op) eqn:V.
  - destruct (vexec st op) as [st' res] eqn:E. destruct (vexec_refines st l op R V) as [R' Er].
    rewrite E in R', Er. cbn [fst snd] in *. subst res.
    rewrite spec_vseg_ok; auto; [cbn [app]; apply IH; auto|].
    pose proof (vplain_vexec st op) as P. now rewrite E in P.
  - rewrite spec_vseg_ok; auto; [cbn [app]; apply IH; auto|split; reflexivity].
Qed.

Theorem model_meets_spec_vr : forall ops, spec_vr ops (vrun vinit ops ++ [[tag "std"; TZ 1]]) = [].
Proof.
  intros ops. unfold spec_vr. rewrite removelast_last, last_last.
  rewrite (spec_vrun_ok ops vinit [VMono; VMono; VMono] eq_refl). reflexivity.
Qed.

(* ---------------------------------------------------------------- converting construction: finding F24 *)
Theorem variant_conv_refuted : exists k, (k < length conv_table)%nat /\ spec_conv k (conv_obs k) <> [].
Proof. exists 0%nat. split; [cbn; lia|vm_compute; discriminate]. Qed.

(* the strongest true statement: the absl selection equals the P0608 one whenever the argument is not a
   const char* offered to alternatives lacking const char* (the only rows of the table where they differ) *)
Definition conv_row_ok (k : nat) : bool :=
  match nth_error conv_table k with
  | Some (alts, arg) =>
      if cty_eqb arg CCStr && negb (existsb (cty_eqb CCStr) alts) then true
      else match spec_conv k (conv_obs k) with [] => true | _ => false end
  | None => true
  end.
Theorem variant_conv_partial : forall k alts arg, nth_error conv_table k = Some (alts, arg) ->
  (arg = CCStr -> In CCStr alts) -> spec_conv k (conv_obs k) = [].
Proof.
  assert (A : forallb conv_row_ok (seq 0 (length conv_table)) = true) by (vm_compute; reflexivity).
  intros k alts arg E H. assert (Hk : (k < length conv_table)%nat) by (apply nth_error_Some; congruence).
  rewrite forallb_forall in A. specialize (A k ltac:(apply in_seq; lia)). unfold conv_row_ok in A. rewrite E in A.
  destruct (cty_eqb arg CCStr && negb (existsb (cty_eqb CCStr) alts)) eqn:C.
  - exfalso. apply andb_prop in C as [C1 C2]. assert (arg = CCStr) by (destruct arg; try discriminate; reflexivity).
    specialize (H H0). apply negb_true_iff in C2.
    assert (existsb (cty_eqb CCStr) alts = true) by (apply existsb_exists; exists CCStr; split; auto).
    congruence.
  - destruct (spec_conv k (conv_obs k)); [reflexivity|discriminate].
Qed.

(* ---------------------------------------------------------------- function_ref = application *)
Theorem function_ref_application_all : forall st k a b, f_bound st = Some k -> (k < 3)%nat ->
  fexec st (FCall a b) = (fst (fapply st k a b), [TZ (snd (fapply st k a b))]) /\
  fexec st (FCopyCall a b) = fexec st (FCall a b) /\
  f_bound (fst (fapply st k a b)) = Some k.
Proof.
  intros st k a b B Hk. cbn [fexec]. unfold fcall_via. rewrite B. unfold fcallable.
  assert (Nat.ltb k 3 = true) as -> by (apply Nat.ltb_lt; lia).
  destruct (fapply st k a b) as [st' r] eqn:E. cbn [fst snd]. repeat split.
  unfold fapply in E. destruct k as [|[|k]]; inversion E; subst; cbn; auto.
Qed.

(* a copy refers to the callable its source referred to when the copy was made: an empty source gives an empty copy,
   re-binding or destroying the source afterwards does not change what the copy calls *)
Theorem function_ref_copy_all : forall st k m, f_bound st = Some k -> (m < 3)%nat ->
  let st1 := fst (fexec st (FCopy m)) in
  f_copy st1 = Some k /\
  snd (fexec st1 FBoolC) = [tbool (fcallable k)] /\
  (forall k', f_copy (fst (fexec st1 (FBind k'))) = Some k) /\
  f_copy (fst (fexec st1 FDrop)) = Some k /\
  (forall a b, fexec st1 (FCallC a b) = fcall_via st1 (Some k) a b) /\
  (forall k' a b, (k' < 5)%nat -> snd (fexec (fst (fexec st1 (FBind k'))) (FCallC a b)) = snd (fexec st1 (FCallC a b))).
Proof.
  intros st k m B Hm. cbn [fexec]. rewrite B. assert (Nat.ltb m 3 = true) as -> by (apply Nat.ltb_lt; lia).
  cbn [fst snd f_copy fbool_via]. repeat split.
  - intros k'. destruct (Nat.ltb k' 5); reflexivity.
  - intros k' a b Hk. assert (Nat.ltb k' 5 = true) as -> by (apply Nat.ltb_lt; lia). cbn [fst f_copy].
    unfold fcall_via. destruct (fcallable k); [|reflexivity]. unfold fapply. destruct k as [|[|k]]; reflexivity.
Qed.
Example function_ref_copy_example :
  snd (fexec (fst (fexec (fst (fexec (fst (fexec finit (FBind 1))) (FCopy 0))) (FBind 0))) (FCallC 5 1)) = [TZ 3] /\
  snd (fexec (fst (fexec (fst (fexec finit (FBind 3))) (FCopy 0))) FBoolC) = [TZ 0].
Proof. split; reflexivity. Qed.

Lemma fexec_spec st op :
  spec_fstep (f_bound st) (f_copy st) (f_calls st) (f_acc st) op =
  (f_bound (fst (fexec st op)), f_copy (fst (fexec st op)), f_calls (fst (fexec st op)), f_acc (fst (fexec st op)),
   snd (fexec st op)).
Proof.
  assert (C : forall t a b, spec_fcall t (f_calls st) (f_acc st) a b =
              (f_calls (fst (fcall_via st t a b)), f_acc (fst (fcall_via st t a b)), snd (fcall_via st t a b)) /\
              f_bound (fst (fcall_via st t a b)) = f_bound st /\ f_copy (fst (fcall_via st t a b)) = f_copy st).
  { intros t a b. unfold spec_fcall, fcall_via, fcallable. destruct t as [k|]; [|repeat split].
    destruct (Nat.ltb k 3); [|repeat split]. unfold call_ref, fapply. destruct k as [|[|k]]; repeat split. }
  destruct op; cbn [spec_fstep fexec].
  - destruct (Nat.ltb k 5); reflexivity.
  - destruct (C (f_bound st) a b) as (E & E1 & E2). rewrite E, E1, E2. reflexivity.
  - destruct (C (f_bound st) a b) as (E & E1 & E2). rewrite E, E1, E2. reflexivity.
  - unfold spec_fbool, fbool_via. destruct (f_bound st) eqn:B; cbn [fst snd]; rewrite ?B; reflexivity.
  - destruct (f_bound st) eqn:B; [destruct (Nat.ltb m 3)|]; cbn [fst snd f_bound f_copy f_calls f_acc]; rewrite ?B; reflexivity.
  - destruct (C (f_copy st) a b) as (E & E1 & E2). rewrite E, E1, E2. reflexivity.
  - unfold spec_fbool, fbool_via. destruct (f_copy st) eqn:B; cbn [fst snd]; rewrite ?B; reflexivity.
  - reflexivity.
Qed.

Lemma spec_frun_ok ops : forall st, spec_frun (f_bound st) (f_copy st) (f_calls st) (f_acc st) ops (frun st ops) = [].
Proof.
  induction ops as [|op ops IH]; intros st; cbn [frun spec_frun]; auto.
  rewrite fexec_spec. destruct (fexec st op) as [st' res]. cbn [fst snd]. unfold fobs.
  rewrite toks_eqb_refl. cbn [checkb app]. apply IH.
Qed.

Theorem model_meets_spec_fr : forall ops, spec_fr ops (frun finit ops ++ [[tag "std"; TZ 1]]) = [].
Proof.
  intros ops. unfold spec_fr. rewrite removelast_last, last_last.
  pose proof (spec_frun_ok ops finit) as H. cbn [finit f_bound f_copy f_calls f_acc] in H. rewrite H. reflexivity.
Qed.
