(* C20 proofs, part 11: chains of self-referential nodes (a handle that is a member of the pointee of another handle is
   the source / target of move, reset, swap).  Invariant for every operation sequence: every node ever created is either
   reachable from exactly one root exactly once, or has been destroyed exactly once; and the SPEC checker accepts the
   model's observations (model_meets_spec, CHU / CHS part). *)
From V Require Import C20.Spec C20.ProofsPtr C20.ProofsPtrSpec.
From Coq Require Import Lia Arith PeanoNat Permutation.
Require Import ZifyBool.

Definition cn (o : nat) (l : list nat) : nat := count_occ Nat.eq_dec l o.
Definition call (st : cst) : list nat := c_log st ++ c_hd st ++ c_aux st.
Definition CInv (st : cst) : Prop := forall o, cn o (call st) = if Nat.ltb o (c_nxt st) then 1 else 0.

Ltac cn_solve :=
  unfold cn, call in *; cbn [c_log c_hd c_aux c_nxt] in *;
  repeat rewrite count_occ_app in *; cbn [count_occ] in *;
  repeat match goal with
         | |- context [Nat.eq_dec ?a ?b] => destruct (Nat.eq_dec a b)
         | H : context [Nat.eq_dec ?a ?b] |- _ => destruct (Nat.eq_dec a b)
         end;
  repeat match goal with
         | |- context [Nat.ltb ?a ?b] => destruct (Nat.ltb_spec a b)
         | H : context [Nat.ltb ?a ?b] |- _ => destruct (Nat.ltb_spec a b)
         end; try lia.

Lemma CInv_init : CInv cinit.
Proof. intros o. reflexivity. Qed.

Lemma CInv_exec st op : CInv st -> CInv (cexec st op).
Proof.
  intros H o. specialize (H o). destruct st as [hd aux n lg].
  destruct op; cbn [cexec c_hd c_aux c_nxt c_log]; try (destruct hd as [|h1 [|h2 t]]); cn_solve.
Qed.
Lemma CInv_step sh st op : CInv st -> CInv (fst (cstep sh st op)).
Proof. intros H. unfold cstep. destruct (cvalid sh st op); auto. now apply CInv_exec. Qed.
Lemma CInv_end st : CInv st -> CInv (cend st).
Proof. intros H o. specialize (H o). destruct st as [hd aux n lg]. unfold cend. cn_solve. Qed.

Definition cnext (sh : bool) (st : cst) (op : cop) : cst := fst (cstep sh st op).
Definition crun_state (sh : bool) (ops : list cop) : cst := fold_left (cnext sh) ops cinit.
Lemma CInv_fold sh ops : forall st, CInv st -> CInv (fold_left (cnext sh) ops st).
Proof. induction ops as [|op ops IH]; intros st H; cbn [fold_left]; auto. apply IH. now apply CInv_step. Qed.

Lemma CInv_NoDup st : CInv st -> NoDup (call st) /\ forall o, In o (call st) <-> o < c_nxt st.
Proof.
  intros H. split.
  - apply (NoDup_count_occ Nat.eq_dec). intros o. specialize (H o). unfold cn in H. rewrite H. destruct (Nat.ltb o (c_nxt st)); lia.
  - intros o. rewrite (count_occ_In Nat.eq_dec). specialize (H o). unfold cn in H. rewrite H.
    destruct (Nat.ltb_spec o (c_nxt st)); lia.
Qed.

Lemma log_grows sh st op : exists D, c_log (cnext sh st op) = c_log st ++ D.
Proof.
  unfold cnext, cstep. destruct (cvalid sh st op); [|exists []; now rewrite app_nil_r].
  destruct st as [hd aux n lg]. destruct op; cbn [fst cexec c_log]; try (destruct hd as [|h1 [|h2 t]]); cbn [c_log];
    try (exists []; now rewrite app_nil_r); eexists; reflexivity.
Qed.

(* chain_exactly_one_destruction: for EVERY sequence of chain operations (unique_ptr or shared_ptr links) *)
Theorem chain_exactly_one_destruction_all : forall sh ops,
  let st := crun_state sh ops in
  (* destroyed nodes, nodes reachable from head and nodes reachable from aux are pairwise disjoint and without repetition:
     nothing is destroyed twice, nothing destroyed is still linked, nothing is linked twice *)
  NoDup (c_log st ++ c_hd st ++ c_aux st) /\
  (* and together they are exactly the nodes created so far: nothing leaks *)
  (forall o, In o (c_log st ++ c_hd st ++ c_aux st) <-> o < c_nxt st) /\
  (* an operation never un-destroys or re-orders: the destruction log only grows *)
  (forall op, exists D, c_log (cnext sh st op) = c_log st ++ D) /\
  (* when both roots go, every node ever created has been destroyed exactly once *)
  Permutation (c_log (cend st)) (seq 0 (c_nxt st)).
Proof.
  intros sh ops st. assert (I : CInv st) by (apply CInv_fold, CInv_init).
  destruct (CInv_NoDup st I) as [N M]. split; [exact N|]. split; [exact M|]. split; [intros op; apply log_grows|].
  destruct (CInv_NoDup _ (CInv_end st I)) as [N' M']. unfold call, cend in N', M'. cbn [c_log c_hd c_aux c_nxt] in N', M'.
  rewrite !app_nil_r in N', M'. apply NoDup_Permutation; [exact N'|apply seq_NoDup|].
  intros o. cbn [cend c_log]. rewrite M', in_seq. lia.
Qed.

(* the pointee-owned source: head = std::move(head->next) destroys exactly the first node, in a chain of any length *)
Theorem chain_pop_one : forall sh h t aux n lg,
  cexec (mkc (h :: t) aux n lg) CPop = mkc t aux n (lg ++ [h]) /\
  cvalid sh (mkc (h :: t) aux n lg) CPop = true.
Proof. intros. split; reflexivity. Qed.
Example chain_example :
  let st := crun_state false [CPush; CPush; CPush; CPop; CPop2] in c_log st = [2; 1; 0] /\ c_hd st = [].
Proof. split; reflexivity. Qed.

(* ---------------------------------------------------------------- the SPEC checker accepts the chain model *)
Lemma nats_eqb_refl l : nats_eqb l l = true.
Proof. induction l; cbn; auto. now rewrite Nat.eqb_refl. Qed.

Lemma filter_none {A} (f : A -> bool) l : (forall x, In x l -> f x = false) -> filter f l = [].
Proof. induction l as [|x l IH]; intros H; auto. cbn. rewrite (H x) by now left. apply IH. intros; apply H; now right. Qed.
Lemma filter_all {A} (f : A -> bool) l : (forall x, In x l -> f x = true) -> filter f l = l.
Proof. induction l as [|x l IH]; intros H; auto. cbn. rewrite (H x) by now left. f_equal. apply IH. intros; apply H; now right. Qed.

Lemma filter_segment (a b c after : list nat) :
  NoDup (a ++ b ++ c) ->
  (forall o, In o (a ++ b ++ c) -> (In o after <-> In o a \/ In o c)) ->
  filter (fun o => negb (mem o after)) (a ++ b ++ c) = b.
Proof.
  intros N H. rewrite !filter_app.
  assert (Fa : filter (fun o => negb (mem o after)) a = []).
  { apply filter_none. intros o Ho. assert (In o after) as I by (apply H; [apply in_app_iff; auto|auto]).
    apply mem_In in I. now rewrite I. }
  assert (Fc : filter (fun o => negb (mem o after)) c = []).
  { apply filter_none. intros o Ho. assert (In o after) as I by (apply H; [rewrite !in_app_iff; auto|auto]).
    apply mem_In in I. now rewrite I. }
  assert (Fb : filter (fun o => negb (mem o after)) b = b).
  { apply filter_all. intros o Ho. destruct (mem o after) eqn:E; auto. exfalso. apply mem_In in E.
    apply H in E; [|rewrite !in_app_iff; auto].
    apply NoDup_app_parts in N. destruct N as [N1 D1].
    destruct E as [E|E].
    - apply (D1 o); [apply in_app_iff; auto|auto].
    - apply NoDup_app_parts in N1. destruct N1 as [_ D2]. apply (D2 o); auto. }
  now rewrite Fa, Fb, Fc, app_nil_r.
Qed.

Lemma filter_segment_end (a b after : list nat) :
  NoDup (a ++ b) -> (forall o, In o (a ++ b) -> (In o after <-> In o a)) ->
  filter (fun o => negb (mem o after)) (a ++ b) = b.
Proof.
  intros N H. rewrite <- (app_nil_r b) at 1. apply filter_segment; [now rewrite app_nil_r|].
  intros o Ho. rewrite app_nil_r in Ho. rewrite (H o Ho). cbn [In]. tauto.
Qed.

Ltac in_solve := intros o _; rewrite ?in_app_iff; cbn [In app]; rewrite ?in_app_iff; tauto.
Ltac nod :=
  match goal with NoD : forall after, _ -> [] = _ |- _ => apply NoD end; intros o Ho; split; [intros _; exact Ho|intros _];
  rewrite ?in_app_iff in *; cbn [In app] in *; rewrite ?in_app_iff in *; tauto.
Ltac seg :=
  first
  [ solve [nod]
  | symmetry;
    match goal with
    | |- filter _ _ = ?b =>
        first
        [ solve [apply (filter_segment [] b); [assumption|in_solve]]
        | match goal with |- filter _ ((?h :: _) ++ _) = _ => solve [apply (filter_segment [h] b); [assumption|in_solve]] end
        | match goal with |- filter _ (?hd ++ _) = _ => solve [apply (filter_segment_end hd b); [assumption|in_solve]] end ]
    end ].

Lemma CInv_roots_NoDup st : CInv st -> NoDup (c_hd st ++ c_aux st).
Proof. intros H. destruct (CInv_NoDup st H) as [N _]. unfold call in N. now apply NoDup_app_parts in N. Qed.

Lemma svalid_model sh st op : svalid sh (c_hd st) op = cvalid sh st op.
Proof. destruct st as [hd aux n lg]. destruct op; cbn; try reflexivity; destruct hd as [|h1 [|h2 t]]; reflexivity. Qed.

Lemma sroots_model sh st op : cvalid sh st op = true ->
  sroots (c_hd st) (c_aux st) (c_nxt st) op = (c_hd (cexec st op), c_aux (cexec st op)) /\
  c_nxt (cexec st op) = (if creates op then S (c_nxt st) else c_nxt st).
Proof.
  destruct st as [hd aux n lg]. intros V.
  destruct op; cbn in *; try (destruct hd as [|h1 [|h2 t]]); cbn in *; try discriminate;
    try rewrite andb_false_r in V; try discriminate; split; reflexivity.
Qed.

(* what an operation destroys is the part of the two chains that is no longer linked, front to back *)
Lemma destroyed_model sh st op D : CInv st -> cvalid sh st op = true -> c_log (cexec st op) = c_log st ++ D ->
  D = filter (fun o => negb (mem o (c_hd (cexec st op) ++ c_aux (cexec st op)))) (c_hd st ++ c_aux st).
Proof.
  intros I V E. pose proof (CInv_roots_NoDup st I) as N. destruct (CInv_NoDup st I) as [_ M].
  assert (Fresh : ~ In (c_nxt st) (c_hd st ++ c_aux st)).
  { intros X. assert (In (c_nxt st) (call st)) as Y by (unfold call; apply in_app_iff; auto). apply M in Y. lia. }
  destruct st as [hd aux n lg]. cbn [c_hd c_aux c_nxt c_log] in *.
  assert (NoD : forall after, (forall o, In o (hd ++ aux) -> (In o after <-> In o (hd ++ aux))) ->
                [] = filter (fun o => negb (mem o after)) (hd ++ aux)).
  { intros after H. symmetry. rewrite <- (app_nil_r (hd ++ aux)) at 1.
    apply (filter_segment (hd ++ aux) [] []); [now rewrite !app_nil_r|].
    intros o Ho. rewrite !app_nil_r in Ho. rewrite (H o Ho). cbn [In]. tauto. }
  destruct op; cbn [cexec c_hd c_aux c_log] in *;
    try (destruct hd as [|h1 [|h2 t]]; cbn in V; try discriminate; try (rewrite andb_false_r in V; discriminate));
    cbn [c_hd c_aux c_log] in E; try (apply app_inv_head in E; subst D);
    try (rewrite <- (app_nil_r lg) in E at 1; apply app_inv_head in E; subst D);
    cbn [c_hd c_aux c_nxt c_log]; seg.
Qed.

Definition cplain (res : list tok) : Prop := nosep "D" res /\ nosep "L" res /\ nosep "H" res /\ nosep "A" res.

Lemma parse_cobs st st' res D : cplain res -> c_log st' = c_log st ++ D ->
  parse_cseg (cobs st st' res) = Some (res, D, tnat (length (c_hd st') + length (c_aux st')), c_hd st', c_aux st').
Proof.
  intros (PD & PL & PH & PA) E. unfold parse_cseg, cobs. rewrite E, skipn_app_exact.
  set (n := tnat (length (c_hd st') + length (c_aux st'))).
  change (res ++ [tag "D"] ++ map tnat D ++ [tag "L"; n; tag "H"] ++ map tnat (c_hd st') ++ [tag "A"] ++ map tnat (c_aux st'))
    with (res ++ tag "D" :: (map tnat D ++ tag "L" :: ([n] ++ tag "H" :: (map tnat (c_hd st') ++ tag "A" :: map tnat (c_aux st'))))).
  assert (NN : forall sep l, nosep sep (map tnat l)) by (intros; apply nosep_map_num, tnat_num).
  rewrite split_app by (auto; reflexivity).
  rewrite (split_nosep "D").
  2:{ apply nosep_app; [apply NN|]. change (nosep "D" ([tag "L"; n; tag "H"] ++ (map tnat (c_hd st') ++ [tag "A"] ++ map tnat (c_aux st')))).
      apply nosep_app; [reflexivity|]. apply nosep_app; [apply NN|]. apply nosep_app; [reflexivity|apply NN]. }
  rewrite split_app by (try reflexivity; apply NN).
  rewrite (split_nosep "L").
  2:{ change (nosep "L" ([n; tag "H"] ++ (map tnat (c_hd st') ++ [tag "A"] ++ map tnat (c_aux st')))).
      apply nosep_app; [reflexivity|]. apply nosep_app; [apply NN|]. apply nosep_app; [reflexivity|apply NN]. }
  rewrite split_app by reflexivity.
  rewrite (split_nosep "H").
  2:{ apply nosep_app; [apply NN|]. change (nosep "H" ([tag "A"] ++ map tnat (c_aux st'))). apply nosep_app; [reflexivity|apply NN]. }
  rewrite split_app by (try reflexivity; apply NN).
  rewrite split_nosep by apply NN.
  rewrite !toks_nats_tnat. reflexivity.
Qed.

Lemma spec_cseg_ok st st' res name D : cplain res -> c_log st' = c_log st ++ D ->
  D = filter (fun o => negb (mem o (c_hd st' ++ c_aux st'))) (c_hd st ++ c_aux st) ->
  spec_cseg (c_hd st) (c_aux st) (c_hd st') (c_aux st') res name (cobs st st' res) = [].
Proof.
  intros P E HD. unfold spec_cseg. rewrite (parse_cobs st st' res D P E).
  rewrite toks_eqb_refl, !nats_eqb_refl, <- HD, nats_eqb_refl, app_length, tok_eqb_refl. reflexivity.
Qed.

Lemma cend_destroyed st : CInv st ->
  c_hd st ++ c_aux st = filter (fun o => negb (mem o ([] ++ []))) (c_hd st ++ c_aux st).
Proof. intros _. symmetry. apply filter_all. intros; reflexivity. Qed.

Lemma spec_crun_ok sh ops : forall st, CInv st ->
  spec_crun sh (c_hd st) (c_aux st) (c_nxt st) ops (crun sh st ops) = [].
Proof.
  induction ops as [|op ops IH]; intros st I; cbn [crun spec_crun].
  - apply (spec_cseg_ok st (cend st) [tag "end"] (bs "end") (c_hd st ++ c_aux st)); [repeat split; reflexivity|reflexivity|].
    now apply cend_destroyed.
  - rewrite svalid_model. unfold cstep. destruct (cvalid sh st op) eqn:V.
    + destruct (sroots_model sh st op V) as [R N]. rewrite R, <- N.
      assert (L : exists D, c_log (cexec st op) = c_log st ++ D).
      { pose proof (log_grows sh st op) as G. unfold cnext, cstep in G. now rewrite V in G. }
      destruct L as [D E].
      rewrite (spec_cseg_ok st (cexec st op) [] (cop_name op) D); [| repeat split; reflexivity | exact E | eapply destroyed_model; eauto].
      cbn [app]. apply IH. now apply CInv_exec.
    + rewrite (spec_cseg_ok st st [tag "skip"] (cop_name op) []); [| repeat split; reflexivity | now rewrite app_nil_r |].
      * cbn [app]. now apply IH.
      * symmetry. apply filter_none. intros o Ho. apply mem_In in Ho. now rewrite Ho.
Qed.

Lemma seg_cdestroyed_cobs st st' res D : cplain res -> c_log st' = c_log st ++ D -> seg_cdestroyed (cobs st st' res) = D.
Proof. intros P E. unfold seg_cdestroyed. now rewrite (parse_cobs st st' res D P E). Qed.

Lemma ctotal_destroyed sh ops : forall st,
  c_log (cend (fold_left (cnext sh) ops st)) = c_log st ++ flat_map seg_cdestroyed (crun sh st ops).
Proof.
  induction ops as [|op ops IH]; intros st; cbn [crun fold_left flat_map].
  - rewrite (seg_cdestroyed_cobs st (cend st) _ (c_hd st ++ c_aux st)); [now rewrite app_nil_r|repeat split; reflexivity|reflexivity].
  - destruct (log_grows sh st op) as [D E]. unfold cnext in *.
    assert (P : cplain (snd (cstep sh st op))) by (unfold cstep; destruct (cvalid sh st op); repeat split; reflexivity).
    destruct (cstep sh st op) as [st' res]. cbn [fst snd] in *. cbn [flat_map].
    rewrite (seg_cdestroyed_cobs st st' res D P E), IH, E, app_assoc. reflexivity.
Qed.

Lemma cnxt_created sh ops : forall st, c_nxt (fold_left (cnext sh) ops st) = c_nxt st + length (filter creates ops).
Proof.
  induction ops as [|op ops IH]; intros st; cbn [fold_left filter length]; [lia|]. rewrite IH. unfold cnext, cstep.
  destruct st as [hd aux n lg].
  destruct op; cbn [cvalid creates fst cexec c_nxt c_hd length]; try lia;
    destruct hd as [|h1 [|h2 t]]; destruct sh; cbn; lia.
Qed.

Theorem model_meets_spec_ch : forall sh ops, spec_ch sh ops (crun sh cinit ops ++ [[tag "std"; TZ 1]]) = [].
Proof.
  intros sh ops. unfold spec_ch. rewrite removelast_last, last_last.
  pose proof (spec_crun_ok sh ops cinit CInv_init) as S. cbn [cinit c_hd c_aux c_nxt] in S. rewrite S. cbn [app].
  pose proof (ctotal_destroyed sh ops cinit) as T. cbn [cinit c_log app] in T.
  destruct (chain_exactly_one_destruction_all sh ops) as (_ & _ & _ & Pm). unfold crun_state in Pm.
  assert (I : CInv (cend (fold_left (cnext sh) ops cinit))) by (apply CInv_end, CInv_fold, CInv_init).
  destruct (CInv_NoDup _ I) as [N _]. unfold call, cend in N. cbn [c_log c_hd c_aux] in N. rewrite !app_nil_r in N.
  pose proof (cnxt_created sh ops cinit) as C. cbn [cinit c_nxt Nat.add] in C.
  rewrite same_set_intro; [reflexivity| | |].
  - rewrite <- T. exact N.
  - apply seq_NoDup.
  - intros o. rewrite <- T. unfold ccreated. rewrite <- C.
    split; intros H; [eapply Permutation_in; eauto|eapply Permutation_in; [apply Permutation_sym|]; eauto].
Qed.
