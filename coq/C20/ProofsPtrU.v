(* C20 proofs, part 3: every unique_ptr operation of the model (incl. self move-assignment, self swap,
   release into / adoption from a raw pointer) establishes the summary. *)
From V Require Import C20.Spec C20.ProofsPtrBase C20.ProofsPtrOps.
From Coq Require Import Lia Arith PeanoNat.
Require Import ZifyBool.

Lemma sum_UNew st d v : WF st -> Shape st -> pvalid st (UNew d v) = true -> Sum st (UNew d v) (fst (pexec st (UNew d v))).
Proof. intros W Sh V. start st V Sh. clear_case st d; go st d d. Qed.
Lemma sum_UNull st d : WF st -> Shape st -> pvalid st (UNull d) = true -> Sum st (UNull d) (fst (pexec st (UNull d))).
Proof. intros W Sh V. start st V Sh. clear_case st d; go st d d. Qed.
Lemma sum_UMc st d s : WF st -> Shape st -> pvalid st (UMc d s) = true -> Sum st (UMc d s) (fst (pexec st (UMc d s))).
Proof.
  intros W Sh V. start st V Sh. assert (Hds : d <> s) by lia. clear_case st d; go st d s.
Qed.
Lemma sum_UMa st d s : WF st -> Shape st -> pvalid st (UMa d s) = true -> Sum st (UMa d s) (fst (pexec st (UMa d s))).
Proof. intros W Sh V. start st V Sh. destruct (Nat.eq_dec s d) as [->|Hds]; [go st d d|go st d s]. Qed.
Lemma sum_UAn st d : WF st -> Shape st -> pvalid st (UAn d) = true -> Sum st (UAn d) (fst (pexec st (UAn d))).
Proof. intros W Sh V. start st V Sh. go st d d. Qed.
Lemma sum_URst st d : WF st -> Shape st -> pvalid st (URst d) = true -> Sum st (URst d) (fst (pexec st (URst d))).
Proof. intros W Sh V. start st V Sh. go st d d. Qed.
Lemma sum_URstN st d v : WF st -> Shape st -> pvalid st (URstN d v) = true -> Sum st (URstN d v) (fst (pexec st (URstN d v))).
Proof. intros W Sh V. start st V Sh. go st d d. Qed.
Lemma sum_URel st d q : WF st -> Shape st -> pvalid st (URel d q) = true -> Sum st (URel d q) (fst (pexec st (URel d q))).
Proof. intros W Sh V. start st V Sh. go st d q. Qed.
Lemma sum_UAdopt st d q : WF st -> Shape st -> pvalid st (UAdopt d q) = true -> Sum st (UAdopt d q) (fst (pexec st (UAdopt d q))).
Proof. intros W Sh V. start st V Sh. go st d q. Qed.
Lemma sum_USwap st d s : WF st -> Shape st -> pvalid st (USwap d s) = true -> Sum st (USwap d s) (fst (pexec st (USwap d s))).
Proof. intros W Sh V. start st V Sh. destruct (Nat.eq_dec s d) as [->|Hds]; [go st d d|go st d s]. Qed.
Lemma sum_UDel st d : WF st -> Shape st -> pvalid st (UDel d) = true -> Sum st (UDel d) (fst (pexec st (UDel d))).
Proof. intros W Sh V. start st V Sh. go st d d. Qed.
Lemma sum_UStd st d : WF st -> Shape st -> pvalid st (UStd d) = true -> Sum st (UStd d) (fst (pexec st (UStd d))).
Proof. intros W Sh V. start st V Sh. go st d d. Qed.
