(* Tokens: the common wire format between case files, the extracted model and the
   C++ drivers.  A case and an observation are both [list tok].  No proofs here. *)
From Coq.Strings Require Export Byte String.
From Coq Require Export ZArith NArith Bool List.
From Coq Require Import Ascii.
Export ListNotations.
Local Open Scope Z_scope.

Definition bytes := list byte.

Inductive tok :=
| TB (b : bytes)      (* x<hex>      : a byte string            *)
| TZ (z : Z)          (* -?[0-9]+    : an integer               *)
| TT (t : bytes).     (* anything else: a tag (ASCII identifier) *)

Definition bs (s : string) : bytes := list_byte_of_string s.
Definition tag (s : string) : tok := TT (bs s).

Fixpoint bytes_eqb (a b : bytes) : bool :=
  match a, b with
  | [], [] => true
  | x :: a', y :: b' => Byte.eqb x y && bytes_eqb a' b'
  | _, _ => false
  end.

Definition tok_eqb (a b : tok) : bool :=
  match a, b with
  | TB x, TB y => bytes_eqb x y
  | TZ x, TZ y => Z.eqb x y
  | TT x, TT y => bytes_eqb x y
  | _, _ => false
  end.

Fixpoint toks_eqb (a b : list tok) : bool :=
  match a, b with
  | [], [] => true
  | x :: a', y :: b' => tok_eqb x y && toks_eqb a' b'
  | _, _ => false
  end.

Definition is_tag (s : string) (t : tok) : bool :=
  match t with TT x => bytes_eqb x (bs s) | _ => false end.

Definition tbool (b : bool) : tok := TZ (if b then 1 else 0).
Definition tnat (n : nat) : tok := TZ (Z.of_nat n).
Definition tN (n : N) : tok := TZ (Z.of_N n).

(* split a token list at every occurrence of the tag [sep] *)
Fixpoint split_toks_aux (sep : string) (l : list tok) (cur : list tok) : list (list tok) :=
  match l with
  | [] => [rev cur]
  | t :: l' => if is_tag sep t then rev cur :: split_toks_aux sep l' []
               else split_toks_aux sep l' (t :: cur)
  end.
Definition split_toks (sep : string) (l : list tok) : list (list tok) := split_toks_aux sep l [].

(* Failure reports of a SPEC check: a list of "clause:feature" tags; [] = all clauses hold *)
Definition fail (s : string) : list tok := [tag s].
Definition check (b : bool) (s : string) : list tok := if b then [] else fail s.

(* Result of a model run that could not parse its case: the runner treats it as an error *)
Definition bad_case : list tok := [tag "BADCASE"].

(* stable name used by the OCaml driver's start-up self test of its byte <-> int mapping *)
Definition drv_b2n (b : byte) : N := Byte.to_N b.
