(* Byte-level definitions shared by the codec models: C-locale character classes,
   the hex table of detail/hex.h, lower-case hex printing.  Definitions only. *)
From V Require Export Base.Tok.
Local Open Scope N_scope.

Definition b2n (b : byte) : N := Byte.to_N b.
Definition n2b (n : N) : byte := match Byte.of_N n with Some b => b | None => x00 end.

Definition byte_in (lo hi : N) (b : byte) : bool := (lo <=? b2n b) && (b2n b <=? hi).

(* <cctype> in the "C" locale; bytes >= 0x80 are in no class *)
Definition isspace (b : byte) : bool := byte_in 9 13 b || (b2n b =? 32).
Definition isdigit (b : byte) : bool := byte_in 48 57 b.
Definition islower (b : byte) : bool := byte_in 97 122 b.
Definition isupper (b : byte) : bool := byte_in 65 90 b.
Definition isalpha (b : byte) : bool := islower b || isupper b.
Definition isalnum (b : byte) : bool := isalpha b || isdigit b.
Definition isprint (b : byte) : bool := byte_in 32 126 b.

(* detail::kHexDigits / HexToInt : -1 is None *)
Definition hexval (b : byte) : option N :=
  if isdigit b then Some (b2n b - 48)
  else if byte_in 97 102 b then Some (b2n b - 87)
  else if byte_in 65 70 b then Some (b2n b - 55)
  else None.
Definition ishex (b : byte) : bool := match hexval b with Some _ => true | None => false end.
Definition is_lower_hex (b : byte) : bool := isdigit b || byte_in 97 102 b.

Definition lower_hex_digit (n : N) : byte := if n <? 10 then n2b (48 + n) else n2b (87 + n).
Definition upper_hex_digit (n : N) : byte := if n <? 10 then n2b (48 + n) else n2b (55 + n).

(* two lower-case digits for one byte, as TraceId/SpanId::ToLowerBase16 write them *)
Definition byte_to_lower_hex (b : byte) : bytes :=
  [lower_hex_digit (b2n b / 16); lower_hex_digit (b2n b mod 16)].
Fixpoint to_lower_hex (l : bytes) : bytes :=
  match l with [] => [] | b :: l' => byte_to_lower_hex b ++ to_lower_hex l' end.

Definition all_bytes (p : byte -> bool) (s : bytes) : bool := forallb p s.

Fixpoint index_of_from (c : byte) (s : bytes) (i : nat) : option nat :=
  match s with
  | [] => None
  | b :: s' => if Byte.eqb b c then Some i else index_of_from c s' (S i)
  end.
(* string_view::find(char) *)
Definition index_of (c : byte) (s : bytes) : option nat := index_of_from c s 0.

Definition substr (s : bytes) (pos len : nat) : bytes := firstn len (skipn pos s).

Definition all_zero (s : bytes) : bool := forallb (fun b => Byte.eqb b x00) s.

(* detail::HexToInt as a signed value (-1 for a non-hex byte), detail::HexToBinary:
   the [n]-byte buffer after the call (all zero when the string does not fit).  Bytes are
   computed the way the C++ does: (int8 << 4) | int8, truncated to uint8. *)
Definition hexint (b : byte) : Z := match hexval b with Some v => Z.of_N v | None => (-1)%Z end.
Definition u8 (z : Z) : byte := n2b (Z.to_N (z mod 256)%Z).
Fixpoint hex_pairs (s : bytes) : bytes :=
  match s with
  | a :: b :: s' => u8 (Z.lor (hexint a * 16) (hexint b)) :: hex_pairs s'
  | _ => []
  end.
Definition zeros (n : nat) : bytes := repeat x00 n.
Definition hex_to_binary (s : bytes) (n : nat) : bytes :=
  if Nat.ltb (2 * n) (length s) then zeros n
  else
    let body := if Nat.odd (length s)
                then match s with a :: s' => u8 (hexint a) :: hex_pairs s' | [] => [] end
                else hex_pairs s in
    zeros (n - length body) ++ body.
