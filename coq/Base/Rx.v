(* A matcher for the regular expressions the SDK uses as validators:
   a sequence of character classes with bounded repetition, anchored at both ends
   (std::regex_match on "^ c1{a1,b1} c2{a2,b2} ... $").  Definitions only. *)
From V Require Export Base.Bytes.
Local Open Scope N_scope.

Definition ranges := list (N * N).
Definition in_ranges (r : ranges) (b : byte) : bool :=
  existsb (fun p => byte_in (fst p) (snd p) b) r.

Record item := mk_item { it_cls : ranges; it_lo : nat; it_hi : nat }.

(* try k = lo, lo+1, ..., lo+fuel repetitions of the class, [pre] = the k bytes consumed *)
Section Match.
  Variable rest : bytes -> bool.
  Variable cls : ranges.
  (* [n] further repetitions are still allowed after the mandatory ones *)
  Fixpoint rx_opt (n : nat) (s : bytes) : bool :=
    rest s ||
    match n, s with
    | S n', b :: s' => in_ranges cls b && rx_opt n' s'
    | _, _ => false
    end.
  Fixpoint rx_req (lo n : nat) (s : bytes) : bool :=
    match lo with
    | O => rx_opt n s
    | S lo' => match s with
               | b :: s' => in_ranges cls b && rx_req lo' n s'
               | [] => false
               end
    end.
End Match.

Fixpoint rx_match (p : list item) : bytes -> bool :=
  match p with
  | [] => fun s => match s with [] => true | _ => false end
  | it :: p' => rx_req (rx_match p') (it_cls it) (it_lo it) (it_hi it - it_lo it)
  end.
