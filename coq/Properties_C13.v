(* C13 - An exported log record carries what was emitted, correlated with the active span.
   Every sentence of the property as a theorem about the model (coq/C13/Model.v on top of coq/C10/Model.v);
   proofs in coq/C13/Proofs*.v. *)
From V Require Import C13.Glue C13.ProofsBase C13.ProofsFields C13.ProofsPrint C13.ProofsSim C13.ProofsMeets
  C13.ProofsActive C13.ProofsProps C13.ProofsScalar C10.ProofsStack.
Local Open Scope nat_scope.

(* "... with the severity, body, attributes (last write wins per key), timestamp, event id/name, instrumentation scope
   and resource that were supplied": for EVERY list of arguments (every combination, every order, duplicates), the record
   an enabled logger hands to the processors has, field by field, the last value supplied for it, else the default; its
   identity per component is the explicit one, else the one active at creation, else zero; resource and scope are set *)
Theorem log_fields_as_supplied : forall act h l,
  let r := sealed l (build act h) in
  r_sev r = dflt 0%Z (lastof x_sev h) /\
  r_body r = dflt (VStr 0 0) (lastof x_body h) /\
  r_ts r = dflt 0%Z (lastof x_ts h) /\
  r_obs r = lastof x_obs h /\
  (r_eid r, r_ename r) = dflt (0%Z, []) (lastof x_eid h) /\
  trace_or_new r = (comp (lastof x_tid h) (option_map (fun i => fst (fst i)) act) zero16,
                    comp (lastof x_sid h) (option_map (fun i => snd (fst i)) act) zero8,
                    comp (lastof x_fl h) (option_map (fun i => snd i) act) 0%Z) /\
  r_attrs r = map (fun k => (k, last_value k (all_kvs h))) (distinct_keys (all_kvs h)) /\
  r_res r = true /\ r_scope r = Some l /\ r_nobs r = S (count_if is_obs h) /\ r_nres r = 1 /\ r_nscope r = 1.
Proof. exact record_fields. Qed.
Print Assumptions log_fields_as_supplied.

(* attributes are a map: a key is present iff it was written, with the LAST value written for it *)
Theorem attribute_last_write_wins : forall act h k,
  find (fun kv => bytes_eqb (fst kv) k) (r_attrs (build act h)) =
  if key_mem k (map fst (all_kvs h)) then Some (k, last_value k (all_kvs h)) else None.
Proof. exact ProofsProps.attribute_last_write_wins. Qed.
Print Assumptions attribute_last_write_wins.

(* what an exporter of any kind prints for it, reading caller memory [mm] *)
Theorem exported_record_shows_fields_as_supplied : forall c k mm act h l,
  print_rec c k mm (sealed l (build act h)) = expected_tokens c k mm act h l.
Proof. exact ProofsProps.log_fields_as_supplied. Qed.
Print Assumptions exported_record_shows_fields_as_supplied.

(* F29 (repaired in /repo, be9979e): an EventId WITHOUT a name - EventId{id}, also behind Log(severity, int64_t id, ...) and
   the Trace()..Fatal(int64_t id, ...) wrappers - used to crash in the setter trait; it is the id with the empty name,
   after any other arguments *)
Theorem event_id_without_name_is_empty_name : forall act h id,
  r_eid (build act (h ++ [AEid id None])) = id /\ r_ename (build act (h ++ [AEid id None])) = [] /\
  log_args 3 9%Z id [] (VStr 0 1) [] = Some [ASev 9%Z; AEid id None; ABody BSv (VStr 0 1); AAttrs HKvi []].
Proof. exact ProofsProps.event_id_without_name_is_empty_name. Qed.
Print Assumptions event_id_without_name_is_empty_name.

(* "... reaches every configured processor's exporter exactly once": EmitLogRecord(args...) through an enabled logger
   appends, for every configured processor in order, exactly one entry holding the record "created on this thread now,
   then the arguments left to right", and changes nothing else *)
Theorem each_processor_once : forall c st t l args st',
  logger_enabled c l = true -> emit_variadic c st t l args = Ok st' ->
  s_exp st' = s_exp st ++ exported st l (length (s_procs st)) (build (active_ident c st t) args) /\
  s_slots st' = s_slots st /\ s_mem st' = s_mem st /\ s_procs st' = s_procs st.
Proof. exact variadic_exports. Qed.
Print Assumptions each_processor_once.

Theorem each_processor_once_count : forall c st t l args st' p,
  logger_enabled c l = true -> emit_variadic c st t l args = Ok st' ->
  count_for p (s_exp st') = count_for p (s_exp st) + (if p <? length (s_procs st) then 1 else 0).
Proof. exact ProofsProps.each_processor_once. Qed.
Print Assumptions each_processor_once_count.

(* the same for a record made earlier (by the processors 0..k-1 that existed then): once each, and the pointer is taken *)
Theorem each_processor_once_stepwise : forall c st t l r k rr st',
  nth_error (s_slots st) r = Some (RMulti (children (seq 0 k) rr)) -> k <= length (s_procs st) ->
  logger_enabled c l = true -> lstep c st (LEmit t l r) = Ok st' ->
  s_exp st' = s_exp st ++ exported st l k rr /\ nth_error (s_slots st') r = Some RNull.
Proof. exact emit_slot_exports. Qed.
Print Assumptions each_processor_once_stepwise.

(* simple, BATCH and multiple processors: a burst of n emissions in a row (the batch processors' exporters held back until
   the last one returned, so that the queues hold the whole burst) - every configured processor exactly n more entries,
   each the record as supplied, in order: nothing handed over twice, nothing lost *)
Theorem burst_each_processor_exactly_n : forall c st t l n flush args st' p,
  logger_enabled c l = true -> lstep c st (LBurst t l n flush args) = Ok st' ->
  s_exp st' = s_exp st ++ repeat_app (exported st l (length (s_procs st)) (build (active_ident c st t) args)) n /\
  count_for p (s_exp st') = count_for p (s_exp st) + (if p <? length (s_procs st) then n else 0).
Proof. exact ProofsProps.burst_each_processor_exactly_n. Qed.
Print Assumptions burst_each_processor_exactly_n.

(* "explicitly supplied identity wins" - per component, the last one supplied *)
Theorem explicit_identity_wins : forall act h,
  (forall t, lastof x_tid h = Some t -> tid_of (build act h) = t) /\
  (forall s, lastof x_sid h = Some s -> sid_of (build act h) = s) /\
  (forall f, lastof x_fl h = Some f -> fl_of (build act h) = f).
Proof. exact ProofsProps.explicit_identity_wins. Qed.
Print Assumptions explicit_identity_wins.

(* "If it was created while a span was active on the calling thread and no explicit trace identity was supplied, it
   carries that span's trace id, span id and trace flags" *)
Theorem active_span_identity : forall t s f h,
  (lastof x_tid h = None -> tid_of (build (Some (t, s, f)) h) = t) /\
  (lastof x_sid h = None -> sid_of (build (Some (t, s, f)) h) = s) /\
  (lastof x_fl h = None -> fl_of (build (Some (t, s, f)) h) = f).
Proof. exact ProofsProps.active_span_identity. Qed.
Print Assumptions active_span_identity.

(* ... where "active" is the runtime context of C10: in every state the machine can reach, opening a scope for span s on
   thread t and emitting on thread t exports records with exactly s's identity *)
Theorem created_in_scope_carries_span : forall c st t s i st1 l args st2,
  CInv st -> nth_error (c_spans c) s = Some i ->
  lstep c st (LScope t (SVSpan s)) = Ok st1 ->
  logger_enabled c l = true -> emit_variadic c st1 t l args = Ok st2 ->
  lastof x_tid args = None -> lastof x_sid args = None -> lastof x_fl args = None ->
  s_exp st2 = s_exp st1 ++ exported st1 l (length (s_procs st1)) (build (Some i) args) /\
  trace_or_new (build (Some i) args) = i.
Proof. exact ProofsProps.created_in_scope_carries_span. Qed.
Print Assumptions created_in_scope_carries_span.

(* the context invariant holds in every reachable state *)
Theorem context_invariant : forall c ops m ps st', lrun c (lstate0 m ps) ops = Ok st' -> CInv st'.
Proof. intros c ops m ps st' E. exact (run_CInv c ops _ st' (CInv_init m ps) E). Qed.
Print Assumptions context_invariant.

(* nested spans, several threads: a scope makes its value active on its own thread only; closing the innermost scope
   re-activates what was active before; a context that does not descend from the current one hides the span; one that
   does inherits it; nothing the log API does changes what is active *)
Theorem scope_activates_on_its_thread_only : forall c st t v st', CInv st -> lstep c st (LScope t v) = Ok st' ->
  active_value st' t = value_of_sval v /\ forall t', t' <> t -> active_value st' t' = active_value st t'.
Proof. exact scope_activates. Qed.
Print Assumptions scope_activates_on_its_thread_only.

Theorem closing_innermost_scope_restores : forall c st t v st1 st2, CInv st ->
  lstep c st (LScope t v) = Ok st1 -> lstep c st1 (LClose (length (s_toks st))) = Ok st2 ->
  forall t', active_value st2 t' = active_value st t'.
Proof. exact close_innermost_restores. Qed.
Print Assumptions closing_innermost_scope_restores.

Theorem unrelated_context_hides_span : forall c st t st', CInv st -> lstep c st (LAttachBare t) = Ok st' ->
  active_value st' t = vnone /\ forall t', t' <> t -> active_value st' t' = active_value st t'.
Proof. exact attach_bare_hides. Qed.
Print Assumptions unrelated_context_hides_span.

Theorem derived_context_inherits_span : forall c st t st', CInv st -> lstep c st (LAttachOther t) = Ok st' ->
  forall t', active_value st' t' = active_value st t'.
Proof. exact attach_other_inherits. Qed.
Print Assumptions derived_context_inherits_span.

Theorem log_api_keeps_active_span : forall c st o st' t, is_ctx_op o = false -> lstep c st o = Ok st' ->
  active_value st' t = active_value st t.
Proof. exact log_ops_keep_active. Qed.
Print Assumptions log_api_keeps_active_span.

(* "with no active span the ids are all-zero" (no span under the key, a null span pointer, a non-span value) *)
Theorem no_span_zero_ids : forall h,
  lastof x_tid h = None -> lastof x_sid h = None -> lastof x_fl h = None ->
  trace_or_new (build None h) = zero_ident.
Proof. exact ProofsProps.no_span_zero_ids. Qed.
Print Assumptions no_span_zero_ids.

Theorem no_span_values : forall c, ident_of_value c vnone = None /\ ident_of_value c (value_of_sval SVNullSpan) = None /\
  ident_of_value c (value_of_sval SVNullCtx) = None /\ ident_of_value c (value_of_sval SVBool) = None.
Proof. exact ident_none. Qed.
Print Assumptions no_span_values.

(* "A null record is ignored": an explicit null pointer, a pointer that was already emitted, and
   EmitLogRecord(std::move(null), args...) - no export, nothing changes *)
Theorem null_ignored : forall c st t l st',
  (lstep c st (LEmitNull t l) = Ok st' -> s_exp st' = s_exp st /\ s_slots st' = s_slots st) /\
  (forall r, nth_error (s_slots st) r = Some RNull -> lstep c st (LEmit t l r) = Ok st' ->
             s_exp st' = s_exp st /\ s_slots st' = s_slots st) /\
  (forall r args, nth_error (s_slots st) r = Some RNull ->
             lstep c st (LEmitRV t l r args) = Ok st' -> s_exp st' = s_exp st /\ nth_error (s_slots st') r = Some RNull).
Proof. exact ProofsProps.null_ignored. Qed.
Print Assumptions null_ignored.

(* "a disabled logger emits nothing": over EVERY operation sequence in which the emitting calls go through disabled
   loggers no exporter receives anything; one step: only an emitting call through an ENABLED logger can export *)
Theorem disabled_emits_nothing : forall c ops st st',
  (forall o l, In o ops -> emits_via o = Some l -> logger_enabled c l = false) ->
  lrun c st ops = Ok st' -> s_exp st' = s_exp st.
Proof. exact ProofsProps.disabled_emits_nothing. Qed.
Print Assumptions disabled_emits_nothing.

Theorem exports_only_through_enabled_loggers : forall c st o st',
  lstep c st o = Ok st' ->
  (emits_via o = None \/ exists l, emits_via o = Some l /\ logger_enabled c l = false) ->
  s_exp st' = s_exp st.
Proof. exact ProofsProps.exports_only_through_enabled_loggers. Qed.
Print Assumptions exports_only_through_enabled_loggers.

(* "... holding the values given at emit time regardless of what the caller does with its buffers after Emit returns".
   Full statement:  forall c k m a b r, print_entry c k (set_nth a b m) (EDef r) = print_entry c k m (EDef r)
   REFUTED (open finding F15): string / array bodies and attribute values are references into caller memory. *)
Theorem log_independent_of_later_mutation_refuted :
  check_case f15_witness (run_case f15_witness) = fail "log_independent_of_later_mutation:body_string" /\
  exists c k m a b r, nth_error m a <> None /\ (forall old, nth_error m a = Some old -> same_shape m old b = true) /\
                      print_entry c k (set_nth a b m) (EDef r) <> print_entry c k m (EDef r).
Proof. exact ProofsProps.log_independent_of_later_mutation_refuted. Qed.
Print Assumptions log_independent_of_later_mutation_refuted.

(* PARTIAL (proved): whatever the caller's memory becomes, an exporter that read the record during Emit shows the same,
   and so does any exporter of a record whose body and attribute values are scalars *)
Theorem log_independent_of_later_mutation_partial : forall c k m1 m2 e,
  match e with EImm _ _ => True | EDef r => rec_scalar r = true end ->
  print_entry c k m1 e = print_entry c k m2 e.
Proof. exact ProofsProps.log_independent_of_later_mutation_partial. Qed.
Print Assumptions log_independent_of_later_mutation_partial.

(* the model refines the SPEC's abstract machine, for every operation sequence *)
Theorem model_refines_spec_machine : forall c ops st x st',
  R st x -> lrun c st ops = Ok st' ->
  exists d x', s_out st' = s_out st ++ d /\
               (forall rest known, check_ops c x ops (d ++ rest) known = SOk x' rest known) /\ R st' x'.
Proof. exact run_sim. Qed.
Print Assumptions model_refines_spec_machine.

(* the checker that ./check runs on the implementation's observations, run on the model's observation of ANY case that
   parses, reports nothing but the open finding F15 ... *)
Theorem model_meets_spec_modulo_known_findings : forall l k, parse_case l = Some k ->
  forall t, In t (run_spec l (run_model l)) -> is_known t = true.
Proof. intros l k P. exact (proj1 (model_meets_spec_wire l k P)). Qed.
Print Assumptions model_meets_spec_modulo_known_findings.

(* ... and nothing at all when the caller leaves its buffers alone *)
Theorem model_meets_spec : forall l k, parse_case l = Some k ->
  forallb (fun o => negb (is_mut o)) (k_ops k) = true ->
  run_spec l (run_model l) = [].
Proof. intros l k P. exact (proj2 (model_meets_spec_wire l k P)). Qed.
Print Assumptions model_meets_spec.

(* ... and nothing at all, whatever the caller overwrites and whenever, when every body and attribute value the program
   supplies is a scalar: the proved part of log_independent_of_later_mutation over whole programs *)
Theorem model_meets_spec_scalar_values : forall l k, parse_case l = Some k ->
  forallb op_scalar (k_ops k) = true ->
  run_spec l (run_model l) = [].
Proof. intros l k P S. unfold run_spec, run_model. rewrite P. exact (model_meets_spec_scalar k S). Qed.
Print Assumptions model_meets_spec_scalar_values.
