(* C08 - the property, written independently of how the code builds its tables, as executable checkers that are run on the
   IMPLEMENTATION's observations (and, by theorem, accept the model's):

   "Two measurements on one instrument contribute to the same series exactly when their attribute sets, after the view's attribute
    filter has removed the keys it does not allow, are equal as key-to-value maps - the order in which the caller lists the keys, and
    duplicates resolved last-wins, make no difference, and equal sets always hash equally.  When more distinct attribute sets occur
    than the cardinality limit allows, the number of series reported stays within the limit and the excess is folded into the single
    otel.metrics.overflow=true series, so that the total over all reported series still equals everything recorded, for delta and
    cumulative readers alike."

   An attribute set is read as the partial function  key |-> value of the LAST pair with that key among the pairs whose key is in
   the allow-list (no sorting, no insertion).  Two values are the same value when they have the same type and the same content;
   doubles compare numerically (+0 = -0) and a NaN is the same value as a NaN. *)
From V Require Export C08.Model.
Local Open Scope Z_scope.

(* ------------------------------------------------------------------ same value *)
Definition dbl_equiv (a b : Z) : bool := (dbl_nan a && dbl_nan b) || dbl_ieee_eqb a b.
Definition scal_equiv (t : sty) (x y : scal) : bool :=
  match x, y with
  | SZ a, SZ b => match t with TDbl => dbl_equiv a b | _ => a =? b end
  | SS a, SS b => bytes_eqb a b
  | _, _ => false
  end.
Definition aval_equiv (a b : aval) : bool :=
  match a, b with
  | VOne t x, VOne u y => sty_eqb t u && scal_equiv t x y
  | VArr t l, VArr u m => sty_eqb t u && list_eqb (scal_equiv t) l m
  | _, _ => false
  end.
Definition opt_equiv (a b : option aval) : bool :=
  match a, b with
  | None, None => true
  | Some x, Some y => aval_equiv x y
  | _, _ => false
  end.

Definition scal_nan (t : sty) (x : scal) : bool :=
  match t, x with TDbl, SZ b => dbl_nan b | _, _ => false end.
Definition aval_nan (v : aval) : bool :=
  match v with VOne t x => scal_nan t x | VArr t l => existsb (scal_nan t) l end.
Definition kvs_nan (kvs : list (bytes * ival)) : bool := existsb (fun kv => aval_nan (own (snd kv))) kvs.
Definition attrs_nan (m : attrs) : bool := existsb (fun kv => aval_nan (snd kv)) m.

(* ------------------------------------------------------------------ an attribute set as a key-to-value map *)
(* value of the last pair with key k *)
Definition last_binding (k : bytes) (kvs : list (bytes * ival)) : option aval :=
  fold_left (fun acc kv => if bytes_eqb (fst kv) k then Some (own (snd kv)) else acc) kvs None.
Definition in_allow_list (f : afilter) (k : bytes) : bool :=
  match f with FNone => true | FAllow l => existsb (bytes_eqb k) l end.
(* what the measurement says about key k once the filter has been applied *)
Definition kept (f : afilter) (kvs : list (bytes * ival)) (k : bytes) : option aval :=
  if in_allow_list f k then last_binding k kvs else None.
(* equal as key-to-value maps: it is enough to look at the keys that occur *)
Definition sets_equal (f : afilter) (a b : list (bytes * ival)) : bool :=
  forallb (fun k => opt_equiv (kept f a k) (kept f b k)) (map fst a ++ map fst b).

(* reported attribute sets (points, dumps) are association lists too *)
Fixpoint assoc (k : bytes) (m : attrs) : option aval :=
  match m with [] => None | (k', v) :: r => if bytes_eqb k' k then Some v else assoc k r end.
Fixpoint nodup_keys (m : attrs) : bool :=
  match m with [] => true | (k, _) :: r => negb (existsb (fun kv => bytes_eqb (fst kv) k) r) && nodup_keys r end.
(* the reported set m is the map the measurement kvs denotes under filter f *)
Definition denotes (f : afilter) (kvs : list (bytes * ival)) (m : attrs) : bool :=
  forallb (fun k => opt_equiv (assoc k m) (kept f kvs k)) (map fst m ++ map fst kvs).
Definition attrs_equiv (a b : attrs) : bool :=
  forallb (fun k => opt_equiv (assoc k a) (assoc k b)) (map fst a ++ map fst b).

Definition is_overflow_set (m : attrs) : bool :=
  match m with
  | [(k, VOne TBool (SZ z))] =>
      bytes_eqb k (map n2b kAttributesLimitOverflowKey) && (z =? (if kAttributesLimitOverflowValue then 1 else 0))
  | _ => false
  end.

(* ------------------------------------------------------------------ clause: filter_by_full_key / last write wins, on one set *)
(* m is what the implementation built from kvs under f *)
Definition canon_clauses (f : afilter) (kvs : list (bytes * ival)) (m : attrs) : list tok :=
  check (nodup_keys m) "last_wins:duplicate_key" ++
  check (forallb (fun kv => in_allow_list f (fst kv)) m) "filter_by_full_key:key_not_allowed" ++
  check (forallb (fun kv => match kept f kvs (fst kv) with Some _ => true | None => negb (in_allow_list f (fst kv)) end) m)
        "filter_by_full_key:unknown_key" ++
  check (forallb (fun kv => match kept f kvs (fst kv) with
                            | Some _ => match assoc (fst kv) m with Some _ => true | None => false end
                            | None => true end) kvs) "filter_by_full_key:allowed_key_dropped" ++
  check (forallb (fun kv => match kept f kvs (fst kv) with Some v => aval_same v (snd kv) | None => true end) m)
        "last_wins:value".

(* ------------------------------------------------------------------ clause: same series / equal hash, on a pair of sets *)
Inductive hrel := HSame | HDiff | HNa.     (* hashes of two EQUAL maps compare equal / differ; not applicable: maps differ *)
Record eq_obs := mk_eq_obs {
  eo_a : attrs; eo_b : attrs;      (* the two filtered ordered maps *)
  eo_base : bool;                  (* OrderedAttributeMap equality *)
  eo_full : bool;                  (* FilteredOrderedAttributeMap::operator== *)
  eo_hash : hrel;
  eo_series : bool;                (* both measurements returned the same aggregation of one AttributesHashMap *)
  eo_paths : bool;                 (* processor->process(kvs) built the same map as MetricAttributes{kvs, processor} *)
  eo_phash : bool                  (* ... and the same cached hash *)
}.
Definition eq_clauses (f : afilter) (a b : list (bytes * ival)) (o : eq_obs) : list tok :=
  let eq := sets_equal f a b in
  let nan := kvs_nan a || kvs_nan b in
  canon_clauses f a (eo_a o) ++ canon_clauses f b (eo_b o) ++
  check (Bool.eqb (eo_series o) eq) (if nan then "same_series_iff_equal_maps:nan_value" else "same_series_iff_equal_maps:pair") ++
  check (Bool.eqb (eo_full o) eq) (if nan then "same_series_iff_equal_maps:nan_value" else "same_series_iff_equal_maps:operator_eq") ++
  check (negb eq || match eo_hash o with HSame => true | HDiff => false | HNa => nan end) "equal_maps_equal_hash:differ" ++
  check (eo_paths o) "filter_by_full_key:process_path_differs" ++
  check (eo_phash o) "equal_maps_equal_hash:process_path_hash".

(* ------------------------------------------------------------------ clauses on the reports of a storage over a history *)
(* the accepted measurements so far, oldest first: attribute pairs and the value that counts *)
Definition meas := (list (bytes * ival) * Z)%type.

Definition counts (mono : bool) (v : Z) : Z := if mono && (v <? 0) then 0 else v.
Definition sum_vals (l : list meas) : Z := fold_right (fun m s => snd m + s) 0 l.
Definition sum_denoted (f : afilter) (k : attrs) (l : list meas) : Z :=
  fold_right (fun m s => if denotes f (fst m) k then snd m + s else s) 0 l.
Definition table_total (t : table) : Z := fold_right (fun e s => snd e + s) 0 t.
(* representatives of the distinct sets, but never more than cap of them *)
Definition add_rep (f : afilter) (cap : nat) (reps : list (list (bytes * ival))) (kvs : list (bytes * ival)) :=
  if (cap <=? length reps)%nat then reps
  else if existsb (sets_equal f kvs) reps then reps else reps ++ [kvs].
Fixpoint keys_distinct (t : table) : bool :=
  match t with [] => true | (k, _) :: r => negb (existsb (fun e => attrs_equiv (fst e) k) r) && keys_distinct r end.

Inductive robs := RNoCb | RPoints (t : table) | RCrash | RReject.

(* the five checks on one report.  window = the measurements the collector has to account for (since its previous collection
   for a delta collector, since the start for a cumulative one) *)
Definition count_ok (limit : nat) (t : table) : bool := (length t <=? limit)%nat.
Definition total_ok (window : list meas) (t : table) : bool := table_total t =? sum_vals window.
Definition known_ok (f : afilter) (window : list meas) (t : table) : bool :=
  forallb (fun e => is_overflow_set (fst e) || existsb (fun m => denotes f (fst m) (fst e)) window) t.
(* nothing folded: every measurement has a series, and every series holds exactly the sum of the measurements it denotes *)
Definition exact_ok (f : afilter) (window : list meas) (t : table) : bool :=
  forallb (fun m => existsb (fun e => denotes f (fst m) (fst e)) t) window &&
  forallb (fun e => snd e =? sum_denoted f (fst e) window) t.

(* strict = false leaves out the two checks that look inside the individual series (known_ok, exact_ok) *)
Definition report_clauses (strict : bool) (limit : nat) (f : afilter) (cumulative nan : bool) (ndistinct : nat) (window : list meas)
                          (o : robs) : list tok :=
  match o with
  | RReject => fail "harness:walk_rejected"
  | RCrash => fail (if nan then "collect_completes:nan_value" else "collect_completes:crash")
  | RNoCb => check (sum_vals window =? 0) (if cumulative then "overflow_conserves_total:cumulative" else "overflow_conserves_total:delta") ++
             check (negb strict || negb (ndistinct <? limit)%nat || match window with [] => true | _ => false end)
                   "same_series_iff_equal_maps:missing_series"
  | RPoints t =>
      check (count_ok limit t) "series_le_limit:count" ++
      check (total_ok window t) (if cumulative then "overflow_conserves_total:cumulative" else "overflow_conserves_total:delta") ++
      check (keys_distinct t) (if nan then "same_series_iff_equal_maps:nan_value" else "same_series_iff_equal_maps:duplicate_series") ++
      check (negb strict || known_ok f window t) "filter_by_full_key:unknown_series" ++
      (* fewer distinct sets than the limit: nothing may have been folded *)
      check (negb strict || negb (ndistinct <? limit)%nat || exact_ok f window t)
            (if nan then "same_series_iff_equal_maps:nan_value" else "same_series_iff_equal_maps:series_value")
  end.

(* walk the history: hist = accepted measurements so far, marks = per collector the length of hist at its previous collection,
   reps = representatives of the distinct sets recorded so far (at most limit of them) *)
Fixpoint history_clauses (strict : bool) (limit : nat) (mono : bool) (f : afilter) (temps : list bool) (nan : bool)
                         (ops : list op) (obs : list robs)
                         (hist : list meas) (reps : list (list (bytes * ival))) (marks : list nat) : list tok :=
  match ops with
  | [] => match obs with [] => [] | _ => fail "harness:extra_reports" end
  | ORec kvs v :: r =>
      history_clauses strict limit mono f temps nan r obs (hist ++ [(kvs, counts mono v)]) (add_rep f limit reps kvs) marks
  | ORec0 v :: r =>
      history_clauses strict limit mono f temps nan r obs (hist ++ [([], counts mono v)]) (add_rep f limit reps []) marks
  | OCollect i :: r =>
      match obs with
      | [] => fail "harness:missing_report"
      | o :: obs' =>
          let cumulative := nth i temps false in
          let window := if cumulative then hist else skipn (nth i marks O) hist in
          report_clauses strict limit f cumulative nan (length reps) window o ++
          match o with
          | RCrash | RReject => []       (* the run ends here *)
          | _ => history_clauses strict limit mono f temps nan r obs' hist reps (set_nth i (length hist) marks)
          end
      end
  end.

Definition op_nan (o : op) : bool := match o with ORec kvs _ => kvs_nan kvs | _ => false end.
Definition storage_clauses (strict : bool) (c : cfg) (ops : list op) (obs : list robs) : list tok :=
  history_clauses strict (c_limit c) (c_mono c) (c_filter c) (c_temps c) (existsb op_nan ops) ops obs [] [] (map (fun _ => O) (c_temps c)).

(* ------------------------------------------------------------------ clauses on a directly driven AttributesHashMap *)
Definition hop_nan (o : hop) : bool :=
  match o with HGet _ kvs _ | HSet _ kvs _ | HQuery kvs | HHas kvs => kvs_nan kvs | _ => false end.
Fixpoint hashmap_clauses (limit : nat) (nan : bool) (obs : list hres) : list tok :=
  match obs with
  | [] => []
  | HRSize n :: r => check (n <=? limit)%nat "series_le_limit:size" ++ hashmap_clauses limit nan r
  | HRDump t :: r =>
      check (length t <=? limit)%nat "series_le_limit:size" ++
      check (keys_distinct t) (if nan then "same_series_iff_equal_maps:nan_value" else "same_series_iff_equal_maps:duplicate_series") ++
      hashmap_clauses limit nan r
  | HRNull :: r => fail (if nan then "collect_completes:nan_value" else "collect_completes:null_aggregation") ++ hashmap_clauses limit nan r
  | HRReject :: r => fail "harness:walk_rejected"
  | _ :: r => hashmap_clauses limit nan r
  end.
