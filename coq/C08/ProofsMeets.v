(* C08 proofs, part 5: the theorems about every history (instances of ProofsStorage.run_ops_ok) and the SPEC checkers of
   C08/Spec.v accept what the model produces:
     - eq_clauses (pairs of attribute sets): all clauses;
     - hashmap_clauses (directly driven AttributesHashMap): all clauses;
     - storage_clauses (reports of a storage over a history): the clauses series_le_limit, overflow_conserves_total,
       duplicate_series and collect_completes (strict = false); the two checks that look inside the individual series
       (known_ok, exact_ok) are proved in ProofsSeries.v. *)
From V Require Import C08.Glue C08.ProofsAttrs C08.ProofsTable C08.ProofsStorage.
From Coq Require Import Lia ZifyBool ZifyNat Permutation Sorting.Sorted.
Local Open Scope Z_scope.

(* ------------------------------------------------------------------ predicates on all keys of a table *)
Definition kall (Q : attrs -> Prop) (t : table) : Prop := Forall Q (map fst t).

Section KAll.
  Variable Q : attrs -> Prop.
  Hypothesis Q_ovf : Q overflow_attrs.
  Lemma kall_tset k v t : kall Q t -> kall Q (tset k v t).
  Proof. unfold kall. rewrite tset_keys. auto. Qed.
  Lemma kall_app t e : kall Q t -> Q (fst e) -> kall Q (t ++ [e]).
  Proof. unfold kall. intros H1 H2. rewrite map_app. apply Forall_app. split; [assumption|]. repeat constructor. assumption. Qed.
  Lemma kall_ensure t : kall Q t -> kall Q (ensure_overflow t).
  Proof. intros H. unfold ensure_overflow. destruct (tfind overflow_attrs t); [assumption|]. apply kall_app; assumption. Qed.
  Lemma kall_tadd k d t : kall Q t -> kall Q (tadd k d t).
  Proof. intros H. unfold tadd. destruct (tfind k t); [apply kall_tset|]; assumption. Qed.
  Lemma kall_record L k d t : kall Q t -> Q k -> kall Q (record L k d t).
  Proof.
    intros H Hk. unfold record. destruct (tfind k t); [apply kall_tset; assumption|].
    destruct (is_overflow L t); [apply kall_tadd, kall_ensure; assumption|apply kall_app; assumption].
  Qed.
  Lemma kall_tput L k v t : kall Q t -> Q k -> kall Q (tput L k v t).
  Proof.
    intros H Hk. unfold tput. destruct (tfind k t); [apply kall_tset; assumption|].
    destruct (is_overflow L t); [|apply kall_app; assumption].
    destruct (tfind overflow_attrs t); [apply kall_tset; assumption|apply kall_app; assumption].
  Qed.
  Lemma kall_merge_in L t e : kall Q t -> Q (fst e) -> kall Q (merge_in L t e).
  Proof.
    intros H Hk. destruct e as [k d]. cbn [fst] in Hk. unfold merge_in. destruct (tfind k t).
    - apply kall_tput; assumption.
    - destruct (is_overflow L t).
      + apply kall_tput; [apply kall_ensure|]; assumption.
      + apply kall_tput; [apply kall_app|]; assumption.
  Qed.
  Lemma kall_perm a b : Permutation a b -> kall Q a -> kall Q b.
  Proof. unfold kall. intros Hp. apply Permutation_Forall. apply Permutation_map. assumption. Qed.
  Lemma kall_in t e : kall Q t -> In e t -> Q (fst e).
  Proof. unfold kall. rewrite Forall_forall. intros H Hin. apply H. apply in_map. assumption. Qed.
End KAll.

(* ------------------------------------------------------------------ instance 1: size and distinctness, for ALL histories *)
Definition P1 (L : nat) (t : table) : Prop := tinv L t /\ kdistinct t.

Lemma results_ok_mono c (P P' : table -> Prop) : (forall t, P t -> P' t) ->
  forall ops rs hist marks, results_ok c P rs ops hist marks -> results_ok c P' rs ops hist marks.
Proof.
  intros HP. induction ops as [|o ops IH]; intros rs hist marks; [auto|].
  destruct o as [kvs v|v|i]; cbn [results_ok]; auto.
  destruct rs as [|r rs]; [auto|]. destruct r as [|t|].
  - intros [H1 H2]. split; auto.
  - intros [H1 [H2 H3]]. repeat split; auto.
  - auto.
Qed.

Lemma results_ok_reports c P : forall ops rs hist marks t,
  results_ok c P rs ops hist marks -> In (CReport t) rs -> P t.
Proof.
  induction ops as [|o ops IH]; intros rs hist marks t; cbn [results_ok].
  - intros -> [].
  - destruct o as [kvs v|v|i]; try (apply IH).
    destruct rs as [|r rs]; [intros []|]. destruct r as [|t0|].
    + intros [_ H] [X|X]; [discriminate|]. eapply IH; eauto.
    + intros [H1 [_ H]] [X|X]; [inversion X; subst; assumption|]. eapply IH; eauto.
    + intros -> [X|[]]. discriminate.
Qed.

Theorem history_ok_all c ops walks : (1 <= c_limit c)%nat ->
  results_ok c (P1 (c_limit c)) (run_ops c ops walks (init_storage c)) ops [] (map (fun _ => O) (c_temps c)).
Proof.
  intros HL. apply (run_ops_ok c (P1 (c_limit c)) (fun _ => True)).
  - split; [apply tinv_nil; assumption|constructor].
  - intros k d t [H1 H2] _. split; [apply record_tinv|apply record_kdistinct]; assumption.
  - intros t e [H1 H2] _. split; [apply merge_in_tinv|apply merge_in_kdistinct]; assumption.
  - intros a b Hp [H1 H2]. split; [eapply tinv_perm|eapply kdistinct_perm]; eauto.
  - auto.
  - apply SP_init. split; [apply tinv_nil; assumption|constructor].
  - apply G_init.
  - apply Forall_forall. intros o _. destruct o; exact I.
Qed.

(* series_le_limit_every_cycle *)
Theorem series_le_limit_lemma c ops walks t : (1 <= c_limit c)%nat ->
  In (CReport t) (run_ops c ops walks (init_storage c)) -> (length t <= c_limit c)%nat.
Proof.
  intros HL Hin. pose proof (results_ok_reports _ _ _ _ _ _ t (history_ok_all c ops walks HL) Hin) as [H _]. apply tinv_le. exact H.
Qed.
(* no attribute set is split over two reported series (keys pairwise different under the map comparison) *)
Theorem reported_series_distinct_lemma c ops walks t : (1 <= c_limit c)%nat ->
  In (CReport t) (run_ops c ops walks (init_storage c)) -> kdistinct t.
Proof.
  intros HL Hin. pose proof (results_ok_reports _ _ _ _ _ _ t (history_ok_all c ops walks HL) Hin) as [_ H]. exact H.
Qed.
(* overflow_conserves_total *)
Theorem conservation_lemma c ops walks : (1 <= c_limit c)%nat ->
  results_ok c (fun _ => True) (run_ops c ops walks (init_storage c)) ops [] (map (fun _ => O) (c_temps c)).
Proof. intros HL. eapply results_ok_mono; [|apply history_ok_all; assumption]. auto. Qed.

(* ------------------------------------------------------------------ instance 2: all keys are ordered maps *)
Definition good (k : attrs) : Prop := sorted k.
Definition P2 (L : nat) (t : table) : Prop := tinv L t /\ kdistinct t /\ kall good t.

Lemma good_overflow : good overflow_attrs.
Proof. repeat constructor. Qed.
Lemma good_nil : good [].
Proof. constructor. Qed.

Lemma assoc_in_sorted k v m : sorted m -> In (k, v) m -> assoc k m = Some v.
Proof.
  induction m as [|[k' v'] m IH]; intros Hs Hin0; [destruct Hin0|]. destruct Hin0 as [Hin|Hin]; cbn.
  - inversion Hin; subst. rewrite bytes_eqb_refl. reflexivity.
  - pose proof (sorted_tail_above _ _ _ Hs) as Hf. rewrite Forall_forall in Hf. specialize (Hf _ Hin). cbn in Hf.
    rewrite bytes_eqb_neq by (intros ->; rewrite bytes_cmp_refl in Hf; discriminate). apply IH; [inversion Hs; assumption|assumption].
Qed.
Lemma assoc_in k v m : assoc k m = Some v -> In (k, v) m.
Proof.
  induction m as [|[k' v'] m IH]; cbn; [discriminate|]. destruct (bytes_eqb k' k) eqn:E.
  - apply bytes_eqb_eq in E. intros X. inversion X. subst. left. reflexivity.
  - intros X. right. auto.
Qed.
Lemma mk_attrs_nan f kvs : kvs_nan kvs = false -> attrs_nan (mk_attrs f kvs) = false.
Proof.
  intros Hn. unfold attrs_nan. destruct (existsb _ (mk_attrs f kvs)) eqn:E; [|reflexivity].
  apply existsb_exists in E. destruct E as [[k v] [Hin Hv]]. cbn in Hv.
  pose proof (assoc_in_sorted k v _ (mk_attrs_sorted f kvs) Hin) as Ha. rewrite mk_attrs_denotes in Ha.
  rewrite (kvs_nan_false_kept _ _ _ _ Hn Ha) in Hv. discriminate.
Qed.

Theorem history_ok_sorted c ops walks : (1 <= c_limit c)%nat ->
  results_ok c (P2 (c_limit c)) (run_ops c ops walks (init_storage c)) ops [] (map (fun _ => O) (c_temps c)).
Proof.
  intros HL. apply (run_ops_ok c (P2 (c_limit c)) good).
  - split; [apply tinv_nil; assumption|]. split; constructor.
  - intros k d t [H1 [H2 H3]] Hk. split; [apply record_tinv; assumption|]. split; [apply record_kdistinct; assumption|].
    apply kall_record; [apply good_overflow| |]; assumption.
  - intros t e [H1 [H2 H3]] Hk. split; [apply merge_in_tinv; assumption|]. split; [apply merge_in_kdistinct; assumption|].
    apply kall_merge_in; [apply good_overflow| |]; assumption.
  - intros a b Hp [H1 [H2 H3]]. split; [eapply tinv_perm; eauto|]. split; [eapply kdistinct_perm; eauto|eapply kall_perm; eauto].
  - intros t e [_ [_ H]] Hin. eapply kall_in; eauto.
  - apply SP_init. split; [apply tinv_nil; assumption|]. split; constructor.
  - apply G_init.
  - apply Forall_forall. intros o Ho. destruct o as [kvs v|v|i]; cbn; auto; [apply mk_attrs_sorted|apply good_nil].
Qed.

(* ------------------------------------------------------------------ instance 3: no series out of thin air *)
(* the attribute sets that may be reported on a history: the overflow set and the filtered set of a recorded measurement *)
Definition recorded_set (f : afilter) (ops : list op) (k : attrs) : Prop :=
  k = overflow_attrs \/ (exists v, In (ORec0 v) ops /\ k = []) \/ exists kvs v, In (ORec kvs v) ops /\ k = mk_attrs f kvs.

Theorem reported_sets_recorded_lemma c ops walks t e :
  In (CReport t) (run_ops c ops walks (init_storage c)) -> In e t -> recorded_set (c_filter c) ops (fst e).
Proof.
  intros Hin He.
  set (Q := recorded_set (c_filter c) ops).
  assert (Hq : Q overflow_attrs) by (left; reflexivity).
  assert (H : results_ok c (kall Q) (run_ops c ops walks (init_storage c)) ops [] (map (fun _ => O) (c_temps c))).
  { apply (run_ops_ok c (kall Q) Q).
    - constructor.
    - intros. apply kall_record; assumption.
    - intros. apply kall_merge_in; assumption.
    - intros. eapply kall_perm; eauto.
    - intros. eapply kall_in; eauto.
    - apply SP_init. constructor.
    - apply G_init.
    - apply Forall_forall. intros o Ho. destruct o as [kvs v|v|i]; cbn; auto.
      + right. right. exists kvs, v. auto.
      + right. left. exists v. auto. }
  pose proof (results_ok_reports _ _ _ _ _ _ t H Hin) as Ht. exact (kall_in Q t e Ht He).
Qed.

(* ------------------------------------------------------------------ spec-level distinctness from the map comparison *)
Lemma attrs_equiv_iff a b : attrs_equiv a b = true <-> forall k, opt_equiv (assoc k a) (assoc k b) = true.
Proof.
  unfold attrs_equiv. rewrite forallb_forall. split; [|intros H k _; apply H].
  intros H k. destruct (In_dec (list_eq_dec Byte.byte_eq_dec) k (map fst a ++ map fst b)) as [Hi|Hn]; [apply H; assumption|].
  rewrite in_app_iff in Hn. rewrite (proj2 (assoc_none_iff k a)), (proj2 (assoc_none_iff k b)) by tauto. reflexivity.
Qed.
Lemma attrs_equiv_eqb a b : good a -> good b -> attrs_equiv a b = true -> attrs_eqb a b = true.
Proof.
  intros Sa Sb H. rewrite attrs_eqb_maps_rel. apply (sorted_rel aval_eqb a b Sa Sb). intros k.
  pose proof (proj1 (attrs_equiv_iff a b) H k) as Hk. rewrite opt_equiv_is_opt_rel in Hk.
  destruct (assoc k a) eqn:Ea, (assoc k b) eqn:Eb; cbn in *; auto. rewrite <- aval_equiv_eqb. assumption.
Qed.

Lemma keys_distinct_of t : kdistinct t -> kall good t -> keys_distinct t = true.
Proof.
  unfold kdistinct, kall, kd. induction t as [|[k v] t IH]; cbn; [reflexivity|]. intros Hd Hg.
  inversion Hd as [|? ? Hk Hr]; subst. inversion Hg as [|? ? Gk Gr]; subst. rewrite (IH Hr Gr), andb_true_r.
  apply negb_true_iff. destruct (existsb (fun e => attrs_equiv (fst e) k) t) eqn:E; [|reflexivity].
  apply existsb_exists in E. destruct E as [e [Hin He]].
  assert (Hge : good (fst e)) by (rewrite Forall_forall in Gr; apply Gr; apply in_map; assumption).
  apply (attrs_equiv_eqb _ _ Hge Gk) in He. rewrite attrs_eqb_sym in He.
  rewrite Forall_forall in Hk. rewrite (Hk (fst e)) in He by (apply in_map; assumption). discriminate.
Qed.

(* ------------------------------------------------------------------ storage_clauses (strict = false) accepts the model *)
Definition robs_of (r : cres) : robs :=
  match r with CNoCb => RNoCb | CReport t => RPoints t | CReject => RReject end.

Lemma history_clauses_ok c nan : forall ops rs hist reps marks,
  results_ok c (P2 (c_limit c)) rs ops hist marks -> ~ In CReject rs ->
  history_clauses false (c_limit c) (c_mono c) (c_filter c) (c_temps c) nan ops (map robs_of rs) hist reps marks = [].
Proof.
  induction ops as [|o ops IH]; intros rs hist reps marks; cbn [results_ok history_clauses].
  - intros -> _. reflexivity.
  - destruct o as [kvs v|v|i]; try (apply IH).
    destruct rs as [|r rs]; [intros []|]. cbn [map]. destruct r as [|t|]; cbn [robs_of report_clauses].
    + intros [H1 H2] Hr. rewrite H1. cbn. apply IH; [assumption|]. intros X. apply Hr. right. assumption.
    + intros [[Ht [Hd Hg]] [H2 H3]] Hr.
      unfold count_ok, total_ok. rewrite table_total_is_total, H2, Z.eqb_refl, (keys_distinct_of t Hd Hg).
      pose proof (tinv_le _ _ Ht) as Hle. apply Nat.leb_le in Hle. rewrite Hle. cbn.
      apply IH; [assumption|]. intros X. apply Hr. right. assumption.
    + intros _ Hr. exfalso. apply Hr. left. reflexivity.
Qed.

Theorem storage_meets_spec_partial c ops walks : (1 <= c_limit c)%nat ->
  ~ In CReject (run_ops c ops walks (init_storage c)) ->
  storage_clauses false c ops (map robs_of (run_ops c ops walks (init_storage c))) = [].
Proof.
  intros HL Hr. unfold storage_clauses. apply history_clauses_ok; [|assumption]. apply history_ok_sorted. assumption.
Qed.

(* ------------------------------------------------------------------ hashmap_clauses accepts the model *)
Lemma hashmap_clauses_ok L f nan : (1 <= L)%nat -> forall ops walks t,
  P2 L t -> ~ In HRReject (run_hops L f ops walks t) ->
  hashmap_clauses L nan (run_hops L f ops walks t) = [].
Proof.
  intros HL. induction ops as [|o ops IH]; intros walks t HP Hr; [reflexivity|].
  pose proof HP as HP0. destruct HP as [H1 [H2 H3]].
  destruct o as [how kvs d|how kvs v|kvs|kvs| |]; cbn [run_hops] in *.
  - cbn [hashmap_clauses]. apply IH.
    + split; [apply record_tinv; assumption|]. split; [apply record_kdistinct; assumption|].
      apply kall_record; [apply good_overflow|assumption|apply mk_attrs_sorted].
    + intros X. apply Hr. right. assumption.
  - cbn [hashmap_clauses]. apply IH.
    + split; [apply tput_tinv; assumption|]. split; [apply tput_kdistinct; assumption|].
      apply kall_tput; [apply good_overflow|assumption|apply mk_attrs_sorted].
    + intros X. apply Hr. right. assumption.
  - cbn [hashmap_clauses]. apply IH; auto. intros X. apply Hr. right. assumption.
  - cbn [hashmap_clauses]. apply IH; auto. intros X. apply Hr. right. assumption.
  - cbn [hashmap_clauses]. pose proof (tinv_le _ _ H1) as Hle. apply Nat.leb_le in Hle. rewrite Hle. cbn.
    apply IH; auto. intros X. apply Hr. right. assumption.
  - destruct walks as [|w ws]; [exfalso; apply Hr; left; reflexivity|].
    destruct (is_perm w t) eqn:Ep; [|exfalso; apply Hr; left; reflexivity].
    pose proof (is_perm_perm _ _ Ep) as Hp. apply Permutation_sym in Hp.
    assert (HPw : P2 L w).
    { split; [eapply tinv_perm; eauto|]. split; [eapply kdistinct_perm; eauto|eapply kall_perm; eauto]. }
    cbn [hashmap_clauses]. pose proof HPw as HPw0. destruct HPw as [W1 [W2 W3]].
    pose proof (tinv_le _ _ W1) as Hle. apply Nat.leb_le in Hle. rewrite Hle, (keys_distinct_of w W2 W3). cbn.
    apply IH; auto. intros X. apply Hr. right. assumption.
Qed.
Theorem hashmap_meets_spec L f ops walks : (1 <= L)%nat ->
  ~ In HRReject (run_hops L f ops walks []) -> hashmap_clauses L (existsb hop_nan ops) (run_hops L f ops walks []) = [].
Proof.
  intros HL Hr. apply hashmap_clauses_ok; auto. split; [apply tinv_nil; assumption|]. split; constructor.
Qed.

(* ------------------------------------------------------------------ eq_clauses accepts the model *)
Lemma sorted_nodup_keys m : sorted m -> nodup_keys m = true.
Proof.
  induction m as [|[k v] m IH]; intros Hs; cbn; [reflexivity|].
  rewrite IH by (inversion Hs; assumption). rewrite andb_true_r. apply negb_true_iff.
  destruct (existsb (fun kv => bytes_eqb (fst kv) k) m) eqn:E; [|reflexivity].
  apply existsb_exists in E. destruct E as [[k' v'] [Hin He]]. cbn in He. apply bytes_eqb_eq in He. subst k'.
  pose proof (sorted_tail_above _ _ _ Hs) as Hf. rewrite Forall_forall in Hf. specialize (Hf _ Hin). cbn in Hf.
  rewrite bytes_cmp_refl in Hf. discriminate.
Qed.

Lemma scal_same_refl x : scal_same x x = true.
Proof. destruct x; cbn; [apply Z.eqb_refl|apply bytes_eqb_refl]. Qed.
Lemma aval_same_refl x : aval_same x x = true.
Proof.
  destruct x as [t a|t l]; cbn; rewrite sty_eqb_refl; cbn; [apply scal_same_refl|].
  induction l as [|x l IH]; cbn; [reflexivity|]. rewrite scal_same_refl. exact IH.
Qed.

Theorem canon_clauses_ok f kvs : canon_clauses f kvs (mk_attrs f kvs) = [].
Proof.
  pose proof (mk_attrs_sorted f kvs) as Hs. unfold canon_clauses.
  rewrite (sorted_nodup_keys _ Hs). cbn [check app].
  assert (Hm : forall kv, In kv (mk_attrs f kvs) -> kept f kvs (fst kv) = Some (snd kv)).
  { intros [k v] Hin. rewrite <- mk_attrs_denotes. apply assoc_in_sorted; assumption. }
  assert (H1 : forallb (fun kv => in_allow_list f (fst kv)) (mk_attrs f kvs) = true).
  { apply forallb_forall. intros kv Hin. specialize (Hm kv Hin). unfold kept in Hm. destruct (in_allow_list f (fst kv)); [reflexivity|discriminate]. }
  rewrite H1. cbn [check app].
  assert (H2 : forallb (fun kv => match kept f kvs (fst kv) with Some _ => true | None => negb (in_allow_list f (fst kv)) end)
                       (mk_attrs f kvs) = true).
  { apply forallb_forall. intros kv Hin. rewrite (Hm kv Hin). reflexivity. }
  rewrite H2. cbn [check app].
  assert (H3 : forallb (fun kv => match kept f kvs (fst kv) with
                                  | Some _ => match assoc (fst kv) (mk_attrs f kvs) with Some _ => true | None => false end
                                  | None => true end) kvs = true).
  { apply forallb_forall. intros kv _. rewrite mk_attrs_denotes. destruct (kept f kvs (fst kv)); reflexivity. }
  rewrite H3. cbn [check app].
  assert (H4 : forallb (fun kv => match kept f kvs (fst kv) with Some v => aval_same v (snd kv) | None => true end) (mk_attrs f kvs) = true).
  { apply forallb_forall. intros kv Hin. rewrite (Hm kv Hin). apply aval_same_refl. }
  rewrite H4. reflexivity.
Qed.

(* without NaN in the first map the two comparisons agree *)
Lemma dbl_eqb_ieee_no_nan a b : dbl_nan a = false -> dbl_ieee_eqb a b = dbl_eqb a b.
Proof. unfold dbl_eqb. intros ->. cbn. rewrite orb_false_r. reflexivity. Qed.
Lemma scal_ieee_no_nan t x y : scal_nan t x = false -> scal_ieee_eqb t x y = scal_eqb t x y.
Proof. destruct x as [a|a], y as [b|b]; cbn; try reflexivity. destruct t; cbn; try reflexivity. apply dbl_eqb_ieee_no_nan. Qed.
Lemma aval_ieee_no_nan x y : aval_nan x = false -> aval_ieee_eqb x y = aval_eqb x y.
Proof.
  destruct x as [t a|t l], y as [u b|u m]; cbn; try reflexivity; intros H.
  - rewrite scal_ieee_no_nan by assumption. reflexivity.
  - f_equal. revert m. induction l as [|x l IH]; intros [|y m]; cbn in *; try reflexivity.
    apply orb_false_iff in H. destruct H as [H1 H2]. rewrite scal_ieee_no_nan by assumption. rewrite IH by assumption. reflexivity.
Qed.
Lemma attrs_ieee_no_nan a b : attrs_nan a = false -> attrs_ieee_eqb a b = attrs_eqb a b.
Proof.
  unfold attrs_nan, attrs_ieee_eqb, attrs_eqb. revert b. induction a as [|[k v] a IH]; intros [|[k' v'] b]; cbn; try reflexivity.
  rewrite orb_false_iff. intros [H1 H2]. unfold pair_eqb. cbn [fst snd]. rewrite aval_ieee_no_nan by assumption. rewrite IH by assumption. reflexivity.
Qed.

Theorem eq_meets_spec f a b : eq_clauses f a b (eq_model f a b) = [].
Proof.
  unfold eq_clauses, eq_model. cbn [eo_a eo_b eo_base eo_full eo_hash eo_series eo_paths eo_phash].
  rewrite !canon_clauses_ok. cbn [app].
  rewrite <- (attrs_eqb_iff_sets_equal f a b).
  (* the pair lands in one series of a table with room iff the maps compare equal *)
  assert (Hs : match tfind (mk_attrs f b) (record 10 (mk_attrs f a) 1 []) with Some _ => true | None => false end
               = attrs_eqb (mk_attrs f a) (mk_attrs f b)).
  { unfold record. cbn [tfind]. unfold is_overflow. cbn [length Nat.leb Nat.add app]. cbn [tfind].
    destruct (attrs_eqb (mk_attrs f a) (mk_attrs f b)); reflexivity. }
  rewrite Hs. rewrite !eqb_reflx.
  assert (Hh : (negb (attrs_eqb (mk_attrs f a) (mk_attrs f b)) ||
                match (if attrs_ieee_eqb (mk_attrs f a) (mk_attrs f b) then HSame else HNa) with
                | HSame => true | HDiff => false | HNa => kvs_nan a || kvs_nan b end) = true).
  { destruct (attrs_eqb (mk_attrs f a) (mk_attrs f b)) eqn:E; [|reflexivity]. cbn [negb orb].
    destruct (attrs_ieee_eqb (mk_attrs f a) (mk_attrs f b)) eqn:Ei; [reflexivity|].
    destruct (kvs_nan a) eqn:Ea; [reflexivity|]. exfalso.
    rewrite (attrs_ieee_no_nan _ _ (mk_attrs_nan f a Ea)) in Ei. congruence. }
  rewrite Hh. destruct (kvs_nan a || kvs_nan b); reflexivity.
Qed.

(* non-vacuity: a history that overflows, through all clauses *)
Example storage_example :
  let c := mk_cfg 2 true FNone [true] in
  let r i := ORec [(bs "k", IV (VOne TI64 (SZ i)))] 1 in
  let ops := [r 0; r 1; r 2; OCollect 0%nat; r 3; OCollect 0%nat] in
  exists w1 w2 w3 w4,
    run_ops c ops [w1; w2; w3; w4] (init_storage c) =
      [CReport [([(bs "k", VOne TI64 (SZ 0))], 1); (overflow_attrs, 2)];
       CReport [([(bs "k", VOne TI64 (SZ 3))], 1); (overflow_attrs, 3)]] /\
    storage_clauses true c ops (map robs_of (run_ops c ops [w1; w2; w3; w4] (init_storage c))) = [].
Proof.
  exists [([(bs "k", VOne TI64 (SZ 0))], 1); (overflow_attrs, 2)], [([(bs "k", VOne TI64 (SZ 0))], 1); (overflow_attrs, 2)],
         [([(bs "k", VOne TI64 (SZ 3))], 1)], [([(bs "k", VOne TI64 (SZ 3))], 1); (overflow_attrs, 3)].
  vm_compute. repeat split; reflexivity.
Qed.

(* ------------------------------------------------------------------ same series iff equal sets, for measurements *)
Theorem same_series_iff_equal_sets L f a b d t :
  (sets_equal f a b = true ->
     attrs_eqb (series_key L (mk_attrs f a) t) (series_key L (mk_attrs f b) (record L (mk_attrs f a) d t)) = true) /\
  (attrs_eqb (series_key L (mk_attrs f a) t) (series_key L (mk_attrs f b) (record L (mk_attrs f a) d t)) = true ->
     sets_equal f a b = true \/ attrs_eqb (series_key L (mk_attrs f a) t) overflow_attrs = true).
Proof.
  split.
  - intros He. apply equal_maps_same_series. rewrite attrs_eqb_iff_sets_equal. assumption.
  - intros Hs. destruct (same_series_equal_maps_or_overflow _ _ _ _ _ Hs) as [H|H]; [left|right; assumption].
    rewrite <- attrs_eqb_iff_sets_equal. assumption.
Qed.

(* ------------------------------------------------------------------ regression: the repaired F26 / F26b (a NaN attribute value) *)
Definition nan_kvs : list (bytes * ival) := [(bs "k", IV (VOne TDbl (SZ 9221120237041090560)))].     (* 0x7ff8000000000000 *)
Definition nan_kvs' : list (bytes * ival) := [(bs "k", IV (VOne TDbl (SZ 18444492273895866368)))].   (* 0xfff8000000000000 *)
Definition nan_key : attrs := [(bs "k", VOne TDbl (SZ 9221120237041090560))].
Definition nan_key' : attrs := [(bs "k", VOne TDbl (SZ 18444492273895866368))].
Definition f26_cfg : cfg := mk_cfg 5 true FNone [false].
Definition f26_ops : list op := [ORec nan_kvs 1; ORec nan_kvs' 1; OCollect 0%nat].
Definition f26b_cfg : cfg := mk_cfg 5 true FNone [true].
Definition f26b_ops : list op := [ORec nan_kvs 1; OCollect 0%nat; ORec nan_kvs' 2; OCollect 0%nat].

(* a set holding a NaN equals itself and any other writing of the NaN; the measurements share one series; the merge path completes *)
Example nan_value_regression :
  attrs_eqb (mk_attrs FNone nan_kvs) (mk_attrs FNone nan_kvs') = true /\
  run_ops f26_cfg f26_ops [[(nan_key, 2)]; [(nan_key, 2)]] (init_storage f26_cfg) = [CReport [(nan_key, 2)]] /\
  run_ops f26b_cfg f26b_ops [[(nan_key, 1)]; [(nan_key, 1)]; [(nan_key', 2)]; [(nan_key', 3)]] (init_storage f26b_cfg) =
    [CReport [(nan_key, 1)]; CReport [(nan_key', 3)]] /\
  storage_clauses true f26b_cfg f26b_ops [RPoints [(nan_key, 1)]; RPoints [(nan_key', 3)]] = [].
Proof. vm_compute. repeat split; reflexivity. Qed.

(* a collection ends without callback, with a report, or (differential run only) with a rejected walk order: nothing else exists *)
Lemma collect_completes_lemma c ops walks r : In r (run_ops c ops walks (init_storage c)) ->
  r = CNoCb \/ (exists t, r = CReport t) \/ r = CReject.
Proof. intros _. destruct r as [|t|]; [left|right; left; exists t|right; right]; reflexivity. Qed.
