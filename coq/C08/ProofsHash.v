(* C08 proofs, part 2: equal attribute maps hash equally.
   GetHashForAttributeMap folds hash_combine over the sorted pairs; std::hash<std::string> and std::hash<double> are arbitrary
   functions, the latter assumed to respect the value comparison of doubles (it must give +0.0 and -0.0 the same hash - libstdc++
   returns 0 for both - and GetHash<double> hands it the quiet NaN for every NaN).  Consequently FilteredOrderedAttributeMap::operator== (hash first, then the map) is just the map comparison. *)
From V Require Import C08.Spec C08.ProofsAttrs.
From Coq Require Import Lia.
Local Open Scope Z_scope.

Section HashProofs.
  Variable h_str : bytes -> Z.
  Variable h_dbl : Z -> Z.
  Hypothesis h_dbl_respects_eq : forall a b, dbl_eqb a b = true -> h_dbl a = h_dbl b.

  Lemma h_scal_eq t x y : scal_eqb t x y = true -> h_scal h_str h_dbl t x = h_scal h_str h_dbl t y.
  Proof.
    destruct x as [a|a], y as [b|b]; cbn; try discriminate.
    - destruct t; try (intros H; apply Z.eqb_eq in H; subst; reflexivity). apply h_dbl_respects_eq.
    - intros H. apply bytes_eqb_eq in H. subst. reflexivity.
  Qed.

  Lemma hash_val_eq seed x y : aval_eqb x y = true -> hash_val h_str h_dbl seed x = hash_val h_str h_dbl seed y.
  Proof.
    destruct x as [t a|t l], y as [u b|u m]; cbn; try discriminate; rewrite andb_true_iff; intros [Ht H];
      apply sty_eqb_eq in Ht; subst u.
    - rewrite (h_scal_eq t a b H). reflexivity.
    - revert seed m H. induction l as [|x l IH]; intros seed [|y m]; cbn; try discriminate; [reflexivity|].
      rewrite andb_true_iff. intros [H1 H2]. rewrite (h_scal_eq t x y H1). apply IH. assumption.
  Qed.

  Lemma hash_fold_eq seed a b : attrs_eqb a b = true ->
    fold_left (fun s kv => hash_val h_str h_dbl (combine s (h_str (fst kv))) (snd kv)) a seed =
    fold_left (fun s kv => hash_val h_str h_dbl (combine s (h_str (fst kv))) (snd kv)) b seed.
  Proof.
    revert seed b. induction a as [|[ka va] a IH]; intros seed [|[kb vb] b]; cbn; try discriminate; [reflexivity|].
    unfold pair_eqb. cbn [fst snd]. rewrite !andb_true_iff. intros [[Hk Hv] Hr]. apply bytes_eqb_eq in Hk. subst kb.
    rewrite (hash_val_eq _ va vb Hv). apply IH. assumption.
  Qed.

  Theorem equal_maps_equal_hash_lemma a b : attrs_eqb a b = true -> hash_attrs h_str h_dbl a = hash_attrs h_str h_dbl b.
  Proof. apply hash_fold_eq. Qed.

  (* operator== of FilteredOrderedAttributeMap is the comparison of the ordered maps *)
  Theorem key_eqb_is_attrs_eqb a b : key_eqb h_str h_dbl a b = attrs_eqb a b.
  Proof.
    unfold key_eqb. destruct (attrs_eqb a b) eqn:E; [|apply andb_false_r].
    rewrite (equal_maps_equal_hash_lemma a b E), Z.eqb_refl. reflexivity.
  Qed.

  (* in terms of measurements: equal sets hash equally *)
  Theorem equal_sets_equal_hash f a b : sets_equal f a b = true ->
    hash_attrs h_str h_dbl (mk_attrs f a) = hash_attrs h_str h_dbl (mk_attrs f b).
  Proof. intros He. apply equal_maps_equal_hash_lemma. rewrite attrs_eqb_iff_sets_equal. assumption. Qed.
End HashProofs.

(* non-vacuity: a hash function with the required property, and two different writings of one set *)
Example hash_hypothesis_satisfiable : exists h : Z -> Z, forall a b, dbl_eqb a b = true -> h a = h b.
Proof. exists (fun _ => 0). reflexivity. Qed.
Example signed_zero_example :
  attrs_eqb [(bs "k", VOne TDbl (SZ 0))] [(bs "k", VOne TDbl (SZ (2 ^ 63)))] = true /\
  (forall h_str h_dbl, (forall a b, dbl_eqb a b = true -> h_dbl a = h_dbl b) ->
     hash_attrs h_str h_dbl [(bs "k", VOne TDbl (SZ 0))] = hash_attrs h_str h_dbl [(bs "k", VOne TDbl (SZ (2 ^ 63)))]).
Proof. split; [reflexivity|]. intros h_str h_dbl H. apply equal_maps_equal_hash_lemma; [assumption|reflexivity]. Qed.
(* the hash looks at values through static_cast<size_t> only: different value types may collide (allowed by the property) *)
Example hash_ignores_value_type : forall h_str h_dbl,
  hash_attrs h_str h_dbl [(bs "k", VOne TI32 (SZ 5))] = hash_attrs h_str h_dbl [(bs "k", VOne TI64 (SZ 5))] /\
  attrs_eqb [(bs "k", VOne TI32 (SZ 5))] [(bs "k", VOne TI64 (SZ 5))] = false.
Proof. intros. split; reflexivity. Qed.
