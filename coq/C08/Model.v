(* C08 - executable model of the metric series table:
     sdk/common/attribute_utils.h          OwnedAttributeValue, AttributeConverter, OrderedAttributeMap (a std::map)
     sdk/common/attributemap_hash.h        GetHashForAttributeMap (hash_combine over the sorted map)
     sdk/metrics/view/attributes_processor.h, state/filtered_ordered_attribute_map.{h,cc}   the view's attribute filter
     sdk/metrics/state/attributes_hashmap.h   Get / Has / GetOrSetDefault (3 overloads) / Set / Size, overflow rule
     sdk/metrics/state/sync_metric_storage.{h,cc}, temporal_metric_storage.cc   per-interval table, merge per collector
   Definitions only.  A table is the list of its (attribute set, sum) entries IN ITERATION ORDER; the iteration order of a
   std::unordered_map is not specified, so every place where the code starts walking a freshly built table takes the order as
   an input (an oracle): the differential run feeds the order the implementation used (checked to be a permutation), the
   theorems hold for every order. *)
From V Require Export Base.Bytes Gen.Consts.
Local Open Scope Z_scope.

(* ------------------------------------------------------------------ attribute values *)
Inductive sty := TBool | TI32 | TU32 | TI64 | TDbl | TStr | TU64 | TU8.
(* numbers (bool as 0/1, double as its IEEE-754 bit pattern 0 <= b < 2^64) and strings *)
Inductive scal := SZ (z : Z) | SS (s : bytes).
(* OwnedAttributeValue: a scalar or a vector of one element type *)
Inductive aval := VOne (t : sty) (x : scal) | VArr (t : sty) (l : list scal).
(* what the caller hands over (common::AttributeValue): additionally a const char*, read up to its first NUL *)
Inductive ival := IV (v : aval) | ICStr (s : bytes).

Definition sty_code (t : sty) : Z :=
  match t with TBool => 0 | TI32 => 1 | TU32 => 2 | TI64 => 3 | TDbl => 4 | TStr => 5 | TU64 => 6 | TU8 => 7 end.
Definition sty_eqb (a b : sty) : bool := sty_code a =? sty_code b.

Fixpoint upto_nul (s : bytes) : bytes :=
  match s with [] => [] | b :: r => if Byte.eqb b x00 then [] else b :: upto_nul r end.
(* AttributeConverter *)
Definition own (v : ival) : aval :=
  match v with IV a => a | ICStr s => VOne TStr (SS (upto_nul s)) end.

(* IEEE-754 binary64 comparison on bit patterns: operator== of double *)
Definition dbl_abs (b : Z) : Z := b mod 2 ^ 63.
Definition dbl_nan (b : Z) : bool := 9218868437227405312 <? dbl_abs b.      (* 0x7ff0000000000000 *)
Definition dbl_zero (b : Z) : bool := dbl_abs b =? 0.
Definition dbl_ieee_eqb (a b : Z) : bool :=
  negb (dbl_nan a) && negb (dbl_nan b) && ((a =? b) || (dbl_zero a && dbl_zero b)).
(* FilteredOrderedAttributeMap::SameDouble: lhs == rhs || (lhs != lhs && rhs != rhs) - a NaN is the same value as a NaN *)
Definition dbl_eqb (a b : Z) : bool := dbl_ieee_eqb a b || (dbl_nan a && dbl_nan b).

Fixpoint list_eqb {A} (e : A -> A -> bool) (a b : list A) : bool :=
  match a, b with
  | [], [] => true
  | x :: a', y :: b' => e x y && list_eqb e a' b'
  | _, _ => false
  end.

(* FilteredOrderedAttributeMap::SameValue: same alternative and equal content, doubles and double vectors through SameDouble *)
Definition scal_eqb (t : sty) (x y : scal) : bool :=
  match x, y with
  | SZ a, SZ b => match t with TDbl => dbl_eqb a b | _ => a =? b end
  | SS a, SS b => bytes_eqb a b
  | _, _ => false
  end.
Definition aval_eqb (a b : aval) : bool :=
  match a, b with
  | VOne t x, VOne u y => sty_eqb t u && scal_eqb t x y
  | VArr t l, VArr u m => sty_eqb t u && list_eqb (scal_eqb t) l m
  | _, _ => false
  end.

(* operator== of the variant itself (what std::map's operator== uses): doubles by IEEE comparison *)
Definition scal_ieee_eqb (t : sty) (x y : scal) : bool :=
  match x, y with
  | SZ a, SZ b => match t with TDbl => dbl_ieee_eqb a b | _ => a =? b end
  | SS a, SS b => bytes_eqb a b
  | _, _ => false
  end.
Definition aval_ieee_eqb (a b : aval) : bool :=
  match a, b with
  | VOne t x, VOne u y => sty_eqb t u && scal_ieee_eqb t x y
  | VArr t l, VArr u m => sty_eqb t u && list_eqb (scal_ieee_eqb t) l m
  | _, _ => false
  end.

(* identity of representation (used only to match the implementation's walk orders against the model's tables) *)
Definition scal_same (x y : scal) : bool :=
  match x, y with SZ a, SZ b => a =? b | SS a, SS b => bytes_eqb a b | _, _ => false end.
Definition aval_same (a b : aval) : bool :=
  match a, b with
  | VOne t x, VOne u y => sty_eqb t u && scal_same x y
  | VArr t l, VArr u m => sty_eqb t u && list_eqb scal_same l m
  | _, _ => false
  end.

(* ------------------------------------------------------------------ OrderedAttributeMap: std::map<std::string, value> *)
Definition attrs := list (bytes * aval).

(* std::string::compare: bytes as unsigned char, a proper prefix is smaller *)
Fixpoint bytes_cmp (a b : bytes) : comparison :=
  match a, b with
  | [], [] => Eq
  | [], _ :: _ => Lt
  | _ :: _, [] => Gt
  | x :: a', y :: b' => match N.compare (b2n x) (b2n y) with Eq => bytes_cmp a' b' | c => c end
  end.

(* OrderedAttributeMap::SetAttribute: this->operator[](std::string(key)) = value *)
Fixpoint set_attr (k : bytes) (v : aval) (m : attrs) : attrs :=
  match m with
  | [] => [(k, v)]
  | (k', v') :: r =>
      match bytes_cmp k k' with
      | Lt => (k, v) :: m
      | Eq => (k, v) :: r
      | Gt => (k', v') :: set_attr k v r
      end
  end.

(* the view's attribute processor: DefaultAttributesProcessor keeps every key, FilteringAttributesProcessor keeps the keys that
   are - as whole byte strings - in its allow-list *)
Inductive afilter := FNone | FAllow (keys : list bytes).
Definition allowed (f : afilter) (k : bytes) : bool :=
  match f with FNone => true | FAllow l => existsb (bytes_eqb k) l end.

(* MetricAttributes{attributes, processor} and processor->process(attributes): walk the caller's pairs in order *)
Definition mk_attrs (f : afilter) (kvs : list (bytes * ival)) : attrs :=
  fold_left (fun m kv => if allowed f (fst kv) then set_attr (fst kv) (own (snd kv)) m else m) kvs [].

Definition pair_eqb (x y : bytes * aval) : bool := bytes_eqb (fst x) (fst y) && aval_eqb (snd x) (snd y).
(* FilteredOrderedAttributeMap::operator== without the cached-hash test: same size, same keys, SameValue values *)
Definition attrs_eqb (a b : attrs) : bool := list_eqb pair_eqb a b.
(* operator== of the std::map base *)
Definition attrs_ieee_eqb (a b : attrs) : bool :=
  list_eqb (fun x y => bytes_eqb (fst x) (fst y) && aval_ieee_eqb (snd x) (snd y)) a b.
Definition pair_same (x y : bytes * aval) : bool := bytes_eqb (fst x) (fst y) && aval_same (snd x) (snd y).
Definition attrs_same (a b : attrs) : bool := list_eqb pair_same a b.

Definition overflow_attrs : attrs :=
  [(map n2b kAttributesLimitOverflowKey, VOne TBool (SZ (if kAttributesLimitOverflowValue then 1 else 0)))].

(* ------------------------------------------------------------------ GetHashForAttributeMap *)
Section Hash.
  (* std::hash<std::string>, and std::hash<double> (on the bit pattern) after GetHash<double> has replaced a NaN by the quiet NaN *)
  Variable h_str : bytes -> Z.
  Variable h_dbl : Z -> Z.
  Definition M64 : Z := 2 ^ 64.
  (* seed ^= h + 0x9e3779b9 + (seed << 6) + (seed >> 2), in size_t arithmetic *)
  Definition combine (seed h : Z) : Z :=
    Z.lxor seed ((h + 2654435769 + (seed * 64) mod M64 + seed / 4) mod M64).
  (* std::hash of bool and of the integer types is static_cast<size_t> *)
  Definition h_scal (t : sty) (x : scal) : Z :=
    match x with
    | SZ z => match t with TDbl => h_dbl z | _ => z mod M64 end
    | SS s => h_str s
    end.
  Definition hash_val (seed : Z) (v : aval) : Z :=
    match v with
    | VOne t x => combine seed (h_scal t x)
    | VArr t l => fold_left (fun s x => combine s (h_scal t x)) l seed
    end.
  Definition hash_attrs (m : attrs) : Z :=
    fold_left (fun s kv => hash_val (combine s (h_str (fst kv))) (snd kv)) m 0.
  (* FilteredOrderedAttributeMap::operator== compares the cached hashes first *)
  Definition key_eqb (a b : attrs) : bool := (hash_attrs a =? hash_attrs b) && attrs_eqb a b.
End Hash.

(* ------------------------------------------------------------------ AttributesHashMap *)
Definition entry := (attrs * Z)%type.
Definition table := list entry.

Fixpoint tfind (k : attrs) (t : table) : option Z :=
  match t with
  | [] => None
  | (k', v) :: r => if attrs_eqb k' k then Some v else tfind k r
  end.
(* replace the value of the (first) entry whose key equals k *)
Fixpoint tset (k : attrs) (v : Z) (t : table) : table :=
  match t with
  | [] => []
  | (k', v') :: r => if attrs_eqb k' k then (k', v) :: r else (k', v') :: tset k v r
  end.
Definition tadd (k : attrs) (d : Z) (t : table) : table :=
  match tfind k t with Some v => tset k (v + d) t | None => t end.

(* IsOverflowAttributes: hash_map_.size() + 1 >= attributes_limit_ *)
Definition is_overflow (limit : nat) (t : table) : bool := (limit <=? length t + 1)%nat.
(* GetOrSetOveflowAttributes: the overflow entry, created with the default aggregation (sum 0) if absent *)
Definition ensure_overflow (t : table) : table :=
  match tfind overflow_attrs t with Some _ => t | None => t ++ [(overflow_attrs, 0)] end.

(* where GetOrSetDefault(k) lands: the entry found, the overflow entry when the table is full, else a new entry.
   [Some k'] = the key of the entry returned, together with the table. *)
Definition gosd (limit : nat) (k : attrs) (t : table) : table * attrs :=
  match tfind k t with
  | Some _ => (t, k)
  | None => if is_overflow limit t then (ensure_overflow t, overflow_attrs) else (t ++ [(k, 0)], k)
  end.
(* GetOrSetDefault(k, cb)->Aggregate(d), all three overloads (KeyValueIterable + processor, const MetricAttributes&,
   MetricAttributes&&): the entry found, else the overflow entry when the table is full, else a new entry (emplace) *)
Definition record (limit : nat) (k : attrs) (d : Z) (t : table) : table :=
  match tfind k t with
  | Some v => tset k (v + d) t
  | None => if is_overflow limit t then tadd overflow_attrs d (ensure_overflow t) else t ++ [(k, d)]
  end.
(* Set(k, aggr): overwrite if present, else the overflow entry when full, else insert *)
Definition tput (limit : nat) (k : attrs) (v : Z) (t : table) : table :=
  match tfind k t with
  | Some _ => tset k v t
  | None => if is_overflow limit t
            then match tfind overflow_attrs t with
                 | Some _ => tset overflow_attrs v t
                 | None => t ++ [(overflow_attrs, v)]
                 end
            else t ++ [(k, v)]
  end.

(* the temporal storage's merge step:  agg = merged->GetOrSetDefault(k, default);  merged->Set(k, agg->Merge(aggregation)) *)
Definition merge_in (limit : nat) (t : table) (e : entry) : table :=
  let (k, d) := e in
  match tfind k t with
  | Some v => tput limit k (v + d) t
  | None => if is_overflow limit t then
              let t' := ensure_overflow t in
              tput limit k (match tfind overflow_attrs t' with Some v => v | None => 0 end + d) t'
            else tput limit k d (t ++ [(k, 0)])
  end.
Definition merge_all (limit : nat) (t : table) (es : list entry) : table := fold_left (merge_in limit) es t.

Definition total (t : table) : Z := fold_right (fun e s => snd e + s) 0 t.

(* ------------------------------------------------------------------ walk orders (the oracle) *)
Definition entry_same (a b : entry) : bool := attrs_same (fst a) (fst b) && (snd a =? snd b).
Fixpoint remove_first (e : entry) (t : table) : option table :=
  match t with
  | [] => None
  | x :: r => if entry_same x e then Some r else option_map (cons x) (remove_first e r)
  end.
(* w lists exactly the entries of t, in some order *)
Fixpoint is_perm (w t : table) : bool :=
  match w with
  | [] => match t with [] => true | _ => false end
  | e :: w' => match remove_first e t with Some t' => is_perm w' t' | None => false end
  end.
Definition table_same (a b : table) : bool := list_eqb entry_same a b.

(* ------------------------------------------------------------------ SyncMetricStorage + TemporalMetricStorage *)
Record cfg := mk_cfg {
  c_limit : nat;             (* attributes_limit of the storage (kAggregationCardinalityLimit through a MeterProvider) *)
  c_mono : bool;             (* monotonic sum: Aggregate ignores negative values *)
  c_filter : afilter;
  c_temps : list bool        (* one per collector: true = cumulative, false = delta *)
}.
Record storage := mk_storage {
  s_interval : table;               (* attributes_hashmap_ *)
  s_pushed : bool;                  (* unreported_metrics_ has an entry per collector (they are created together) *)
  s_unrep : list (list table);      (* unreported_metrics_[collector], per collector index *)
  s_last : list (option table)      (* last_reported_metrics_[collector].attributes_map *)
}.
Definition init_storage (c : cfg) : storage :=
  mk_storage [] false (map (fun _ => []) (c_temps c)) (map (fun _ => None) (c_temps c)).

Definition accepted (mono : bool) (v : Z) : Z := if mono && (v <? 0) then 0 else v.

(* RecordLong/RecordDouble(value, attributes, context) *)
Definition st_record (c : cfg) (kvs : list (bytes * ival)) (v : Z) (s : storage) : storage :=
  mk_storage (record (c_limit c) (mk_attrs (c_filter c) kvs) (accepted (c_mono c) v) (s_interval s))
             (s_pushed s) (s_unrep s) (s_last s).
(* RecordLong/RecordDouble(value, context): the static empty MetricAttributes *)
Definition st_record0 (c : cfg) (v : Z) (s : storage) : storage :=
  mk_storage (record (c_limit c) [] (accepted (c_mono c) v) (s_interval s)) (s_pushed s) (s_unrep s) (s_last s).

Fixpoint set_nth {A} (n : nat) (x : A) (l : list A) : list A :=
  match l, n with
  | [], _ => []
  | _ :: r, O => x :: r
  | y :: r, S n' => y :: set_nth n' x r
  end.

Inductive cres :=
| CNoCb                 (* Collect returned without invoking the callback *)
| CReport (t : table)   (* the points handed to the callback, in order *)
| CReject.              (* the walk orders supplied are not orders of the model's tables: the tie is broken *)

(* SyncMetricStorage::Collect(collector i) + TemporalMetricStorage::buildMetrics.
   iw = the order in which the interval table is walked, rw = the order in which the reported table is walked *)
Definition st_collect (c : cfg) (i : nat) (iw rw : table) (s : storage) : storage * cres :=
  if negb (is_perm iw (s_interval s)) then (s, CReject) else
  let delta := iw in
  let cumulative := nth i (c_temps c) false in
  if (length (c_temps c) =? 1)%nat && negb cumulative then
    (* fast path: single delta collector *)
    match delta with
    | [] => (mk_storage [] (s_pushed s) (s_unrep s) (s_last s), CNoCb)
    | _ =>
        let last' := match nth i (s_last s) None with Some _ => s_last s | None => set_nth i (Some []) (s_last s) end in
        if table_same rw delta then (mk_storage [] (s_pushed s) (s_unrep s) last', CReport delta)
        else (s, CReject)
    end
  else
    let nonempty := match delta with [] => false | _ => true end in
    let unrep1 := if nonempty then map (fun l => l ++ [delta]) (s_unrep s) else s_unrep s in
    let pushed1 := s_pushed s || nonempty in
    if negb pushed1 then (mk_storage [] pushed1 unrep1 (s_last s), CNoCb) else
    let mine := nth i unrep1 [] in
    let unrep2 := set_nth i [] unrep1 in
    let m1 := merge_all (c_limit c) [] (concat mine) in
    let m := match nth i (s_last s) None with
             | Some lt => if cumulative then merge_all (c_limit c) m1 lt else m1
             | None => m1
             end in
    if is_perm rw m then (mk_storage [] pushed1 unrep2 (set_nth i (Some rw) (s_last s)), CReport rw)
    else (s, CReject).

Inductive op :=
| ORec (kvs : list (bytes * ival)) (v : Z)
| ORec0 (v : Z)
| OCollect (i : nat).

(* walks: the orders supplied for the collects, consumed front to back: one per Collect (interval table), one more when the
   callback is invoked *)
Fixpoint run_ops (c : cfg) (ops : list op) (walks : list table) (s : storage) : list cres :=
  match ops with
  | [] => []
  | ORec kvs v :: r => run_ops c r walks (st_record c kvs v s)
  | ORec0 v :: r => run_ops c r walks (st_record0 c v s)
  | OCollect i :: r =>
      if (length (c_temps c) <=? i)%nat then [CReject] else
      match walks with
      | [] => [CReject]
      | iw :: ws =>
          (* the callback order is needed only when there is a callback *)
          let rw := match ws with w :: _ => w | [] => [] end in
          let (s', res) := st_collect c i iw rw s in
          match res with
          | CReport _ => res :: run_ops c r (tl ws) s'
          | CNoCb => res :: run_ops c r ws s'
          | _ => [res]
          end
      end
  end.

(* ------------------------------------------------------------------ AttributesHashMap driven directly *)
Inductive hop :=
| HGet (how : nat) (kvs : list (bytes * ival)) (d : Z)   (* GetOrSetDefault overload 0/1/2, then Aggregate(d) on the result *)
| HSet (how : nat) (kvs : list (bytes * ival)) (v : Z)   (* Set overload 0/1/2 with a fresh aggregation of sum v *)
| HQuery (kvs : list (bytes * ival))                     (* Get: the sum, or none *)
| HHas (kvs : list (bytes * ival))
| HSize
| HDump.                                                  (* GetAllEnteries *)
Inductive hres :=
| HRNone | HRNull (* a null aggregation was returned: never by the model *) | HRVal (v : option Z) | HRBool (b : bool) | HRSize (n : nat) | HRDump (t : table) | HRReject.

Fixpoint run_hops (limit : nat) (f : afilter) (ops : list hop) (walks : list table) (t : table) : list hres :=
  match ops with
  | [] => []
  | HGet how kvs d :: r =>
      let k := mk_attrs f kvs in
      HRNone :: run_hops limit f r walks (record limit k d t)
  | HSet _ kvs v :: r => HRNone :: run_hops limit f r walks (tput limit (mk_attrs f kvs) v t)
  | HQuery kvs :: r => HRVal (tfind (mk_attrs f kvs) t) :: run_hops limit f r walks t
  | HHas kvs :: r => HRBool (match tfind (mk_attrs f kvs) t with Some _ => true | None => false end) :: run_hops limit f r walks t
  | HSize :: r => HRSize (length t) :: run_hops limit f r walks t
  | HDump :: r =>
      match walks with
      | w :: ws => if is_perm w t then HRDump w :: run_hops limit f r ws w else [HRReject]
      | [] => [HRReject]
      end
  end.
