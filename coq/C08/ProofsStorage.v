(* C08 proofs, part 4: the sync + temporal storage over every history.
   For every configuration (limit >= 1, any filter, 1.. collectors of either temporality), every sequence of records and
   collections and every choice of walk orders, with ghost state hist (the measurements so far) and marks (where each collector's
   previous collection was):
     - every table in the state and every reported table satisfies a table invariant P that the table operations keep
       (instantiated with: at most limit entries / pairwise different keys);
     - the total of a collector's report is the sum of the measurements of its window (since its previous collection for a delta
       collector, since the start for a cumulative one): what exceeds the limit is in the overflow series, nothing is lost. *)
From V Require Import C08.Spec C08.ProofsAttrs C08.ProofsTable.
From Coq Require Import Lia ZifyBool ZifyNat Permutation.
Local Open Scope Z_scope.

(* ------------------------------------------------------------------ list helpers *)
Lemma set_nth_length {A} n (x : A) l : length (set_nth n x l) = length l.
Proof. revert n. induction l as [|y l IH]; intros [|n]; cbn; auto. Qed.
Lemma nth_set_nth_same {A} n (x d : A) l : (n < length l)%nat -> nth n (set_nth n x l) d = x.
Proof. revert n. induction l as [|y l IH]; intros [|n]; cbn; intros H; try lia; auto. apply IH. lia. Qed.
Lemma nth_set_nth_other {A} n m (x d : A) l : n <> m -> nth m (set_nth n x l) d = nth m l d.
Proof. revert n m. induction l as [|y l IH]; intros [|n] [|m] H; cbn; auto; try lia. Qed.
Lemma Forall_set_nth {A} (R : A -> Prop) n x l : Forall R l -> R x -> Forall R (set_nth n x l).
Proof. revert n. induction l as [|y l IH]; intros [|n] Hl Hx; cbn; auto; inversion Hl; subst; constructor; auto. Qed.
Lemma Forall_nth_d {A} (R : A -> Prop) n l d : Forall R l -> R d -> R (nth n l d).
Proof. revert n. induction l as [|y l IH]; intros [|n] Hl Hd; cbn; auto; inversion Hl; subst; auto. Qed.
Lemma nth_map_app {A} (l : list (list A)) (x : list A) n :
  (n < length l)%nat -> nth n (map (fun y => y ++ x) l) [] = nth n l [] ++ x.
Proof. revert n. induction l as [|y l IH]; intros [|n] H; cbn in *; try lia; auto. apply IH. lia. Qed.

Lemma sum_vals_app a b : sum_vals (a ++ b) = sum_vals a + sum_vals b.
Proof. unfold sum_vals. induction a as [|x a IH]; cbn; [reflexivity|]. rewrite IH. lia. Qed.
Lemma sum_vals_split n l : sum_vals l = sum_vals (firstn n l) + sum_vals (skipn n l).
Proof. rewrite <- sum_vals_app, firstn_skipn. reflexivity. Qed.
Lemma skipn_snoc {A} n (l : list A) x : (n <= length l)%nat -> skipn n (l ++ [x]) = skipn n l ++ [x].
Proof. intros H. rewrite skipn_app. replace (n - length l)%nat with O by lia. reflexivity. Qed.
Lemma firstn_snoc {A} n (l : list A) x : (n <= length l)%nat -> firstn n (l ++ [x]) = firstn n l.
Proof. intros H. rewrite firstn_app. replace (n - length l)%nat with O by lia. cbn. apply app_nil_r. Qed.

Definition sums (l : list table) : Z := fold_right (fun t a => total t + a) 0 l.
Lemma sums_app a b : sums (a ++ b) = sums a + sums b.
Proof. unfold sums. induction a as [|x a IH]; cbn; [reflexivity|]. rewrite IH. lia. Qed.

Section Run.
  Variable c : cfg.
  Let L := c_limit c.
  Let temps := c_temps c.
  Let ncol := length temps.

  (* a table invariant kept by the table operations, for keys satisfying Q *)
  Variable P : table -> Prop.
  Variable Q : attrs -> Prop.
  Hypothesis P_nil : P [].
  Hypothesis P_record : forall k d t, P t -> Q k -> P (record L k d t).
  Hypothesis P_merge : forall t e, P t -> Q (fst e) -> P (merge_in L t e).
  Hypothesis P_perm : forall a b, Permutation a b -> P a -> P b.
  Hypothesis P_keys : forall t e, P t -> In e t -> Q (fst e).

  (* the keys the history records with satisfy Q (a record without attributes uses the empty map) *)
  Definition op_good (o : op) : Prop :=
    match o with ORec kvs _ => Q (mk_attrs (c_filter c) kvs) | ORec0 _ => Q [] | OCollect _ => True end.

  Lemma P_merge_all es t : P t -> (forall e, In e es -> Q (fst e)) -> P (merge_all L t es).
  Proof.
    unfold merge_all. revert t. induction es as [|e es IH]; intros t Ht Hq; cbn; [assumption|].
    apply IH; [|intros x Hx; apply Hq; right; assumption]. apply P_merge; [assumption|]. apply Hq. left. reflexivity.
  Qed.

  Definition SP (s : storage) : Prop :=
    P (s_interval s) /\ Forall (Forall P) (s_unrep s) /\
    Forall (fun o => match o with Some t => P t | None => True end) (s_last s).

  Definition slow : bool := negb ((ncol =? 1)%nat && negb (nth 0 temps false)).
  Definition pend (s : storage) (i : nat) : Z := total (s_interval s) + sums (nth i (s_unrep s) []).
  Definition lastv (s : storage) (i : nat) : Z := match nth i (s_last s) None with Some t => total t | None => 0 end.

  Record G (s : storage) (hist : list meas) (marks : list nat) : Prop := mkG {
    g_len_m : length marks = ncol;
    g_len_u : length (s_unrep s) = ncol;
    g_len_l : length (s_last s) = ncol;
    g_fast : slow = false -> s_pushed s = false;
    g_unpushed : s_pushed s = false -> Forall (fun l => l = []) (s_unrep s);
    g_unreported : s_pushed s = false -> slow = true -> Forall (fun o => o = None) (s_last s);
    g_i : forall i, (i < ncol)%nat ->
          (nth i marks O <= length hist)%nat /\
          pend s i = sum_vals (skipn (nth i marks O) hist) /\
          (nth i temps false = true -> lastv s i = sum_vals (firstn (nth i marks O) hist))
  }.

  Lemma SP_init : SP (init_storage c).
  Proof.
    unfold SP, init_storage. cbn. split; [exact P_nil|]. split.
    - apply Forall_forall. intros x Hx. apply in_map_iff in Hx. destruct Hx as [? [<- _]]. constructor.
    - apply Forall_forall. intros x Hx. apply in_map_iff in Hx. destruct Hx as [? [<- _]]. exact I.
  Qed.
  Lemma nth_map_const {A B} (l : list A) (b : B) n : nth n (map (fun _ => b) l) b = b.
  Proof. revert n. induction l as [|x l IH]; intros [|n]; cbn; auto. Qed.
  Lemma G_init : G (init_storage c) [] (map (fun _ => O) temps).
  Proof.
    constructor; unfold init_storage; cbn; try (rewrite map_length; reflexivity); try discriminate.
    - reflexivity.
    - intros _. apply Forall_forall. intros x Hx. apply in_map_iff in Hx. destruct Hx as [? [<- _]]. reflexivity.
    - intros _ _. apply Forall_forall. intros x Hx. apply in_map_iff in Hx. destruct Hx as [? [<- _]]. reflexivity.
    - intros i Hi. unfold pend, lastv. cbn [s_interval s_unrep s_last]. fold temps.
      rewrite (nth_map_const temps O i), (nth_map_const temps (@nil table) i), (nth_map_const temps (@None table) i).
      unfold sums. cbn. repeat split; try lia.
  Qed.

  (* ---------------------------------------------------------------- recording *)
  Lemma pend_interval s t i :
    pend (mk_storage t (s_pushed s) (s_unrep s) (s_last s)) i = pend s i - total (s_interval s) + total t.
  Proof. unfold pend. cbn [s_interval s_unrep]. lia. Qed.

  Lemma G_record s hist marks t kvs v :
    G s hist marks -> total t = total (s_interval s) + v ->
    G (mk_storage t (s_pushed s) (s_unrep s) (s_last s)) (hist ++ [(kvs, v)]) marks.
  Proof.
    intros [H1 H2 H3 H4 H5 H6 H7] Ht. constructor; cbn; auto.
    intros i Hi. destruct (H7 i Hi) as [Ha [Hb Hc]]. rewrite app_length. cbn. split; [lia|]. split.
    - rewrite pend_interval, Hb, skipn_snoc, sum_vals_app by assumption. unfold sum_vals at 3. cbn. lia.
    - intros Hcu. unfold lastv in *. cbn. rewrite firstn_snoc by assumption. auto.
  Qed.

  Lemma SP_interval s t : SP s -> P t -> SP (mk_storage t (s_pushed s) (s_unrep s) (s_last s)).
  Proof. intros [_ [H2 H3]] Ht. repeat split; assumption. Qed.

  (* ---------------------------------------------------------------- one collection *)
  Lemma P_concat (l : list table) e : Forall P l -> In e (concat l) -> Q (fst e).
  Proof.
    intros Hl Hin. apply in_concat in Hin. destruct Hin as [t [Ht He]]. rewrite Forall_forall in Hl.
    apply (P_keys t e); [apply Hl; exact Ht|exact He].
  Qed.

  Lemma perm_nil_eq {A} (l : list A) : Permutation [] l -> l = [].
  Proof. apply Permutation_nil. Qed.

  Lemma collect_step s hist marks i iw rw s' res :
    (i < ncol)%nat -> SP s -> G s hist marks -> st_collect c i iw rw s = (s', res) ->
    let window := if nth i temps false then hist else skipn (nth i marks O) hist in
    match res with
    | CReport t => P t /\ total t = sum_vals window /\ SP s' /\ G s' hist (set_nth i (length hist) marks)
    | CNoCb => sum_vals window = 0 /\ SP s' /\ G s' hist (set_nth i (length hist) marks)
    | CReject => True
    end.
  Proof.
    intros Hi HSP HG. pose proof HSP as [Hpi [Hpu Hpl]]. pose proof HG as [G1 G2 G3 G4 G5 G6 G7].
    unfold st_collect. destruct (is_perm iw (s_interval s)) eqn:Eperm; cbn [negb];
      [|intros X; apply pair_equal_spec in X; destruct X as [<- <-]; exact I].
    pose proof (is_perm_perm _ _ Eperm) as Hperm.
    assert (Hiw : P iw) by (eapply P_perm; [apply Permutation_sym; exact Hperm|exact Hpi]).
    assert (Htot : total iw = total (s_interval s)) by (apply total_perm; exact Hperm).
    fold temps. fold ncol. fold L.
    destruct ((ncol =? 1)%nat && negb (nth i temps false)) eqn:Efast.
    - (* single delta collector *)
      apply andb_true_iff in Efast. destruct Efast as [En Ec]. apply Nat.eqb_eq in En. apply negb_true_iff in Ec.
      assert (i = O) by lia. subst i.
      assert (Hslow : slow = false) by (unfold slow; rewrite En, Ec; reflexivity).
      pose proof (G4 Hslow) as Hpushed. pose proof (G5 Hpushed) as Hun.
      destruct (G7 O Hi) as [Ha [Hb _]].
      assert (Hpend : pend s O = total (s_interval s)).
      { unfold pend. replace (nth O (s_unrep s) []) with (@nil table); [cbn; lia|].
        symmetry. apply (Forall_nth_d (fun l => l = []) O (s_unrep s) [] Hun eq_refl). }
      rewrite Ec. cbv zeta.
      assert (Gnew : forall last', length last' = ncol ->
                G (mk_storage [] (s_pushed s) (s_unrep s) last') hist (set_nth O (length hist) marks)).
      { intros last' Hl. constructor; cbn [s_interval s_pushed s_unrep s_last].
        - rewrite set_nth_length. assumption.
        - assumption.
        - assumption.
        - intros _. assumption.
        - intros _. assumption.
        - intros _ Hs. rewrite Hs in Hslow. discriminate.
        - intros j Hj. assert (j = O) by lia. subst j. rewrite nth_set_nth_same by lia. split; [lia|]. split.
          + unfold pend. cbn [s_interval s_unrep]. replace (nth O (s_unrep s) []) with (@nil table).
            * rewrite skipn_all. reflexivity.
            * symmetry. apply (Forall_nth_d (fun l => l = []) O (s_unrep s) [] Hun eq_refl).
          + rewrite Ec. discriminate. }
      destruct iw as [|e0 iw'].
      + intros X. apply pair_equal_spec in X. destruct X as [<- <-]. cbv zeta. split; [rewrite <- Hb, Hpend, <- Htot; reflexivity|]. split.
        * repeat split; cbn [s_interval s_pushed s_unrep s_last]; auto.
        * apply Gnew. assumption.
      + destruct (table_same rw (e0 :: iw')) eqn:Esame; [|intros X; apply pair_equal_spec in X; destruct X as [<- <-]; exact I].
        intros X. apply pair_equal_spec in X. destruct X as [<- <-]. cbv zeta. split; [assumption|]. split; [rewrite <- Hb, Hpend; exact Htot|]. split.
        * repeat split; cbn [s_interval s_pushed s_unrep s_last]; auto. destruct (nth O (s_last s) None); [assumption|]. apply Forall_set_nth; [assumption|exact P_nil].
        * apply Gnew. destruct (nth O (s_last s) None); [assumption|]. rewrite set_nth_length. assumption.
    - (* merge path *)
      assert (Hslow : slow = true).
      { unfold slow. apply negb_true_iff. apply andb_false_iff in Efast. apply andb_false_iff. destruct Efast as [E|E]; [left; exact E|].
        destruct (ncol =? 1)%nat eqn:En; [|left; reflexivity]. right. apply Nat.eqb_eq in En. assert (i = O) by lia. subst i. exact E. }
      cbv zeta.
      set (nonempty := match iw with [] => false | _ => true end).
      set (unrep1 := if nonempty then map (fun l => l ++ [iw]) (s_unrep s) else s_unrep s).
      set (pushed1 := s_pushed s || nonempty).
      assert (Hu1len : length unrep1 = ncol) by (unfold unrep1; destruct nonempty; [rewrite map_length|]; assumption).
      assert (Hu1P : Forall (Forall P) unrep1).
      { unfold unrep1. destruct nonempty; [|assumption]. apply Forall_forall. intros x Hx. apply in_map_iff in Hx.
        destruct Hx as [y [<- Hy]]. apply Forall_app. split; [rewrite Forall_forall in Hpu; auto|repeat constructor; assumption]. }
      assert (Hu1sum : forall j, (j < ncol)%nat -> sums (nth j unrep1 []) = sums (nth j (s_unrep s) []) + total iw).
      { intros j Hj. unfold unrep1. destruct nonempty eqn:En.
        - rewrite nth_map_app by lia. rewrite sums_app. cbn. lia.
        - unfold nonempty in En. destruct iw; [|discriminate]. rewrite total_nil. lia. }
      destruct (negb pushed1) eqn:Epush.
      + (* nothing was ever pushed: no callback *)
        apply negb_true_iff in Epush. unfold pushed1 in Epush. apply orb_false_iff in Epush. destruct Epush as [Ep En].
        unfold nonempty in En. destruct iw as [|? ?]; [|discriminate].
        intros X. apply pair_equal_spec in X. destruct X as [<- <-]. cbv zeta.
        pose proof (G5 Ep) as Hun. pose proof (G6 Ep Hslow) as Hln.
        assert (Hint0 : total (s_interval s) = 0) by (rewrite <- Htot; apply total_nil).
        assert (Hunj : forall j, nth j (s_unrep s) [] = []).
        { intros j. apply (Forall_nth_d (fun l => l = []) j (s_unrep s) [] Hun eq_refl). }
        assert (Hlnj : forall j, nth j (s_last s) None = None).
        { intros j. apply (Forall_nth_d (fun o => o = None) j (s_last s) None Hln eq_refl). }
        assert (Hpend0 : forall j, pend s j = 0) by (intros j; unfold pend; rewrite Hunj, Hint0; reflexivity).
        destruct (G7 i Hi) as [Ha [Hb Hc]].
        split.
        { destruct (nth i temps false) eqn:Ecu.
          - rewrite (sum_vals_split (nth i marks O) hist), <- Hb, <- (Hc eq_refl), Hpend0. unfold lastv. rewrite Hlnj. reflexivity.
          - rewrite <- Hb. apply Hpend0. }
        split; [repeat split; cbn; auto; unfold unrep1; cbn; assumption|].
        constructor; cbn [s_interval s_pushed s_unrep s_last].
        * rewrite set_nth_length. assumption.
        * assumption.
        * assumption.
        * intros _. unfold pushed1. cbn. rewrite Ep. reflexivity.
        * intros _. unfold unrep1. cbn. assumption.
        * intros _ _. assumption.
        * intros j Hj. unfold pend, lastv. cbn [s_interval s_unrep s_last]. unfold unrep1. cbn [nonempty].
          change (match @nil entry with [] => false | _ :: _ => true end) with false. cbn iota.
          rewrite Hunj, Hlnj, total_nil. unfold sums. cbn [fold_right].
          destruct (Nat.eq_dec i j) as [->|Hne].
          -- rewrite nth_set_nth_same by lia. rewrite skipn_all, firstn_all. split; [lia|]. split; [reflexivity|].
             intros Hcu. destruct (G7 j Hj) as [Ha' [Hb' Hc']].
             rewrite (sum_vals_split (nth j marks O) hist), <- Hb', <- (Hc' Hcu), Hpend0. unfold lastv. rewrite Hlnj. reflexivity.
          -- rewrite nth_set_nth_other by assumption. destruct (G7 j Hj) as [Ha' [Hb' Hc']]. split; [assumption|]. split.
             ++ rewrite <- Hb'. symmetry. apply Hpend0.
             ++ intros Hcu. rewrite <- (Hc' Hcu). unfold lastv. rewrite Hlnj. reflexivity.
      + apply negb_false_iff in Epush.
        set (mine := nth i unrep1 []).
        set (unrep2 := set_nth i [] unrep1).
        assert (HmineP : Forall P mine) by (apply Forall_nth_d; [assumption|constructor]).
        assert (Hu2P : Forall (Forall P) unrep2) by (apply Forall_set_nth; [assumption|constructor]).
        assert (Hu2len : length unrep2 = ncol) by (unfold unrep2; rewrite set_nth_length; assumption).
        assert (Hminesum : total (concat mine) = pend s i).
        { rewrite total_concat. fold (sums mine). unfold mine. rewrite Hu1sum by assumption. unfold pend. lia. }
        (* the state after the collection, for any reported table rw of the right total *)
        assert (Gnew : forall last2 (t : table),
                  last2 = set_nth i (Some t) (s_last s) ->
                  (nth i temps false = true -> total t = sum_vals hist) ->
                  G (mk_storage [] pushed1 unrep2 last2) hist (set_nth i (length hist) marks)).
        { intros last2 t -> Htt. constructor; cbn [s_interval s_pushed s_unrep s_last].
          - rewrite set_nth_length. assumption.
          - assumption.
          - rewrite set_nth_length. assumption.
          - intros Hs. rewrite Hs in Hslow. discriminate.
          - intros Hp. rewrite Hp in Epush. discriminate.
          - intros Hp. rewrite Hp in Epush. discriminate.
          - intros j Hj. unfold pend, lastv. cbn [s_interval s_unrep s_last]. rewrite total_nil. destruct (Nat.eq_dec i j) as [->|Hne].
            + rewrite !nth_set_nth_same by lia. unfold unrep2. rewrite nth_set_nth_same by lia. unfold sums. cbn [fold_right].
              rewrite skipn_all, firstn_all. split; [lia|]. split; [reflexivity|]. exact Htt.
            + rewrite !nth_set_nth_other by assumption. unfold unrep2. rewrite nth_set_nth_other by assumption.
              destruct (G7 j Hj) as [Ha' [Hb' Hc']]. split; [assumption|]. split; [|exact Hc'].
              rewrite Hu1sum by assumption. rewrite <- Hb'. unfold pend. lia. }
        set (m1 := merge_all L [] (concat mine)).
        assert (Hm1P : P m1) by (apply P_merge_all; [exact P_nil|]; intros e He; eapply P_concat; eauto).
        assert (Hm1tot : total m1 = pend s i).
        { unfold m1. rewrite merge_all_total, total_nil, Hminesum. lia. }
        destruct (G7 i Hi) as [Ha [Hb Hc]].
        destruct (nth i (s_last s) None) as [lt|] eqn:Elast.
        * assert (HltP : P lt).
          { pose proof (Forall_nth_d _ i (s_last s) None Hpl I) as Hx. cbn in Hx. rewrite Elast in Hx. exact Hx. }
          destruct (nth i temps false) eqn:Ecu.
          -- set (m := merge_all L m1 lt).
             assert (HmP : P m) by (apply P_merge_all; [exact Hm1P|]; intros e He; eapply P_keys; eauto).
             assert (Hmtot : total m = sum_vals hist).
             { unfold m. rewrite merge_all_total, Hm1tot, Hb. specialize (Hc eq_refl). unfold lastv in Hc. rewrite Elast in Hc.
               rewrite Hc. rewrite (sum_vals_split (nth i marks O) hist). lia. }
             destruct (is_perm rw m) eqn:Erw; [|intros X; apply pair_equal_spec in X; destruct X as [<- <-]; exact I].
             pose proof (is_perm_perm _ _ Erw) as Hrw.
             intros X. apply pair_equal_spec in X. destruct X as [<- <-]. cbv zeta.
             assert (HrwP : P rw) by (eapply P_perm; [apply Permutation_sym; exact Hrw|exact HmP]).
             assert (Hrwtot : total rw = sum_vals hist) by (rewrite (total_perm _ _ Hrw); exact Hmtot).
             split; [assumption|]. split; [assumption|]. split.
             ++ repeat split; cbn [s_interval s_pushed s_unrep s_last]; auto. apply Forall_set_nth; assumption.
             ++ eapply Gnew; [reflexivity|]. intros _. assumption.
          -- destruct (is_perm rw m1) eqn:Erw; [|intros X; apply pair_equal_spec in X; destruct X as [<- <-]; exact I].
             pose proof (is_perm_perm _ _ Erw) as Hrw.
             intros X. apply pair_equal_spec in X. destruct X as [<- <-]. cbv zeta.
             assert (HrwP : P rw) by (eapply P_perm; [apply Permutation_sym; exact Hrw|exact Hm1P]).
             split; [assumption|]. split; [rewrite (total_perm _ _ Hrw), Hm1tot; exact Hb|]. split.
             ++ repeat split; cbn [s_interval s_pushed s_unrep s_last]; auto. apply Forall_set_nth; assumption.
             ++ eapply Gnew; [reflexivity|]. intros Hx. rewrite Hx in Ecu. discriminate.
        * destruct (is_perm rw m1) eqn:Erw; [|intros X; apply pair_equal_spec in X; destruct X as [<- <-]; exact I].
          pose proof (is_perm_perm _ _ Erw) as Hrw.
          intros X. apply pair_equal_spec in X. destruct X as [<- <-]. cbv zeta.
          assert (HrwP : P rw) by (eapply P_perm; [apply Permutation_sym; exact Hrw|exact Hm1P]).
          assert (Hlast0 : nth i temps false = true -> sum_vals (firstn (nth i marks O) hist) = 0).
          { intros Hcu. rewrite <- (Hc Hcu). unfold lastv. rewrite Elast. reflexivity. }
          split; [assumption|]. split.
          { rewrite (total_perm _ _ Hrw), Hm1tot, Hb. destruct (nth i temps false) eqn:Ecu; [|reflexivity].
            rewrite (sum_vals_split (nth i marks O) hist), (Hlast0 eq_refl). lia. }
          split.
          ++ repeat split; cbn [s_interval s_pushed s_unrep s_last]; auto. apply Forall_set_nth; assumption.
          ++ eapply Gnew; [reflexivity|]. intros Hcu.
             rewrite (total_perm _ _ Hrw), Hm1tot, Hb, (sum_vals_split (nth i marks O) hist), (Hlast0 Hcu). lia.
  Qed.

  (* ---------------------------------------------------------------- every history *)
  (* what holds of the results, in terms of the history alone *)
  Fixpoint results_ok (rs : list cres) (ops : list op) (hist : list meas) (marks : list nat) : Prop :=
    match ops with
    | [] => rs = []
    | ORec kvs v :: r => results_ok rs r (hist ++ [(kvs, counts (c_mono c) v)]) marks
    | ORec0 v :: r => results_ok rs r (hist ++ [([], counts (c_mono c) v)]) marks
    | OCollect i :: r =>
        match rs with
        | [] => False
        | res :: rs' =>
            let window := if nth i temps false then hist else skipn (nth i marks O) hist in
            match res with
            | CReport t => P t /\ total t = sum_vals window /\ results_ok rs' r hist (set_nth i (length hist) marks)
            | CNoCb => sum_vals window = 0 /\ results_ok rs' r hist (set_nth i (length hist) marks)
            | CReject => rs' = []
            end
        end
    end.

  Lemma accepted_counts mono v : accepted mono v = counts mono v.
  Proof. reflexivity. Qed.

  Theorem run_ops_ok ops : forall walks s hist marks,
    SP s -> G s hist marks -> Forall op_good ops -> results_ok (run_ops c ops walks s) ops hist marks.
  Proof.
    induction ops as [|o ops IH]; intros walks s hist marks HSP HG Hgood; [reflexivity|].
    inversion Hgood as [|? ? Hg Hgood']; subst. destruct o as [kvs v|v|i]; cbn [run_ops results_ok].
    - apply IH; [| |assumption].
      + unfold st_record. apply SP_interval; [assumption|]. apply P_record; [exact (proj1 HSP)|exact Hg].
      + unfold st_record. apply G_record; [assumption|]. rewrite record_total, accepted_counts. reflexivity.
    - apply IH; [| |assumption].
      + unfold st_record0. apply SP_interval; [assumption|]. apply P_record; [exact (proj1 HSP)|exact Hg].
      + unfold st_record0. apply G_record; [assumption|]. rewrite record_total, accepted_counts. reflexivity.
    - fold temps. fold ncol. destruct (ncol <=? i)%nat eqn:Ei; [reflexivity|]. apply Nat.leb_gt in Ei.
      destruct walks as [|iw ws]; [reflexivity|].
      match goal with |- context [st_collect ?a ?b ?c0 ?d ?e] => destruct (st_collect a b c0 d e) as [s' res] eqn:Ec end.
      pose proof (collect_step s hist marks i iw _ s' res Ei HSP HG Ec) as Hstep. cbv zeta in Hstep.
      destruct res as [|t|]; cbv iota beta in Hstep |- *; try reflexivity.
      + destruct Hstep as [H1 [H2 H3]]. split; [assumption|]. apply IH; assumption.
      + destruct Hstep as [H1 [H2 [H3 H4]]]. split; [assumption|]. split; [assumption|]. apply IH; assumption.
  Qed.
End Run.
