(* C08 proofs, part 3: the AttributesHashMap operations.
   - [tinv L t]: at most L entries, and L entries only with the overflow entry among them; kept by record / record_ref / tput /
     merge_in and by any reordering (limit >= 1);
   - [total]: record and merge_in add exactly the value handed in (nothing is lost when it is folded into the overflow entry);
   - keys stay pairwise different ([kdistinct]);
   - the comparison of ordered maps is an equivalence on maps without NaN, so lookups do not depend on which of two equal maps is used. *)
From V Require Import C08.Spec C08.ProofsAttrs.
From Coq Require Import Lia ZifyBool ZifyNat Permutation.
Local Open Scope Z_scope.

(* ------------------------------------------------------------------ the map comparison: symmetric, transitive *)
Lemma scal_eqb_sym t x y : scal_eqb t x y = scal_eqb t y x.
Proof.
  destruct x as [a|a], y as [b|b]; cbn; try reflexivity.
  - destruct t; try apply Z.eqb_sym. apply dbl_eqb_sym.
  - apply bytes_eqb_sym.
Qed.
Lemma list_eqb_sym {A} (e : A -> A -> bool) (He : forall x y, e x y = e y x) a b : list_eqb e a b = list_eqb e b a.
Proof. revert b. induction a as [|x a IH]; intros [|y b]; cbn; try reflexivity. rewrite He, IH. reflexivity. Qed.
Lemma sty_eqb_sym a b : sty_eqb a b = sty_eqb b a.
Proof. unfold sty_eqb. apply Z.eqb_sym. Qed.
Lemma aval_eqb_sym x y : aval_eqb x y = aval_eqb y x.
Proof.
  destruct x as [t a|t l], y as [u b|u m]; cbn; try reflexivity; rewrite sty_eqb_sym; destruct (sty_eqb u t) eqn:E; cbn; try reflexivity;
    apply sty_eqb_eq in E; subst.
  - apply scal_eqb_sym.
  - apply list_eqb_sym. apply scal_eqb_sym.
Qed.
Lemma attrs_eqb_sym a b : attrs_eqb a b = attrs_eqb b a.
Proof.
  apply list_eqb_sym. intros x y. unfold pair_eqb. rewrite bytes_eqb_sym, aval_eqb_sym. reflexivity.
Qed.

Lemma dbl_ieee_eqb_trans a b c : dbl_ieee_eqb a b = true -> dbl_ieee_eqb b c = true -> dbl_ieee_eqb a c = true.
Proof.
  unfold dbl_ieee_eqb. destruct (dbl_nan a), (dbl_nan b), (dbl_nan c); cbn; try discriminate.
  destruct (a =? b) eqn:E1, (b =? c) eqn:E2, (dbl_zero a) eqn:Za, (dbl_zero b) eqn:Zb, (dbl_zero c) eqn:Zc; cbn; try discriminate;
    intros _ _; try reflexivity; try (apply Z.eqb_eq in E1; subst); try (apply Z.eqb_eq in E2; subst);
    try rewrite Z.eqb_refl; try reflexivity; try congruence.
  all: try (rewrite Za in Zb; discriminate); try (rewrite Zb in Zc; discriminate); try (rewrite Zc in Zb; discriminate); try (rewrite Zb in Za; discriminate).
  all: apply orb_true_r.
Qed.
Lemma dbl_ieee_no_nan a b : dbl_ieee_eqb a b = true -> dbl_nan a = false /\ dbl_nan b = false.
Proof. unfold dbl_ieee_eqb. destruct (dbl_nan a), (dbl_nan b); cbn; try discriminate. auto. Qed.
Lemma dbl_eqb_trans a b c : dbl_eqb a b = true -> dbl_eqb b c = true -> dbl_eqb a c = true.
Proof.
  unfold dbl_eqb. rewrite !orb_true_iff, !andb_true_iff. intros [H1|[H1 H1']] [H2|[H2 H2']].
  - left. eapply dbl_ieee_eqb_trans; eauto.
  - apply dbl_ieee_no_nan in H1. destruct H1. congruence.
  - apply dbl_ieee_no_nan in H2. destruct H2. congruence.
  - right. auto.
Qed.
Lemma scal_eqb_trans t x y z : scal_eqb t x y = true -> scal_eqb t y z = true -> scal_eqb t x z = true.
Proof.
  destruct x as [a|a], y as [b|b], z as [c|c]; cbn; try discriminate.
  - destruct t; try (intros H1 H2; apply Z.eqb_eq in H1, H2; subst; apply Z.eqb_refl). apply dbl_eqb_trans.
  - intros H1 H2. apply bytes_eqb_eq in H1, H2. subst. apply bytes_eqb_refl.
Qed.
Lemma list_eqb_trans {A} (e : A -> A -> bool) (He : forall x y z, e x y = true -> e y z = true -> e x z = true) a b c :
  list_eqb e a b = true -> list_eqb e b c = true -> list_eqb e a c = true.
Proof.
  revert b c. induction a as [|x a IH]; intros [|y b] [|z c]; cbn; try discriminate; auto.
  rewrite !andb_true_iff. intros [H1 H2] [H3 H4]. split; eauto.
Qed.
Lemma aval_eqb_trans x y z : aval_eqb x y = true -> aval_eqb y z = true -> aval_eqb x z = true.
Proof.
  destruct x as [t a|t l], y as [u b|u m], z as [w c|w n]; cbn; try discriminate; rewrite !andb_true_iff;
    intros [H1 H2] [H3 H4]; apply sty_eqb_eq in H1, H3; subst; rewrite sty_eqb_refl; split; auto.
  - eapply scal_eqb_trans; eauto.
  - eapply list_eqb_trans; eauto. apply scal_eqb_trans.
Qed.
Lemma attrs_eqb_trans a b c : attrs_eqb a b = true -> attrs_eqb b c = true -> attrs_eqb a c = true.
Proof.
  apply list_eqb_trans. intros [kx vx] [ky vy] [kz vz]. unfold pair_eqb. cbn [fst snd]. rewrite !andb_true_iff. intros [H1 H2] [H3 H4].
  apply bytes_eqb_eq in H1, H3. subst. rewrite bytes_eqb_refl. split; [reflexivity|]. eapply aval_eqb_trans; eauto.
Qed.
(* a map that equals something equals itself *)
Lemma attrs_eqb_self a b : attrs_eqb a b = true -> attrs_eqb a a = true.
Proof. intros H. eapply attrs_eqb_trans; [exact H|]. rewrite attrs_eqb_sym. exact H. Qed.
(* comparing with either of two equal maps gives the same answer *)
Lemma attrs_eqb_congr x a b : attrs_eqb a b = true -> attrs_eqb x a = attrs_eqb x b.
Proof.
  intros H. destruct (attrs_eqb x a) eqn:E1, (attrs_eqb x b) eqn:E2; try reflexivity.
  - rewrite (attrs_eqb_trans x a b E1 H) in E2. discriminate.
  - rewrite attrs_eqb_sym in H. rewrite (attrs_eqb_trans x b a E2 H) in E1. discriminate.
Qed.

Lemma overflow_self : attrs_eqb overflow_attrs overflow_attrs = true.
Proof.
  unfold overflow_attrs, attrs_eqb. cbn [list_eqb]. unfold pair_eqb. cbn [fst snd]. rewrite bytes_eqb_refl.
  unfold aval_eqb, scal_eqb. rewrite sty_eqb_refl, Z.eqb_refl. reflexivity.
Qed.

(* every map equals itself *)
Lemma scal_eqb_refl t x : scal_eqb t x x = true.
Proof.
  destruct x as [a|a]; cbn; [|apply bytes_eqb_refl]. destruct t; cbn; try apply Z.eqb_refl. apply dbl_eqb_refl.
Qed.
Lemma aval_eqb_refl x : aval_eqb x x = true.
Proof.
  destruct x as [t a|t l]; cbn; rewrite sty_eqb_refl; cbn.
  - apply scal_eqb_refl.
  - induction l as [|x l IH]; cbn; [reflexivity|]. rewrite scal_eqb_refl. exact IH.
Qed.
Lemma attrs_eqb_refl a : attrs_eqb a a = true.
Proof.
  unfold attrs_eqb. induction a as [|[k v] a IH]; cbn; [reflexivity|].
  unfold pair_eqb. cbn [fst snd]. rewrite bytes_eqb_refl, aval_eqb_refl. exact IH.
Qed.

(* ------------------------------------------------------------------ lookups *)
Definition is_some {A} (o : option A) : bool := match o with Some _ => true | None => false end.

Lemma tfind_some_iff k t : is_some (tfind k t) = existsb (fun e => attrs_eqb (fst e) k) t.
Proof.
  induction t as [|[k' v] t IH]; [reflexivity|]. cbn [tfind existsb fst]. destruct (attrs_eqb k' k); [reflexivity|exact IH].
Qed.
Lemma tfind_congr a b t : attrs_eqb a b = true -> tfind a t = tfind b t.
Proof.
  intros H. induction t as [|[k v] t IH]; cbn; [reflexivity|]. rewrite (attrs_eqb_congr k a b H), IH. reflexivity.
Qed.
Lemma tfind_app k t e :
  tfind k (t ++ [e]) = match tfind k t with Some x => Some x | None => if attrs_eqb (fst e) k then Some (snd e) else None end.
Proof.
  induction t as [|[k' v] t IH]; cbn.
  - destruct e as [k' v]. reflexivity.
  - destruct (attrs_eqb k' k); auto.
Qed.
Lemma tset_length k v t : length (tset k v t) = length t.
Proof. induction t as [|[k' v'] t IH]; cbn; [reflexivity|]. destruct (attrs_eqb k' k); cbn; auto. Qed.
Lemma tset_keys k v t : map fst (tset k v t) = map fst t.
Proof. induction t as [|[k' v'] t IH]; cbn; [reflexivity|]. destruct (attrs_eqb k' k); cbn; congruence. Qed.
Lemma existsb_keys (p : attrs -> bool) (t : table) : existsb (fun e => p (fst e)) t = existsb p (map fst t).
Proof. induction t as [|e t IH]; cbn; congruence. Qed.
Lemma tfind_tset_some k k' v t : is_some (tfind k (tset k' v t)) = is_some (tfind k t).
Proof.
  rewrite !tfind_some_iff. rewrite (existsb_keys (fun x => attrs_eqb x k)), tset_keys, <- existsb_keys. reflexivity.
Qed.
Lemma tfind_tset_same k v t : is_some (tfind k t) = true -> tfind k (tset k v t) = Some v.
Proof.
  induction t as [|[k' v'] t IH]; cbn; [discriminate|].
  destruct (attrs_eqb k' k) eqn:E; cbn; rewrite E; auto.
Qed.

Definition total_eq := total.
Lemma total_app t e : total (t ++ [e]) = total t + snd e.
Proof. unfold total. induction t as [|x t IH]; cbn; [lia|]. rewrite IH. lia. Qed.
Lemma total_tset k v t old : tfind k t = Some old -> total (tset k v t) = total t - old + v.
Proof.
  unfold total. induction t as [|[k' v'] t IH]; cbn; [discriminate|].
  destruct (attrs_eqb k' k); cbn.
  - intros H. inversion H. lia.
  - intros H. rewrite (IH H). lia.
Qed.
Lemma total_perm a b : Permutation a b -> total a = total b.
Proof. unfold total. induction 1; cbn; lia. Qed.
Lemma table_total_is_total t : table_total t = total t.
Proof. reflexivity. Qed.

(* ------------------------------------------------------------------ the size invariant *)
Definition has_ovf (t : table) : bool := is_some (tfind overflow_attrs t).
Definition tinv (L : nat) (t : table) : Prop := (length t <= L)%nat /\ (length t = L -> has_ovf t = true).

Lemma tinv_nil L : (1 <= L)%nat -> tinv L [].
Proof. intros H. split; cbn; lia. Qed.
Lemma tinv_le L t : tinv L t -> (length t <= L)%nat.
Proof. intros [H _]. exact H. Qed.

Lemma has_ovf_tset k v t : has_ovf (tset k v t) = has_ovf t.
Proof. apply tfind_tset_some. Qed.
Lemma has_ovf_app t e : has_ovf t = true -> has_ovf (t ++ [e]) = true.
Proof. unfold has_ovf. rewrite tfind_app. destruct (tfind overflow_attrs t); [reflexivity|discriminate]. Qed.
Lemma has_ovf_ensure t : has_ovf (ensure_overflow t) = true.
Proof.
  unfold ensure_overflow, has_ovf. destruct (tfind overflow_attrs t) eqn:E; [rewrite E; reflexivity|].
  rewrite tfind_app, E. cbn [fst]. rewrite overflow_self. reflexivity.
Qed.

Lemma tinv_tset L k v t : tinv L t -> tinv L (tset k v t).
Proof. intros [H1 H2]. split; rewrite tset_length; [assumption|]. rewrite has_ovf_tset. assumption. Qed.

Lemma ensure_overflow_tinv L t : tinv L t -> is_overflow L t = true -> tinv L (ensure_overflow t).
Proof.
  intros [H1 H2] Ho. unfold is_overflow in Ho. pose proof (has_ovf_ensure t) as He.
  unfold ensure_overflow in *. destruct (tfind overflow_attrs t) eqn:E.
  - split; assumption.
  - assert (length t <> L) by (intros Hl; specialize (H2 Hl); unfold has_ovf in H2; rewrite E in H2; discriminate).
    split; rewrite app_length; cbn; [lia|]. intros _. exact He.
Qed.
Lemma tinv_app_room L t e : tinv L t -> is_overflow L t = false -> tinv L (t ++ [e]).
Proof.
  intros [H1 H2] Ho. unfold is_overflow in Ho. split; rewrite app_length; cbn; lia.
Qed.
Lemma tadd_tinv L k d t : tinv L t -> tinv L (tadd k d t).
Proof. intros H. unfold tadd. destruct (tfind k t); [apply tinv_tset|]; assumption. Qed.

Lemma record_tinv L k d t : tinv L t -> tinv L (record L k d t).
Proof.
  intros H. unfold record. destruct (tfind k t).
  - apply tinv_tset. assumption.
  - destruct (is_overflow L t) eqn:Eo.
    + apply tadd_tinv. apply ensure_overflow_tinv; assumption.
    + apply tinv_app_room; assumption.
Qed.
Lemma tput_tinv L k v t : tinv L t -> tinv L (tput L k v t).
Proof.
  intros H. unfold tput. destruct (tfind k t).
  - apply tinv_tset. assumption.
  - destruct (is_overflow L t) eqn:Eo.
    + pose proof (ensure_overflow_tinv L t H Eo) as He. unfold ensure_overflow in He.
      destruct (tfind overflow_attrs t) eqn:E; [apply tinv_tset; assumption|].
      destruct H as [H1 H2]. destruct He as [H3 H4]. rewrite app_length in *. cbn in *. split; [rewrite app_length; cbn; lia|].
      intros _. unfold has_ovf. rewrite tfind_app, E. cbn [fst]. rewrite overflow_self. reflexivity.
    + apply tinv_app_room; assumption.
Qed.

Lemma is_overflow_mono L t t' : (length t <= length t')%nat -> is_overflow L t = true -> is_overflow L t' = true.
Proof. unfold is_overflow. lia. Qed.
Lemma ensure_overflow_length t : (length t <= length (ensure_overflow t))%nat.
Proof. unfold ensure_overflow. destruct (tfind overflow_attrs t); [lia|]. rewrite app_length. lia. Qed.

Lemma merge_in_tinv L t e : tinv L t -> tinv L (merge_in L t e).
Proof.
  intros H. destruct e as [k d]. unfold merge_in. destruct (tfind k t).
  - apply tput_tinv. assumption.
  - destruct (is_overflow L t) eqn:Eo.
    + apply tput_tinv. apply ensure_overflow_tinv; assumption.
    + apply tput_tinv. apply tinv_app_room; assumption.
Qed.
Lemma merge_all_tinv L es t : tinv L t -> tinv L (merge_all L t es).
Proof.
  unfold merge_all. revert t. induction es as [|e es IH]; intros t H; cbn; [assumption|]. apply IH. apply merge_in_tinv. assumption.
Qed.

(* ------------------------------------------------------------------ conservation *)
Lemma ensure_overflow_total t : total (ensure_overflow t) = total t.
Proof. unfold ensure_overflow. destruct (tfind overflow_attrs t); [reflexivity|]. rewrite total_app. cbn. lia. Qed.
Lemma tadd_total k d t : is_some (tfind k t) = true -> total (tadd k d t) = total t + d.
Proof. unfold tadd. destruct (tfind k t) eqn:E; [|discriminate]. intros _. rewrite (total_tset k _ t z E). lia. Qed.

Theorem record_total L k d t : total (record L k d t) = total t + d.
Proof.
  unfold record. destruct (tfind k t) eqn:E.
  - rewrite (total_tset k _ t z E). lia.
  - destruct (is_overflow L t).
    + rewrite tadd_total by apply has_ovf_ensure. rewrite ensure_overflow_total. reflexivity.
    + rewrite total_app. reflexivity.
Qed.
(* what Set(k, v) replaces *)
Definition replaced (L : nat) (k : attrs) (t : table) : Z :=
  match tfind k t with
  | Some o => o
  | None => if is_overflow L t then match tfind overflow_attrs t with Some o => o | None => 0 end else 0
  end.
Lemma tput_total L k v t : total (tput L k v t) = total t - replaced L k t + v.
Proof.
  unfold tput, replaced. destruct (tfind k t) eqn:E.
  - apply total_tset. assumption.
  - destruct (is_overflow L t).
    + destruct (tfind overflow_attrs t) eqn:Eo; [apply total_tset; assumption|]. rewrite total_app. cbn. lia.
    + rewrite total_app. cbn. lia.
Qed.

Theorem merge_in_total L t k d : total (merge_in L t (k, d)) = total t + d.
Proof.
  unfold merge_in. destruct (tfind k t) eqn:E.
  - rewrite tput_total. unfold replaced. rewrite E. lia.
  - destruct (is_overflow L t) eqn:Eo.
    + pose proof (has_ovf_ensure t) as Hov. unfold has_ovf in Hov.
      destruct (tfind overflow_attrs (ensure_overflow t)) as [v|] eqn:E2; [|discriminate].
      rewrite tput_total, ensure_overflow_total. unfold replaced.
      rewrite (is_overflow_mono L t (ensure_overflow t) (ensure_overflow_length t) Eo), E2.
      destruct (tfind k (ensure_overflow t)) eqn:E3; [|lia].
      (* k is found only after the overflow entry was added: k equals the overflow key and finds that entry *)
      unfold ensure_overflow in E2, E3. destruct (tfind overflow_attrs t) eqn:E4; [congruence|].
      rewrite tfind_app, E in E3. rewrite tfind_app, E4 in E2. cbn [fst snd] in *. rewrite overflow_self in E2.
      destruct (attrs_eqb overflow_attrs k); inversion E2; inversion E3; lia.
    + rewrite tput_total, total_app. unfold replaced. rewrite tfind_app, E. cbn [fst snd]. rewrite attrs_eqb_refl. lia.
Qed.
Lemma total_cons e t : total (e :: t) = snd e + total t.
Proof. reflexivity. Qed.
Lemma total_nil : total [] = 0.
Proof. reflexivity. Qed.
Theorem merge_all_total L es t : total (merge_all L t es) = total t + total es.
Proof.
  unfold merge_all. revert t. induction es as [|[k d] es IH]; intros t; cbn [fold_left].
  - rewrite total_nil. lia.
  - rewrite IH, merge_in_total, total_cons. cbn [snd]. lia.
Qed.
Lemma total_app2 a b : total (a ++ b) = total a + total b.
Proof. induction a as [|e a IH]; [rewrite total_nil; reflexivity|]. cbn [app]. rewrite !total_cons, IH. lia. Qed.
Lemma total_concat (l : list table) : total (concat l) = fold_right (fun t s => total t + s) 0 l.
Proof. induction l as [|t l IH]; cbn [concat fold_right]; [reflexivity|]. rewrite total_app2, IH. reflexivity. Qed.

(* ------------------------------------------------------------------ walk orders *)
Lemma scal_same_eq x y : scal_same x y = true -> x = y.
Proof.
  destruct x, y; cbn; try discriminate; intros H; [apply Z.eqb_eq in H|apply bytes_eqb_eq in H]; congruence.
Qed.
Lemma list_eqb_eq {A} (e : A -> A -> bool) (He : forall x y, e x y = true -> x = y) a b : list_eqb e a b = true -> a = b.
Proof.
  revert b. induction a as [|x a IH]; intros [|y b]; cbn; try discriminate; [reflexivity|].
  rewrite andb_true_iff. intros [H1 H2]. f_equal; auto.
Qed.
Lemma aval_same_eq x y : aval_same x y = true -> x = y.
Proof.
  destruct x as [t a|t l], y as [u b|u m]; cbn; try discriminate; rewrite andb_true_iff; intros [H1 H2];
    apply sty_eqb_eq in H1; subst; f_equal.
  - apply scal_same_eq. assumption.
  - eapply list_eqb_eq; [|eassumption]. apply scal_same_eq.
Qed.
Lemma attrs_same_eq a b : attrs_same a b = true -> a = b.
Proof.
  apply list_eqb_eq. intros [k v] [k' v']. unfold pair_same. cbn. rewrite andb_true_iff. intros [H1 H2].
  apply bytes_eqb_eq in H1. apply aval_same_eq in H2. congruence.
Qed.
Lemma entry_same_eq a b : entry_same a b = true -> a = b.
Proof.
  destruct a as [k v], b as [k' v']. unfold entry_same. cbn. rewrite andb_true_iff. intros [H1 H2].
  apply attrs_same_eq in H1. apply Z.eqb_eq in H2. congruence.
Qed.
Lemma remove_first_perm e t t' : remove_first e t = Some t' -> Permutation t (e :: t').
Proof.
  revert t'. induction t as [|x t IH]; intros t'; cbn; [discriminate|].
  destruct (entry_same x e) eqn:E.
  - intros H. inversion H. apply entry_same_eq in E. subst. apply Permutation_refl.
  - destruct (remove_first e t) eqn:Er; [|discriminate]. cbn. intros H. inversion H. subst.
    eapply perm_trans; [apply perm_skip; apply IH; reflexivity|]. apply perm_swap.
Qed.
Lemma is_perm_perm w t : is_perm w t = true -> Permutation w t.
Proof.
  revert t. induction w as [|e w IH]; intros t; cbn.
  - destruct t; [constructor|discriminate].
  - destruct (remove_first e t) eqn:Er; [|discriminate]. intros H. apply IH in H.
    apply remove_first_perm in Er. eapply perm_trans; [apply perm_skip; exact H|]. apply Permutation_sym. exact Er.
Qed.
Lemma table_same_eq a b : table_same a b = true -> a = b.
Proof. apply list_eqb_eq. apply entry_same_eq. Qed.

Lemma has_ovf_perm a b : Permutation a b -> has_ovf a = has_ovf b.
Proof.
  intros H. unfold has_ovf. rewrite !tfind_some_iff. apply eq_true_iff_eq. rewrite !existsb_exists.
  split; intros [x [H1 H2]]; exists x; (split; [|exact H2]).
  - eapply Permutation_in; eauto.
  - eapply Permutation_in; [apply Permutation_sym; exact H|exact H1].
Qed.
Lemma tinv_perm L a b : Permutation a b -> tinv L a -> tinv L b.
Proof.
  intros Hp [H1 H2]. pose proof (Permutation_length Hp) as Hl. split; [lia|]. intros H. rewrite <- (has_ovf_perm a b Hp). apply H2. lia.
Qed.

(* ------------------------------------------------------------------ keys stay pairwise different *)
Definition kd (ks : list attrs) : Prop := ForallOrdPairs (fun a b => attrs_eqb a b = false) ks.
Definition kdistinct (t : table) : Prop := kd (map fst t).

Lemma kdistinct_keys t t' : map fst t = map fst t' -> kdistinct t -> kdistinct t'.
Proof. unfold kdistinct. intros ->. auto. Qed.
Lemma kdistinct_tset k v t : kdistinct t -> kdistinct (tset k v t).
Proof. apply kdistinct_keys. symmetry. apply tset_keys. Qed.
Lemma kd_app ks k : kd ks -> Forall (fun a => attrs_eqb a k = false) ks -> kd (ks ++ [k]).
Proof.
  unfold kd. induction ks as [|x ks IH]; intros H Hf; cbn.
  - repeat constructor.
  - inversion H as [|? ? Hx Hr]; subst. inversion Hf as [|? ? Hxk Hfk]; subst.
    constructor; [|apply IH; assumption]. apply Forall_app. split; [assumption|]. constructor; [exact Hxk|constructor].
Qed.
Lemma tfind_none_forall k t : tfind k t = None -> Forall (fun a => attrs_eqb a k = false) (map fst t).
Proof.
  induction t as [|[k' v] t IH]; cbn; [constructor|]. destruct (attrs_eqb k' k) eqn:E; [discriminate|]. intros H. constructor; auto.
Qed.
Lemma kdistinct_app t e : kdistinct t -> tfind (fst e) t = None -> kdistinct (t ++ [e]).
Proof. unfold kdistinct. intros H Hf. rewrite map_app. cbn. apply kd_app; [assumption|]. apply tfind_none_forall. assumption. Qed.
Lemma kd_perm a b : Permutation a b -> kd a -> kd b.
Proof.
  unfold kd. intros Hp. induction Hp; intros H.
  - constructor.
  - inversion H; subst. constructor; [|auto]. eapply Permutation_Forall; eauto.
  - inversion H as [|? ? Hy Hr]; subst. inversion Hr as [|? ? Hx Hl]; subst. inversion Hy as [|? ? Hyx Hyl]; subst.
    constructor; [|constructor; assumption]. constructor; [|assumption]. rewrite attrs_eqb_sym. assumption.
  - auto.
Qed.
Lemma kdistinct_perm a b : Permutation a b -> kdistinct a -> kdistinct b.
Proof. unfold kdistinct. intros Hp. apply kd_perm. apply Permutation_map. assumption. Qed.
Lemma kdistinct_ensure t : kdistinct t -> kdistinct (ensure_overflow t).
Proof.
  intros H. unfold ensure_overflow. destruct (tfind overflow_attrs t) eqn:E; [assumption|]. apply kdistinct_app; assumption.
Qed.
Lemma kdistinct_tadd k d t : kdistinct t -> kdistinct (tadd k d t).
Proof. intros H. unfold tadd. destruct (tfind k t); [apply kdistinct_tset|]; assumption. Qed.
Lemma record_kdistinct L k d t : kdistinct t -> kdistinct (record L k d t).
Proof.
  intros H. unfold record. destruct (tfind k t) eqn:E.
  - apply kdistinct_tset. assumption.
  - destruct (is_overflow L t).
    + apply kdistinct_tadd, kdistinct_ensure. assumption.
    + apply kdistinct_app; assumption.
Qed.
Lemma tput_kdistinct L k v t : kdistinct t -> kdistinct (tput L k v t).
Proof.
  intros H. unfold tput. destruct (tfind k t) eqn:E.
  - apply kdistinct_tset. assumption.
  - destruct (is_overflow L t).
    + destruct (tfind overflow_attrs t) eqn:Eo; [apply kdistinct_tset; assumption|]. apply kdistinct_app; assumption.
    + apply kdistinct_app; assumption.
Qed.
Lemma merge_in_kdistinct L t e : kdistinct t -> kdistinct (merge_in L t e).
Proof.
  intros H. destruct e as [k d]. unfold merge_in. destruct (tfind k t) eqn:E.
  - apply tput_kdistinct. assumption.
  - destruct (is_overflow L t).
    + apply tput_kdistinct, kdistinct_ensure. assumption.
    + apply tput_kdistinct. apply kdistinct_app; assumption.
Qed.
Lemma merge_all_kdistinct L es t : kdistinct t -> kdistinct (merge_all L t es).
Proof.
  unfold merge_all. revert t. induction es as [|e es IH]; intros t H; cbn; [assumption|]. apply IH. apply merge_in_kdistinct. assumption.
Qed.

(* ------------------------------------------------------------------ same series iff equal maps, at the table *)
(* the key of the entry GetOrSetDefault(k) answers with *)
Definition series_key (L : nat) (k : attrs) (t : table) : attrs := snd (gosd L k t).

Lemma series_key_cases L k t :
  series_key L k t = match tfind k t with Some _ => k | None => if is_overflow L t then overflow_attrs else k end.
Proof. unfold series_key, gosd. destruct (tfind k t); [reflexivity|]. destruct (is_overflow L t); reflexivity. Qed.

Lemma tfind_tset_other k k' v t : is_some (tfind k (tset k' v t)) = is_some (tfind k t).
Proof. apply tfind_tset_some. Qed.

Lemma record_length L k d t : (length t <= length (record L k d t))%nat.
Proof.
  unfold record. destruct (tfind k t); [rewrite tset_length; lia|]. destruct (is_overflow L t).
  - unfold tadd. destruct (tfind overflow_attrs (ensure_overflow t)); [rewrite tset_length|]; apply ensure_overflow_length.
  - rewrite app_length. lia.
Qed.

(* equal maps always land in the same series *)
Theorem equal_maps_same_series L ka kb d t : attrs_eqb ka kb = true ->
  attrs_eqb (series_key L ka t) (series_key L kb (record L ka d t)) = true.
Proof.
  intros He. pose proof (attrs_eqb_self _ _ He) as Hs. rewrite !series_key_cases.
  rewrite <- (tfind_congr ka kb (record L ka d t) He). unfold record.
  destruct (tfind ka t) eqn:E.
  - assert (H : is_some (tfind ka (tset ka (z + d) t)) = true) by (rewrite tfind_tset_some, E; reflexivity).
    destruct (tfind ka (tset ka (z + d) t)); [exact He|discriminate].
  - destruct (is_overflow L t) eqn:Eo.
    + set (t1 := tadd overflow_attrs d (ensure_overflow t)).
      assert (Ho1 : is_overflow L t1 = true).
      { eapply is_overflow_mono; [|exact Eo]. unfold t1, tadd. destruct (tfind overflow_attrs (ensure_overflow t));
          [rewrite tset_length|]; apply ensure_overflow_length. }
      destruct (tfind ka t1) eqn:E1; [|rewrite Ho1; apply overflow_self].
      (* found only because the overflow entry was just added: ka equals the overflow key *)
      assert (Hk : attrs_eqb overflow_attrs ka = true).
      { assert (Hx : is_some (tfind ka t1) = true) by (rewrite E1; reflexivity).
        unfold t1, tadd in Hx. pose proof (has_ovf_ensure t) as Hov. unfold has_ovf in Hov.
        destruct (tfind overflow_attrs (ensure_overflow t)); [|discriminate]. rewrite tfind_tset_some in Hx.
        unfold ensure_overflow in Hx. destruct (tfind overflow_attrs t); [rewrite E in Hx; discriminate|].
        rewrite tfind_app, E in Hx. cbn [fst] in Hx. destruct (attrs_eqb overflow_attrs ka); [reflexivity|discriminate]. }
      eapply attrs_eqb_trans; eauto.
    + rewrite tfind_app, E. cbn [fst]. rewrite Hs. exact He.
Qed.

(* and two measurements share a series only if their maps are equal - or the series is the overflow series *)
Theorem same_series_equal_maps_or_overflow L ka kb d t :
  attrs_eqb (series_key L ka t) (series_key L kb (record L ka d t)) = true ->
  attrs_eqb ka kb = true \/ attrs_eqb (series_key L ka t) overflow_attrs = true.
Proof.
  rewrite !series_key_cases. destruct (tfind ka t) eqn:E.
  - destruct (tfind kb (record L ka d t)); [left; assumption|]. destruct (is_overflow L (record L ka d t)); [right|left]; assumption.
  - destruct (is_overflow L t) eqn:Eo; [intros _; right; apply overflow_self|].
    destruct (tfind kb (record L ka d t)); [left; assumption|]. destruct (is_overflow L (record L ka d t)); [right|left]; assumption.
Qed.

(* non-vacuity: a table with room, two writings of one set, one series; a full table folds a new set into the overflow series *)
Example same_series_example :
  let ka := mk_attrs FNone [(bs "a", IV (VOne TI32 (SZ 1))); (bs "b", ICStr (bs "x"))] in
  let kb := mk_attrs FNone [(bs "b", IV (VOne TStr (SS (bs "x")))); (bs "a", IV (VOne TI32 (SZ 7))); (bs "a", IV (VOne TI32 (SZ 1)))] in
  attrs_eqb ka kb = true /\ record 5 kb 2 (record 5 ka 1 []) = [(ka, 3)] /\
  record 2 kb 2 (record 2 [(bs "z", VOne TBool (SZ 0))] 1 []) = [([(bs "z", VOne TBool (SZ 0))], 1); (overflow_attrs, 2)].
Proof. vm_compute. repeat split; reflexivity. Qed.
