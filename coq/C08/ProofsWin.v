(* C08 proofs, part 6: a second walk through every history, for RELATIONS between a collector's window and its tables.
   ProofsStorage.run_ops_ok tracks a table predicate and the totals; here an arbitrary relation [Wp g w t] between a window w (a
   list of measurements) and a table t is tracked, g being ghost state that the records advance (the representatives of the distinct
   sets seen so far).  It is enough that Wp relates the empty window to the empty table, follows a record, does not depend on the
   order of the table nor of the window, and follows the merge of two tables (windows concatenated).  Then every report of every
   history is related to the collector's window: the measurements since its previous collection for a delta collector, all
   measurements for a cumulative one. *)
From V Require Import C08.Spec C08.ProofsAttrs C08.ProofsTable C08.ProofsStorage.
From Coq Require Import Lia ZifyBool ZifyNat Permutation.
Local Open Scope Z_scope.

Lemma merge_all_app L t a b : merge_all L t (a ++ b) = merge_all L (merge_all L t a) b.
Proof. unfold merge_all. apply fold_left_app. Qed.
Lemma merge_all_nil L t : merge_all L t [] = t.
Proof. reflexivity. Qed.

Section Win.
  Variable c : cfg.
  Let L := c_limit c.
  Let f := c_filter c.
  Let temps := c_temps c.
  Let ncol := length temps.

  Variable ghost : Type.
  Variable gstep : ghost -> list (bytes * ival) -> ghost.
  Variable Wp : ghost -> list meas -> table -> Prop.
  Hypothesis W_nil : forall g, Wp g [] [].
  Hypothesis W_mono : forall g kvs w t, Wp g w t -> Wp (gstep g kvs) w t.
  Hypothesis W_rec : forall g w t kvs d, Wp g w t -> Wp (gstep g kvs) (w ++ [(kvs, d)]) (record L (mk_attrs f kvs) d t).
  Hypothesis W_perm : forall g w a b, Permutation a b -> Wp g w a -> Wp g w b.
  Hypothesis W_wperm : forall g w w' t, Permutation w w' -> Wp g w t -> Wp g w' t.
  Hypothesis W_merge : forall g w1 t1 w2 t2, Wp g w1 t1 -> Wp g w2 t2 -> Wp g (w1 ++ w2) (merge_all L t1 t2).

  Definition slow_w : bool := negb ((ncol =? 1)%nat && negb (nth 0 temps false)).
  Definition last_tbl (s : storage) (i : nat) : table := match nth i (s_last s) None with Some lt => lt | None => [] end.

  Record J (s : storage) (g : ghost) (hist : list meas) (marks : list nat) : Prop := mkJ {
    j_len_m : length marks = ncol;
    j_len_u : length (s_unrep s) = ncol;
    j_len_l : length (s_last s) = ncol;
    j_fast : slow_w = false -> s_pushed s = false;
    j_unpushed : s_pushed s = false -> Forall (fun l => l = []) (s_unrep s);
    j_unreported : s_pushed s = false -> slow_w = true -> Forall (fun o => o = None) (s_last s);
    j_i : forall i, (i < ncol)%nat ->
          (nth i marks O <= length hist)%nat /\
          (exists segs cur, skipn (nth i marks O) hist = concat segs ++ cur /\
                            Forall2 (Wp g) segs (nth i (s_unrep s) []) /\ Wp g cur (s_interval s)) /\
          (nth i temps false = true -> Wp g (firstn (nth i marks O) hist) (last_tbl s i))
  }.

  Lemma J_init g : J (init_storage c) g [] (map (fun _ => O) temps).
  Proof using W_nil.
    constructor; unfold init_storage; cbn [s_interval s_pushed s_unrep s_last]; try (rewrite map_length; reflexivity); try discriminate.
    - reflexivity.
    - intros _. apply Forall_forall. intros x Hx. apply in_map_iff in Hx. destruct Hx as [? [<- _]]. reflexivity.
    - intros _ _. apply Forall_forall. intros x Hx. apply in_map_iff in Hx. destruct Hx as [? [<- _]]. reflexivity.
    - intros i Hi. unfold last_tbl. cbn [s_last]. fold temps.
      rewrite (nth_map_const temps O i), (nth_map_const temps (@nil table) i), (nth_map_const temps (@None table) i).
      cbn. split; [apply Nat.le_refl|]. split; [|intros _; apply W_nil]. exists [], []. repeat split; [constructor|apply W_nil].
  Qed.

  Lemma Forall2_mono g kvs segs l : Forall2 (Wp g) segs l -> Forall2 (Wp (gstep g kvs)) segs l.
  Proof. induction 1; constructor; auto. Qed.

  (* a record: the measurement joins the current segment of every collector *)
  Lemma J_record s g hist marks kvs d :
    J s g hist marks ->
    J (mk_storage (record L (mk_attrs f kvs) d (s_interval s)) (s_pushed s) (s_unrep s) (s_last s))
      (gstep g kvs) (hist ++ [(kvs, d)]) marks.
  Proof.
    intros [H1 H2 H3 H4 H5 H6 H7]. constructor; cbn [s_interval s_pushed s_unrep s_last]; auto.
    intros i Hi. destruct (H7 i Hi) as [Ha [[segs [cur [Hs [Hf Hc]]]] Hl]]. rewrite app_length. cbn [length]. split; [lia|]. split.
    - exists segs, (cur ++ [(kvs, d)]). split; [rewrite skipn_snoc by assumption; rewrite Hs, app_assoc; reflexivity|].
      split; [apply Forall2_mono; assumption|apply W_rec; assumption].
    - intros Hcu. unfold last_tbl in *. cbn [s_last]. rewrite firstn_snoc by assumption. apply W_mono. auto.
  Qed.

  (* merging the tables of consecutive segments relates the result to the concatenated window *)
  Lemma merge_segs g segs l : Forall2 (Wp g) segs l -> forall w t, Wp g w t -> Wp g (w ++ concat segs) (merge_all L t (concat l)).
  Proof.
    induction 1 as [|sg tb segs l Hh Ht IH]; intros w t Hw; cbn [concat].
    - rewrite app_nil_r, merge_all_nil. assumption.
    - rewrite merge_all_app, app_assoc. apply IH. apply W_merge; assumption.
  Qed.

  Lemma Forall2_nil_r {A B} (R : A -> B -> Prop) l : Forall2 R l [] -> l = [].
  Proof. inversion 1. reflexivity. Qed.
  Lemma Forall2_snoc {A B} (R : A -> B -> Prop) l l' x y : Forall2 R l l' -> R x y -> Forall2 R (l ++ [x]) (l' ++ [y]).
  Proof. intros H1 H2. apply Forall2_app; [assumption|repeat constructor; assumption]. Qed.

  Lemma collect_step_win s g hist marks i iw rw s' res :
    (i < ncol)%nat -> J s g hist marks -> st_collect c i iw rw s = (s', res) ->
    let window := if nth i temps false then hist else skipn (nth i marks O) hist in
    match res with
    | CReport t => Wp g window t /\ J s' g hist (set_nth i (length hist) marks)
    | CNoCb => Wp g window [] /\ J s' g hist (set_nth i (length hist) marks)
    | CReject => True
    end.
  Proof.
    intros Hi HJ. pose proof HJ as [G1 G2 G3 G4 G5 G6 G7].
    unfold st_collect. destruct (is_perm iw (s_interval s)) eqn:Eperm; cbn [negb];
      [|intros X; apply pair_equal_spec in X; destruct X as [<- <-]; exact I].
    pose proof (is_perm_perm _ _ Eperm) as Hperm. apply Permutation_sym in Hperm.
    fold temps. fold ncol. fold L.
    destruct ((ncol =? 1)%nat && negb (nth i temps false)) eqn:Efast.
    - (* single delta collector *)
      apply andb_true_iff in Efast. destruct Efast as [En Ec]. apply Nat.eqb_eq in En. apply negb_true_iff in Ec.
      assert (i = O) by lia. subst i.
      assert (Hslow : slow_w = false) by (unfold slow_w; rewrite En, Ec; reflexivity).
      pose proof (G4 Hslow) as Hpushed. pose proof (G5 Hpushed) as Hun.
      destruct (G7 O Hi) as [Ha [[segs [cur [Hs [Hf Hc]]]] _]].
      assert (Hu0 : nth O (s_unrep s) [] = []) by (apply (Forall_nth_d (fun l => l = []) O (s_unrep s) [] Hun eq_refl)).
      rewrite Hu0 in Hf. apply Forall2_nil_r in Hf. subst segs. cbn [concat app] in Hs.
      assert (Hwin : Wp g (skipn (nth O marks O) hist) iw) by (rewrite Hs; eapply W_perm; eauto).
      rewrite Ec. cbv zeta.
      assert (Jnew : forall last', length last' = ncol ->
                J (mk_storage [] (s_pushed s) (s_unrep s) last') g hist (set_nth O (length hist) marks)).
      { intros last' Hl. constructor; cbn [s_interval s_pushed s_unrep s_last].
        - rewrite set_nth_length. assumption.
        - assumption.
        - assumption.
        - intros _. assumption.
        - intros _. assumption.
        - intros _ Hs'. rewrite Hs' in Hslow. discriminate.
        - intros j Hj. assert (j = O) by lia. subst j. rewrite nth_set_nth_same by lia. split; [lia|]. split.
          + exists [], []. rewrite skipn_all, Hu0. repeat split; [constructor|apply W_nil].
          + rewrite Ec. discriminate. }
      destruct iw as [|e0 iw'].
      + intros X. apply pair_equal_spec in X. destruct X as [<- <-]. cbv zeta. split; [assumption|]. apply Jnew. assumption.
      + destruct (table_same rw (e0 :: iw')) eqn:Esame; [|intros X; apply pair_equal_spec in X; destruct X as [<- <-]; exact I].
        intros X. apply pair_equal_spec in X. destruct X as [<- <-]. cbv zeta. split; [assumption|].
        apply Jnew. destruct (nth O (s_last s) None); [assumption|]. rewrite set_nth_length. assumption.
    - (* merge path *)
      assert (Hslow : slow_w = true).
      { unfold slow_w. apply negb_true_iff. apply andb_false_iff in Efast. apply andb_false_iff. destruct Efast as [E|E]; [left; exact E|].
        destruct (ncol =? 1)%nat eqn:En; [|left; reflexivity]. right. apply Nat.eqb_eq in En. assert (i = O) by lia. subst i. exact E. }
      cbv zeta.
      set (nonempty := match iw with [] => false | _ => true end).
      set (unrep1 := if nonempty then map (fun l => l ++ [iw]) (s_unrep s) else s_unrep s).
      set (pushed1 := s_pushed s || nonempty).
      assert (Hu1len : length unrep1 = ncol) by (unfold unrep1; destruct nonempty; [rewrite map_length|]; assumption).
      (* after the push: every collector's window is cut into the segments of its tables and a rest related to the empty table *)
      assert (Hu1 : forall j, (j < ncol)%nat -> exists segs cur, skipn (nth j marks O) hist = concat segs ++ cur /\
                       Forall2 (Wp g) segs (nth j unrep1 []) /\ Wp g cur []).
      { intros j Hj. destruct (G7 j Hj) as [_ [[segs [cur [Hs [Hf Hc]]]] _]].
        assert (Hciw : Wp g cur iw) by (eapply W_perm; eauto).
        unfold unrep1. destruct nonempty eqn:En.
        - exists (segs ++ [cur]), []. rewrite nth_map_app by lia. split; [|split; [apply Forall2_snoc; assumption|apply W_nil]].
          rewrite Hs, concat_app. cbn [concat]. rewrite !app_nil_r. reflexivity.
        - exists segs, cur. unfold nonempty in En. destruct iw; [|discriminate]. repeat split; assumption. }
      destruct (negb pushed1) eqn:Epush.
      + (* nothing was ever pushed: no callback *)
        apply negb_true_iff in Epush. unfold pushed1 in Epush. apply orb_false_iff in Epush. destruct Epush as [Ep En].
        assert (Hu1eq : unrep1 = s_unrep s) by (unfold unrep1; rewrite En; reflexivity).
        intros X. apply pair_equal_spec in X. destruct X as [<- <-]. cbv zeta.
        pose proof (G5 Ep) as Hun. pose proof (G6 Ep Hslow) as Hln.
        assert (Hunj : forall j, nth j (s_unrep s) [] = []).
        { intros j. apply (Forall_nth_d (fun l => l = []) j (s_unrep s) [] Hun eq_refl). }
        assert (Hlnj : forall j, nth j (s_last s) None = None).
        { intros j. apply (Forall_nth_d (fun o => o = None) j (s_last s) None Hln eq_refl). }
        (* every collector: its whole window is related to the empty table *)
        assert (Hw0 : forall j, (j < ncol)%nat -> Wp g (skipn (nth j marks O) hist) [] /\
                                   (nth j temps false = true -> Wp g hist [])).
        { intros j Hj. destruct (Hu1 j Hj) as [segs [cur [Hs [Hf Hc0]]]]. destruct (G7 j Hj) as [_ [_ Hl]].
          rewrite Hu1eq, Hunj in Hf. apply Forall2_nil_r in Hf. subst segs. cbn [concat app] in Hs.
          split; [rewrite Hs; assumption|]. intros Hcu. specialize (Hl Hcu). unfold last_tbl in Hl. rewrite Hlnj in Hl.
          rewrite <- (firstn_skipn (nth j marks O) hist), Hs.
          change (@nil entry) with (merge_all L [] []). apply W_merge; assumption. }
        split.
        { destruct (Hw0 i Hi) as [Hd Hcw]. destruct (nth i temps false); [apply Hcw; reflexivity|exact Hd]. }
        constructor; cbn [s_interval s_pushed s_unrep s_last].
        * rewrite set_nth_length. assumption.
        * assumption.
        * assumption.
        * intros _. unfold pushed1. rewrite Ep, En. reflexivity.
        * intros _. rewrite Hu1eq. assumption.
        * intros _ _. assumption.
        * intros j Hj. unfold last_tbl. cbn [s_last s_unrep s_interval]. rewrite Hu1eq, Hunj, Hlnj.
          destruct (Hw0 j Hj) as [Hd Hcw].
          destruct (Nat.eq_dec i j) as [->|Hne].
          -- rewrite nth_set_nth_same by lia. rewrite skipn_all, firstn_all. split; [lia|]. split; [|exact Hcw].
             exists [], []. repeat split; [constructor|apply W_nil].
          -- rewrite nth_set_nth_other by assumption. destruct (G7 j Hj) as [Ha' [_ Hc']]. split; [assumption|]. split.
             ++ exists [], (skipn (nth j marks O) hist). repeat split; [constructor|assumption].
             ++ intros Hcu. specialize (Hc' Hcu). unfold last_tbl in Hc'. rewrite Hlnj in Hc'. exact Hc'.
      + apply negb_false_iff in Epush.
        set (mine := nth i unrep1 []).
        set (unrep2 := set_nth i [] unrep1).
        assert (Hu2len : length unrep2 = ncol) by (unfold unrep2; rewrite set_nth_length; assumption).
        set (m1 := merge_all L [] (concat mine)).
        (* the merged unreported tables are related to the collector's delta window *)
        assert (Hm1 : Wp g (skipn (nth i marks O) hist) m1).
        { destruct (Hu1 i Hi) as [segs [cur [Hs [Hf Hc0]]]].
          rewrite Hs. rewrite <- (merge_all_nil L m1). apply W_merge; [|assumption]. unfold m1, mine.
          change (concat segs) with ([] ++ concat segs). apply merge_segs; [assumption|apply W_nil]. }
        (* the state after the collection *)
        assert (Jnew : forall t : table,
                  (nth i temps false = true -> Wp g hist t) ->
                  J (mk_storage [] pushed1 unrep2 (set_nth i (Some t) (s_last s))) g hist (set_nth i (length hist) marks)).
        { intros t Htt. constructor; cbn [s_interval s_pushed s_unrep s_last].
          - rewrite set_nth_length. assumption.
          - assumption.
          - rewrite set_nth_length. assumption.
          - intros Hs. rewrite Hs in Hslow. discriminate.
          - intros Hp. rewrite Hp in Epush. discriminate.
          - intros Hp. rewrite Hp in Epush. discriminate.
          - intros j Hj. unfold last_tbl. cbn [s_last]. destruct (Nat.eq_dec i j) as [->|Hne].
            + rewrite !nth_set_nth_same by lia. unfold unrep2. rewrite nth_set_nth_same by lia.
              rewrite skipn_all, firstn_all. split; [lia|]. split; [|exact Htt].
              exists [], []. repeat split; [constructor|apply W_nil].
            + rewrite !nth_set_nth_other by assumption. unfold unrep2. rewrite nth_set_nth_other by assumption.
              destruct (G7 j Hj) as [Ha' [_ Hc']]. split; [assumption|]. split; [|exact Hc'].
              destruct (Hu1 j Hj) as [segs [cur [Hs [Hf Hc0]]]]. exists segs, cur. repeat split; assumption. }
        destruct (G7 i Hi) as [Ha [_ Hc]].
        (* the table that is reported, before the walk order is applied *)
        set (m := match nth i (s_last s) None with
                  | Some lt => if nth i temps false then merge_all L m1 lt else m1
                  | None => m1
                  end).
        assert (Hm : Wp g (if nth i temps false then hist else skipn (nth i marks O) hist) m).
        { unfold m. destruct (nth i temps false) eqn:Ecu.
          - specialize (Hc eq_refl). unfold last_tbl in Hc.
            apply (W_wperm g (skipn (nth i marks O) hist ++ firstn (nth i marks O) hist)).
            + eapply Permutation_trans; [apply Permutation_app_comm|]. rewrite firstn_skipn. apply Permutation_refl.
            + destruct (nth i (s_last s) None) as [lt|].
              * apply W_merge; assumption.
              * rewrite <- (merge_all_nil L m1). apply W_merge; assumption.
          - destruct (nth i (s_last s) None); assumption. }
        fold m. destruct (is_perm rw m) eqn:Erw; [|intros X; apply pair_equal_spec in X; destruct X as [<- <-]; exact I].
        pose proof (is_perm_perm _ _ Erw) as Hrw. apply Permutation_sym in Hrw.
        intros X. apply pair_equal_spec in X. destruct X as [<- <-]. cbv zeta.
        assert (Hrwm : Wp g (if nth i temps false then hist else skipn (nth i marks O) hist) rw) by (eapply W_perm; eauto).
        split; [assumption|]. apply Jnew. intros Hcu. rewrite Hcu in Hrwm. assumption.
  Qed.

  (* ---------------------------------------------------------------- every history *)
  Fixpoint results_win (rs : list cres) (ops : list op) (g : ghost) (hist : list meas) (marks : list nat) : Prop :=
    match ops with
    | [] => rs = []
    | ORec kvs v :: r => results_win rs r (gstep g kvs) (hist ++ [(kvs, counts (c_mono c) v)]) marks
    | ORec0 v :: r => results_win rs r (gstep g []) (hist ++ [([], counts (c_mono c) v)]) marks
    | OCollect i :: r =>
        match rs with
        | [] => False
        | res :: rs' =>
            let window := if nth i temps false then hist else skipn (nth i marks O) hist in
            match res with
            | CReport t => Wp g window t /\ results_win rs' r g hist (set_nth i (length hist) marks)
            | CNoCb => Wp g window [] /\ results_win rs' r g hist (set_nth i (length hist) marks)
            | CReject => rs' = []
            end
        end
    end.

  Theorem run_ops_win ops : forall walks s g hist marks,
    J s g hist marks -> results_win (run_ops c ops walks s) ops g hist marks.
  Proof.
    induction ops as [|o ops IH]; intros walks s g hist marks HJ; [reflexivity|].
    destruct o as [kvs v|v|i]; cbn [run_ops results_win].
    - apply IH. unfold st_record. rewrite accepted_counts. apply J_record. assumption.
    - apply IH. unfold st_record0. rewrite accepted_counts. apply (J_record s g hist marks [] _ HJ).
    - fold temps. fold ncol. destruct (ncol <=? i)%nat eqn:Ei; [reflexivity|]. apply Nat.leb_gt in Ei.
      destruct walks as [|iw ws]; [reflexivity|].
      match goal with |- context [st_collect ?a ?b ?c0 ?d ?e] => destruct (st_collect a b c0 d e) as [s' res] eqn:Ec end.
      pose proof (collect_step_win s g hist marks i iw _ s' res Ei HJ Ec) as Hstep. cbv zeta in Hstep.
      destruct res as [|t|]; cbv iota beta in Hstep |- *; try reflexivity.
      + destruct Hstep as [H1 H2]. split; [assumption|]. apply IH; assumption.
      + destruct Hstep as [H1 H2]. split; [assumption|]. apply IH; assumption.
  Qed.
End Win.
