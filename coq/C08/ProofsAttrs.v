(* C08 proofs, part 1: the ordered attribute map is a canonical form of "the key-to-value map a measurement denotes":
   [assoc k (mk_attrs f kvs) = kept f kvs k] for every key (whole byte strings), canonical maps are equal iff they denote the same
   function, hence two measurements have equal maps iff [sets_equal] (the spec), whatever the order of the pairs and with
   duplicates resolved last-wins. *)
From V Require Import C08.Spec.
From Coq Require Import Lia ZifyBool Sorting.Sorted Permutation.
Local Open Scope Z_scope.

(* ------------------------------------------------------------------ bytes *)
Lemma bytes_eqb_eq a b : bytes_eqb a b = true <-> a = b.
Proof.
  revert b. induction a as [|x a IH]; intros [|y b]; cbn; try (split; congruence).
  rewrite andb_true_iff, IH. split.
  - intros [H1 H2]. apply Byte.byte_dec_bl in H1. congruence.
  - intros H. inversion H; subst. split; [apply Byte.byte_dec_lb|]; reflexivity.
Qed.
Lemma bytes_eqb_refl a : bytes_eqb a a = true.
Proof. apply bytes_eqb_eq; reflexivity. Qed.
Lemma bytes_eqb_neq a b : a <> b -> bytes_eqb a b = false.
Proof. intros H. destruct (bytes_eqb a b) eqn:E; [apply bytes_eqb_eq in E; contradiction | reflexivity]. Qed.
Lemma bytes_eqb_sym a b : bytes_eqb a b = bytes_eqb b a.
Proof.
  destruct (bytes_eqb a b) eqn:E.
  - apply bytes_eqb_eq in E. subst. symmetry. apply bytes_eqb_refl.
  - symmetry. apply bytes_eqb_neq. intros ->. rewrite bytes_eqb_refl in E. discriminate.
Qed.

Lemma b2n_inj x y : b2n x = b2n y -> x = y.
Proof.
  unfold b2n. intros H. pose proof (Byte.of_to_N x) as Hx. pose proof (Byte.of_to_N y) as Hy.
  rewrite H in Hx. rewrite Hx in Hy. congruence.
Qed.

Lemma bytes_cmp_eq a b : bytes_cmp a b = Eq <-> a = b.
Proof.
  revert b. induction a as [|x a IH]; intros [|y b]; cbn; try (split; congruence).
  destruct (N.compare (b2n x) (b2n y)) eqn:E.
  - apply N.compare_eq in E. apply b2n_inj in E. subst. rewrite IH. split; congruence.
  - split; [discriminate|]. intros H. inversion H; subst. rewrite N.compare_refl in E. discriminate.
  - split; [discriminate|]. intros H. inversion H; subst. rewrite N.compare_refl in E. discriminate.
Qed.
Lemma bytes_cmp_refl a : bytes_cmp a a = Eq.
Proof. apply bytes_cmp_eq. reflexivity. Qed.
Lemma bytes_cmp_opp a b : bytes_cmp b a = CompOpp (bytes_cmp a b).
Proof.
  revert b. induction a as [|x a IH]; intros [|y b]; cbn; try reflexivity.
  rewrite (N.compare_antisym (b2n x) (b2n y)).
  destruct (N.compare (b2n x) (b2n y)); cbn; auto.
Qed.
Lemma bytes_cmp_lt_trans a b c : bytes_cmp a b = Lt -> bytes_cmp b c = Lt -> bytes_cmp a c = Lt.
Proof.
  revert b c. induction a as [|x a IH]; intros [|y b] [|z c]; cbn; try congruence.
  destruct (N.compare (b2n x) (b2n y)) eqn:E1; try discriminate;
  destruct (N.compare (b2n y) (b2n z)) eqn:E2; try discriminate; intros H1 H2.
  - apply N.compare_eq in E1, E2. rewrite E1, E2, N.compare_refl. eauto.
  - apply N.compare_eq in E1. rewrite E1, E2. reflexivity.
  - apply N.compare_eq in E2. rewrite <- E2, E1. reflexivity.
  - rewrite N.compare_lt_iff in E1, E2. assert (H : (b2n x < b2n z)%N) by lia. apply N.compare_lt_iff in H. rewrite H. reflexivity.
Qed.
Lemma bytes_cmp_gt_lt a b : bytes_cmp a b = Gt <-> bytes_cmp b a = Lt.
Proof. rewrite (bytes_cmp_opp a b). destruct (bytes_cmp a b); cbn; split; congruence. Qed.
Lemma bytes_cmp_lt_neq a b : bytes_cmp a b = Lt -> a <> b.
Proof. intros H ->. rewrite bytes_cmp_refl in H. discriminate. Qed.

(* ------------------------------------------------------------------ sorted maps and lookup *)
Definition klt (x y : bytes * aval) : Prop := bytes_cmp (fst x) (fst y) = Lt.
Definition sorted (m : attrs) : Prop := StronglySorted klt m.

Lemma assoc_none_below k m : Forall (fun y => bytes_cmp k (fst y) = Lt) m -> assoc k m = None.
Proof.
  induction 1 as [|[k' v] m H _ IH]; cbn; [reflexivity|].
  cbn in H. rewrite (bytes_eqb_neq k' k); [exact IH|]. intros ->. rewrite bytes_cmp_refl in H. discriminate.
Qed.

Lemma sorted_tail_above k v m : sorted ((k, v) :: m) -> Forall (fun y => bytes_cmp k (fst y) = Lt) m.
Proof. intros H. inversion H; subst. assumption. Qed.

Lemma set_attr_sorted k v m : sorted m -> sorted (set_attr k v m).
Proof.
  induction m as [|[k' v'] m IH]; intros Hs; cbn.
  - repeat constructor.
  - inversion Hs as [|x l Hs' Hf]; subst. destruct (bytes_cmp k k') eqn:E.
    + apply bytes_cmp_eq in E. subst. constructor; assumption.
    + constructor; [assumption|]. constructor; [exact E|].
      eapply Forall_impl; [|exact Hf]. intros y Hy. unfold klt in *. cbn in *. eapply bytes_cmp_lt_trans; eauto.
    + constructor; [apply IH; assumption|].
      assert (Hk : bytes_cmp k' k = Lt) by (apply bytes_cmp_gt_lt; exact E).
      clear IH Hs. induction m as [|[k2 v2] m IHm]; cbn.
      * repeat constructor. exact Hk.
      * inversion Hf as [|x l Hx Hf']; subst. inversion Hs' as [|x l Hs2 Hf2]; subst.
        destruct (bytes_cmp k k2); constructor; auto; try constructor; auto.
Qed.

Lemma set_attr_assoc k v m k0 : sorted m ->
  assoc k0 (set_attr k v m) = if bytes_eqb k k0 then Some v else assoc k0 m.
Proof.
  induction m as [|[k' v'] m IH]; intros Hs; cbn.
  - reflexivity.
  - inversion Hs as [|x l Hs' Hf]; subst. destruct (bytes_cmp k k') eqn:E; cbn.
    + apply bytes_cmp_eq in E. subst. destruct (bytes_eqb k' k0); reflexivity.
    + reflexivity.
    + rewrite IH by assumption. destruct (bytes_eqb k' k0) eqn:E1; [|reflexivity].
      apply bytes_eqb_eq in E1. subst. rewrite bytes_eqb_neq; [reflexivity|].
      intros ->. rewrite bytes_cmp_refl in E. discriminate.
Qed.

Lemma set_attr_keys k v m k0 : In k0 (map fst (set_attr k v m)) <-> k0 = k \/ In k0 (map fst m).
Proof.
  induction m as [|[k' v'] m IH]; cbn.
  - intuition.
  - destruct (bytes_cmp k k') eqn:E; cbn.
    + apply bytes_cmp_eq in E. subst. intuition.
    + intuition.
    + rewrite IH. intuition.
Qed.

(* ------------------------------------------------------------------ mk_attrs denotes [kept] *)
Definition step (f : afilter) (m : attrs) (kv : bytes * ival) : attrs :=
  if allowed f (fst kv) then set_attr (fst kv) (own (snd kv)) m else m.
Definition lb_step (k : bytes) (acc : option aval) (kv : bytes * ival) : option aval :=
  if bytes_eqb (fst kv) k then Some (own (snd kv)) else acc.

Lemma allowed_is_in_allow_list f k : allowed f k = in_allow_list f k.
Proof. reflexivity. Qed.

Lemma fold_step_sorted f kvs m : sorted m -> sorted (fold_left (step f) kvs m).
Proof.
  revert m. induction kvs as [|kv kvs IH]; intros m Hs; cbn; [assumption|].
  apply IH. unfold step. destruct (allowed f (fst kv)); [apply set_attr_sorted|]; assumption.
Qed.
Lemma mk_attrs_sorted f kvs : sorted (mk_attrs f kvs).
Proof. apply fold_step_sorted. constructor. Qed.

Lemma lb_acc_some k kvs acc v : fold_left (lb_step k) kvs acc = Some v ->
  fold_left (lb_step k) kvs None = Some v \/ (fold_left (lb_step k) kvs None = None /\ acc = Some v).
Proof.
  revert acc. induction kvs as [|kv kvs IH]; intros acc; cbn.
  - intros ->. right. split; reflexivity.
  - unfold lb_step at 2 4 6. destruct (bytes_eqb (fst kv) k).
    + intros H. left. exact H.
    + apply IH.
Qed.
Lemma lb_acc_gen k kvs acc :
  fold_left (lb_step k) kvs acc = match fold_left (lb_step k) kvs None with Some v => Some v | None => acc end.
Proof.
  revert acc. induction kvs as [|kv kvs IH]; intros acc; cbn; [reflexivity|].
  unfold lb_step at 2 4. destruct (bytes_eqb (fst kv) k).
  - rewrite (IH (Some (own (snd kv)))). destruct (fold_left (lb_step k) kvs None); reflexivity.
  - apply IH.
Qed.

Lemma fold_step_assoc f kvs m k : sorted m ->
  assoc k (fold_left (step f) kvs m) =
    if in_allow_list f k then match fold_left (lb_step k) kvs None with Some v => Some v | None => assoc k m end
    else assoc k m.
Proof.
  revert m. induction kvs as [|kv kvs IH]; intros m Hs.
  - cbn. destruct (in_allow_list f k); reflexivity.
  - cbn [fold_left]. rewrite IH.
    2:{ unfold step. destruct (allowed f (fst kv)); [apply set_attr_sorted|]; assumption. }
    rewrite (lb_acc_gen k kvs (lb_step k None kv)).
    assert (Hm : assoc k (step f m kv) =
                 if in_allow_list f k then match lb_step k None kv with Some v => Some v | None => assoc k m end else assoc k m).
    { unfold step, lb_step. destruct (allowed f (fst kv)) eqn:Ea2.
      - rewrite set_attr_assoc by assumption. destruct (bytes_eqb (fst kv) k) eqn:Ek.
        + apply bytes_eqb_eq in Ek. rewrite <- Ek, <- allowed_is_in_allow_list, Ea2. reflexivity.
        + destruct (in_allow_list f k); reflexivity.
      - destruct (bytes_eqb (fst kv) k) eqn:Ek.
        + apply bytes_eqb_eq in Ek. rewrite <- Ek, <- allowed_is_in_allow_list, Ea2. reflexivity.
        + destruct (in_allow_list f k); reflexivity. }
    rewrite Hm. destruct (in_allow_list f k); [|reflexivity].
    destruct (fold_left (lb_step k) kvs None); reflexivity.
Qed.

(* the ordered map built by the code answers, for every key, what the measurement says about it after the filter *)
Theorem mk_attrs_denotes f kvs k : assoc k (mk_attrs f kvs) = kept f kvs k.
Proof.
  unfold mk_attrs. change (fun m kv => _) with (step f). rewrite fold_step_assoc by constructor.
  unfold kept, last_binding. change (fun acc kv => _) with (lb_step k).
  destruct (in_allow_list f k); [|reflexivity]. cbn [assoc]. destruct (fold_left (lb_step k) kvs None); reflexivity.
Qed.

Lemma last_binding_none_iff k kvs : last_binding k kvs = None <-> ~ In k (map fst kvs).
Proof.
  unfold last_binding. change (fun acc kv => _) with (lb_step k).
  induction kvs as [|kv kvs IH] using rev_ind; cbn; [tauto|].
  rewrite fold_left_app, map_app, in_app_iff. cbn. unfold lb_step at 1. destruct (bytes_eqb (fst kv) k) eqn:E.
  - apply bytes_eqb_eq in E. split; [discriminate|]. intros H. exfalso. apply H. right. left. exact E.
  - rewrite IH. split.
    + intros H [H1|[H1|[]]]; [tauto|]. subst. rewrite bytes_eqb_refl in E. discriminate.
    + tauto.
Qed.

Lemma in_allow_list_iff l k : in_allow_list (FAllow l) k = true <-> In k l.
Proof.
  cbn. rewrite existsb_exists. split.
  - intros [x [H1 H2]]. apply bytes_eqb_eq in H2. subst. assumption.
  - intros H. exists k. split; [assumption|apply bytes_eqb_refl].
Qed.

Lemma assoc_some_in k m v : assoc k m = Some v -> In k (map fst m).
Proof.
  induction m as [|[k' v'] m IH]; cbn; [discriminate|].
  destruct (bytes_eqb k' k) eqn:E; [apply bytes_eqb_eq in E; auto|auto].
Qed.
Lemma assoc_none_iff k m : assoc k m = None <-> ~ In k (map fst m).
Proof.
  induction m as [|[k' v'] m IH]; cbn; [tauto|].
  destruct (bytes_eqb k' k) eqn:E.
  - apply bytes_eqb_eq in E. split; [discriminate|]. intros H. exfalso. auto.
  - rewrite IH. split; [|tauto]. intros H [H1|H1]; [|tauto]. subst. rewrite bytes_eqb_refl in E. discriminate.
Qed.

(* filter_by_full_key: the keys of the map are exactly the caller's keys that are - as whole byte strings - in the allow-list *)
Theorem filter_by_full_key_lemma f kvs k :
  In k (map fst (mk_attrs f kvs)) <->
  In k (map fst kvs) /\ match f with FNone => True | FAllow l => In k l end.
Proof.
  pose proof (mk_attrs_denotes f kvs k) as H. unfold kept in H.
  destruct (assoc k (mk_attrs f kvs)) eqn:E.
  - split; [|intros _; eapply assoc_some_in; eauto]. intros _.
    destruct (in_allow_list f k) eqn:Ea; [|discriminate]. split.
    + destruct (In_dec (list_eq_dec Byte.byte_eq_dec) k (map fst kvs)) as [Hi|Hn]; [assumption|].
      apply last_binding_none_iff in Hn. congruence.
    + destruct f; [exact I|]. apply in_allow_list_iff. assumption.
  - apply assoc_none_iff in E. split; [tauto|]. intros [H1 H2]. exfalso.
    assert (Ea : in_allow_list f k = true) by (destruct f; [reflexivity|apply in_allow_list_iff; assumption]).
    rewrite Ea in H. symmetry in H. apply last_binding_none_iff in H. contradiction.
Qed.

(* ------------------------------------------------------------------ canonical: sorted maps with the same lookups are equal *)
Lemma sorted_ext (a b : attrs) : sorted a -> sorted b -> (forall k, assoc k a = assoc k b) -> a = b.
Proof.
  revert b. induction a as [|[ka va] a IH]; intros [|[kb vb] b] Ha Hb H.
  - reflexivity.
  - specialize (H kb). cbn in H. rewrite bytes_eqb_refl in H. discriminate.
  - specialize (H ka). cbn in H. rewrite bytes_eqb_refl in H. discriminate.
  - pose proof (sorted_tail_above _ _ _ Ha) as Fa. pose proof (sorted_tail_above _ _ _ Hb) as Fb.
    assert (Hk : ka = kb).
    { destruct (bytes_cmp ka kb) eqn:E.
      - apply bytes_cmp_eq. exact E.
      - exfalso. specialize (H ka). cbn in H. rewrite bytes_eqb_refl in H.
        rewrite (bytes_eqb_neq kb ka) in H by (intros ->; rewrite bytes_cmp_refl in E; discriminate).
        rewrite assoc_none_below in H; [discriminate|].
        eapply Forall_impl; [|exact Fb]. intros y Hy. cbn in *. eapply bytes_cmp_lt_trans; eauto.
      - exfalso. apply bytes_cmp_gt_lt in E. specialize (H kb). cbn in H. rewrite bytes_eqb_refl in H.
        rewrite (bytes_eqb_neq ka kb) in H by (intros ->; rewrite bytes_cmp_refl in E; discriminate).
        rewrite assoc_none_below in H; [discriminate|].
        eapply Forall_impl; [|exact Fa]. intros y Hy. cbn in *. eapply bytes_cmp_lt_trans; eauto. }
    subst kb. pose proof (H ka) as H0. cbn in H0. rewrite bytes_eqb_refl in H0. inversion H0; subst vb.
    f_equal. apply IH.
    + inversion Ha; assumption.
    + inversion Hb; assumption.
    + intros k. specialize (H k). cbn in H. destruct (bytes_eqb ka k) eqn:E; [|exact H].
      apply bytes_eqb_eq in E. subst k. rewrite (assoc_none_below ka a Fa), (assoc_none_below ka b Fb). reflexivity.
Qed.

(* same, up to a relation on values *)
Definition opt_rel (r : aval -> aval -> bool) (a b : option aval) : bool :=
  match a, b with None, None => true | Some x, Some y => r x y | _, _ => false end.
Definition maps_rel (r : aval -> aval -> bool) (a b : attrs) : bool :=
  list_eqb (fun x y => bytes_eqb (fst x) (fst y) && r (snd x) (snd y)) a b.

Lemma sorted_rel (r : aval -> aval -> bool) (a b : attrs) : sorted a -> sorted b ->
  (maps_rel r a b = true <-> forall k, opt_rel r (assoc k a) (assoc k b) = true).
Proof.
  revert b. induction a as [|[ka va] a IH]; intros [|[kb vb] b] Ha Hb.
  - cbn. split; auto.
  - cbn. split; [discriminate|]. intros H. specialize (H kb). cbn in H. rewrite bytes_eqb_refl in H. discriminate.
  - cbn. split; [discriminate|]. intros H. specialize (H ka). cbn in H. rewrite bytes_eqb_refl in H. discriminate.
  - pose proof (sorted_tail_above _ _ _ Ha) as Fa. pose proof (sorted_tail_above _ _ _ Hb) as Fb.
    assert (Ha' : sorted a) by (inversion Ha; assumption). assert (Hb' : sorted b) by (inversion Hb; assumption).
    unfold maps_rel. cbn [list_eqb fst snd]. fold (maps_rel r a b). split.
    + rewrite !andb_true_iff. intros [[Hk Hv] Hr]. apply bytes_eqb_eq in Hk. subst kb.
      intros k. cbn. destruct (bytes_eqb ka k); [exact Hv|]. apply (proj1 (IH b Ha' Hb')). exact Hr.
    + intros H.
      assert (Hk : ka = kb).
      { destruct (bytes_cmp ka kb) eqn:E.
        - apply bytes_cmp_eq. exact E.
        - exfalso. specialize (H ka). cbn in H. rewrite bytes_eqb_refl in H.
          rewrite (bytes_eqb_neq kb ka) in H by (intros ->; rewrite bytes_cmp_refl in E; discriminate).
          rewrite assoc_none_below in H; [discriminate|].
          eapply Forall_impl; [|exact Fb]. intros y Hy. cbn in *. eapply bytes_cmp_lt_trans; eauto.
        - exfalso. apply bytes_cmp_gt_lt in E. specialize (H kb). cbn in H. rewrite bytes_eqb_refl in H.
          rewrite (bytes_eqb_neq ka kb) in H by (intros ->; rewrite bytes_cmp_refl in E; discriminate).
          rewrite assoc_none_below in H; [|eapply Forall_impl; [|exact Fa]; intros y Hy; cbn in *; eapply bytes_cmp_lt_trans; eauto].
          discriminate. }
      subst kb. rewrite bytes_eqb_refl. pose proof (H ka) as H0. cbn in H0. rewrite bytes_eqb_refl in H0. cbn in H0.
      rewrite H0. cbn. apply (proj2 (IH b Ha' Hb')). intros k. specialize (H k). cbn in H.
      destruct (bytes_eqb ka k) eqn:E; [|exact H]. apply bytes_eqb_eq in E. subst k.
      rewrite (assoc_none_below ka a Fa), (assoc_none_below ka b Fb). reflexivity.
Qed.

Lemma attrs_eqb_maps_rel a b : attrs_eqb a b = maps_rel aval_eqb a b.
Proof. reflexivity. Qed.

(* ------------------------------------------------------------------ the key comparison is "same value" *)
Lemma dbl_equiv_eqb a b : dbl_equiv a b = dbl_eqb a b.
Proof. unfold dbl_equiv, dbl_eqb. apply orb_comm. Qed.
Lemma scal_equiv_eqb t x y : scal_equiv t x y = scal_eqb t x y.
Proof. destruct x as [a|a], y as [b|b]; cbn; try reflexivity. destruct t; cbn; try reflexivity. apply dbl_equiv_eqb. Qed.
Lemma list_equiv_eqb t l m : list_eqb (scal_equiv t) l m = list_eqb (scal_eqb t) l m.
Proof. revert m. induction l as [|x l IH]; intros [|y m]; cbn; try reflexivity. rewrite scal_equiv_eqb, IH. reflexivity. Qed.
Lemma aval_equiv_eqb x y : aval_equiv x y = aval_eqb x y.
Proof.
  destruct x as [t a|t l], y as [u b|u m]; cbn; try reflexivity.
  - rewrite scal_equiv_eqb. reflexivity.
  - rewrite list_equiv_eqb. reflexivity.
Qed.

Lemma dbl_ieee_eqb_sym a b : dbl_ieee_eqb a b = dbl_ieee_eqb b a.
Proof. unfold dbl_ieee_eqb. rewrite (Z.eqb_sym a b). destruct (dbl_nan a), (dbl_nan b), (dbl_zero a), (dbl_zero b), (b =? a); reflexivity. Qed.
Lemma dbl_eqb_sym a b : dbl_eqb a b = dbl_eqb b a.
Proof. unfold dbl_eqb. rewrite dbl_ieee_eqb_sym. destruct (dbl_nan a), (dbl_nan b); reflexivity. Qed.
Lemma dbl_eqb_refl a : dbl_eqb a a = true.
Proof. unfold dbl_eqb, dbl_ieee_eqb. rewrite Z.eqb_refl. destruct (dbl_nan a); reflexivity. Qed.

Lemma sty_eqb_eq a b : sty_eqb a b = true <-> a = b.
Proof. unfold sty_eqb. rewrite Z.eqb_eq. destruct a, b; cbn; split; intros H; try reflexivity; try discriminate; lia. Qed.
Lemma sty_eqb_refl a : sty_eqb a a = true.
Proof. apply sty_eqb_eq. reflexivity. Qed.

(* values kept by the filter *)
Lemma kept_in_values f kvs k v : kept f kvs k = Some v -> exists kv, In kv kvs /\ v = own (snd kv).
Proof.
  unfold kept. destruct (in_allow_list f k); [|discriminate]. unfold last_binding.
  change (fun acc kv => _) with (lb_step k).
  induction kvs as [|kv kvs IH] using rev_ind; cbn; [discriminate|].
  rewrite fold_left_app. cbn. unfold lb_step at 1. destruct (bytes_eqb (fst kv) k).
  - intros H. inversion H. exists kv. split; [apply in_or_app; right; left; reflexivity|reflexivity].
  - intros H. destruct (IH H) as [x [H1 H2]]. exists x. split; [apply in_or_app; left; assumption|assumption].
Qed.

Lemma kvs_nan_false_kept f kvs k v : kvs_nan kvs = false -> kept f kvs k = Some v -> aval_nan v = false.
Proof.
  intros Hn Hk. destruct (kept_in_values _ _ _ _ Hk) as [kv [Hin ->]].
  unfold kvs_nan in Hn. destruct (aval_nan (own (snd kv))) eqn:E; [|reflexivity].
  assert (H : existsb (fun kv => aval_nan (own (snd kv))) kvs = true) by (apply existsb_exists; exists kv; auto). congruence.
Qed.

(* ------------------------------------------------------------------ sets_equal decides equality of the denoted functions *)
Lemma sets_equal_iff f a b :
  sets_equal f a b = true <-> forall k, opt_equiv (kept f a k) (kept f b k) = true.
Proof.
  unfold sets_equal. rewrite forallb_forall. split; [|intros H k _; apply H].
  intros H k.
  destruct (In_dec (list_eq_dec Byte.byte_eq_dec) k (map fst a ++ map fst b)) as [Hi|Hn]; [apply H; assumption|].
  rewrite in_app_iff in Hn. unfold kept. destruct (in_allow_list f k); [|reflexivity].
  rewrite (proj2 (last_binding_none_iff k a)) by tauto. rewrite (proj2 (last_binding_none_iff k b)) by tauto. reflexivity.
Qed.

Lemma opt_equiv_is_opt_rel a b : opt_equiv a b = opt_rel aval_equiv a b.
Proof. destruct a, b; reflexivity. Qed.

(* same_series_iff_equal_maps, the map level: the code's comparison of the two ordered maps decides equality of the key-to-value
   maps the measurements denote - for all values, NaN included *)
Theorem attrs_eqb_iff_sets_equal f a b : attrs_eqb (mk_attrs f a) (mk_attrs f b) = sets_equal f a b.
Proof.
  apply eq_true_iff_eq. rewrite attrs_eqb_maps_rel.
  rewrite (sorted_rel aval_eqb _ _ (mk_attrs_sorted f a) (mk_attrs_sorted f b)). rewrite sets_equal_iff.
  split; intros H k; specialize (H k); rewrite !mk_attrs_denotes in *; rewrite opt_equiv_is_opt_rel in *;
  destruct (kept f a k) eqn:Ea, (kept f b k) eqn:Eb; cbn in *; auto; rewrite aval_equiv_eqb in *; assumption.
Qed.

(* ------------------------------------------------------------------ order-insensitive, last write wins *)
(* maps built from measurements that say the same about every key are identical *)
Lemma mk_attrs_ext f a b : (forall k, kept f a k = kept f b k) -> mk_attrs f a = mk_attrs f b.
Proof.
  intros H. apply sorted_ext; try apply mk_attrs_sorted. intros k. rewrite !mk_attrs_denotes. apply H.
Qed.

Lemma last_binding_app k l1 l2 :
  last_binding k (l1 ++ l2) = match last_binding k l2 with Some v => Some v | None => last_binding k l1 end.
Proof.
  unfold last_binding. change (fun acc kv => _) with (lb_step k). rewrite fold_left_app. apply lb_acc_gen.
Qed.
Lemma last_binding_cons k kv l :
  last_binding k (kv :: l) = match last_binding k l with Some v => Some v | None => if bytes_eqb (fst kv) k then Some (own (snd kv)) else None end.
Proof. change (kv :: l) with ([kv] ++ l). rewrite last_binding_app. reflexivity. Qed.

(* the order of pairs with different keys does not matter *)
Theorem swap_distinct_keys f l1 x y l2 : fst x <> fst y ->
  mk_attrs f (l1 ++ x :: y :: l2) = mk_attrs f (l1 ++ y :: x :: l2).
Proof.
  intros Hne. apply mk_attrs_ext. intros k. unfold kept. destruct (in_allow_list f k); [|reflexivity].
  rewrite !last_binding_app, !last_binding_cons.
  destruct (last_binding k l2); [reflexivity|].
  destruct (bytes_eqb (fst y) k) eqn:Ey, (bytes_eqb (fst x) k) eqn:Ex; try reflexivity.
  apply bytes_eqb_eq in Ey, Ex. congruence.
Qed.
Theorem permutation_distinct_keys f a b : NoDup (map fst a) -> Permutation a b -> mk_attrs f a = mk_attrs f b.
Proof.
  intros Hnd Hp. apply mk_attrs_ext. intros k. unfold kept. destruct (in_allow_list f k); [|reflexivity].
  (* with distinct keys the last binding of k is its only binding *)
  assert (G : forall l, NoDup (map fst l) -> forall v, last_binding k l = Some v <-> exists kv, In kv l /\ fst kv = k /\ v = own (snd kv)).
  { induction l as [|kv l IH]; intros Hl v.
    - cbn. split; [discriminate|]. intros [? [[] _]].
    - rewrite last_binding_cons. cbn in Hl. inversion Hl as [|? ? Hni Hl']; subst.
      pose proof (IH Hl') as IHl. clear IH.
      destruct (last_binding k l) as [w|] eqn:E in |- *.
      + split.
        * intros H. inversion H; subst. apply IHl in E. destruct E as [x [H1 [H2 H3]]]. exists x. split; [right|]; auto.
        * intros [x [[H1|H1] [H2 H3]]].
          -- subst x. apply IHl in E. destruct E as [z [Hz1 [Hz2 _]]]. exfalso. apply Hni.
             rewrite H2, <- Hz2. apply in_map. assumption.
          -- assert (last_binding k l = Some v) by (apply IHl; exists x; auto). congruence.
      + destruct (bytes_eqb (fst kv) k) eqn:Ek.
        * apply bytes_eqb_eq in Ek. split.
          -- intros H. inversion H. exists kv. split; [left|]; auto.
          -- intros [x [[H1|H1] [H2 H3]]]; [subst; reflexivity|].
             exfalso. apply last_binding_none_iff in E. apply E. rewrite <- H2. apply in_map. assumption.
        * split; [discriminate|]. intros [x [[H1|H1] [H2 H3]]].
          -- subst. rewrite bytes_eqb_refl in Ek. discriminate.
          -- exfalso. apply last_binding_none_iff in E. apply E. rewrite <- H2. apply in_map. assumption. }
  assert (Hnd' : NoDup (map fst b)) by (eapply Permutation_NoDup; [apply Permutation_map; exact Hp|exact Hnd]).
  destruct (last_binding k a) eqn:Ea.
  - symmetry. apply (G b Hnd'). apply (G a Hnd) in Ea. destruct Ea as [x [H1 H2]]. exists x. split; [eapply Permutation_in; eauto|assumption].
  - destruct (last_binding k b) eqn:Eb; [|reflexivity].
    apply (G b Hnd') in Eb. destruct Eb as [x [H1 H2]].
    assert (last_binding k a = Some a0) by (apply (G a Hnd); exists x; split; [eapply Permutation_in; [apply Permutation_sym|]; eauto|assumption]).
    congruence.
Qed.
(* an earlier pair with the same key as a later one is irrelevant *)
Theorem shadowed_pair_irrelevant f l1 k v l2 v' l3 :
  mk_attrs f (l1 ++ (k, v) :: l2 ++ (k, v') :: l3) = mk_attrs f (l1 ++ l2 ++ (k, v') :: l3).
Proof.
  apply mk_attrs_ext. intros k0. unfold kept. destruct (in_allow_list f k0); [|reflexivity].
  rewrite !last_binding_app, !last_binding_cons, !last_binding_app, !last_binding_cons. cbn [fst snd].
  destruct (last_binding k0 l3); [reflexivity|].
  destruct (bytes_eqb k k0); [reflexivity|]. destruct (last_binding k0 l2); reflexivity.
Qed.
(* pairs the filter removes are irrelevant *)
Theorem filtered_pair_irrelevant f l1 kv l2 : allowed f (fst kv) = false -> mk_attrs f (l1 ++ kv :: l2) = mk_attrs f (l1 ++ l2).
Proof.
  intros Ha. apply mk_attrs_ext. intros k. unfold kept. destruct (in_allow_list f k) eqn:E; [|reflexivity].
  rewrite !last_binding_app, last_binding_cons. destruct (last_binding k l2); [reflexivity|].
  destruct (bytes_eqb (fst kv) k) eqn:Ek; [|reflexivity]. apply bytes_eqb_eq in Ek. rewrite Ek, allowed_is_in_allow_list in Ha. congruence.
Qed.

(* non-vacuity: keys that are prefixes of each other / differ by an embedded NUL are different keys, in the filter and in the map *)
Example full_key_example :
  mk_attrs (FAllow [bs "ab"]) [(bs "ab", IV (VOne TI32 (SZ 1))); (bs "ab" ++ [x00; x63], IV (VOne TI32 (SZ 2)));
                               (bs "a", IV (VOne TI32 (SZ 3))); (bs "abc", IV (VOne TI32 (SZ 4)))]
  = [(bs "ab", VOne TI32 (SZ 1))] /\
  mk_attrs (FAllow [bs "ab" ++ [x00]]) [(bs "ab", IV (VOne TI32 (SZ 1)))] = [].
Proof. split; reflexivity. Qed.
Example order_example :
  mk_attrs FNone [(bs "b", IV (VOne TI32 (SZ 2))); (bs "a", IV (VOne TI32 (SZ 9))); (bs "a", IV (VOne TI32 (SZ 1)))] =
  mk_attrs FNone [(bs "a", IV (VOne TI32 (SZ 1))); (bs "b", IV (VOne TI32 (SZ 2)))].
Proof. reflexivity. Qed.
