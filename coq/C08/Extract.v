From V Require Import C08.Glue.
Require Extraction.
Require Import ExtrOcamlBasic.
Extraction Language OCaml.
Set Extraction Optimize.
Extraction "c08_model.ml" run_model run_tag run_spec drv_b2n.
