(* Glue between the token wire format and the C08 model/spec.  Extracted.
   A case line is  [ISO] <case> [ "||" <walks> ]   (ISO = the C++ driver runs the case in a child process; ignored here).
   <walks> is what the implementation adds after running the case (runner TRACE_MODE): the orders in which it walked its tables,
       walks ::= { W <table> }            table ::= <n> { <attrs> <sum> }            attrs ::= <n> { x<key> <value> }
       value ::= b 0|1 | i32 z | u32 z | i64 z | u64 z | d <bits> | sv x<bytes> | cs x<bytes>
               | ab|ai32|au32|ai64|au64|ad|au8 <m> z1..zm | asv <m> x<s1>..x<sm>          (cs only in case input)
   Cases (sections separated by the tag '|'):
     EQ <filter> | <attrs> | <attrs>                         filter ::= F0 | F x<key>*
     HM <limit> <filter> | hop | ...                         hop ::= G <how 0..2> <d> <attrs> | S <how 0..2> <v> <attrs>
                                                                   | Q <attrs> | H <attrs> | Z | D
     ST <L|D> <mono 0/1> <limit> <ncol> <temp 0/1>*ncol <filter> | op | ...      op ::= R <v> <attrs> | R0 <v> | C <collector>
     MP <L|D> <ncol> <temp 0/1>*ncol <filter> | op | ...     (a MeterProvider: limit = kAggregationCardinalityLimit, a counter)
   Observations:
     EQ : A <attrs> B <attrs> <base_eq> <full_eq> h1|h0|h- <same_series> <paths_agree> <path_hashes_agree>
     HM : one item per hop, separated by ';' :  - | NULL | v <z> | none | has 0|1 | size <n> | D <table> | REJECT
     ST/MP : one item per Collect, separated by ';' :  NOCB | P <table> | CRASH | REJECT *)
From V Require Export C08.Spec.
Local Open Scope Z_scope.

Inductive case :=
| KEq (f : afilter) (a b : list (bytes * ival))
| KHm (limit : nat) (f : afilter) (ops : list hop)
| KSt (mp : bool) (c : cfg) (ops : list op).

(* ------------------------------------------------------------------ values *)
Definition scal_tags : list (string * sty) :=
  [("b", TBool); ("i32", TI32); ("u32", TU32); ("i64", TI64); ("d", TDbl); ("sv", TStr); ("u64", TU64)]%string.
Definition arr_tags : list (string * sty) :=
  [("ab", TBool); ("ai32", TI32); ("au32", TU32); ("ai64", TI64); ("ad", TDbl); ("asv", TStr); ("au64", TU64); ("au8", TU8)]%string.
Fixpoint lookup_tag (t : tok) (l : list (string * sty)) : option sty :=
  match l with [] => None | (s, y) :: r => if is_tag s t then Some y else lookup_tag t r end.
Fixpoint tag_of (y : sty) (l : list (string * sty)) : tok :=
  match l with [] => tag "?" | (s, y') :: r => if sty_eqb y y' then tag s else tag_of y r end.

Definition in_range (lo hi z : Z) : bool := (lo <=? z) && (z <=? hi).
Definition scal_ok (t : sty) (x : scal) : bool :=
  match x with
  | SS _ => match t with TStr => true | _ => false end
  | SZ z => match t with
            | TBool => in_range 0 1 z
            | TI32 => in_range (-2147483648) 2147483647 z
            | TU32 => in_range 0 4294967295 z
            | TI64 => in_range (-9223372036854775808) 9223372036854775807 z
            | TDbl | TU64 => in_range 0 18446744073709551615 z
            | TU8 => in_range 0 255 z
            | TStr => false
            end
  end.
Definition tok_scal (t : tok) : option scal :=
  match t with TZ z => Some (SZ z) | TB s => Some (SS s) | TT _ => None end.
Definition scal_tok (x : scal) : tok := match x with SZ z => TZ z | SS s => TB s end.

Fixpoint take_scals (y : sty) (n : nat) (l : list tok) : option (list scal * list tok) :=
  match n with
  | O => Some ([], l)
  | S n' => match l with
            | t :: r => match tok_scal t with
                        | Some x => if scal_ok y x then
                                      match take_scals y n' r with Some (xs, r') => Some (x :: xs, r') | None => None end
                                    else None
                        | None => None
                        end
            | [] => None
            end
  end.

Definition parse_value (l : list tok) : option (ival * list tok) :=
  match l with
  | t :: r =>
      if is_tag "cs" t then match r with TB s :: r' => Some (ICStr s, r') | _ => None end
      else match lookup_tag t scal_tags with
           | Some y => match take_scals y 1 r with Some ([x], r') => Some (IV (VOne y x), r') | _ => None end
           | None =>
               match lookup_tag t arr_tags with
               | Some y => match r with
                           | TZ n :: r' => if in_range 0 100000 n then
                                             match take_scals y (Z.to_nat n) r' with
                                             | Some (xs, r'') => Some (IV (VArr y xs), r'')
                                             | None => None
                                             end
                                           else None
                           | _ => None
                           end
               | None => None
               end
           end
  | [] => None
  end.

Fixpoint parse_pairs (n : nat) (l : list tok) : option (list (bytes * ival) * list tok) :=
  match n with
  | O => Some ([], l)
  | S n' => match l with
            | TB k :: r => match parse_value r with
                           | Some (v, r') => match parse_pairs n' r' with
                                             | Some (ps, r'') => Some ((k, v) :: ps, r'')
                                             | None => None
                                             end
                           | None => None
                           end
            | _ => None
            end
  end.
(* <n> pairs *)
Definition parse_kvs (l : list tok) : option (list (bytes * ival) * list tok) :=
  match l with
  | TZ n :: r => if in_range 0 100000 n then parse_pairs (Z.to_nat n) r else None
  | _ => None
  end.
Fixpoint owned_pairs (l : list (bytes * ival)) : option attrs :=
  match l with
  | [] => Some []
  | (k, IV v) :: r => option_map (cons (k, v)) (owned_pairs r)
  | (_, ICStr _) :: _ => None
  end.
Definition parse_attrs (l : list tok) : option (attrs * list tok) :=
  match parse_kvs l with
  | Some (ps, r) => match owned_pairs ps with Some a => Some (a, r) | None => None end
  | None => None
  end.

Fixpoint parse_entries (n : nat) (l : list tok) : option (table * list tok) :=
  match n with
  | O => Some ([], l)
  | S n' => match parse_attrs l with
            | Some (a, TZ v :: r) => match parse_entries n' r with
                                     | Some (es, r') => Some ((a, v) :: es, r')
                                     | None => None
                                     end
            | _ => None
            end
  end.
Definition parse_table (l : list tok) : option (table * list tok) :=
  match l with
  | TZ n :: r => if in_range 0 100000 n then parse_entries (Z.to_nat n) r else None
  | _ => None
  end.
(* { W <table> } *)
Fixpoint parse_walks (fuel : nat) (l : list tok) : option (list table) :=
  match l with
  | [] => Some []
  | t :: r =>
      match fuel with
      | O => None
      | S fuel' =>
          if is_tag "W" t then
            match parse_table r with
            | Some (tb, r') => option_map (cons tb) (parse_walks fuel' r')
            | None => None
            end
          else None
      end
  end.

Definition print_val (v : aval) : list tok :=
  match v with
  | VOne y x => [tag_of y scal_tags; scal_tok x]
  | VArr y l => tag_of y arr_tags :: tnat (length l) :: map scal_tok l
  end.
Definition print_attrs (m : attrs) : list tok :=
  tnat (length m) :: flat_map (fun kv => TB (fst kv) :: print_val (snd kv)) m.
Definition print_table (t : table) : list tok :=
  tnat (length t) :: flat_map (fun e => print_attrs (fst e) ++ [TZ (snd e)]) t.

(* ------------------------------------------------------------------ cases *)
(* split at every tag [sep]; linear (Base.split_toks reverses every section with the quadratic List.rev, and a section here can be
   a whole table of thousands of tokens) *)
Fixpoint split_on (sep : string) (l : list tok) : list (list tok) :=
  match l with
  | [] => [[]]
  | t :: r =>
      let s := split_on sep r in
      if is_tag sep t then [] :: s
      else match s with x :: xs => (t :: x) :: xs | [] => [[t]] end
  end.
Definition sections (l : list tok) : list (list tok) := split_on "|" l.

Fixpoint all_bytes_toks (l : list tok) : option (list bytes) :=
  match l with
  | [] => Some []
  | TB b :: r => option_map (cons b) (all_bytes_toks r)
  | _ => None
  end.
Definition parse_filter (l : list tok) : option afilter :=
  match l with
  | [t] => if is_tag "F0" t then Some FNone else if is_tag "F" t then Some (FAllow []) else None
  | t :: r => if is_tag "F" t then option_map FAllow (all_bytes_toks r) else None
  | [] => None
  end.

Definition parse_bool (t : tok) : option bool :=
  match t with TZ 0 => Some false | TZ 1 => Some true | _ => None end.
Fixpoint parse_bools (n : nat) (l : list tok) : option (list bool * list tok) :=
  match n with
  | O => Some ([], l)
  | S n' => match l with
            | t :: r => match parse_bool t, parse_bools n' r with
                        | Some b, Some (bs, r') => Some (b :: bs, r')
                        | _, _ => None
                        end
            | [] => None
            end
  end.

Definition whole_kvs (l : list tok) : option (list (bytes * ival)) :=
  match parse_kvs l with Some (k, []) => Some k | _ => None end.

Definition parse_hop (l : list tok) : option hop :=
  match l with
  | [t] => if is_tag "Z" t then Some HSize else if is_tag "D" t then Some HDump else None
  | t :: TZ how :: TZ d :: r =>
      if in_range 0 2 how then
        match whole_kvs r with
        | Some k => if is_tag "G" t then Some (HGet (Z.to_nat how) k d)
                    else if is_tag "S" t then Some (HSet (Z.to_nat how) k d) else None
        | None => None
        end
      else None
  | t :: r =>
      match whole_kvs r with
      | Some k => if is_tag "Q" t then Some (HQuery k) else if is_tag "H" t then Some (HHas k) else None
      | None => None
      end
  | [] => None
  end.

Definition parse_op (ncol : nat) (l : list tok) : option op :=
  match l with
  | [t; TZ v] =>
      if is_tag "R0" t then Some (ORec0 v)
      else if is_tag "C" t then (if (0 <=? v) && (Z.to_nat v <? ncol)%nat then Some (OCollect (Z.to_nat v)) else None)
      else None
  | t :: TZ v :: r => if is_tag "R" t then option_map (fun k => ORec k v) (whole_kvs r) else None
  | _ => None
  end.

Fixpoint all_some {A} (l : list (option A)) : option (list A) :=
  match l with
  | [] => Some []
  | Some x :: l' => option_map (cons x) (all_some l')
  | None :: _ => None
  end.

Definition value_kind_ok (t : tok) : bool := is_tag "L" t || is_tag "D" t.

Definition parse_case_body (l : list tok) : option case :=
  match sections l with
  | (k :: hd) :: secs =>
      if is_tag "EQ" k then
        match parse_filter hd, secs with
        | Some f, [sa; sb] => match whole_kvs sa, whole_kvs sb with
                              | Some a, Some b => Some (KEq f a b)
                              | _, _ => None
                              end
        | _, _ => None
        end
      else if is_tag "HM" k then
        match hd with
        | TZ lim :: fl =>
            match parse_filter fl, all_some (map parse_hop secs) with
            | Some f, Some ops => if in_range 1 100000 lim then Some (KHm (Z.to_nat lim) f ops) else None
            | _, _ => None
            end
        | _ => None
        end
      else if is_tag "ST" k then
        match hd with
        | vk :: mono :: TZ lim :: TZ ncol :: r =>
            if value_kind_ok vk && in_range 1 100000 lim && in_range 1 4 ncol then
              match parse_bool mono, parse_bools (Z.to_nat ncol) r with
              | Some mn, Some (temps, fl) =>
                  match parse_filter fl, all_some (map (parse_op (Z.to_nat ncol)) secs) with
                  | Some f, Some ops => Some (KSt false (mk_cfg (Z.to_nat lim) mn f temps) ops)
                  | _, _ => None
                  end
              | _, _ => None
              end
            else None
        | _ => None
        end
      else if is_tag "MP" k then
        match hd with
        | vk :: TZ ncol :: r =>
            if value_kind_ok vk && in_range 1 4 ncol then
              match parse_bools (Z.to_nat ncol) r with
              | Some (temps, fl) =>
                  match parse_filter fl, all_some (map (parse_op (Z.to_nat ncol)) secs) with
                  | Some f, Some ops => Some (KSt true (mk_cfg kAggregationCardinalityLimit true f temps) ops)
                  | _, _ => None
                  end
              | None => None
              end
            else None
        | _ => None
        end
      else None
  | _ => None
  end.

(* "[ISO] <case> [|| <walks>]" *)
Definition parse_case (l : list tok) : option (case * list table) :=
  let l' := match l with t :: r => if is_tag "ISO" t then r else l | [] => l end in
  match split_on "||" l' with
  | [c] => option_map (fun k => (k, [])) (parse_case_body c)
  | [c; w] => match parse_case_body c, parse_walks (S (length w)) w with
              | Some k, Some ws => Some (k, ws)
              | _, _ => None
              end
  | _ => None
  end.

(* ------------------------------------------------------------------ model runs *)
Definition eq_model (f : afilter) (a b : list (bytes * ival)) : eq_obs :=
  let ma := mk_attrs f a in
  let mb := mk_attrs f b in
  let e := attrs_eqb ma mb in
  let base := attrs_ieee_eqb ma mb in
  (* same series: both measurements go to a table with room; the second finds the first's entry iff the keys compare equal *)
  mk_eq_obs ma mb base e (if base then HSame else HNa) (match tfind mb (record 10 ma 1 []) with Some _ => true | None => false end) true true.

Definition print_hrel (h : hrel) : tok := match h with HSame => tag "h1" | HDiff => tag "h0" | HNa => tag "h-" end.
Definition print_eq_obs (o : eq_obs) : list tok :=
  tag "A" :: print_attrs (eo_a o) ++ tag "B" :: print_attrs (eo_b o) ++
  [tbool (eo_base o); tbool (eo_full o); print_hrel (eo_hash o); tbool (eo_series o); tbool (eo_paths o); tbool (eo_phash o)].

Fixpoint join_items (l : list (list tok)) : list tok :=
  match l with
  | [] => []
  | [x] => x
  | x :: r => x ++ tag ";" :: join_items r
  end.

Definition print_cres (r : cres) : list tok :=
  match r with
  | CNoCb => [tag "NOCB"]
  | CReport t => tag "P" :: print_table t
  | CReject => [tag "REJECT"]
  end.
Definition print_hres (r : hres) : list tok :=
  match r with
  | HRNone => [tag "-"]
  | HRNull => [tag "NULL"]
  | HRVal (Some v) => [tag "v"; TZ v]
  | HRVal None => [tag "none"]
  | HRBool b => [tag "has"; tbool b]
  | HRSize n => [tag "size"; tnat n]
  | HRDump t => tag "D" :: print_table t
  | HRReject => [tag "REJECT"]
  end.

Definition run_case (k : case) (walks : list table) : list tok :=
  match k with
  | KEq f a b => print_eq_obs (eq_model f a b)
  | KHm lim f ops => join_items (map print_hres (run_hops lim f ops walks []))
  | KSt _ c ops => join_items (map print_cres (run_ops c ops walks (init_storage c)))
  end.

Definition run_model (l : list tok) : list tok :=
  match parse_case l with
  | Some (k, ws) => run_case k ws
  | None => bad_case
  end.

(* ------------------------------------------------------------------ branch tags (coverage accounting) *)
Definition has_overflow_series (t : table) : bool := existsb (fun e => is_overflow_set (fst e)) t.
Definition cres_class (r : cres) : nat :=     (* 0 nothing, 1 exact report, 2 overflow series reported, 3 reject *)
  match r with
  | CNoCb => 0%nat
  | CReport t => if has_overflow_series t then 2%nat else 1%nat
  | CReject => 3%nat
  end.
Definition run_tag (l : list tok) : list tok :=
  match parse_case l with
  | None => [tag "bad_case"]
  | Some (KEq f a b, _) =>
      let nan := kvs_nan a || kvs_nan b in
      [tag (if attrs_eqb (mk_attrs f a) (mk_attrs f b)
            then (if nan then "eq_equal_nan" else "eq_equal") else (if nan then "eq_differ_nan" else "eq_differ"))]
  | Some (KHm lim f ops, ws) =>
      let rs := run_hops lim f ops ws [] in
      [tag (if existsb hop_nan ops then "hm_nan" else "hm");
       tag (if existsb (fun r => match r with HRReject => true | _ => false end) rs then "hm_reject"
            else if existsb (fun r => match r with HRDump t => has_overflow_series t | _ => false end) rs then "hm_overflow"
            else "hm_room")]
  | Some (KSt mp c ops, ws) =>
      (* the few very long histories (more than 2000 sets against the default limit) are not run a second time for their tag *)
      if (N.to_nat 3000 <? length ops)%nat then [tag (if mp then "mp" else "st"); tag "long"] else
      let rs := run_ops c ops ws (init_storage c) in
      let m := fold_right Nat.max 0%nat (map cres_class rs) in
      let fast := (length (c_temps c) =? 1)%nat && negb (nth 0 (c_temps c) false) in
      [tag (if mp then "mp" else "st");
       tag (if fast then "fast" else if (length (c_temps c) =? 1)%nat then "cumulative" else "multi");
       tag (match m with O => "silent" | S O => "exact" | S (S O) => "overflow" | _ => "reject" end);
       tag (if existsb op_nan ops then "nan" else "-")]
  end.

(* ------------------------------------------------------------------ observations -> spec *)
Definition parse_hrel (t : tok) : option hrel :=
  if is_tag "h1" t then Some HSame else if is_tag "h0" t then Some HDiff else if is_tag "h-" t then Some HNa else None.

Definition parse_eq_obs (l : list tok) : option eq_obs :=
  match l with
  | ta :: r =>
      if is_tag "A" ta then
        match parse_attrs r with
        | Some (a, tb :: r') =>
            if is_tag "B" tb then
              match parse_attrs r' with
              | Some (b, [e1; e2; h; e3; e4; e5]) =>
                  match parse_bool e1, parse_bool e2, parse_hrel h, parse_bool e3, parse_bool e4, parse_bool e5 with
                  | Some b1, Some b2, Some hh, Some b3, Some b4, Some b5 => Some (mk_eq_obs a b b1 b2 hh b3 b4 b5)
                  | _, _, _, _, _, _ => None
                  end
              | _ => None
              end
            else None
        | _ => None
        end
      else None
  | [] => None
  end.

Definition parse_robs (l : list tok) : option robs :=
  match l with
  | [t] => if is_tag "NOCB" t then Some RNoCb else if is_tag "CRASH" t then Some RCrash
           else if is_tag "REJECT" t then Some RReject else None
  | t :: r => if is_tag "P" t then match parse_table r with Some (tb, []) => Some (RPoints tb) | _ => None end else None
  | [] => None
  end.
Definition parse_hres (l : list tok) : option hres :=
  match l with
  | [t] => if is_tag "-" t then Some HRNone else if is_tag "NULL" t then Some HRNull
           else if is_tag "none" t then Some (HRVal None) else if is_tag "REJECT" t then Some HRReject else None
  | [t; TZ z] => if is_tag "v" t then Some (HRVal (Some z))
                 else if is_tag "has" t then option_map HRBool (parse_bool (TZ z))
                 else if is_tag "size" t then (if 0 <=? z then Some (HRSize (Z.to_nat z)) else None)
                 else if is_tag "D" t then (if z =? 0 then Some (HRDump []) else None)
                 else None
  | t :: r => if is_tag "D" t then match parse_table r with Some (tb, []) => Some (HRDump tb) | _ => None end else None
  | [] => None
  end.
Definition items (l : list tok) : list (list tok) := match l with [] => [] | _ => split_on ";" l end.

Definition spec_case (k : case) (obs : list tok) : list tok :=
  match k with
  | KEq f a b => match parse_eq_obs obs with
                 | Some o => eq_clauses f a b o
                 | None => fail "harness:unparsable_observation"
                 end
  | KHm lim f ops => match all_some (map parse_hres (items obs)) with
                     | Some rs => check (length rs <=? length ops)%nat "harness:extra_reports" ++
                                  hashmap_clauses lim (existsb hop_nan ops) rs
                     | None => fail "harness:unparsable_observation"
                     end
  | KSt _ c ops => match all_some (map parse_robs (items obs)) with
                   | Some rs => storage_clauses true c ops rs
                   | None => fail "harness:unparsable_observation"
                   end
  end.

Definition run_spec (c : list tok) (obs : list tok) : list tok :=
  match parse_case c with
  | Some (k, _) => spec_case k obs
  | None => fail "harness:badcase"
  end.
