(* C08 proofs, part 7: inside the individual series.  Two instances of ProofsWin.run_ops_win, with the representatives of the
   distinct attribute sets seen so far as ghost state (exactly what Spec.history_clauses keeps):
     WpK  every key of a table is the overflow set or the ordered map of a measurement of the window           (all histories)
     WpE  while fewer distinct sets than the limit have been seen: nothing is ever folded into the overflow series - the keys are
          pairwise different, every measurement of the window has its entry, and the entry of every key holds exactly the sum of
          the window's measurements with that key (a pigeonhole argument gives the room for every new key)
   and from them the two remaining checks of Spec.report_clauses (known_ok, exact_ok) hold of every report the model produces:
   storage_clauses true accepts the model. *)
From V Require Import C08.Glue C08.ProofsAttrs C08.ProofsTable C08.ProofsStorage C08.ProofsMeets C08.ProofsWin.
From Coq Require Import Lia ZifyBool ZifyNat Permutation Sorting.Sorted.
Local Open Scope Z_scope.

(* ------------------------------------------------------------------ pigeonhole for pairwise different keys *)
Lemma kd_in_false a A : kd (a :: A) -> forall x, In x A -> attrs_eqb a x = false.
Proof. unfold kd. intros H x Hx. inversion H as [|? ? Hf _]; subst. rewrite Forall_forall in Hf. auto. Qed.

Lemma pigeonhole (A B : list attrs) : kd A -> (forall a, In a A -> exists b, In b B /\ attrs_eqb a b = true) ->
  (length A <= length B)%nat.
Proof.
  revert B. induction A as [|a A IH]; intros B Hkd Hmap; cbn; [lia|].
  destruct (Hmap a (or_introl eq_refl)) as [b [Hb Hab]].
  destruct (in_split _ _ Hb) as [B1 [B2 ->]]. rewrite app_length. cbn.
  assert (Hle : (length A <= length (B1 ++ B2))%nat).
  { apply IH; [unfold kd in *; inversion Hkd; assumption|]. intros x Hx.
    destruct (Hmap x (or_intror Hx)) as [y [Hy Hxy]]. exists y. split; [|assumption].
    apply in_app_iff in Hy. apply in_app_iff. destruct Hy as [Hy|[Hy|Hy]]; auto.
    (* y = b would make a and x equal *)
    exfalso. subst y. pose proof (kd_in_false a A Hkd x Hx) as Hne.
    rewrite attrs_eqb_sym in Hxy. rewrite (attrs_eqb_trans a b x Hab Hxy) in Hne. discriminate. }
  rewrite app_length in Hle. lia.
Qed.

(* ------------------------------------------------------------------ the value a table holds for a key *)
Definition val (t : table) (k : attrs) : Z := match tfind k t with Some v => v | None => 0 end.
(* the entries / measurements with a key, summed *)
Definition lsum (es : table) (k : attrs) : Z := fold_right (fun e a => if attrs_eqb (fst e) k then snd e + a else a) 0 es.

Lemma eqb_left_congr a b x : attrs_eqb a b = true -> attrs_eqb a x = attrs_eqb b x.
Proof. intros H. rewrite (attrs_eqb_sym a x), (attrs_eqb_sym b x). apply attrs_eqb_congr. assumption. Qed.

Lemma tfind_tset_val k k' v t : is_some (tfind k t) = true ->
  tfind k' (tset k v t) = if attrs_eqb k k' then Some v else tfind k' t.
Proof.
  induction t as [|[k0 v0] t IH]; cbn [tfind tset]; [discriminate|].
  destruct (attrs_eqb k0 k) eqn:E; cbn [tfind].
  - intros _. rewrite (eqb_left_congr k0 k k' E). destruct (attrs_eqb k k'); reflexivity.
  - intros H. rewrite (IH H). destruct (attrs_eqb k0 k') eqn:E1, (attrs_eqb k k') eqn:E2; try reflexivity.
    exfalso. rewrite attrs_eqb_sym in E2. rewrite (attrs_eqb_trans k0 k' k E1 E2) in E. discriminate.
Qed.

Lemma val_record L k d t k' : is_some (tfind k t) = true \/ is_overflow L t = false ->
  val (record L k d t) k' = val t k' + (if attrs_eqb k k' then d else 0).
Proof.
  intros Hroom. unfold val, record. destruct (tfind k t) as [v|] eqn:E.
  - rewrite tfind_tset_val by (rewrite E; reflexivity). destruct (attrs_eqb k k') eqn:Ek; [|lia].
    rewrite <- (tfind_congr k k' t Ek), E. reflexivity.
  - destruct Hroom as [H|H]; [discriminate|]. rewrite H, tfind_app. cbn [fst snd].
    destruct (tfind k' t) as [x|] eqn:E'.
    + destruct (attrs_eqb k k') eqn:Ek; [|lia]. rewrite (tfind_congr k k' t Ek), E' in E. discriminate.
    + destruct (attrs_eqb k k'); lia.
Qed.

Lemma record_keeps L k d t k' : is_some (tfind k' t) = true -> is_some (tfind k' (record L k d t)) = true.
Proof.
  intros H. unfold record. destruct (tfind k t).
  - rewrite tfind_tset_some. assumption.
  - destruct (is_overflow L t).
    + unfold tadd. assert (H2 : is_some (tfind k' (ensure_overflow t)) = true).
      { unfold ensure_overflow. destruct (tfind overflow_attrs t); [assumption|]. rewrite tfind_app.
        destruct (tfind k' t); [reflexivity|discriminate]. }
      destruct (tfind overflow_attrs (ensure_overflow t)); [rewrite tfind_tset_some|]; assumption.
    + rewrite tfind_app. destruct (tfind k' t); [reflexivity|discriminate].
Qed.
Lemma record_has L k d t : is_some (tfind k t) = true \/ is_overflow L t = false -> is_some (tfind k (record L k d t)) = true.
Proof.
  intros Hroom. unfold record. destruct (tfind k t) as [v|] eqn:E.
  - rewrite tfind_tset_some, E. reflexivity.
  - destruct Hroom as [H|H]; [discriminate|]. rewrite H, tfind_app, E. cbn [fst]. rewrite attrs_eqb_refl. reflexivity.
Qed.

(* with room (or the key present) the merge step is a record *)
Lemma merge_in_is_record L t k d : is_some (tfind k t) = true \/ is_overflow L t = false ->
  merge_in L t (k, d) = record L k d t.
Proof.
  intros Hroom. unfold merge_in, record. destruct (tfind k t) as [v|] eqn:E.
  - unfold tput. rewrite E. reflexivity.
  - destruct Hroom as [H|H]; [discriminate|]. rewrite H. unfold tput. rewrite tfind_app, E. cbn [fst snd]. rewrite attrs_eqb_refl.
    (* tset k d (t ++ [(k, 0)]) = t ++ [(k, d)] as k is not in t *)
    clear H. induction t as [|[k0 v0] t IH]; cbn [app tset tfind] in *.
    + rewrite attrs_eqb_refl. reflexivity.
    + destruct (attrs_eqb k0 k); [discriminate|]. rewrite (IH E). reflexivity.
Qed.

Lemma lsum_zero t k : Forall (fun a => attrs_eqb a k = false) (map fst t) -> lsum t k = 0.
Proof.
  induction t as [|[k0 v0] t IH]; cbn [lsum fold_right map fst snd]; [reflexivity|]. intros H. inversion H as [|? ? H1 H2]; subst.
  cbn [fst] in H1. rewrite H1. apply IH. assumption.
Qed.
Lemma lsum_val t k : kdistinct t -> lsum t k = val t k.
Proof.
  unfold kdistinct, kd, val. induction t as [|[k0 v0] t IH]; intros Hd; [reflexivity|].
  cbn [map fst] in Hd. inversion Hd as [|? ? Hf Hr]; subst. cbn [lsum fold_right tfind fst snd]. fold (lsum t k).
  destruct (attrs_eqb k0 k) eqn:E.
  - rewrite lsum_zero; [lia|]. eapply Forall_impl; [|exact Hf]. intros b Hb. cbn in Hb.
    destruct (attrs_eqb b k) eqn:Eb; [|reflexivity]. rewrite attrs_eqb_sym in Eb. rewrite (attrs_eqb_trans k0 k b E Eb) in Hb. discriminate.
  - apply IH. assumption.
Qed.
Lemma lsum_cons e es k : lsum (e :: es) k = (if attrs_eqb (fst e) k then snd e else 0) + lsum es k.
Proof. cbn [lsum fold_right]. fold (lsum es k). destruct (attrs_eqb (fst e) k); lia. Qed.

(* a key that is in the table is found, with its own value, when the keys are pairwise different *)
Lemma val_in_kd t e : kdistinct t -> In e t -> val t (fst e) = snd e.
Proof.
  unfold kdistinct, kd, val. induction t as [|[k0 v0] t IH]; intros Hd Hin; [destruct Hin|].
  cbn [map fst] in Hd. inversion Hd as [|? ? Hf Hr]; subst. cbn [tfind]. destruct Hin as [<-|Hin].
  - cbn [fst snd]. rewrite attrs_eqb_refl. reflexivity.
  - rewrite Forall_forall in Hf. rewrite (Hf (fst e)) by (apply in_map; assumption). apply IH; assumption.
Qed.

Lemma tfind_in k t : is_some (tfind k t) = true -> exists e, In e t /\ attrs_eqb (fst e) k = true.
Proof. rewrite tfind_some_iff, existsb_exists. auto. Qed.
Lemma in_tfind k t e : In e t -> attrs_eqb (fst e) k = true -> is_some (tfind k t) = true.
Proof. intros H1 H2. rewrite tfind_some_iff. apply existsb_exists. eauto. Qed.

Lemma tfind_perm_kd k a b : Permutation a b -> kdistinct a -> tfind k a = tfind k b.
Proof.
  intros Hp Hd. pose proof (kdistinct_perm _ _ Hp Hd) as Hdb.
  destruct (tfind k a) as [v|] eqn:Ea.
  - assert (Hs : is_some (tfind k a) = true) by (rewrite Ea; reflexivity).
    destruct (tfind_in _ _ Hs) as [e [Hin He]]. pose proof (val_in_kd a e Hd Hin) as Hva.
    pose proof (val_in_kd b e Hdb (Permutation_in _ Hp Hin)) as Hvb. unfold val in Hva, Hvb.
    rewrite (tfind_congr (fst e) k a He), Ea in Hva. rewrite (tfind_congr (fst e) k b He) in Hvb.
    destruct (tfind k b) as [w|] eqn:Eb.
    + congruence.
    + assert (is_some (tfind k b) = true) by (eapply in_tfind; [eapply Permutation_in; eauto|assumption]). rewrite Eb in H. discriminate.
  - destruct (tfind k b) as [w|] eqn:Eb; [|reflexivity].
    assert (Hs : is_some (tfind k b) = true) by (rewrite Eb; reflexivity).
    destruct (tfind_in _ _ Hs) as [e [Hin He]].
    assert (is_some (tfind k a) = true) by (eapply in_tfind; [eapply Permutation_in; [apply Permutation_sym|]; eauto|assumption]).
    rewrite Ea in H. discriminate.
Qed.

Section Series.
  Variable c : cfg.
  Let L := c_limit c.
  Let f := c_filter c.
  Definition key (m : meas) : attrs := mk_attrs f (fst m).
  Definition wsum (w : list meas) (k : attrs) : Z := fold_right (fun m a => if attrs_eqb (key m) k then snd m + a else a) 0 w.
  Definition gstep (g : list (list (bytes * ival))) (kvs : list (bytes * ival)) := add_rep f L g kvs.

  Lemma wsum_app a b k : wsum (a ++ b) k = wsum a k + wsum b k.
  Proof. unfold wsum. induction a as [|m a IH]; cbn [app fold_right]; [lia|]. rewrite IH. destruct (attrs_eqb (key m) k); lia. Qed.
  Lemma wsum_single m k : wsum [m] k = if attrs_eqb (key m) k then snd m else 0.
  Proof. unfold wsum. cbn [fold_right]. destruct (attrs_eqb (key m) k); lia. Qed.
  Lemma wsum_perm a b k : Permutation a b -> wsum a k = wsum b k.
  Proof. unfold wsum. induction 1; cbn [fold_right]; try lia.
    - rewrite IHPermutation. reflexivity.
    - destruct (attrs_eqb (key x) k), (attrs_eqb (key y) k); lia. Qed.

  (* ---------------------------------------------------------------- WpK: where the keys come from *)
  Definition Qw (w : list meas) (k : attrs) : Prop := k = overflow_attrs \/ exists m, In m w /\ k = key m.
  Definition WpK (g : list (list (bytes * ival))) (w : list meas) (t : table) : Prop := kall (Qw w) t.

  Lemma Qw_incl w w' k : (forall m, In m w -> In m w') -> Qw w k -> Qw w' k.
  Proof. intros H [Hk|[m [Hm Hk]]]; [left; assumption|right; exists m; auto]. Qed.
  Lemma kall_incl w w' t : (forall m, In m w -> In m w') -> kall (Qw w) t -> kall (Qw w') t.
  Proof. unfold kall. intros H. apply Forall_impl. intros k. apply Qw_incl. assumption. Qed.
  Lemma Qw_ovf w : Qw w overflow_attrs.
  Proof. left. reflexivity. Qed.

  Lemma kall_merge_all (Q : attrs -> Prop) t es : Q overflow_attrs -> kall Q t -> kall Q es -> kall Q (merge_all L t es).
  Proof.
    intros Hq. unfold merge_all. revert t. induction es as [|e es IH]; intros t Ht He; cbn [fold_left]; [assumption|].
    unfold kall in He. cbn [map] in He. inversion He; subst. apply IH; [|assumption]. apply kall_merge_in; assumption.
  Qed.

  Lemma WpK_closed :
    (forall g, WpK g [] []) /\
    (forall g kvs w t, WpK g w t -> WpK (gstep g kvs) w t) /\
    (forall g w t kvs d, WpK g w t -> WpK (gstep g kvs) (w ++ [(kvs, d)]) (record L (mk_attrs f kvs) d t)) /\
    (forall g w a b, Permutation a b -> WpK g w a -> WpK g w b) /\
    (forall g w w' t, Permutation w w' -> WpK g w t -> WpK g w' t) /\
    (forall g w1 t1 w2 t2, WpK g w1 t1 -> WpK g w2 t2 -> WpK g (w1 ++ w2) (merge_all L t1 t2)).
  Proof.
    unfold WpK. split; [|split; [|split; [|split; [|split]]]].
    - intros g. constructor.
    - auto.
    - intros g w t kvs d H. apply kall_record; [apply Qw_ovf| |].
      + eapply kall_incl; [|exact H]. intros m Hm. apply in_or_app. left. assumption.
      + right. exists (kvs, d). split; [apply in_or_app; right; left; reflexivity|reflexivity].
    - intros g w a b Hp. apply kall_perm. assumption.
    - intros g w w' t Hp. apply kall_incl. intros m. apply Permutation_in. assumption.
    - intros g w1 t1 w2 t2 H1 H2. apply kall_merge_all; [apply Qw_ovf| |].
      + eapply kall_incl; [|exact H1]. intros m Hm. apply in_or_app. left. assumption.
      + eapply kall_incl; [|exact H2]. intros m Hm. apply in_or_app. right. assumption.
  Qed.

  (* ---------------------------------------------------------------- WpE: nothing folded while fewer distinct sets than the limit *)
  Definition rep_of (g : list (list (bytes * ival))) (k : attrs) : Prop :=
    exists r, In r g /\ attrs_eqb k (mk_attrs f r) = true.
  Definition keys_in (g : list (list (bytes * ival))) (t : table) : Prop := forall e, In e t -> rep_of g (fst e).
  Definition covered (w : list meas) (t : table) : Prop := forall m, In m w -> is_some (tfind (key m) t) = true.
  Record exact (g : list (list (bytes * ival))) (w : list meas) (t : table) : Prop := mkExact {
    ex_kd : kdistinct t;
    ex_keys : keys_in g t;
    ex_cov : covered w t;
    ex_val : forall k, val t k = wsum w k
  }.
  Definition WpE (g : list (list (bytes * ival))) (w : list meas) (t : table) : Prop := (length g < L)%nat -> exact g w t.

  Lemma add_rep_length g kvs : (length g <= length (add_rep f L g kvs))%nat.
  Proof. unfold add_rep. destruct (L <=? length g)%nat; [lia|]. destruct (existsb _ g); [lia|]. rewrite app_length. lia. Qed.
  Lemma add_rep_incl g kvs r : In r g -> In r (add_rep f L g kvs).
  Proof. unfold add_rep. destruct (L <=? length g)%nat; [auto|]. destruct (existsb _ g); [auto|]. intros H. apply in_or_app. auto. Qed.
  Lemma rep_of_mono g kvs k : rep_of g k -> rep_of (add_rep f L g kvs) k.
  Proof. intros [r [H1 H2]]. exists r. split; [apply add_rep_incl|]; assumption. Qed.
  (* the set just recorded has a representative, unless the list is already full *)
  Lemma add_rep_has g kvs : (length (add_rep f L g kvs) < L)%nat -> rep_of (add_rep f L g kvs) (mk_attrs f kvs).
  Proof.
    unfold add_rep. destruct (L <=? length g)%nat eqn:Ec; [apply Nat.leb_le in Ec; unfold L in *; lia|].
    destruct (existsb (sets_equal f kvs) g) eqn:Ee; intros _.
    - apply existsb_exists in Ee. destruct Ee as [r [Hr He]]. exists r. split; [assumption|].
      rewrite attrs_eqb_iff_sets_equal. assumption.
    - exists kvs. split; [apply in_or_app; right; left; reflexivity|apply attrs_eqb_refl].
  Qed.

  (* room for a new key: pairwise different keys, all with representatives, fewer representatives than the limit *)
  Lemma room g t k : kdistinct t -> keys_in g t -> rep_of g k -> (length g < L)%nat ->
    is_some (tfind k t) = true \/ is_overflow L t = false.
  Proof.
    intros Hd Hk Hr Hl. destruct (tfind k t) eqn:E; [left; reflexivity|right].
    assert (Hle : (length (map fst t ++ [k]) <= length (map (mk_attrs f) g))%nat).
    { apply pigeonhole.
      - apply kd_app; [exact Hd|]. apply tfind_none_forall. assumption.
      - intros a Ha. apply in_app_iff in Ha. destruct Ha as [Ha|[<-|[]]].
        + apply in_map_iff in Ha. destruct Ha as [e [<- He]]. destruct (Hk e He) as [r [Hr1 Hr2]].
          exists (mk_attrs f r). split; [apply in_map; assumption|assumption].
        + destruct Hr as [r [Hr1 Hr2]]. exists (mk_attrs f r). split; [apply in_map; assumption|assumption]. }
    rewrite app_length, !map_length in Hle. cbn in Hle. unfold is_overflow. apply Nat.leb_gt. eapply Nat.le_lt_trans; [exact Hle|exact Hl].
  Qed.

  Lemma exact_record g w t kvs d : (length g < L)%nat -> rep_of g (mk_attrs f kvs) -> exact g w t ->
    exact g (w ++ [(kvs, d)]) (record L (mk_attrs f kvs) d t).
  Proof.
    intros Hl Hr [Hd Hk Hc Hv]. pose proof (room g t _ Hd Hk Hr Hl) as Hroom. constructor.
    - apply record_kdistinct. assumption.
    - intros e He. unfold record in He. destruct (tfind (mk_attrs f kvs) t) as [v|] eqn:E.
      + assert (Hin : In (fst e) (map fst t)) by (rewrite <- (tset_keys (mk_attrs f kvs) (v + d) t); apply in_map; assumption).
        apply in_map_iff in Hin. destruct Hin as [e0 [He0 Hin]]. rewrite <- He0. apply Hk. assumption.
      + destruct Hroom as [H|H]; [discriminate|]. rewrite H in He. apply in_app_iff in He. destruct He as [He|[<-|[]]]; [apply Hk; assumption|exact Hr].
    - intros m Hm. apply in_app_iff in Hm. destruct Hm as [Hm|[<-|[]]].
      + apply record_keeps. apply Hc. assumption.
      + unfold key. cbn [fst]. apply record_has. assumption.
    - intros k. rewrite val_record by assumption. rewrite wsum_app, Hv, wsum_single. unfold key. cbn [fst snd]. reflexivity.
  Qed.

  (* merging the entries of a table with pairwise different keys, with room all the way *)
  Lemma exact_merge_entries g es : (length g < L)%nat -> forall t, kdistinct t -> keys_in g t -> keys_in g es ->
    kdistinct (merge_all L t es) /\ keys_in g (merge_all L t es) /\
    (forall k, is_some (tfind k t) = true -> is_some (tfind k (merge_all L t es)) = true) /\
    (forall e, In e es -> is_some (tfind (fst e) (merge_all L t es)) = true) /\
    (forall k, val (merge_all L t es) k = val t k + lsum es k).
  Proof.
    intros Hl. unfold merge_all. induction es as [|[k d] es IH]; intros t Hd Hk Hes; cbn [fold_left].
    - split; [assumption|]. split; [assumption|]. split; [auto|]. split; [intros e []|]. intros k0. cbn. lia.
    - assert (Hr : rep_of g k) by (apply (Hes (k, d)); left; reflexivity).
      pose proof (room g t k Hd Hk Hr Hl) as Hroom. rewrite (merge_in_is_record L t k d Hroom).
      assert (Hd1 : kdistinct (record L k d t)) by (apply record_kdistinct; assumption).
      assert (Hk1 : keys_in g (record L k d t)).
      { intros e He. unfold record in He. destruct (tfind k t) as [v|] eqn:E.
        - assert (Hin : In (fst e) (map fst t)) by (rewrite <- (tset_keys k (v + d) t); apply in_map; assumption).
          apply in_map_iff in Hin. destruct Hin as [e0 [He0 Hin]]. rewrite <- He0. apply Hk. assumption.
        - destruct Hroom as [H|H]; [discriminate|]. rewrite H in He. apply in_app_iff in He.
          destruct He as [He|[<-|[]]]; [apply Hk; assumption|exact Hr]. }
      destruct (IH (record L k d t) Hd1 Hk1 (fun e He => Hes e (or_intror He))) as [A [B [C [D E]]]].
      split; [exact A|]. split; [exact B|]. split; [|split].
      + intros k0 H0. apply C. apply record_keeps. assumption.
      + intros e [<-|He]; [|apply D; assumption]. cbn [fst]. apply C. apply record_has. assumption.
      + intros k0. rewrite E, val_record by assumption. rewrite lsum_cons. cbn [fst snd]. lia.
  Qed.

  Lemma exact_merge g w1 t1 w2 t2 : (length g < L)%nat -> exact g w1 t1 -> exact g w2 t2 ->
    exact g (w1 ++ w2) (merge_all L t1 t2).
  Proof.
    intros Hl [Hd1 Hk1 Hc1 Hv1] [Hd2 Hk2 Hc2 Hv2].
    destruct (exact_merge_entries g t2 Hl t1 Hd1 Hk1 Hk2) as [A [B [C [D E]]]]. constructor; auto.
    - intros m Hm. apply in_app_iff in Hm. destruct Hm as [Hm|Hm].
      + apply C. apply Hc1. assumption.
      + destruct (tfind_in _ _ (Hc2 m Hm)) as [e [He Hek]]. rewrite <- (tfind_congr (fst e) (key m) _ Hek). apply D. assumption.
    - intros k. rewrite E, (lsum_val t2 k Hd2), Hv1, Hv2, wsum_app. reflexivity.
  Qed.

  Lemma WpE_closed :
    (forall g, WpE g [] []) /\
    (forall g kvs w t, WpE g w t -> WpE (gstep g kvs) w t) /\
    (forall g w t kvs d, WpE g w t -> WpE (gstep g kvs) (w ++ [(kvs, d)]) (record L (mk_attrs f kvs) d t)) /\
    (forall g w a b, Permutation a b -> WpE g w a -> WpE g w b) /\
    (forall g w w' t, Permutation w w' -> WpE g w t -> WpE g w' t) /\
    (forall g w1 t1 w2 t2, WpE g w1 t1 -> WpE g w2 t2 -> WpE g (w1 ++ w2) (merge_all L t1 t2)).
  Proof.
    unfold WpE, gstep. split; [|split; [|split; [|split; [|split]]]].
    - intros g _. constructor; [constructor|intros e []|intros m []|intros k; reflexivity].
    - intros g kvs w t H Hl. pose proof (add_rep_length g kvs) as Hle.
      assert (Hlg : (length g < L)%nat) by (unfold L in *; lia). destruct (H Hlg) as [Hd Hk Hc Hv].
      constructor; auto. intros e He. apply rep_of_mono. apply Hk. assumption.
    - intros g w t kvs d H Hl. pose proof (add_rep_length g kvs) as Hle.
      assert (Hlg : (length g < L)%nat) by (unfold L in *; lia). destruct (H Hlg) as [Hd Hk Hc Hv].
      apply exact_record; [assumption|apply add_rep_has; assumption|].
      constructor; auto. intros e He. apply rep_of_mono. apply Hk. assumption.
    - intros g w a b Hp H Hl. destruct (H Hl) as [Hd Hk Hc Hv]. constructor.
      + eapply kdistinct_perm; eauto.
      + intros e He. apply Hk. eapply Permutation_in; [apply Permutation_sym|]; eauto.
      + intros m Hm. rewrite <- (tfind_perm_kd _ a b Hp Hd). apply Hc. assumption.
      + intros k. unfold val. rewrite <- (tfind_perm_kd _ a b Hp Hd). apply Hv.
    - intros g w w' t Hp H Hl. destruct (H Hl) as [Hd Hk Hc Hv]. constructor; auto.
      + intros m Hm. apply Hc. eapply Permutation_in; [apply Permutation_sym|]; eauto.
      + intros k. rewrite Hv. apply wsum_perm. assumption.
    - intros g w1 t1 w2 t2 H1 H2 Hl. apply exact_merge; auto.
  Qed.
End Series.

(* ------------------------------------------------------------------ every history: both relations at once *)
Definition WpKE (c : cfg) (g : list (list (bytes * ival))) (w : list meas) (t : table) : Prop := WpK c g w t /\ WpE c g w t.

Theorem history_series c ops walks :
  results_win c _ (gstep c) (WpKE c) (run_ops c ops walks (init_storage c)) ops [] [] (map (fun _ => O) (c_temps c)).
Proof.
  destruct (WpK_closed c) as [K1 [K2 [K3 [K4 [K5 K6]]]]]. destruct (WpE_closed c) as [E1 [E2 [E3 [E4 [E5 E6]]]]].
  apply (run_ops_win c _ (gstep c) (WpKE c)); unfold WpKE.
  - intros g. split; auto.
  - intros g kvs w t [H1 H2]. split; auto.
  - intros g w t kvs d [H1 H2]. split; auto.
  - intros g w a b Hp [H1 H2]. split; eauto.
  - intros g w w' t Hp [H1 H2]. split; eauto.
  - intros g w1 t1 w2 t2 [H1 H2] [H3 H4]. split; auto.
  - apply J_init. intros g. split; auto.
Qed.

(* ------------------------------------------------------------------ from the relations to the checks of Spec.report_clauses *)
Lemma is_overflow_set_overflow : is_overflow_set overflow_attrs = true.
Proof. unfold is_overflow_set, overflow_attrs. rewrite bytes_eqb_refl, Z.eqb_refl. reflexivity. Qed.

Lemma opt_equiv_refl o : opt_equiv o o = true.
Proof. destruct o as [v|]; [|reflexivity]. cbn. rewrite aval_equiv_eqb. apply aval_eqb_refl. Qed.

Lemma denotes_iff f kvs m : denotes f kvs m = true <-> forall k, opt_equiv (assoc k m) (kept f kvs k) = true.
Proof.
  unfold denotes. rewrite forallb_forall. split; [|intros H k _; apply H].
  intros H k. destruct (In_dec (list_eq_dec Byte.byte_eq_dec) k (map fst m ++ map fst kvs)) as [Hi|Hn]; [apply H; assumption|].
  rewrite in_app_iff in Hn. rewrite (proj2 (assoc_none_iff k m)) by tauto. unfold kept.
  rewrite (proj2 (last_binding_none_iff k kvs)) by tauto. destruct (in_allow_list f k); reflexivity.
Qed.
Lemma denotes_self f kvs : denotes f kvs (mk_attrs f kvs) = true.
Proof. apply denotes_iff. intros k. rewrite mk_attrs_denotes. apply opt_equiv_refl. Qed.
(* for an ordered map, denoting a measurement is comparing equal to the measurement's ordered map *)
Lemma denotes_eqb f kvs m : sorted m -> denotes f kvs m = attrs_eqb m (mk_attrs f kvs).
Proof.
  intros Hs. apply eq_true_iff_eq. rewrite denotes_iff, attrs_eqb_maps_rel.
  rewrite (sorted_rel aval_eqb m _ Hs (mk_attrs_sorted f kvs)).
  split; intros H k; specialize (H k); rewrite mk_attrs_denotes in *; rewrite opt_equiv_is_opt_rel in *;
    destruct (assoc k m), (kept f kvs k); cbn in *; auto; rewrite aval_equiv_eqb in *; assumption.
Qed.

Lemma Qw_sorted c w k : Qw c w k -> sorted k.
Proof. intros [->|[m [_ ->]]]; [repeat constructor|apply mk_attrs_sorted]. Qed.

Lemma sum_denoted_wsum c k w : sorted k -> sum_denoted (c_filter c) k w = wsum c w k.
Proof.
  intros Hs. unfold sum_denoted, wsum. induction w as [|m w IH]; cbn [fold_right]; [reflexivity|].
  rewrite IH, (denotes_eqb _ _ _ Hs). unfold key. rewrite (attrs_eqb_sym k). reflexivity.
Qed.

Lemma known_ok_of c g w t : WpK c g w t -> known_ok (c_filter c) w t = true.
Proof.
  unfold WpK, known_ok. intros H. apply forallb_forall. intros e He. pose proof (kall_in _ t e H He) as [Hk|[m [Hm Hk]]].
  - rewrite Hk, is_overflow_set_overflow. reflexivity.
  - apply orb_true_iff. right. apply existsb_exists. exists m. split; [assumption|]. rewrite Hk. apply denotes_self.
Qed.

Lemma exact_ok_of c g w t : WpK c g w t -> exact c g w t -> exact_ok (c_filter c) w t = true.
Proof.
  intros HK [Hd Hk Hc Hv]. unfold exact_ok. apply andb_true_iff. split; apply forallb_forall.
  - intros m Hm. destruct (tfind_in _ _ (Hc m Hm)) as [e [He Hek]]. apply existsb_exists. exists e. split; [assumption|].
    rewrite denotes_eqb; [exact Hek|]. eapply Qw_sorted. eapply kall_in; eauto.
  - intros e He. apply Z.eqb_eq. rewrite sum_denoted_wsum by (eapply Qw_sorted; eapply kall_in; eauto).
    rewrite <- Hv. symmetry. apply val_in_kd; assumption.
Qed.

Lemma covered_nil c w : covered c w [] -> w = [].
Proof. destruct w as [|m w]; [reflexivity|]. intros H. specialize (H m (or_introl eq_refl)). discriminate. Qed.

(* ------------------------------------------------------------------ storage_clauses true accepts the model *)
Lemma history_clauses_strict_ok c nan : forall ops rs hist reps marks,
  results_ok c (P2 (c_limit c)) rs ops hist marks ->
  results_win c _ (gstep c) (WpKE c) rs ops reps hist marks ->
  ~ In CReject rs ->
  history_clauses true (c_limit c) (c_mono c) (c_filter c) (c_temps c) nan ops (map robs_of rs) hist reps marks = [].
Proof.
  induction ops as [|o ops IH]; intros rs hist reps marks; cbn [results_ok results_win history_clauses].
  - intros -> _ _. reflexivity.
  - destruct o as [kvs v|v|i]; try (apply IH).
    destruct rs as [|r rs]; [intros []|]. cbn [map]. destruct r as [|t|]; cbn [robs_of report_clauses].
    + intros [H1 H2] [[_ HE] H3] Hr. rewrite H1. cbn [check app negb orb].
      assert (Hw : (negb (length reps <? c_limit c)%nat ||
                    match (if nth i (c_temps c) false then hist else skipn (nth i marks O) hist) with [] => true | _ => false end) = true).
      { destruct (length reps <? c_limit c)%nat eqn:El; [|reflexivity]. apply Nat.ltb_lt in El.
        destruct (HE El) as [_ _ Hc _]. rewrite (covered_nil _ _ Hc). reflexivity. }
      rewrite Hw. cbn [check app]. apply IH; [assumption|assumption|]. intros X. apply Hr. right. assumption.
    + intros [[Ht [Hd Hg]] [H2 H3]] [[HK HE] H4] Hr.
      unfold count_ok, total_ok. rewrite table_total_is_total, H2, Z.eqb_refl, (keys_distinct_of t Hd Hg).
      pose proof (tinv_le _ _ Ht) as Hle. apply Nat.leb_le in Hle. rewrite Hle.
      rewrite (known_ok_of _ _ _ _ HK).
      assert (Hx : (negb (length reps <? c_limit c)%nat ||
                    exact_ok (c_filter c) (if nth i (c_temps c) false then hist else skipn (nth i marks O) hist) t) = true).
      { destruct (length reps <? c_limit c)%nat eqn:El; [|reflexivity]. apply Nat.ltb_lt in El. cbn [negb orb].
        eapply exact_ok_of; [exact HK|apply HE; exact El]. }
      cbn [negb orb]. rewrite Hx. cbn [check app].
      apply IH; [assumption|assumption|]. intros X. apply Hr. right. assumption.
    + intros _ _ Hr. exfalso. apply Hr. left. reflexivity.
Qed.

Theorem storage_meets_spec c ops walks : (1 <= c_limit c)%nat ->
  ~ In CReject (run_ops c ops walks (init_storage c)) ->
  storage_clauses true c ops (map robs_of (run_ops c ops walks (init_storage c))) = [].
Proof.
  intros HL Hr. unfold storage_clauses. apply history_clauses_strict_ok; [apply history_ok_sorted; assumption|apply history_series|assumption].
Qed.

(* every reported series, while fewer distinct sets than the limit have occurred, is exact (the statement behind exact_ok) *)
Theorem reports_exact_below_limit c ops walks :
  results_win c _ (gstep c) (WpE c) (run_ops c ops walks (init_storage c)) ops [] [] (map (fun _ => O) (c_temps c)).
Proof.
  destruct (WpE_closed c) as [E1 [E2 [E3 [E4 [E5 E6]]]]]. apply (run_ops_win c _ (gstep c) (WpE c)); auto. apply J_init. assumption.
Qed.
