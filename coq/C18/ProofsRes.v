(* C18 proofs, part 2: attribute maps, Resource::Merge, OTELResourceDetector, Resource::Create,
   resource store scripts (operands unchanged), providers. *)
From V Require Import C18.Glue C18.ProofsBase C18.ProofsEnv.
From Coq Require Import Lia ZifyBool ZifyNat ZifyN.
Local Open Scope Z_scope.

(* ================================================================ maps *)
Definition keys (m : amap) : list bytes := map fst m.

Lemma lookup_app k a b : lookup k (a ++ b) = match lookup k a with Some v => Some v | None => lookup k b end.
Proof.
  induction a as [|[k' v] a IH]; cbn; auto. destruct (bytes_eqb k k'); auto.
Qed.

Lemma lookup_none_notin k m : lookup k m = None <-> ~ In k (keys m).
Proof.
  induction m as [|[k' v] m IH]; cbn.
  - tauto.
  - destruct (bytes_eqb k k') eqn:E.
    + apply bytes_eqb_eq in E. subst. split; [discriminate | intros H; exfalso; apply H; now left].
    + apply bytes_eqb_neq in E. rewrite IH. split; [intros H [H'|H']; [congruence|auto] | intros H H'; apply H; now right].
Qed.

Lemma lookup_map_set k m k' v : lookup k (map_set m k' v) = if bytes_eqb k k' then Some v else lookup k m.
Proof.
  induction m as [|[k1 v1] m IH]; cbn.
  - reflexivity.
  - destruct (bytes_eqb k' k1) eqn:E1; cbn.
    + apply bytes_eqb_eq in E1. subst k1. destruct (bytes_eqb k k'); reflexivity.
    + rewrite IH. destruct (bytes_eqb k k1) eqn:E2; [|reflexivity].
      apply bytes_eqb_eq in E2. subst k1. rewrite bytes_eqb_sym, E1. reflexivity.
Qed.

Lemma keys_map_set m k v : forall x, In x (keys (map_set m k v)) <-> x = k \/ In x (keys m).
Proof.
  induction m as [|[k1 v1] m IH]; intros x; cbn.
  - split; [intros [H|[]]; auto | intros [H|[]]; auto].
  - destruct (bytes_eqb k k1) eqn:E; cbn.
    + apply bytes_eqb_eq in E. subst k1. intuition (subst; auto).
    + rewrite IH. intuition (subst; auto).
Qed.

Lemma nodup_map_set m k v : NoDup (keys m) -> NoDup (keys (map_set m k v)).
Proof.
  induction m as [|[k1 v1] m IH]; cbn; intros H.
  - constructor; [tauto|constructor].
  - inversion H as [|? ? H1 H2]; subst. destruct (bytes_eqb k k1) eqn:E; cbn.
    + constructor; auto.
    + apply bytes_eqb_neq in E. constructor; [|now apply IH].
      intros X. apply keys_map_set in X as [X|X]; [congruence|contradiction].
Qed.

Lemma lookup_map_insert k m kv :
  lookup k (map_insert m kv) =
  match lookup k m with Some x => Some x | None => if bytes_eqb k (fst kv) then Some (snd kv) else None end.
Proof.
  destruct kv as [k' v]. unfold map_insert. cbn [fst snd].
  destruct (lookup k' m) as [x|] eqn:E.
  - destruct (lookup k m) eqn:E2; [reflexivity|].
    destruct (bytes_eqb k k') eqn:E3; [|reflexivity]. apply bytes_eqb_eq in E3. congruence.
  - rewrite lookup_app. cbn. destruct (lookup k m); reflexivity.
Qed.

Lemma nodup_snoc {A} (l : list A) a : NoDup l -> ~ In a l -> NoDup (l ++ [a]).
Proof.
  induction l as [|x l IH]; cbn; intros H N.
  - constructor; [tauto|constructor].
  - inversion H; subst. constructor.
    + intro X. apply in_app_or in X as [X|[X|[]]]; [contradiction | subst; apply N; now left].
    + apply IH; auto.
Qed.

Lemma nodup_map_insert m kv : NoDup (keys m) -> NoDup (keys (map_insert m kv)).
Proof.
  intros H. unfold map_insert. destruct (lookup (fst kv) m) eqn:E; [exact H|].
  unfold keys. rewrite map_app. cbn. apply lookup_none_notin in E.
  now apply nodup_snoc.
Qed.

Lemma lookup_fold_insert k l : forall m,
  lookup k (fold_left map_insert l m) = match lookup k m with Some x => Some x | None => lookup k l end.
Proof.
  induction l as [|[k' v] l IH]; intros m; cbn [fold_left].
  - cbn. destruct (lookup k m); reflexivity.
  - rewrite IH, lookup_map_insert. cbn [fst snd lookup]. destruct (lookup k m); [reflexivity|].
    destruct (bytes_eqb k k'); reflexivity.
Qed.

Lemma nodup_fold_insert l : forall m, NoDup (keys m) -> NoDup (keys (fold_left map_insert l m)).
Proof. induction l as [|kv l IH]; intros m H; cbn; auto. apply IH. now apply nodup_map_insert. Qed.

Lemma last_binding_acc k l : forall acc,
  fold_left (fun acc kv => if bytes_eqb k (fst kv) then Some (snd kv) else acc) l acc =
  match last_binding k l with Some v => Some v | None => acc end.
Proof.
  unfold last_binding. induction l as [|[k' v] l IH]; intros acc; cbn [fold_left fst snd].
  - reflexivity.
  - rewrite IH. rewrite (IH (if bytes_eqb k k' then Some v else None)).
    destruct (fold_left _ l None); [reflexivity|]. destruct (bytes_eqb k k'); reflexivity.
Qed.

Lemma last_binding_cons k k' v l :
  last_binding k ((k', v) :: l) = match last_binding k l with Some x => Some x | None => if bytes_eqb k k' then Some v else None end.
Proof. unfold last_binding at 1. cbn [fold_left fst snd]. now rewrite last_binding_acc. Qed.

Lemma lookup_fold_set k l : forall m,
  lookup k (fold_left (fun m kv => map_set m (fst kv) (snd kv)) l m) =
  match last_binding k l with Some v => Some v | None => lookup k m end.
Proof.
  induction l as [|[k' v] l IH]; intros m; cbn [fold_left fst snd].
  - reflexivity.
  - rewrite IH, last_binding_cons, lookup_map_set. destruct (last_binding k l); [reflexivity|].
    destruct (bytes_eqb k k'); reflexivity.
Qed.

(* a caller's list becomes the map of its last bindings *)
Lemma lookup_map_of_list k l : lookup k (map_of_list l) = last_binding k l.
Proof. unfold map_of_list. rewrite lookup_fold_set. cbn. destruct (last_binding k l); reflexivity. Qed.

Lemma nodup_fold_set l : forall m, NoDup (keys m) -> NoDup (keys (fold_left (fun m kv => map_set m (fst kv) (snd kv)) l m)).
Proof. induction l as [|kv l IH]; intros m H; cbn; auto. apply IH. now apply nodup_map_set. Qed.
Lemma nodup_map_of_list l : NoDup (keys (map_of_list l)).
Proof. apply nodup_fold_set. constructor. Qed.

(* ================================================================ Merge *)

Theorem merge_spec_proof : forall a b : resource,
  (forall k, lookup k (r_attrs (merge a b)) =
             match lookup k (r_attrs b) with Some v => Some v | None => lookup k (r_attrs a) end) /\
  r_schema (merge a b) = (match r_schema b with [] => r_schema a | _ => r_schema b end) /\
  (NoDup (keys (r_attrs b)) -> NoDup (keys (r_attrs (merge a b)))).
Proof.
  intros a b. repeat split.
  - intros k. unfold merge. cbn [r_attrs]. apply lookup_fold_insert.
  - unfold merge. cbn [r_schema]. destruct (r_schema b); reflexivity.
  - intros H. unfold merge. cbn [r_attrs]. now apply nodup_fold_insert.
Qed.

(* the union, as a statement about key sets *)
Corollary merge_keys a b k : In k (keys (r_attrs (merge a b))) <-> In k (keys (r_attrs a)) \/ In k (keys (r_attrs b)).
Proof.
  destruct (merge_spec_proof a b) as (H & _ & _). specialize (H k).
  split.
  - intros X. destruct (lookup k (r_attrs (merge a b))) eqn:E; [|apply lookup_none_notin in E; contradiction].
    destruct (lookup k (r_attrs b)) eqn:Eb.
    + right. destruct (in_dec (list_eq_dec Byte.byte_eq_dec) k (keys (r_attrs b))); auto.
      apply lookup_none_notin in n. congruence.
    + left. destruct (in_dec (list_eq_dec Byte.byte_eq_dec) k (keys (r_attrs a))); auto.
      apply lookup_none_notin in n. congruence.
  - intros [X|X].
    + destruct (lookup k (r_attrs (merge a b))) eqn:E.
      * destruct (in_dec (list_eq_dec Byte.byte_eq_dec) k (keys (r_attrs (merge a b)))); auto.
        apply lookup_none_notin in n. congruence.
      * destruct (lookup k (r_attrs b)); [discriminate|]. symmetry in H. apply lookup_none_notin in H. contradiction.
    + destruct (lookup k (r_attrs (merge a b))) eqn:E.
      * destruct (in_dec (list_eq_dec Byte.byte_eq_dec) k (keys (r_attrs (merge a b)))); auto.
        apply lookup_none_notin in n. congruence.
      * destruct (lookup k (r_attrs b)) eqn:Eb; [discriminate|]. apply lookup_none_notin in Eb. contradiction.
Qed.

Example merge_spec_nonvacuous :
  let a := mk_res [(bs "k", VStr (bs "a")); (bs "x", VInt 1)] (bs "sa") in
  let b := mk_res [(bs "k", VStr (bs "b")); (bs "y", VBool true)] [] in
  lookup (bs "k") (r_attrs (merge a b)) = Some (VStr (bs "b")) /\ lookup (bs "x") (r_attrs (merge a b)) = Some (VInt 1) /\
  lookup (bs "y") (r_attrs (merge a b)) = Some (VBool true) /\ r_schema (merge a b) = bs "sa" /\ r_schema (merge b a) = bs "sa".
Proof. repeat split; reflexivity. Qed.

(* ================================================================ scripts: operands unchanged *)

Lemma rstep_length ra sn st op : length (rstep ra sn st op) = S (length st).
Proof. unfold rstep. rewrite app_length. cbn. lia. Qed.

Lemma rstep_prefix ra sn st op i : (i < length st)%nat -> nth_error (rstep ra sn st op) i = nth_error st i.
Proof. intros H. unfold rstep. now rewrite nth_error_app1. Qed.

Lemma run_rops_from ra sn ops : forall st,
  exists ext, fold_left (rstep ra sn) ops st = st ++ ext /\ length ext = length ops.
Proof.
  induction ops as [|op ops IH]; intros st; cbn [fold_left].
  - exists []. now rewrite app_nil_r.
  - destruct (IH (rstep ra sn st op)) as (ext & H1 & H2).
    assert (E : exists x, rstep ra sn st op = st ++ [x]) by (unfold rstep; eauto).
    destruct E as (x & E). exists (x :: ext). rewrite H1, E, <- app_assoc. cbn. split; [reflexivity|lia].
Qed.

(* Every resource, once made, is the same object whatever is done afterwards: in particular a.Merge(b)
   leaves a and b as they were. *)
Theorem merge_operands_unchanged_proof : forall ra sn (ops more : list rop) (i : nat),
  (i < length ops)%nat ->
  nth_error (run_rops ra sn (ops ++ more)) i = nth_error (run_rops ra sn ops) i.
Proof.
  intros ra sn ops more i Hi. unfold run_rops. rewrite fold_left_app.
  destruct (run_rops_from ra sn more (fold_left (rstep ra sn) ops [])) as (ext & H1 & _). rewrite H1.
  destruct (run_rops_from ra sn ops []) as (e0 & H0 & L0). cbn in H0.
  apply nth_error_app1. rewrite H0. lia.
Qed.

Lemma run_rops_length ra sn ops : length (run_rops ra sn ops) = length ops.
Proof. destruct (run_rops_from ra sn ops []) as (e & H & L). unfold run_rops. rewrite H. cbn. exact L. Qed.

Lemma run_rops_snoc ra sn ops op : run_rops ra sn (ops ++ [op]) = rstep ra sn (run_rops ra sn ops) op.
Proof. unfold run_rops. now rewrite fold_left_app. Qed.

Example merge_operands_unchanged_nonvacuous :
  let ops := [RNew [(bs "k", VInt 1)] []; RNew [(bs "k", VInt 2)] (bs "s")] in
  nth_error (run_rops None None (ops ++ [RMerge 0 1; RMerge 1 0])) 0 = Some (Some (mk_res [(bs "k", VInt 1)] [])) /\
  nth_error (run_rops None None (ops ++ [RMerge 0 1; RMerge 1 0])) 2 = Some (Some (mk_res [(bs "k", VInt 2)] (bs "s"))).
Proof. split; reflexivity. Qed.

(* ================================================================ detector *)

Lemma detector_consts :
  list_sep = x2c /\ kv_sep = x3d /\ nb c18_key_detector_service_name = key_service_name /\
  nb c18_key_service_name = key_service_name /\ nb c18_key_process_executable_name = key_exe_name.
Proof. repeat split; reflexivity. Qed.

Definition prepend (x : bytes) (l : list bytes) : list bytes :=
  match l with p :: ps => (x ++ p) :: ps | [] => [x] end.
Fixpoint drop_last_empty (l : list bytes) : list bytes :=
  match l with
  | [] => []
  | [p] => match p with [] => [] | _ => [p] end
  | p :: ps => p :: drop_last_empty ps
  end.

Lemma pieces_nonempty c s : pieces c s <> [].
Proof. destruct s as [|b s]; cbn; [discriminate|]. destruct (Byte.eqb b c); [discriminate|]. destruct (pieces c s); discriminate. Qed.

Lemma getline_pieces s : forall cur, getline_tokens s cur = drop_last_empty (prepend (rev cur) (pieces list_sep s)).
Proof.
  induction s as [|b s IH]; intros cur.
  - cbn. rewrite app_nil_r. destruct cur as [|c cur]; [reflexivity|].
    cbn. destruct (rev cur ++ [c]) eqn:E; [|reflexivity]. destruct (rev cur); discriminate.
  - cbn [getline_tokens pieces]. destruct (Byte.eqb b list_sep) eqn:E.
    + rewrite IH. cbn [rev prepend app]. rewrite app_nil_r.
      pose proof (pieces_nonempty list_sep s) as Hn.
      destruct (pieces list_sep s) as [|p ps] eqn:P; [congruence|]. cbn [prepend app drop_last_empty]. reflexivity.
    + rewrite IH. pose proof (pieces_nonempty list_sep s) as Hn.
      destruct (pieces list_sep s) as [|p ps] eqn:P; [congruence|].
      cbn [prepend rev]. rewrite <- app_assoc. reflexivity.
Qed.

Lemma tokens_pieces s : exists tail, pieces list_sep s = getline_tokens s [] ++ tail /\ (tail = [] \/ tail = [[]]).
Proof.
  rewrite getline_pieces. cbn [rev]. pose proof (pieces_nonempty list_sep s) as Hn.
  destruct (pieces list_sep s) as [|p ps]; [congruence|]. cbn [prepend app]. clear Hn.
  revert p. induction ps as [|q ps IH]; intros p.
  - cbn. destruct p; [exists [[]]; auto | exists []; auto].
  - destruct (IH q) as (tail & H1 & H2). exists tail. split; auto.
    change (drop_last_empty (p :: q :: ps)) with (p :: drop_last_empty (q :: ps)).
    change ((p :: drop_last_empty (q :: ps)) ++ tail) with (p :: (drop_last_empty (q :: ps) ++ tail)). f_equal. exact H1.
Qed.

(* index_of *)
Lemma index_of_from_spec c s : forall i j, index_of_from c s i = Some j ->
  exists a r, s = a ++ c :: r /\ existsb (Byte.eqb c) a = false /\ j = (i + length a)%nat.
Proof.
  induction s as [|b s IH]; intros i j; cbn; [discriminate|].
  destruct (Byte.eqb b c) eqn:E.
  - intros H. inversion H; subst j. apply byte_eqb_eq in E. subst b. exists [], s. cbn. repeat split; auto; lia.
  - intros H. apply IH in H as (a & r & H1 & H2 & H3). exists (b :: a), r. subst s. cbn.
    assert (E' : Byte.eqb c b = false) by (apply byte_eqb_neq; apply byte_eqb_neq in E; congruence).
    rewrite E', H2. repeat split; auto; lia.
Qed.

Lemma index_of_from_none c s : forall i, index_of_from c s i = None -> existsb (Byte.eqb c) s = false.
Proof.
  induction s as [|b s IH]; intros i; cbn; auto. destruct (Byte.eqb b c) eqn:E; [discriminate|].
  intros H. assert (E' : Byte.eqb c b = false) by (apply byte_eqb_neq; apply byte_eqb_neq in E; congruence).
  rewrite E'. cbn. eauto.
Qed.

Lemma index_of_from_unique c a r : existsb (Byte.eqb c) a = false -> forall i,
  index_of_from c (a ++ c :: r) i = Some (i + length a)%nat.
Proof.
  induction a as [|b a IH]; intros H i; cbn.
  - rewrite byte_eqb_refl. f_equal. lia.
  - cbn in H. apply orb_false_iff in H as [H1 H2].
    assert (E' : Byte.eqb b c = false) by (apply byte_eqb_neq; apply byte_eqb_neq in H1; congruence).
    rewrite E', IH by auto. f_equal. lia.
Qed.

Lemma firstn_app_exact {A} (a b : list A) : firstn (length a) (a ++ b) = a.
Proof. induction a; cbn; [destruct b; reflexivity|]. now f_equal. Qed.
Lemma skipn_app_exact {A} (a b : list A) : skipn (length a) (a ++ b) = b.
Proof. induction a; cbn; auto. Qed.

Lemma skipn_S_app {A} (a : list A) c r : skipn (S (length a)) (a ++ c :: r) = r.
Proof. induction a; cbn; auto. Qed.

(* one piece of the list text, as the specification reads it *)
Definition piece_value (k p : bytes) : option bytes := strip_prefix (k ++ [x3d]) p.

Lemma detect_token_lookup k m p : existsb (Byte.eqb x3d) k = false ->
  lookup k (detect_token m p) = match piece_value k p with Some v => Some (VStr v) | None => lookup k m end.
Proof.
  intros Hk. unfold detect_token, piece_value. change kv_sep with x3d. unfold index_of.
  destruct (index_of_from x3d p 0) as [pos|] eqn:E.
  - apply index_of_from_spec in E as (a & r & Hp & Ha & Hpos). cbn in Hpos. subst pos p.
    rewrite firstn_app_exact, skipn_S_app.
    rewrite lookup_map_set.
    destruct (strip_prefix (k ++ [x3d]) (a ++ x3d :: r)) as [v|] eqn:S.
    + apply strip_prefix_spec in S. rewrite <- app_assoc in S. cbn in S.
      (* both decompositions split at the first '=' *)
      assert (X : index_of_from x3d (a ++ x3d :: r) 0 = Some (0 + length a)%nat) by now apply index_of_from_unique.
      rewrite S in X. rewrite index_of_from_unique in X by auto. inversion X as [L].
      assert (L' : length a = length k) by (cbn in L; lia).
      assert (a = k).
      { pose proof (f_equal (firstn (length a)) S) as S1. rewrite firstn_app_exact in S1. rewrite L' in S1.
        rewrite firstn_app_exact in S1. exact S1. }
      subst a. apply app_inv_head in S. inversion S; subst. now rewrite bytes_eqb_refl.
    + destruct (bytes_eqb k a) eqn:Ek; [|reflexivity]. apply bytes_eqb_eq in Ek. subst a.
      assert (X : strip_prefix (k ++ [x3d]) (k ++ x3d :: r) = Some r).
      { apply strip_prefix_spec. rewrite <- app_assoc. reflexivity. }
      congruence.
  - apply index_of_from_none in E.
    destruct (strip_prefix (k ++ [x3d]) p) as [v|] eqn:S; [|reflexivity].
    apply strip_prefix_spec in S. subst p. rewrite <- app_assoc in E. apply existsb_app_false in E as [_ E].
    cbn in E. discriminate.
Qed.

Lemma detect_token_lookup_eqkey k m p : existsb (Byte.eqb x3d) k = true -> lookup k (detect_token m p) = lookup k m.
Proof.
  intros Hk. unfold detect_token. change kv_sep with x3d. unfold index_of.
  destruct (index_of_from x3d p 0) as [pos|] eqn:E; [|reflexivity].
  apply index_of_from_spec in E as (a & r & Hp & Ha & Hpos). cbn in Hpos. subst pos p.
  rewrite firstn_app_exact, lookup_map_set. destruct (bytes_eqb k a) eqn:Ek; [|reflexivity].
  apply bytes_eqb_eq in Ek. congruence.
Qed.

Lemma nodup_detect_token m p : NoDup (keys m) -> NoDup (keys (detect_token m p)).
Proof. intros H. unfold detect_token. destruct (index_of kv_sep p); auto. now apply nodup_map_set. Qed.

Lemma fold_detect_lookup k l : existsb (Byte.eqb x3d) k = false -> forall m,
  lookup k (fold_left detect_token l m) =
  match fold_left (fun acc p => match piece_value k p with Some v => Some v | None => acc end) l None with
  | Some v => Some (VStr v)
  | None => lookup k m
  end.
Proof.
  intros Hk. induction l as [|p l IH] using rev_ind; intros m.
  - reflexivity.
  - rewrite !fold_left_app. cbn [fold_left]. rewrite detect_token_lookup by auto.
    destruct (piece_value k p); [reflexivity|]. apply IH.
Qed.

Lemma fold_detect_lookup_eqkey k l : existsb (Byte.eqb x3d) k = true -> forall m,
  lookup k (fold_left detect_token l m) = lookup k m.
Proof.
  intros Hk. induction l as [|p l IH]; intros m; cbn [fold_left]; auto.
  rewrite IH. now apply detect_token_lookup_eqkey.
Qed.

Lemma nodup_fold_detect l : forall m, NoDup (keys m) -> NoDup (keys (fold_left detect_token l m)).
Proof. induction l as [|p l IH]; intros m H; cbn; auto. apply IH. now apply nodup_detect_token. Qed.

Lemma env_lookup_tokens s k :
  option_map VStr (env_lookup s k) = lookup k (fold_left detect_token (getline_tokens s []) []).
Proof.
  unfold env_lookup. destruct (existsb (Byte.eqb x3d) k) eqn:Hk.
  - rewrite fold_detect_lookup_eqkey by auto. reflexivity.
  - rewrite fold_detect_lookup by auto.
    destruct (tokens_pieces s) as (tail & H1 & H2). change list_sep with x2c in H1. rewrite H1, fold_left_app.
    fold (piece_value k).
    assert (T : forall acc, fold_left (fun acc p => match strip_prefix (k ++ [x3d]) p with Some v => Some v | None => acc end) tail acc = acc).
    { intros acc. destruct H2 as [->| ->]; cbn; [reflexivity|]. destruct k; reflexivity. }
    rewrite T. unfold piece_value. destruct (fold_left _ (getline_tokens s []) None); reflexivity.
Qed.

(* OTEL_RESOURCE_ATTRIBUTES is a comma separated list of key=value pieces, split at the first '=',
   the last piece for a key wins; OTEL_SERVICE_NAME (when not empty) overrides service.name *)
Theorem detector_spec_proof : forall (ra sn : envv) (k : bytes),
  lookup k (r_attrs (detect ra sn)) = env_says ra sn k /\ r_schema (detect ra sn) = [] /\
  NoDup (keys (r_attrs (detect ra sn))).
Proof.
  intros ra sn k. destruct detector_consts as (_ & _ & Ek & _ & _).
  repeat split.
  - unfold detect, detect_attrs, env_says. cbn [r_attrs]. rewrite !string_spec_proof.
    rewrite Ek.
    destruct (raw_nonempty ra) as [a|]; destruct (raw_nonempty sn) as [n|]; cbn [negb andb].
    + rewrite lookup_map_set. destruct (bytes_eqb k key_service_name); [reflexivity|]. symmetry. apply env_lookup_tokens.
    + destruct (bytes_eqb k key_service_name); symmetry; apply env_lookup_tokens.
    + rewrite lookup_map_set. destruct (bytes_eqb k key_service_name); reflexivity.
    + destruct (bytes_eqb k key_service_name); reflexivity.
  - unfold detect, detect_attrs. cbn [r_attrs]. rewrite !string_spec_proof.
    destruct (raw_nonempty ra) as [a|]; destruct (raw_nonempty sn) as [n|]; cbn [negb andb];
      try apply nodup_map_set; try apply nodup_fold_detect; constructor.
Qed.

Example detector_spec_nonvacuous :
  env_says (Some (bs "a=1,b,=x,c==,a=2,,service.name=s1")) (Some (bs "s2")) (bs "a") = Some (VStr (bs "2")) /\
  env_says (Some (bs "a=1,b,=x,c==,a=2,,service.name=s1")) (Some (bs "s2")) (bs "c") = Some (VStr (bs "=")) /\
  env_says (Some (bs "a=1,b,=x,c==,a=2,,service.name=s1")) (Some (bs "s2")) [] = Some (VStr (bs "x")) /\
  env_says (Some (bs "a=1,b,=x,c==,a=2,,service.name=s1")) (Some (bs "s2")) (bs "b") = None /\
  env_says (Some (bs "a=1,service.name=s1")) (Some (bs "s2")) key_service_name = Some (VStr (bs "s2")) /\
  env_says (Some (bs "a=1,service.name=s1")) (Some []) key_service_name = Some (VStr (bs "s1")).
Proof. repeat split; reflexivity. Qed.

(* pieces really are "the text between the commas" *)
Fixpoint join_with (c : byte) (l : list bytes) : bytes :=
  match l with
  | [] => []
  | [p] => p
  | p :: ps => p ++ c :: join_with c ps
  end.
Theorem pieces_spec_proof : forall c s,
  join_with c (pieces c s) = s /\ Forall (fun p => existsb (Byte.eqb c) p = false) (pieces c s).
Proof.
  intros c s. induction s as [|b s [IH1 IH2]]; cbn.
  - split; [reflexivity|]. constructor; [reflexivity|constructor].
  - destruct (Byte.eqb b c) eqn:E.
    + apply byte_eqb_eq in E. subst b. pose proof (pieces_nonempty c s) as Hn.
      destruct (pieces c s) as [|p ps] eqn:P; [congruence|]. split.
      * cbn. cbn in IH1. now rewrite IH1.
      * constructor; [reflexivity|exact IH2].
    + pose proof (pieces_nonempty c s) as Hn. destruct (pieces c s) as [|p ps] eqn:P; [congruence|]. split.
      * destruct ps; cbn in *; now rewrite IH1.
      * inversion IH2; subst. constructor; auto. cbn.
        assert (E' : Byte.eqb c b = false) by (apply byte_eqb_neq; apply byte_eqb_neq in E; congruence).
        now rewrite E'.
Qed.

(* ================================================================ Create *)

Lemma value_eqb_eq a b : value_eqb a b = true <-> a = b.
Proof.
  destruct a, b; cbn; split; intros H; try discriminate; try (inversion H; fail).
  - apply bytes_eqb_eq in H. now subst.
  - inversion H. apply bytes_eqb_refl.
  - apply Z.eqb_eq in H. now subst.
  - inversion H. apply Z.eqb_refl.
  - apply eqb_prop in H. now subst.
  - inversion H. apply eqb_reflx.
Qed.

Lemma lookup_tlookup k m : lookup k m = tlookup value k m.
Proof. induction m as [|[k' v] m IH]; cbn; auto; try now rewrite IH. Qed.

(* the default resource holds the documented attributes (in whatever order the code lists them) *)
Lemma default_documented k : lookup k (r_attrs default_resource) = lookup k doc_defaults.
Proof. rewrite !lookup_tlookup. apply (tlookup_same value value_eqb value_eqb_eq); reflexivity. Qed.
Lemma default_schema : r_schema default_resource = [].
Proof. reflexivity. Qed.

Lemma lookup_last_binding k l : NoDup (keys l) -> lookup k l = last_binding k l.
Proof.
  induction l as [|[k' v] l IH]; intros N; [reflexivity|]. inversion N as [|? ? N1 N2]; subst.
  rewrite last_binding_cons. cbn [lookup]. rewrite <- (IH N2).
  destruct (bytes_eqb k k') eqn:E; [|destruct (lookup k l); reflexivity].
  apply bytes_eqb_eq in E. subst k'. apply lookup_none_notin in N1. now rewrite N1.
Qed.

Lemma lookup_doc_defaults k : lookup k doc_defaults = last_binding k doc_defaults.
Proof.
  apply lookup_last_binding. cbn. repeat constructor; cbn; intuition discriminate.
Qed.

(* what the three layers say about key k, highest precedence first *)
Definition layered (ra sn : envv) (attrs : amap) (k : bytes) : option value :=
  match lookup k attrs with
  | Some v => Some v
  | None => match env_says ra sn k with
            | Some v => Some v
            | None => lookup k doc_defaults
            end
  end.

Lemma merged_lookup ra sn attrs schema k :
  lookup k (r_attrs (merge (merge default_resource (detect ra sn)) (mk_res attrs schema))) = layered ra sn attrs k.
Proof.
  destruct (merge_spec_proof (merge default_resource (detect ra sn)) (mk_res attrs schema)) as (H & _ & _).
  rewrite H. cbn [r_attrs]. unfold layered. destruct (lookup k attrs); [reflexivity|].
  destruct (merge_spec_proof default_resource (detect ra sn)) as (H' & _ & _). rewrite H'.
  destruct (detector_spec_proof ra sn k) as (D & _ & _). rewrite D.
  destruct (env_says ra sn k); [reflexivity|]. apply default_documented.
Qed.

Lemma merged_schema ra sn attrs schema :
  r_schema (merge (merge default_resource (detect ra sn)) (mk_res attrs schema)) = schema.
Proof. unfold merge. cbn. destruct schema; reflexivity. Qed.

Lemma merged_nodup ra sn attrs schema : NoDup (keys attrs) ->
  NoDup (keys (r_attrs (merge (merge default_resource (detect ra sn)) (mk_res attrs schema)))).
Proof. intros H. apply merge_spec_proof. exact H. Qed.

Definition fallback_name (exe : option value) : value :=
  match exe with
  | Some (VStr e) => VStr (bs "unknown_service" ++ bs ":" ++ e)
  | _ => VStr (bs "unknown_service")
  end.

(* Create, completely: every key is decided by caller > environment > SDK default, and service.name falls
   back to unknown_service[:<executable name, when it is a string>] *)
Theorem create_characterised : forall (ra sn : envv) (attrs : amap) (schema : bytes),
  let r := create ra sn attrs schema in
  r_schema r = schema /\
  (forall k, lookup k (r_attrs r) =
             match layered ra sn attrs k with
             | Some v => Some v
             | None => if bytes_eqb k key_service_name then Some (fallback_name (layered ra sn attrs key_exe_name)) else None
             end).
Proof.
  intros ra sn attrs schema. unfold create.
  destruct detector_consts as (_ & _ & _ & Es & Ee). rewrite Es, Ee.
  rewrite !merged_lookup.
  set (m := merge (merge default_resource (detect ra sn)) (mk_res attrs schema)).
  assert (Hm : forall k, lookup k (r_attrs m) = layered ra sn attrs k) by (intros; apply merged_lookup).
  assert (Hs : r_schema m = schema) by apply merged_schema.
  destruct (layered ra sn attrs key_service_name) as [sv|] eqn:Ls.
  - cbv zeta. split; auto.
    intros k. rewrite Hm. destruct (layered ra sn attrs k) eqn:Lk; [reflexivity|].
    destruct (bytes_eqb k key_service_name) eqn:E; [|reflexivity]. apply bytes_eqb_eq in E. congruence.
  - cbv zeta. cbn [r_schema r_attrs]. split; auto.
    intros k. rewrite lookup_map_set, Hm.
    destruct (bytes_eqb k key_service_name) eqn:E.
    + apply bytes_eqb_eq in E. subst k. rewrite Ls. unfold fallback_name.
      destruct (layered ra sn attrs key_exe_name) as [[e|z|b]|]; reflexivity.
    + destruct (layered ra sn attrs k); reflexivity.
Qed.

Theorem create_precedence_proof : forall ra sn attrs schema,
  let r := create ra sn attrs schema in
  r_schema r = schema /\
  forall k,
    (forall v, lookup k attrs = Some v -> lookup k (r_attrs r) = Some v) /\
    (forall v, lookup k attrs = None -> env_says ra sn k = Some v -> lookup k (r_attrs r) = Some v) /\
    (forall v, lookup k attrs = None -> env_says ra sn k = None -> lookup k doc_defaults = Some v ->
               lookup k (r_attrs r) = Some v) /\
    (lookup k attrs = None -> env_says ra sn k = None -> lookup k doc_defaults = None -> k <> key_service_name ->
     lookup k (r_attrs r) = None).
Proof.
  intros ra sn attrs schema r. destruct (create_characterised ra sn attrs schema) as (C1 & C2). fold r in C1, C2.
  split; auto. intros k. specialize (C2 k). unfold layered in C2.
  repeat split.
  - intros v E. now rewrite E in C2.
  - intros v E1 E2. now rewrite E1, E2 in C2.
  - intros v E1 E2 E3. now rewrite E1, E2, E3 in C2.
  - intros E1 E2 E3 Hk. rewrite E1, E2, E3 in C2. apply bytes_eqb_neq in Hk. now rewrite Hk in C2.
Qed.

(* Create always yields a resource with a service.name: the configured one, else
   unknown_service[:<executable name>] *)
Theorem service_name_always_present_proof : forall ra sn attrs schema,
  exists v, lookup key_service_name (r_attrs (create ra sn attrs schema)) = Some v /\
            (layered ra sn attrs key_service_name = None -> v = fallback_name (layered ra sn attrs key_exe_name)) /\
            (forall w, layered ra sn attrs key_service_name = Some w -> v = w).
Proof.
  intros ra sn attrs schema. destruct (create_characterised ra sn attrs schema) as (_ & C2).
  specialize (C2 key_service_name). rewrite bytes_eqb_refl in C2.
  destruct (layered ra sn attrs key_service_name) as [w|] eqn:L.
  - exists w. repeat split; auto; congruence.
  - eexists. repeat split; eauto. discriminate.
Qed.

(* regression for finding F25 (fixed in eff8d52): a non-string executable name no longer makes Create fail *)
Example f25_regression :
  lookup key_service_name (r_attrs (create None None [(key_exe_name, VInt 7)] [])) = Some (VStr (bs "unknown_service")) /\
  lookup key_exe_name (r_attrs (create None None [(key_exe_name, VInt 7)] [])) = Some (VInt 7).
Proof. split; reflexivity. Qed.

Example create_nonvacuous :
  let r := create (Some (bs "a=1,process.executable.name=prog")) None [(bs "a", VInt 2)] (bs "u") in
  lookup (bs "a") (r_attrs r) = Some (VInt 2) /\
  lookup key_service_name (r_attrs r) = Some (VStr (bs "unknown_service:prog")) /\
  lookup (bs "telemetry.sdk.language") (r_attrs r) = Some (VStr (bs "cpp")) /\ r_schema r = bs "u".
Proof. repeat split; reflexivity. Qed.

(* ================================================================ providers *)
Definition observed (op : pop) : option nat :=
  match op with PE _ i => Some i | PK _ i => Some i | _ => None end.

(* For every script and every state of the meters - so for collections that carry data and for collections that
   carry none alike - the items the exporters / reader callbacks receive are, one per emitting or collecting
   operation and in order, items referencing the resource of the provider the operation went through. *)
Theorem provider_resource_referenced_proof : forall (rs : list resource) (ops : list pop) (st : pstate),
  map (option_map fst) (run_pops rs st ops) =
  map (fun i => option_map (fun r => mk_item_obs (Some i) r) (nth_error rs i))
      (flat_map (fun op => match observed op with Some i => [i] | None => [] end) ops).
Proof.
  intros rs ops. induction ops as [|op ops IH]; intros st; [reflexivity|].
  destruct op as [sg i|i|i|i|d i]; cbn [run_pops pstep flat_map observed app map]; rewrite ?IH; try reflexivity.
  - unfold item_of. destruct (nth_error rs i); reflexivity.
  - unfold item_of. destruct (nth_error rs i); reflexivity.
Qed.

Example provider_resource_referenced_nonvacuous :
  let r0 := mk_res [(bs "a", VInt 1)] [] in
  let r1 := mk_res [(bs "b", VInt 2)] (bs "s") in
  run_emits [r0; r1] [PK false 0; PG 1; PK true 1; PA 1; PK true 1; PK true 1; PE SigSpan 0] =
  [Some (mk_item_obs (Some 0%nat) r0, false); Some (mk_item_obs (Some 1%nat) r1, false);
   Some (mk_item_obs (Some 1%nat) r1, true); Some (mk_item_obs (Some 1%nat) r1, true); Some (mk_item_obs (Some 0%nat) r0, true)].
Proof. reflexivity. Qed.
