(* C18 proofs, part 0: byte sweeps, scanning lemmas, decimal values. *)
From V Require Import C18.Glue.
From Coq Require Import Lia ZifyBool ZifyNat ZifyN.
Local Open Scope Z_scope.

(* ---------------------------------------------------------------- bytes_eqb *)
Lemma byte_eqb_refl b : Byte.eqb b b = true.
Proof. apply Byte.byte_dec_lb. reflexivity. Qed.
Lemma byte_eqb_eq a b : Byte.eqb a b = true <-> a = b.
Proof. split; [apply Byte.byte_dec_bl | intros ->; apply byte_eqb_refl]. Qed.
Lemma byte_eqb_neq a b : Byte.eqb a b = false <-> a <> b.
Proof.
  split.
  - intros H E. subst. rewrite byte_eqb_refl in H. discriminate.
  - intros H. destruct (Byte.eqb a b) eqn:E; auto. apply byte_eqb_eq in E. contradiction.
Qed.

Lemma bytes_eqb_eq a : forall b, bytes_eqb a b = true <-> a = b.
Proof.
  induction a as [|x a IH]; intros [|y b]; cbn; split; intros H; try reflexivity; try discriminate.
  - apply andb_true_iff in H as [H1 H2]. apply byte_eqb_eq in H1. apply IH in H2. now subst.
  - inversion H; subst. rewrite byte_eqb_refl. cbn. now apply IH.
Qed.
Lemma bytes_eqb_refl a : bytes_eqb a a = true.
Proof. now apply bytes_eqb_eq. Qed.
Lemma bytes_eqb_neq a b : bytes_eqb a b = false <-> a <> b.
Proof.
  split.
  - intros H E. subst. rewrite bytes_eqb_refl in H. discriminate.
  - intros H. destruct (bytes_eqb a b) eqn:E; auto. apply bytes_eqb_eq in E. contradiction.
Qed.
Lemma bytes_eqb_sym a b : bytes_eqb a b = bytes_eqb b a.
Proof.
  destruct (bytes_eqb a b) eqn:E.
  - apply bytes_eqb_eq in E. subst. now rewrite bytes_eqb_refl.
  - symmetry. apply bytes_eqb_neq. apply bytes_eqb_neq in E. congruence.
Qed.

(* ---------------------------------------------------------------- character classes (256-sweeps) *)
Lemma digit_range b : isdigit b = true -> 0 <= digit_val b <= 9.
Proof. destruct b; cbn; intros H; try discriminate; lia. Qed.
Lemma digit_val_spec b : digit_val b = Z.of_N (b2n b) - 48.
Proof. reflexivity. Qed.
Lemma digit_not_space b : isdigit b = true -> isspace b = false.
Proof. destruct b; cbn; intros H; try discriminate; reflexivity. Qed.
Lemma digit_not_minus b : isdigit b = true -> Byte.eqb minus_sign b = false.
Proof. destruct b; cbn; intros H; try discriminate; reflexivity. Qed.
Lemma space_not_minus b : isspace b = true -> Byte.eqb minus_sign b = false.
Proof. destruct b; cbn; intros H; try discriminate; reflexivity. Qed.
Lemma digit_not_plus b : isdigit b = true -> Byte.eqb b plus_sign = false.
Proof. destruct b; cbn; intros H; try discriminate; reflexivity. Qed.
Lemma digit_not_minus' b : isdigit b = true -> Byte.eqb b minus_sign = false.
Proof. destruct b; cbn; intros H; try discriminate; reflexivity. Qed.
Lemma space_not_plus b : isspace b = true -> Byte.eqb b plus_sign = false.
Proof. destruct b; cbn; intros H; try discriminate; reflexivity. Qed.
Lemma space_not_minus' b : isspace b = true -> Byte.eqb b minus_sign = false.
Proof. destruct b; cbn; intros H; try discriminate; reflexivity. Qed.

(* ---------------------------------------------------------------- span_of *)
Lemma span_of_spec p s : forall a r, span_of p s = (a, r) ->
  s = a ++ r /\ forallb p a = true /\ match r with [] => True | b :: _ => p b = false end.
Proof.
  induction s as [|b s IH]; cbn; intros a r H.
  - inversion H; subst. auto.
  - destruct (p b) eqn:E.
    + destruct (span_of p s) as [a' r'] eqn:S. inversion H; subst.
      destruct (IH _ _ eq_refl) as (H1 & H2 & H3). subst s. cbn. rewrite E, H2. auto.
    + inversion H; subst. cbn. rewrite E. auto.
Qed.

Lemma span_of_unique p a : forall r, forallb p a = true -> match r with [] => True | b :: _ => p b = false end ->
  span_of p (a ++ r) = (a, r).
Proof.
  induction a as [|x a IH]; cbn; intros r Ha Hr.
  - destruct r as [|b r]; cbn; auto. now rewrite Hr.
  - apply andb_true_iff in Ha as [Hx Ha]. rewrite Hx, (IH r Ha Hr). reflexivity.
Qed.

Lemma drop_ws_skip s : drop_ws s = skip_ws s.
Proof.
  unfold skip_ws. induction s as [|b s IH]; cbn; auto.
  destruct (isspace b); auto. rewrite IH. now destruct (span_of isspace s).
Qed.

Lemma skip_ws_spec s : exists ws, s = ws ++ skip_ws s /\ forallb isspace ws = true /\
  match skip_ws s with [] => True | b :: _ => isspace b = false end.
Proof.
  unfold skip_ws. destruct (span_of isspace s) as [a r] eqn:E.
  destruct (span_of_spec _ _ _ _ E) as (H1 & H2 & H3). exists a. cbn. auto.
Qed.

Lemma skip_ws_unique ws r : forallb isspace ws = true -> match r with [] => True | b :: _ => isspace b = false end ->
  skip_ws (ws ++ r) = r.
Proof. intros. unfold skip_ws. now rewrite span_of_unique. Qed.

(* ---------------------------------------------------------------- decimal values *)
Definition dec_from (acc : Z) (ds : bytes) : Z := fold_left (fun a d => a * 10 + digit_val d) ds acc.

Lemma dec_val_from ds : dec_val ds = dec_from 0 ds.
Proof. reflexivity. Qed.

Lemma dec_from_app acc a b : dec_from acc (a ++ b) = dec_from (dec_from acc a) b.
Proof. unfold dec_from. now rewrite fold_left_app. Qed.

Lemma dec_from_pow acc ds : dec_from acc ds = acc * 10 ^ Z.of_nat (length ds) + dec_from 0 ds.
Proof.
  revert acc. induction ds as [|d ds IH]; intros acc.
  - unfold dec_from. cbn [fold_left length Z.of_nat]. rewrite Z.pow_0_r. lia.
  - change (dec_from acc (d :: ds)) with (dec_from (acc * 10 + digit_val d) ds).
    change (dec_from 0 (d :: ds)) with (dec_from (0 * 10 + digit_val d) ds).
    rewrite IH. rewrite (IH (0 * 10 + digit_val d)).
    replace (Z.of_nat (length (d :: ds))) with (Z.succ (Z.of_nat (length ds))) by (cbn [length]; lia).
    rewrite Z.pow_succ_r by lia. ring.
Qed.

Lemma decimal_snoc ds d : decimal (ds ++ [d]) = decimal ds * 10 + digit_val d.
Proof. unfold decimal. rewrite rev_app_distr. cbn [rev app dec_weighted]. unfold digit_val. lia. Qed.

Lemma dec_val_decimal ds : dec_val ds = decimal ds.
Proof.
  induction ds as [|d ds IH] using rev_ind.
  - reflexivity.
  - rewrite decimal_snoc, <- IH. rewrite !dec_val_from, dec_from_app. reflexivity.
Qed.

Lemma dec_from_nonneg ds : forallb isdigit ds = true -> forall acc, 0 <= acc -> acc <= dec_from acc ds.
Proof.
  induction ds as [|d ds IH]; intros H acc Ha.
  - cbn. lia.
  - cbn in H. apply andb_true_iff in H as [Hd H].
    change (dec_from acc (d :: ds)) with (dec_from (acc * 10 + digit_val d) ds).
    pose proof (digit_range d Hd). specialize (IH H (acc * 10 + digit_val d)). lia.
Qed.

Lemma decimal_nonneg ds : forallb isdigit ds = true -> 0 <= decimal ds.
Proof. intros H. rewrite <- dec_val_decimal, dec_val_from. now apply dec_from_nonneg. Qed.

(* ---------------------------------------------------------------- misc list facts *)
Lemma existsb_app_false {A} (p : A -> bool) a b : existsb p (a ++ b) = false <-> existsb p a = false /\ existsb p b = false.
Proof. rewrite existsb_app. apply orb_false_iff. Qed.

Lemma existsb_false_forall {A} (p q : A -> bool) l :
  (forall x, q x = true -> p x = false) -> forallb q l = true -> existsb p l = false.
Proof.
  intros H. induction l as [|x l IH]; cbn; auto. intros F. apply andb_true_iff in F as [F1 F2].
  rewrite (H _ F1), (IH F2). reflexivity.
Qed.

Lemma all_digits_spec s : all_digits s = true <-> s <> [] /\ forallb isdigit s = true.
Proof.
  unfold all_digits. destruct s; cbn.
  - split; [discriminate | intros [H _]; congruence].
  - split; [intros H; split; [discriminate | exact H] | intros [_ H]; exact H].
Qed.

Lemma all_digits_span s : all_digits s = true <-> exists d ds, span_of isdigit s = (d :: ds, []).
Proof.
  rewrite all_digits_spec. split.
  - intros [Hn Hf]. destruct s as [|d ds]; [congruence|]. exists d, ds.
    rewrite <- (app_nil_r (d :: ds)) at 1. now apply span_of_unique.
  - intros (d & ds & H). apply span_of_spec in H as (H1 & H2 & _). rewrite app_nil_r in H1. subst. split; [discriminate|auto].
Qed.

(* ---------------------------------------------------------------- order-independent comparison of two tables
   (so that re-ordering a table in the code, which changes nothing, does not break the tie to the documented one) *)
Section Tables.
  Variable V : Type.
  Variable veqb : V -> V -> bool.
  Hypothesis veqb_eq : forall a b, veqb a b = true <-> a = b.

  Fixpoint tlookup (u : bytes) (tbl : list (bytes * V)) : option V :=
    match tbl with
    | [] => None
    | (k, f) :: tbl' => if bytes_eqb u k then Some f else tlookup u tbl'
    end.
  Definition pair_eqb (a b : bytes * V) : bool := bytes_eqb (fst a) (fst b) && veqb (snd a) (snd b).
  Definition incl_b (l1 l2 : list (bytes * V)) : bool := forallb (fun x => existsb (pair_eqb x) l2) l1.
  Fixpoint nodup_keys_b (l : list (bytes * V)) : bool :=
    match l with
    | [] => true
    | (k, _) :: l' => negb (existsb (fun p => bytes_eqb k (fst p)) l') && nodup_keys_b l'
    end.

  Lemma tlookup_in u f tbl : tlookup u tbl = Some f -> In (u, f) tbl.
  Proof.
    induction tbl as [|[k g] tbl IH]; cbn; [discriminate|].
    destruct (bytes_eqb u k) eqn:E.
    - apply bytes_eqb_eq in E. subst. intros H. inversion H. now left.
    - intros H. right. auto.
  Qed.

  Lemma in_tlookup u f tbl : nodup_keys_b tbl = true -> In (u, f) tbl -> tlookup u tbl = Some f.
  Proof.
    induction tbl as [|[k g] tbl IH]; cbn; [tauto|].
    intros N [H|H].
    - inversion H; subst. now rewrite bytes_eqb_refl.
    - apply andb_true_iff in N as [N1 N2]. destruct (bytes_eqb u k) eqn:E; [|auto].
      apply bytes_eqb_eq in E. subst k. apply negb_true_iff in N1.
      exfalso. assert (X : existsb (fun p => bytes_eqb u (fst p)) tbl = true).
      { apply existsb_exists. exists (u, f). split; auto. cbn. apply bytes_eqb_refl. }
      congruence.
  Qed.

  Lemma incl_b_in l1 l2 x : incl_b l1 l2 = true -> In x l1 -> In x l2.
  Proof.
    unfold incl_b. rewrite forallb_forall. intros H Hx. specialize (H x Hx).
    apply existsb_exists in H as (y & Hy & E). unfold pair_eqb in E. apply andb_true_iff in E as [E1 E2].
    apply bytes_eqb_eq in E1. apply veqb_eq in E2. destruct x, y. cbn in *. now subst.
  Qed.

  Lemma tlookup_same l1 l2 : nodup_keys_b l1 = true -> nodup_keys_b l2 = true ->
    incl_b l1 l2 = true -> incl_b l2 l1 = true -> forall u, tlookup u l1 = tlookup u l2.
  Proof.
    intros N1 N2 I1 I2 u.
    destruct (tlookup u l1) as [f|] eqn:E1.
    - symmetry. apply in_tlookup; auto. eapply incl_b_in; eauto. now apply tlookup_in.
    - destruct (tlookup u l2) as [g|] eqn:E2; auto.
      apply tlookup_in in E2. eapply incl_b_in in E2; eauto. apply in_tlookup in E2; auto. congruence.
  Qed.
End Tables.
