(* MODEL for C18: sdk/src/common/env_variables.cc (Get{Bool,Uint,Float,Duration,String}EnvironmentVariable,
   GetTimeoutFromString, ConvertTimeout), sdk/src/common/disabled.cc, sdk/src/resource/resource_detector.cc
   (OTELResourceDetector::Detect), sdk/src/resource/resource.cc (Merge, Create, GetDefault) and the way the
   three providers hand their resource to spans / log records / metric batches.
   libc's strtoull(.,.,10) and strtof are modelled explicitly for the "C" locale (grammar, end pointer,
   ERANGE; strtof additionally with correct rounding to binary32 on exact rationals).
   Executable definitions only; literals and tables come from Gen.Consts (= /repo's current text). *)
From V Require Export Base.Bytes Gen.Consts.
Local Open Scope Z_scope.

Definition nb (l : list N) : bytes := map n2b l.

(* ------------------------------------------------------------------ environment *)

(* value of one environment variable: None = not set.  getenv never yields an embedded NUL. *)
Definition envv := option bytes.

(* "!exists || raw_value.empty()" *)
Definition raw_nonempty (v : envv) : option bytes :=
  match v with Some (b :: s) => Some (b :: s) | _ => None end.

(* GetStringEnvironmentVariable: (return, value) *)
Definition get_string (v : envv) : bool * bytes :=
  match v with
  | Some (b :: s) => (true, b :: s)
  | _ => (false, [])
  end.

(* ---- strcasecmp(.,.) == 0 in the C locale *)
Definition tolower (b : byte) : byte := if isupper b then n2b (b2n b + 32) else b.
Fixpoint caseless_eqb (a b : bytes) : bool :=
  match a, b with
  | [], [] => true
  | x :: a', y :: b' => Byte.eqb (tolower x) (tolower y) && caseless_eqb a' b'
  | _, _ => false
  end.

(* GetBoolEnvironmentVariable: (return, value) *)
Fixpoint bool_lookup (s : bytes) (tbl : list (list N * bool * bool)) : bool * bool :=
  match tbl with
  | [] => (snd c18_bool_invalid, fst c18_bool_invalid)
  | (lit, value, ret) :: tbl' => if caseless_eqb s (nb lit) then (ret, value) else bool_lookup s tbl'
  end.
Definition get_bool (v : envv) : bool * bool :=
  match raw_nonempty v with
  | None => (false, false)
  | Some s => bool_lookup s c18_bool_literals
  end.

(* GetSdkDisabled *)
Definition sdk_disabled (v : envv) : bool :=
  let '(ex, value) := get_bool v in if ex then value else false.

Definition nilb (s : bytes) : bool := match s with [] => true | _ => false end.

(* ---- scanning helpers *)
Fixpoint span_of (p : byte -> bool) (s : bytes) : bytes * bytes :=
  match s with
  | b :: s' => if p b then let '(a, r) := span_of p s' in (b :: a, r) else ([], s)
  | [] => ([], [])
  end.
Definition skip_ws (s : bytes) : bytes := snd (span_of isspace s).

Definition digit_val (b : byte) : Z := Z.of_N (b2n b) - 48.
(* value of a digit string, most significant first (Horner) *)
Definition dec_val (ds : bytes) : Z := fold_left (fun a d => a * 10 + digit_val d) ds 0.

Definition minus_sign : byte := x2d.
Definition plus_sign : byte := x2b.

(* ---- strtoull(s, &end, 10): consumed = end - s (0 = no conversion), value, errno == ERANGE *)
Record strtoull_res := mk_su { su_consumed : nat; su_val : Z; su_erange : bool }.
Definition u64_max : Z := 2 ^ 64 - 1.
Definition u32_max : Z := 2 ^ 32 - 1.

Definition strtoull10 (s : bytes) : strtoull_res :=
  let r := skip_ws s in
  let '(neg, r1) := match r with
                    | b :: t => if Byte.eqb b minus_sign then (true, t)
                                else if Byte.eqb b plus_sign then (false, t) else (false, r)
                    | [] => (false, r)
                    end in
  let '(ds, rest) := span_of isdigit r1 in
  match ds with
  | [] => mk_su 0 0 false
  | _ => let n := dec_val ds in
         let consumed := (length s - length rest)%nat in
         if u64_max <? n then mk_su consumed u64_max true
         else mk_su consumed (if neg then (2 ^ 64 - n) mod 2 ^ 64 else n) false
  end.

(* GetUintEnvironmentVariable: (return, value).  errno is cleared before the call, so a stale errno
   of the caller has no influence. *)
Definition get_uint (v : envv) : bool * Z :=
  match raw_nonempty v with
  | None => (false, 0)
  | Some s =>
      let r := strtoull10 s in
      if su_erange r then (false, 0)
      else if negb (Nat.eqb (su_consumed r) (length s)) || (u32_max <? su_val r) || existsb (Byte.eqb minus_sign) s
      then (false, 0)
      else (true, su_val r mod 2 ^ 32)
  end.

(* ---- GetTimeoutFromString.  Rep = int64; arithmetic that would leave int64 is undefined behaviour and
   is reported as DUB so that its absence is a theorem. *)
Definition i64_max : Z := 2 ^ 63 - 1.
Definition fits_i64 (z : Z) : bool := (- 2 ^ 63 <=? z) && (z <=? i64_max).

Inductive dscan := SOk (result : Z) (rest : bytes) | SRange | SUB.
Fixpoint dur_digits (s : bytes) (result : Z) : dscan :=
  match s with
  | b :: s' =>
      if isdigit b then
        let d := digit_val b in
        if (i64_max - d) / 10 <? result then SRange
        else if fits_i64 (result * 10) && fits_i64 (result * 10 + d) then dur_digits s' (result * 10 + d)
        else SUB
      else SOk result s
  | [] => SOk result []
  end.

Fixpoint unit_lookup (u : bytes) (tbl : list (list N * Z)) : option Z :=
  match tbl with
  | [] => None
  | (lit, f) :: tbl' => if bytes_eqb u (nb lit) then Some f else unit_lookup u tbl'
  end.

Inductive dres := DOk (ticks : Z) | DRej | DUB.

(* ConvertTimeout<FromDuration>(count, value) with Ratio::num = f *)
Definition convert_timeout (count f : Z) : dres :=
  if i64_max / f <? count then DRej
  else if fits_i64 (count * f) then DOk (count * f) else DUB.

Definition parse_duration (s : bytes) : dres :=
  match dur_digits (skip_ws s) 0 with
  | SRange => DRej
  | SUB => DUB
  | SOk result unit =>
      if result =? 0 then DRej
      else match unit_lookup unit c18_duration_units with
           | Some f => convert_timeout result f
           | None => DRej
           end
  end.

(* GetDurationEnvironmentVariable(name, value) with value preset to [sentinel] ticks:
   (return, value afterwards); None = undefined behaviour *)
Definition get_duration (v : envv) (sentinel : Z) : option (bool * Z) :=
  match raw_nonempty v with
  | None => Some (false, 0)
  | Some s => match parse_duration s with
              | DOk t => Some (true, t)
              | DRej => Some (false, sentinel)
              | DUB => None
              end
  end.

(* ------------------------------------------------------------------ strtof *)

Definition lower_is (c : string) (b : byte) : bool :=
  match bs c with [x] => Byte.eqb (tolower b) x | _ => false end.

(* does [s] start with the lower-case literal [lit], ignoring case?  returns the rest *)
Fixpoint strip_ci (lit s : bytes) : option bytes :=
  match lit, s with
  | [], _ => Some s
  | x :: lit', y :: s' => if Byte.eqb (tolower y) x then strip_ci lit' s' else None
  | _ :: _, [] => None
  end.

Definition hex_val (ds : bytes) : Z :=
  fold_left (fun a d => a * 16 + match hexval d with Some v => Z.of_N v | None => 0 end) ds 0.
Definition oct_val (ds : bytes) : Z := fold_left (fun a d => a * 8 + digit_val d) ds 0.
Definition isoctal (b : byte) : bool := byte_in 48 55 b.

(* optional exponent part: marker already recognised; [+-]? digits+ ; None = no well-formed exponent *)
Definition exp_part (s : bytes) : option (Z * bytes) :=
  let '(neg, r) := match s with
                   | b :: t => if Byte.eqb b minus_sign then (true, t)
                               else if Byte.eqb b plus_sign then (false, t) else (false, s)
                   | [] => (false, s)
                   end in
  let '(ds, rest) := span_of isdigit r in
  match ds with
  | [] => None
  | _ => Some ((if neg then - dec_val ds else dec_val ds), rest)
  end.

Definition dot : byte := x2e.

Inductive fkind :=
| FDec (m e10 : Z)        (* m * 10^e10, m >= 0 *)
| FHex (m e2 : Z)         (* m * 2^e2,  m >= 0 *)
| FInf
| FNan (payload : option Z).   (* None: the payload's strtoull left errno = ERANGE behind *)

(* digits* [ '.' digits* ] for the digit class [p]: (integer part, fraction part, rest) *)
Definition mantissa (p : byte -> bool) (s : bytes) : bytes * bytes * bytes :=
  let '(ip, r) := span_of p s in
  match r with
  | b :: r' => if Byte.eqb b dot then let '(fp, r2) := span_of p r' in (ip, fp, r2) else (ip, [], r)
  | [] => (ip, [], r)
  end.

(* glibc parses the n-char-sequence of nan(...) with strtoull(seq, &end, 0): the payload is used when all of
   seq was consumed; an overflowing numeric prefix leaves errno = ERANGE behind whether or not it is used *)
Definition nan_payload (seq : bytes) : option Z :=
  let '(v, all) :=
      match seq with
      | z :: rest =>
          if Byte.eqb z x30 then
            match rest with
            | x :: h :: _ =>
                if lower_is "x" x && ishex h then
                  let '(ds, r) := span_of ishex (skipn 1 rest) in (hex_val ds, nilb r)
                else let '(ds, r) := span_of isoctal seq in (oct_val ds, nilb r)
            | _ => let '(ds, r) := span_of isoctal seq in (oct_val ds, nilb r)
            end
          else let '(ds, r) := span_of isdigit seq in (dec_val ds, nilb r && negb (nilb ds))
      | [] => (0, true)
      end in
  if u64_max <? v then None else Some (if all then v else 0).

Definition is_nchar (b : byte) : bool := isalnum b || Byte.eqb b x5f.

(* after sign: (kind, rest); None = no conversion *)
Definition strtof_body (s : bytes) : option (fkind * bytes) :=
  match strip_ci (bs "inf") s with
  | Some r => match strip_ci (bs "inity") r with
              | Some r2 => Some (FInf, r2)
              | None => Some (FInf, r)
              end
  | None =>
  match strip_ci (bs "nan") s with
  | Some r =>
      match r with
      | b :: r' =>
          if Byte.eqb b x28 then
            let '(seq, r2) := span_of is_nchar r' in
            match r2 with
            | c :: r3 => if Byte.eqb c x29 then Some (FNan (nan_payload seq), r3) else Some (FNan (Some 0), r)
            | [] => Some (FNan (Some 0), r)
            end
          else Some (FNan (Some 0), r)
      | [] => Some (FNan (Some 0), r)
      end
  | None =>
  let hex_start :=
      match s with
      | z :: x :: c :: t =>
          Byte.eqb z x30 && lower_is "x" x &&
          (ishex c || (Byte.eqb c dot && match t with d :: _ => ishex d | [] => false end))
      | _ => false
      end in
  if hex_start then
    let '(ip, fp, r) := mantissa ishex (skipn 2 s) in
    let m := hex_val (ip ++ fp) in
    let e0 := - 4 * Z.of_nat (length fp) in
    match r with
    | b :: r' => if lower_is "p" b then
                   match exp_part r' with
                   | Some (e, r2) => Some (FHex m (e0 + e), r2)
                   | None => Some (FHex m e0, r)
                   end
                 else Some (FHex m e0, r)
    | [] => Some (FHex m e0, r)
    end
  else
    let '(ip, fp, r) := mantissa isdigit s in
    match ip ++ fp with
    | [] => None
    | ds =>
        let m := dec_val ds in
        let e0 := - Z.of_nat (length fp) in
        match r with
        | b :: r' => if lower_is "e" b then
                       match exp_part r' with
                       | Some (e, r2) => Some (FDec m (e0 + e), r2)
                       | None => Some (FDec m e0, r)
                       end
                     else Some (FDec m e0, r)
        | [] => Some (FDec m e0, r)
        end
    end
  end end.

Record strtof_res := mk_sf { sf_consumed : nat; sf_neg : bool; sf_kind : fkind }.

Definition strtof_parse (s : bytes) : option strtof_res :=
  let r := skip_ws s in
  let '(neg, r1) := match r with
                    | b :: t => if Byte.eqb b minus_sign then (true, t)
                                else if Byte.eqb b plus_sign then (false, t) else (false, r)
                    | [] => (false, r)
                    end in
  match strtof_body r1 with
  | Some (k, rest) => Some (mk_sf (length s - length rest) neg k)
  | None => None
  end.

(* ---- correct rounding of a positive rational n/d to binary32 (round to nearest even), with the
   range errors glibc reports: overflow, or a tiny (after rounding) inexact result. *)
Definition le_pow2 (e n d : Z) : bool :=            (* 2^e <= n/d *)
  if 0 <=? e then d * 2 ^ e <=? n else d <=? n * 2 ^ (- e).
Definition ilog2q (n d : Z) : Z :=                  (* floor (log2 (n/d)) *)
  let e0 := Z.log2 n - Z.log2 d in
  if le_pow2 e0 n d then e0 else e0 - 1.
(* round_half_even ((n/d) / 2^sh), and whether it was inexact *)
Definition scaled_round (n d sh : Z) : Z * bool :=
  let n' := if 0 <=? sh then n else n * 2 ^ (- sh) in
  let d' := if 0 <=? sh then d * 2 ^ sh else d in
  let q := n' / d' in
  let r := n' mod d' in
  let up := (d' <? 2 * r) || ((d' =? 2 * r) && Z.odd q) in
  ((if up then q + 1 else q), negb (r =? 0)).

(* (bit pattern without sign, ERANGE).  Subnormal results follow glibc 2.36's round_and_return, including
   its quirk that the round bit of the 24-bit intermediate is forgotten when the mantissa is shifted into
   the subnormal position (it only matters for values with exactly 25 significant bits). *)
Definition round_f32 (n d : Z) : Z * bool :=
  let e := ilog2q n d in
  if -126 <=? e then
    let m := fst (scaled_round n d (e - 23)) in
    let ee := if m =? 2 ^ 24 then e + 1 else e in
    let m' := if m =? 2 ^ 24 then 2 ^ 23 else m in
    if 127 <? ee then (0, true) else ((ee + 127) * 2 ^ 23 + (m' - 2 ^ 23), false)
  else
    let shift := -126 - e in
    if 24 <? shift then (0, true)
    else
      let n' := n * 2 ^ (23 - e) in
      let t := n' / d in
      let r := n' mod d in
      let rb := d <=? 2 * r in
      let st := negb (r =? 0) && negb (d =? 2 * r) in
      let is_tiny := negb ((shift =? 1) && rb && (st || Z.odd t) && (t + 1 =? 2 ^ 24)) in
      let rb' := Z.testbit t (shift - 1) in
      let st' := negb (t mod 2 ^ (shift - 1) =? 0) || st in
      let m := t / 2 ^ shift in
      if is_tiny && (rb' || st') then (0, true)
      else ((if rb' && (st' || Z.odd m) then m + 1 else m), false).

Definition ndigits10 (m : Z) : Z := Z.log2 m / 3 + 1.   (* >= number of decimal digits of m *)

(* magnitude: (bits without sign, ERANGE).  Exponents far outside the binary32 range are decided
   without building the power. *)
Definition f32_magnitude (k : fkind) : Z * bool :=
  match k with
  | FInf => (2139095040, false)                       (* 0x7f800000 *)
  | FNan (Some p) => (2143289344 + p mod 2 ^ 22, false)      (* 0x7fc00000 | payload *)
  | FNan None => (0, true)
  | FDec m e10 =>
      if m =? 0 then (0, false)
      else if 40 <? e10 then (0, true)
      else if e10 + ndigits10 m <? -50 then (0, true)
      else if 0 <=? e10 then round_f32 (m * 10 ^ e10) 1 else round_f32 m (10 ^ (- e10))
  | FHex m e2 =>
      if m =? 0 then (0, false)
      else if 200 <? e2 then (0, true)
      else if e2 + Z.log2 m + 1 <? -200 then (0, true)
      else if 0 <=? e2 then round_f32 (m * 2 ^ e2) 1 else round_f32 m (2 ^ (- e2))
  end.

(* GetFloatEnvironmentVariable: (return, IEEE-754 binary32 bit pattern of value) *)
Definition get_float (v : envv) : bool * Z :=
  match raw_nonempty v with
  | None => (false, 0)
  | Some s =>
      match strtof_parse s with
      | None => (false, 0)                              (* actual_end = start <> end *)
      | Some r =>
          let '(bits, erange) := f32_magnitude (sf_kind r) in
          if erange then (false, 0)
          else if negb (Nat.eqb (sf_consumed r) (length s)) then (false, 0)
          else (true, if sf_neg r then bits + 2 ^ 31 else bits)
      end
  end.

(* ------------------------------------------------------------------ resources *)

(* OwnedAttributeValue, as far as the checks construct it *)
Inductive value :=
| VStr (s : bytes)
| VInt (z : Z)        (* int64_t *)
| VBool (b : bool).

Definition value_eqb (a b : value) : bool :=
  match a, b with
  | VStr x, VStr y => bytes_eqb x y
  | VInt x, VInt y => Z.eqb x y
  | VBool x, VBool y => Bool.eqb x y
  | _, _ => false
  end.

(* std::unordered_map<std::string, OwnedAttributeValue>: keys are unique; iteration order is never observed *)
Definition amap := list (bytes * value).

Fixpoint lookup (k : bytes) (m : amap) : option value :=
  match m with
  | [] => None
  | (k', v) :: m' => if bytes_eqb k k' then Some v else lookup k m'
  end.
(* m[k] = v *)
Fixpoint map_set (m : amap) (k : bytes) (v : value) : amap :=
  match m with
  | [] => [(k, v)]
  | (k', v') :: m' => if bytes_eqb k k' then (k', v) :: m' else (k', v') :: map_set m' k v
  end.
(* m.insert({k, v}): keeps an existing entry *)
Definition map_insert (m : amap) (kv : bytes * value) : amap :=
  match lookup (fst kv) m with Some _ => m | None => m ++ [kv] end.
(* the map a caller builds with SetAttribute / operator[] from a list (the last occurrence of a key wins) *)
Definition map_of_list (l : list (bytes * value)) : amap :=
  fold_left (fun m kv => map_set m (fst kv) (snd kv)) l [].

Record resource := mk_res { r_attrs : amap; r_schema : bytes }.

(* a.Merge(b): copy of b's attributes, then insert() of a's (existing keys are kept) *)
Definition merge (a b : resource) : resource :=
  mk_res (fold_left map_insert (r_attrs a) (r_attrs b))
         (if nilb (r_schema b) then r_schema a else r_schema b).

(* Resource::GetDefault() *)
Definition default_resource : resource :=
  mk_res (map_of_list (map (fun kv => (nb (fst kv), VStr (nb (snd kv)))) c18_default_attrs))
         (nb c18_default_schema).

(* ---- OTELResourceDetector::Detect *)
Definition list_sep : byte := n2b c18_list_sep.
Definition kv_sep : byte := n2b c18_kv_sep.

(* while (std::getline(iss, token, ',')): a final empty piece is not produced *)
Fixpoint getline_tokens (s : bytes) (cur : bytes) : list bytes :=
  match s with
  | [] => match cur with [] => [] | _ => [rev cur] end
  | b :: s' => if Byte.eqb b list_sep then rev cur :: getline_tokens s' [] else getline_tokens s' (b :: cur)
  end.

Definition detect_token (m : amap) (token : bytes) : amap :=
  match index_of kv_sep token with
  | Some pos => map_set m (firstn pos token) (VStr (skipn (S pos) token))
  | None => m
  end.

Definition detect_attrs (ra sn : envv) : amap :=
  let '(attributes_exists, attributes_str) := get_string ra in
  let '(service_name_exists, service_name) := get_string sn in
  if negb attributes_exists && negb service_name_exists then []
  else
    let m1 := if attributes_exists then fold_left detect_token (getline_tokens attributes_str []) [] else [] in
    if service_name_exists then map_set m1 (nb c18_key_detector_service_name) (VStr service_name) else m1.

Definition detect (ra sn : envv) : resource := mk_res (detect_attrs ra sn) [].

(* ---- Resource::Create(attributes, schema_url).  The executable name is used for the default service name
   only when it holds a string (repaired in eff8d52; before, any other value type made Create throw). *)
Definition create (ra sn : envv) (attrs : amap) (schema : bytes) : resource :=
  let r := merge (merge default_resource (detect ra sn)) (mk_res attrs schema) in
  match lookup (nb c18_key_service_name) (r_attrs r) with
  | Some _ => r
  | None =>
      let default_service_name :=
          match lookup (nb c18_key_process_executable_name) (r_attrs r) with
          | Some (VStr exe) => nb c18_unknown_service ++ nb c18_unknown_service_sep ++ exe
          | _ => nb c18_unknown_service
          end in
      mk_res (map_set (r_attrs r) (nb c18_key_service_name) (VStr default_service_name)) (r_schema r)
  end.

(* ---- a store of resources driven by a script (so that "operands unchanged" is observable) *)
Inductive rop :=
| RNew (attrs : list (bytes * value)) (schema : bytes)      (* a detector's Create(attributes, schema) *)
| RMerge (i j : nat)                                        (* store[i].Merge(store[j]) *)
| RCreate (attrs : list (bytes * value)) (schema : bytes).  (* Resource::Create *)

(* None entries: an operand of a merge was missing *)
Definition store := list (option resource).

Definition rstep (ra sn : envv) (st : store) (op : rop) : store :=
  st ++ [match op with
         | RNew attrs schema => Some (mk_res (map_of_list attrs) schema)
         | RMerge i j => match nth_error st i, nth_error st j with
                         | Some (Some a), Some (Some b) => Some (merge a b)
                         | _, _ => None
                         end
         | RCreate attrs schema => Some (create ra sn (map_of_list attrs) schema)
         end].
Definition run_rops (ra sn : envv) (ops : list rop) : store := fold_left (rstep ra sn) ops [].

(* ---- canonical (key-sorted) listing of a map, as both drivers print it *)
Fixpoint bytes_ltb (a b : bytes) : bool :=
  match a, b with
  | [], [] => false
  | [], _ :: _ => true
  | _ :: _, [] => false
  | x :: a', y :: b' => (b2n x <? b2n y)%N || ((b2n x =? b2n y)%N && bytes_ltb a' b')
  end.
Fixpoint insert_sorted (kv : bytes * value) (l : amap) : amap :=
  match l with
  | [] => [kv]
  | kv' :: l' => if bytes_ltb (fst kv') (fst kv) then kv' :: insert_sorted kv l' else kv :: l
  end.
Definition sort_map (m : amap) : amap := fold_right insert_sorted [] m.

(* ---- providers: provider [i] is constructed with resource [nth i rs] (the providers copy it) and, for
   metrics, two readers (cumulative and delta).  A script drives them; every item an exporter / reader
   callback receives - a span, a log record, a metric batch, INCLUDING batches without any data - is
   observed as (index of the provider whose GetResource() object it references, that resource, has data?). *)
Inductive signal := SigSpan | SigLog | SigMetric.
Record pitem := mk_item_obs { p_ref : option nat; p_res : resource }.
Inductive pop :=
| PE (sg : signal) (i : nat)       (* span / log record through provider i (sg = SigSpan | SigLog) *)
| PG (i : nat)                     (* GetMeter only *)
| PI (i : nat)                     (* GetMeter + create the counter, no measurement *)
| PA (i : nat)                     (* counter.Add(1) (creating meter and counter when needed) *)
| PK (delta : bool) (i : nat).     (* reader.Collect on the cumulative / delta reader *)

(* per provider: number of measurements so far.  A collection has data iff the provider's counter has ever
   been incremented - for the delta reader too (it reports a point for a known series in every cycle). *)
Definition pstate := list nat.
Fixpoint upd_nth {A} (n : nat) (f : A -> A) (l : list A) : list A :=
  match l, n with
  | [], _ => []
  | x :: l', O => f x :: l'
  | x :: l', S n' => x :: upd_nth n' f l'
  end.

Definition item_of (rs : list resource) (i : nat) (has_data : bool) : option (pitem * bool) :=
  match nth_error rs i with
  | Some r => Some (mk_item_obs (Some i) r, has_data)
  | None => None
  end.

(* new state, observations made by this operation (none or one) *)
Definition pstep (rs : list resource) (st : pstate) (op : pop) : pstate * list (option (pitem * bool)) :=
  match op with
  | PE _ i => (st, [item_of rs i true])
  | PG _ | PI _ => (st, [])
  | PA i => (upd_nth i S st, [])
  | PK _ i => (st, [item_of rs i (negb (Nat.eqb (nth i st O) O))])
  end.
Fixpoint run_pops (rs : list resource) (st : pstate) (ops : list pop) : list (option (pitem * bool)) :=
  match ops with
  | [] => []
  | op :: ops' => let '(st', o) := pstep rs st op in o ++ run_pops rs st' ops'
  end.
Definition run_emits (rs : list resource) (ops : list pop) : list (option (pitem * bool)) :=
  run_pops rs (map (fun _ => O) rs) ops.

(* sdk::{trace,metrics,logs}::Provider::Set*Provider(p): is p installed as the global provider? *)
Definition provider_installed (disabled_var : envv) : bool := negb (sdk_disabled disabled_var).
