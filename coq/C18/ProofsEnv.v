(* C18 proofs, part 1: the environment readers (bool, uint, duration, string) equal the documented syntaxes. *)
From V Require Import C18.Glue C18.ProofsBase.
From Coq Require Import Lia ZifyBool ZifyNat ZifyN.
Local Open Scope Z_scope.

(* ================================================================ booleans *)

Definition ci_table : list (byte * byte) :=
  [(x74, x54); (x72, x52); (x75, x55); (x65, x45); (x66, x46); (x61, x41); (x6c, x4c); (x73, x53)].

Lemma tolower_match b lo up : In (lo, up) ci_table ->
  Byte.eqb (tolower b) (tolower lo) = Byte.eqb b lo || Byte.eqb b up.
Proof.
  intros H. cbn in H.
  repeat (destruct H as [H|H]; [inversion H; subst; clear H; destruct b; reflexivity|]).
  contradiction.
Qed.

Lemma caseless_ci lit : (forall p, In p lit -> In p ci_table) ->
  forall s, caseless_eqb s (map fst lit) = ci_is s lit.
Proof.
  induction lit as [|[lo up] lit IH]; intros Hin s.
  - destruct s; reflexivity.
  - destruct s as [|b s]; [reflexivity|].
    cbn [map fst caseless_eqb ci_is]. rewrite (tolower_match b lo up) by (apply Hin; now left).
    rewrite IH; [reflexivity|]. intros p Hp. apply Hin. now right.
Qed.

Lemma lit_true_in p : In p lit_true -> In p ci_table.
Proof. cbn. intuition. Qed.
Lemma lit_false_in p : In p lit_false -> In p ci_table.
Proof. cbn. intuition. Qed.

(* the literals and results the code uses are the documented ones *)
Lemma bool_consts :
  c18_bool_literals = [([116; 114; 117; 101]%N, true, true); ([102; 97; 108; 115; 101]%N, false, true)] /\
  c18_bool_invalid = (false, true).
Proof. split; reflexivity. Qed.

Lemma get_bool_eq (v : envv) :
  get_bool v = match raw_nonempty v with
               | None => (false, false)
               | Some s => match spec_bool s with Some b => (true, b) | None => (true, false) end
               end.
Proof.
  unfold get_bool. destruct (raw_nonempty v) as [s|]; [|reflexivity].
  destruct bool_consts as [E1 E2]. rewrite E1. cbn [bool_lookup]. rewrite E2. cbn [fst snd].
  change (nb [116; 114; 117; 101]%N) with (map fst lit_true).
  change (nb [102; 97; 108; 115; 101]%N) with (map fst lit_false).
  rewrite (caseless_ci lit_true lit_true_in), (caseless_ci lit_false lit_false_in).
  unfold spec_bool. destruct (ci_is s lit_true); [reflexivity|]. destruct (ci_is s lit_false); reflexivity.
Qed.

(* the text is the word [lit] up to letter case *)
Definition word_ci (s : bytes) (lit : list (byte * byte)) : Prop :=
  Forall2 (fun b p => b = fst p \/ b = snd p) s lit.

Lemma ci_is_spec lit : forall s, ci_is s lit = true <-> word_ci s lit.
Proof.
  induction lit as [|[lo up] lit IH]; intros [|b s]; cbn; split; intros H; try discriminate; try constructor;
    try (inversion H; fail).
  - apply andb_true_iff in H as [H _]. apply orb_true_iff in H. cbn. destruct H as [H|H]; apply byte_eqb_eq in H; auto.
  - apply andb_true_iff in H as [_ H]. now apply IH.
  - inversion H as [|? ? ? ? H1 H2]; subst. apply andb_true_iff. split.
    + apply orb_true_iff. cbn in H1. destruct H1 as [->| ->]; rewrite byte_eqb_refl; auto.
    + now apply IH.
Qed.

Lemma spec_bool_true s : spec_bool s = Some true <-> word_ci s lit_true.
Proof.
  unfold spec_bool. rewrite <- ci_is_spec. destruct (ci_is s lit_true); [tauto|].
  destruct (ci_is s lit_false); split; congruence.
Qed.

Lemma word_ci_length s lit : word_ci s lit -> length s = length lit.
Proof. induction 1; cbn; auto. Qed.

Lemma spec_bool_false s : spec_bool s = Some false <-> word_ci s lit_false.
Proof.
  unfold spec_bool. rewrite <- (ci_is_spec lit_false). destruct (ci_is s lit_true) eqn:E.
  - apply ci_is_spec, word_ci_length in E. split; [discriminate|]. intros H. apply ci_is_spec, word_ci_length in H.
    rewrite E in H. discriminate.
  - destruct (ci_is s lit_false); split; congruence.
Qed.

Theorem bool_spec_proof : forall v : envv,
  (raw_nonempty v = None -> get_bool v = (false, false)) /\
  (forall s, raw_nonempty v = Some s ->
     (word_ci s lit_true -> get_bool v = (true, true)) /\
     (word_ci s lit_false -> get_bool v = (true, false)) /\
     (~ word_ci s lit_true -> ~ word_ci s lit_false -> get_bool v = (true, false))).
Proof.
  intros v. rewrite get_bool_eq. split.
  - intros ->. reflexivity.
  - intros s ->. repeat split.
    + intros H. apply spec_bool_true in H. now rewrite H.
    + intros H. apply spec_bool_false in H. now rewrite H.
    + intros H1 H2. destruct (spec_bool s) as [[|]|] eqn:E; auto.
      apply spec_bool_true in E. contradiction.
Qed.

Example bool_spec_nonvacuous : word_ci (bs "tRuE") lit_true /\ word_ci (bs "FALSE") lit_false /\ ~ word_ci (bs "true ") lit_true.
Proof.
  repeat split.
  - apply ci_is_spec. reflexivity.
  - apply ci_is_spec. reflexivity.
  - intros H. apply ci_is_spec in H. discriminate.
Qed.

(* GetSdkDisabled / the sdk provider helpers *)
Theorem sdk_disabled_proof : forall v : envv,
  (sdk_disabled v = true <-> exists s, raw_nonempty v = Some s /\ word_ci s lit_true) /\
  provider_installed v = negb (sdk_disabled v).
Proof.
  intros v. split; [|reflexivity].
  unfold sdk_disabled. rewrite get_bool_eq. destruct (raw_nonempty v) as [s|].
  - destruct (spec_bool s) as [[|]|] eqn:E; cbn.
    + split; [|reflexivity]. intros _. exists s. split; auto. now apply spec_bool_true.
    + split; [discriminate|]. intros (s' & H1 & H2). inversion H1; subst. apply spec_bool_true in H2. congruence.
    + split; [discriminate|]. intros (s' & H1 & H2). inversion H1; subst. apply spec_bool_true in H2. congruence.
  - cbn. split; [discriminate|]. intros (s' & H1 & _). discriminate.
Qed.

(* ================================================================ strings *)
Theorem string_spec_proof : forall v : envv,
  get_string v = match raw_nonempty v with Some s => (true, s) | None => (false, []) end.
Proof. intros [[|b s]|]; reflexivity. Qed.

(* ================================================================ unsigned integers *)

(* the documented syntax: optional white space, optional '+', decimal digits *)
Definition uint_text (s : bytes) (v : Z) : Prop :=
  exists ws sg ds, s = ws ++ sg ++ ds /\ forallb isspace ws = true /\ (sg = [] \/ sg = [plus_sign]) /\
                   ds <> [] /\ forallb isdigit ds = true /\ v = decimal ds.

Lemma minus_in_suffix ws r : existsb (Byte.eqb minus_sign) r = true -> existsb (Byte.eqb minus_sign) (ws ++ r) = true.
Proof. intros H. rewrite existsb_app, H. apply orb_true_r. Qed.

Lemma no_minus_ws ws : forallb isspace ws = true -> existsb (Byte.eqb minus_sign) ws = false.
Proof. apply existsb_false_forall. apply space_not_minus. Qed.
Lemma no_minus_digits ds : forallb isdigit ds = true -> existsb (Byte.eqb minus_sign) ds = false.
Proof. apply existsb_false_forall. apply digit_not_minus. Qed.

(* what the reader does once the sign is dealt with: [t] is the text after white space and an optional '+' *)
Lemma uint_tail (s ws sg t : bytes) :
  s = ws ++ sg ++ t -> s <> [] -> forallb isspace ws = true -> (sg = [] \/ sg = [plus_sign]) ->
  (let '(ds, rest) := span_of isdigit t in
   match ds with
   | [] => (false, 0)
   | _ => let n := dec_val ds in
          let consumed := (length s - length rest)%nat in
          let r := if u64_max <? n then mk_su consumed u64_max true else mk_su consumed n false in
          if su_erange r then (false, 0)
          else if negb (Nat.eqb (su_consumed r) (length s)) || (u32_max <? su_val r) || existsb (Byte.eqb minus_sign) s
          then (false, 0) else (true, su_val r mod 2 ^ 32)
   end) = match (if all_digits t then (if decimal t <=? 4294967295 then Some (decimal t) else None) else None) with
          | Some n => (true, n)
          | None => (false, 0)
          end.
Proof.
  intros Hs Hne Hws Hsg. cbv zeta.
  destruct (span_of isdigit t) as [ds rest] eqn:E.
  destruct (span_of_spec _ _ _ _ E) as (Ht & Hds & Hrest).
  destruct ds as [|d ds].
  - (* no digits *)
    destruct (all_digits t) eqn:A; [|reflexivity].
    apply all_digits_span in A as (d & ds & A). rewrite A in E. discriminate.
  - destruct rest as [|c rest].
    + (* everything is digits *)
      rewrite app_nil_r in Ht. subst t.
      assert (A : all_digits (d :: ds) = true) by (apply all_digits_spec; split; [discriminate|exact Hds]).
      rewrite A. rewrite dec_val_decimal.
      pose proof (decimal_nonneg _ Hds) as Hnn.
      assert (Hnm : existsb (Byte.eqb minus_sign) s = false).
      { subst s. apply existsb_app_false. split; [now apply no_minus_ws|].
        apply existsb_app_false. split; [|now apply no_minus_digits].
        destruct Hsg as [->| ->]; reflexivity. }
      cbn [length]. rewrite Nat.sub_0_r.
      unfold u64_max, u32_max.
      destruct (2 ^ 64 - 1 <? decimal (d :: ds)) eqn:E64; cbn [su_erange su_consumed su_val].
      * destruct (decimal (d :: ds) <=? 4294967295) eqn:E32; [lia|reflexivity].
      * rewrite Nat.eqb_refl, Hnm. cbn [negb orb].
        destruct (2 ^ 32 - 1 <? decimal (d :: ds)) eqn:E32'; destruct (decimal (d :: ds) <=? 4294967295) eqn:E32; try lia; try reflexivity.
        rewrite Z.mod_small by lia. reflexivity.
    + (* trailing text after the digits *)
      assert (A : all_digits t = false).
      { destruct (all_digits t) eqn:A; auto. apply all_digits_span in A as (d' & ds' & A). rewrite A in E. discriminate. }
      rewrite A.
      assert (Hlen : (length s - length (c :: rest))%nat <> length s).
      { subst s t. rewrite !app_length. cbn [length]. lia. }
      apply Nat.eqb_neq in Hlen.
      destruct (u64_max <? dec_val (d :: ds)); cbn [su_erange su_consumed su_val]; [reflexivity|].
      rewrite Hlen. reflexivity.
Qed.

Theorem get_uint_eq (v : envv) :
  get_uint v = match raw_nonempty v with
               | None => (false, 0)
               | Some s => match spec_uint s with Some n => (true, n) | None => (false, 0) end
               end.
Proof.
  unfold get_uint. destruct (raw_nonempty v) as [s|] eqn:Ev; [|reflexivity].
  assert (Hne : s <> []) by (destruct v as [[|b t]|]; cbn in Ev; inversion Ev; discriminate).
  assert (Hz : (0 =? length s)%nat = false) by (destruct s; [congruence|reflexivity]).
  unfold spec_uint, strtoull10. rewrite drop_ws_skip.
  destruct (skip_ws_spec s) as (ws & Hs & Hws & Hhd).
  destruct (skip_ws s) as [|b t] eqn:Er.
  - (* only white space *)
    cbn [span_of all_digits nilb negb andb su_erange su_consumed su_val].
    destruct s; [congruence|]. reflexivity.
  - destruct (Byte.eqb b minus_sign) eqn:Em.
    + (* a minus sign: never accepted *)
      apply byte_eqb_eq in Em. subst b.
      assert (Hm : existsb (Byte.eqb minus_sign) s = true).
      { rewrite Hs. apply minus_in_suffix. cbn. reflexivity. }
      change (Byte.eqb minus_sign x2b) with false. cbn iota.
      assert (A : all_digits (minus_sign :: t) = false) by reflexivity. rewrite A.
      destruct (span_of isdigit t) as [ds rest].
      destruct ds as [|d ds]; [cbn [su_erange su_consumed su_val]; rewrite Hm, !orb_true_r; reflexivity|].
      destruct (u64_max <? dec_val (d :: ds)); cbn [su_erange su_consumed su_val]; [reflexivity|].
      rewrite Hm. rewrite !orb_true_r. reflexivity.
    + destruct (Byte.eqb b plus_sign) eqn:Ep.
      * apply byte_eqb_eq in Ep. subst b. change (Byte.eqb plus_sign x2b) with true. cbn iota.
        pose proof (uint_tail s ws [plus_sign] t Hs Hne Hws (or_intror eq_refl)) as H. cbv zeta in H.
        destruct (span_of isdigit t) as [ds rest].
        destruct ds as [|d ds]; [cbn [su_erange su_consumed su_val]; rewrite Hz; exact H|].
        rewrite <- H. destruct (u64_max <? dec_val (d :: ds)); reflexivity.
      * assert (Ep' : Byte.eqb b x2b = false) by exact Ep. rewrite Ep'.
        pose proof (uint_tail s ws [] (b :: t) Hs Hne Hws (or_introl eq_refl)) as H. cbv zeta in H.
        destruct (span_of isdigit (b :: t)) as [ds rest].
        destruct ds as [|d ds]; [cbn [su_erange su_consumed su_val]; rewrite Hz; exact H|].
        rewrite <- H. destruct (u64_max <? dec_val (d :: ds)); reflexivity.
Qed.

(* spec_uint is the documented syntax with the 32-bit bound *)
Lemma spec_uint_iff s v : spec_uint s = Some v <-> uint_text s v /\ v <= 4294967295.
Proof.
  unfold spec_uint. rewrite drop_ws_skip.
  destruct (skip_ws_spec s) as (ws & Hs & Hws & Hhd).
  set (b := skip_ws s) in *.
  set (d := match b with c :: t => if Byte.eqb c x2b then t else b | [] => b end).
  assert (Hd : exists sg, b = sg ++ d /\ (sg = [] \/ sg = [plus_sign])).
  { unfold d. destruct b as [|c t]; [exists []; auto|]. destruct (Byte.eqb c x2b) eqn:E.
    - apply byte_eqb_eq in E. subst c. exists [plus_sign]. auto.
    - exists []. auto. }
  destruct Hd as (sg & Hb & Hsg).
  split.
  - destruct (all_digits d) eqn:A; [|discriminate].
    destruct (decimal d <=? 4294967295) eqn:E; [|discriminate]. intros H. inversion H; subst v. split; [|lia].
    apply all_digits_spec in A as [A1 A2]. exists ws, sg, d. rewrite <- Hb. repeat split; auto.
  - intros [(ws' & sg' & ds & Hs' & Hws' & Hsg' & Hne & Hds & Hv) Hle].
    (* the decomposition is unique *)
    assert (Hb' : b = sg' ++ ds).
    { unfold b. rewrite Hs'. apply skip_ws_unique; auto.
      destruct Hsg' as [->| ->]; cbn.
      - destruct ds as [|x ds]; [congruence|]. cbn in Hds. apply andb_true_iff in Hds as [Hx _]. now apply digit_not_space.
      - reflexivity. }
    assert (Hdd : d = ds).
    { unfold d. rewrite Hb'. destruct Hsg' as [->| ->]; cbn.
      - destruct ds as [|x ds]; [congruence|]. cbn in Hds. apply andb_true_iff in Hds as [Hx _].
        assert (E : Byte.eqb x x2b = false) by (now apply digit_not_plus). rewrite E. reflexivity.
      - reflexivity. }
    rewrite Hdd. assert (A : all_digits ds = true) by (apply all_digits_spec; auto). rewrite A.
    subst v. destruct (decimal ds <=? 4294967295) eqn:E; [reflexivity|lia].
Qed.

Theorem uint_spec_proof : forall (v : envv),
  (raw_nonempty v = None -> get_uint v = (false, 0)) /\
  (forall s, raw_nonempty v = Some s ->
     (forall n, get_uint v = (true, n) <-> uint_text s n /\ n <= 2 ^ 32 - 1) /\
     ((forall n, ~ (uint_text s n /\ n <= 2 ^ 32 - 1)) -> get_uint v = (false, 0))).
Proof.
  intros v. rewrite get_uint_eq. split; [intros ->; reflexivity|].
  intros s ->. change (2 ^ 32 - 1) with 4294967295. split.
  - intros n. rewrite <- spec_uint_iff. destruct (spec_uint s); split; congruence.
  - intros H. destruct (spec_uint s) as [n|] eqn:E; [|reflexivity]. apply spec_uint_iff in E. now apply H in E.
Qed.

Example uint_spec_nonvacuous :
  uint_text (bs " +4294967295") 4294967295 /\ get_uint (Some (bs " +4294967295")) = (true, 4294967295) /\
  get_uint (Some (bs "4294967296")) = (false, 0) /\ get_uint (Some (bs "-18446744073709551615")) = (false, 0) /\
  get_uint (Some (bs "18446744073709551616")) = (false, 0) /\ get_uint (Some (bs "42 ")) = (false, 0).
Proof.
  repeat split; try reflexivity.
  exists [x20], [plus_sign], (bs "4294967295"). repeat split; auto. discriminate.
Qed.

(* ================================================================ durations *)

Lemma div_lt_iff a d r : 0 <= r -> 0 <= d <= 9 -> ((a - d) / 10 <? r) = (a <? r * 10 + d).
Proof. intros Hr Hd. lia. Qed.

Lemma div_lt_iff' M f n : 1 <= f -> 0 <= n -> (M / f <? n) = (M <? n * f).
Proof.
  intros Hf Hn. pose proof (Z.div_mod M f ltac:(lia)) as E. pose proof (Z.mod_pos_bound M f ltac:(lia)) as B.
  set (q := M / f) in *. set (m := M mod f) in *.
  destruct (q <? n) eqn:Q; symmetry.
  - apply Z.ltb_lt. apply Z.ltb_lt in Q. nia.
  - apply Z.ltb_ge. apply Z.ltb_ge in Q. nia.
Qed.

(* the digit loop: never undefined, and equal to "value of the digit run, if it fits" *)
Lemma dur_digits_eq : forall r acc, 0 <= acc <= i64_max ->
  dur_digits r acc =
  let '(ds, rest) := span_of isdigit r in
  if dec_from acc ds <=? i64_max then SOk (dec_from acc ds) rest else SRange.
Proof.
  induction r as [|b r IH]; intros acc Hacc.
  - cbn [dur_digits span_of]. unfold dec_from. cbn [fold_left]. destruct (acc <=? i64_max) eqn:E; [reflexivity|lia].
  - cbn [dur_digits span_of]. destruct (isdigit b) eqn:Hb.
    + pose proof (digit_range b Hb) as Hd.
      destruct (span_of isdigit r) as [ds rest] eqn:S.
      rewrite div_lt_iff by lia.
      change (dec_from acc (b :: ds)) with (dec_from (acc * 10 + digit_val b) ds).
      destruct (span_of_spec _ _ _ _ S) as (_ & Hds & _).
      destruct (i64_max <? acc * 10 + digit_val b) eqn:E.
      * pose proof (dec_from_nonneg ds Hds (acc * 10 + digit_val b)).
        destruct (dec_from (acc * 10 + digit_val b) ds <=? i64_max) eqn:E2; [lia|reflexivity].
      * assert (F : fits_i64 (acc * 10) && fits_i64 (acc * 10 + digit_val b) = true).
        { unfold fits_i64, i64_max in *. lia. }
        rewrite F. rewrite IH by lia. reflexivity.
    + unfold dec_from. cbn [fold_left]. destruct (acc <=? i64_max) eqn:E; [reflexivity|lia].
Qed.

(* association by bytes_eqb, first match *)
Definition assoc : bytes -> list (bytes * Z) -> option Z := tlookup Z.

Lemma unit_lookup_assoc u tbl : unit_lookup u tbl = assoc u (map (fun p => (nb (fst p), snd p)) tbl).
Proof. induction tbl as [|[l f] tbl IH]; cbn; auto. now rewrite IH. Qed.

(* the unit table the code uses is the documented one (in whatever order the code tests the units) *)
Lemma unit_table_documented u : assoc u (map (fun p => (nb (fst p), snd p)) c18_duration_units) = assoc u doc_units.
Proof. apply (tlookup_same Z Z.eqb Z.eqb_eq); reflexivity. Qed.

Lemma strip_prefix_spec p : forall s r, strip_prefix p s = Some r <-> s = p ++ r.
Proof.
  induction p as [|x p IH]; intros s r; cbn.
  - split; [intros H; now inversion H | intros ->; reflexivity].
  - destruct s as [|y s]; [split; discriminate|].
    destruct (Byte.eqb x y) eqn:E.
    + apply byte_eqb_eq in E. subst y. rewrite IH. split; [intros ->; reflexivity | intros H; now inversion H].
    + apply byte_eqb_neq in E. split; [discriminate | intros H; inversion H; congruence].
Qed.

Lemma strip_suffix_spec u s p : strip_suffix u s = Some p <-> s = p ++ u.
Proof.
  unfold strip_suffix. destruct (strip_prefix (rev u) (rev s)) as [r|] eqn:E; cbn.
  - apply strip_prefix_spec in E. split.
    + intros H. inversion H; subst p. rewrite <- (rev_involutive s), E, rev_app_distr, rev_involutive. reflexivity.
    + intros ->. rewrite rev_app_distr in E. apply app_inv_head in E. subst r. now rewrite rev_involutive.
  - split; [discriminate|]. intros ->. rewrite rev_app_distr in E.
    assert (X : strip_prefix (rev u) (rev u ++ rev p) = Some (rev p)) by now apply strip_prefix_spec. congruence.
Qed.

Definition nondigit_head (u : bytes) : Prop := match u with [] => True | b :: _ => isdigit b = false end.

Lemma dur_candidates_eq : forall units, (forall u f, In (u, f) units -> nondigit_head u) ->
  forall body ds rest, span_of isdigit body = (ds, rest) ->
  dur_candidates body units = if nilb ds then None else option_map (fun f => decimal ds * f) (assoc rest units).
Proof.
  induction units as [|[u f] units IH]; intros Hu body ds rest S.
  - cbn. destruct (nilb ds); reflexivity.
  - destruct (span_of_spec _ _ _ _ S) as (Hb & Hds & Hrest).
    assert (IH' := IH (fun u f H => Hu u f (or_intror H)) body ds rest S).
    unfold assoc. cbn [dur_candidates tlookup]. fold assoc.
    destruct (strip_suffix u body) as [p|] eqn:E.
    + apply strip_suffix_spec in E.
      destruct (all_digits p) eqn:A.
      * apply all_digits_spec in A as [A1 A2].
        assert (S' : span_of isdigit (p ++ u) = (p, u)) by (apply span_of_unique; auto; apply (Hu u f); now left).
        rewrite <- E, S in S'. inversion S'; subst ds rest.
        destruct p; [congruence|]. cbn [nilb]. rewrite bytes_eqb_refl. reflexivity.
      * rewrite IH'. destruct (bytes_eqb rest u) eqn:R; [|reflexivity].
        apply bytes_eqb_eq in R. subst rest. rewrite Hb in E. apply app_inv_tail in E. subst p.
        destruct ds as [|d ds]; [reflexivity|].
        assert (all_digits (d :: ds) = true) by (apply all_digits_spec; split; [discriminate|auto]). congruence.
    + rewrite IH'. destruct (bytes_eqb rest u) eqn:R; [|reflexivity].
      apply bytes_eqb_eq in R. subst rest.
      assert (X : strip_suffix u body = Some ds) by (apply strip_suffix_spec; auto). congruence.
Qed.

Lemma doc_units_nondigit u f : In (u, f) doc_units -> nondigit_head u.
Proof. cbn. intros H. repeat (destruct H as [H|H]; [inversion H; subst; reflexivity|]). contradiction. Qed.

Lemma doc_units_pos u f : assoc u doc_units = Some f -> 1 <= f.
Proof.
  cbn. repeat (match goal with |- (if ?c then _ else _) = _ -> _ => destruct c; [intros H; inversion H; lia|] end).
  discriminate.
Qed.

Theorem parse_duration_eq s :
  parse_duration s = match spec_duration s with Some t => DOk t | None => DRej end.
Proof.
  unfold parse_duration, spec_duration, spec_duration_value.
  rewrite dur_digits_eq by (unfold i64_max; lia). rewrite drop_ws_skip.
  destruct (span_of isdigit (skip_ws s)) as [ds rest] eqn:S.
  rewrite (dur_candidates_eq doc_units doc_units_nondigit _ _ _ S).
  destruct (span_of_spec _ _ _ _ S) as (_ & Hds & _).
  change (dec_from 0 ds) with (dec_val ds). rewrite dec_val_decimal.
  pose proof (decimal_nonneg ds Hds) as Hnn.
  change 9223372036854775807 with i64_max.
  destruct ds as [|d ds].
  - change (decimal []) with 0. cbn. reflexivity.
  - cbn [nilb]. set (n := decimal (d :: ds)) in *.
    destruct (n <=? i64_max) eqn:E1.
    + rewrite unit_lookup_assoc, unit_table_documented.
      destruct (assoc rest doc_units) as [f|] eqn:Ef; cbn [option_map].
      * pose proof (doc_units_pos _ _ Ef) as Hf.
        destruct (n =? 0) eqn:E0.
        -- assert (n = 0) by lia. replace (n * f) with 0 by lia. reflexivity.
        -- unfold convert_timeout.
           assert (Hdiv : (i64_max / f <? n) = (i64_max <? n * f)) by (apply div_lt_iff'; lia).
           rewrite Hdiv.
           destruct (i64_max <? n * f) eqn:E2.
           ++ assert (X : (0 <? n * f) && (n * f <=? i64_max) = false) by lia. rewrite X. reflexivity.
           ++ assert (X : (0 <? n * f) && (n * f <=? i64_max) = true) by nia. rewrite X.
              assert (Y : fits_i64 (n * f) = true) by (unfold fits_i64, i64_max in *; nia). rewrite Y. reflexivity.
      * destruct (n =? 0); reflexivity.
    + destruct (assoc rest doc_units) as [f|] eqn:Ef; cbn [option_map]; [|reflexivity].
      pose proof (doc_units_pos _ _ Ef) as Hf.
      assert (X : (0 <? n * f) && (n * f <=? i64_max) = false) by nia. rewrite X. reflexivity.
Qed.

(* absence of undefined behaviour (signed overflow) in GetTimeoutFromString, for every text *)
Theorem duration_no_ub_proof : forall s, parse_duration s <> DUB.
Proof. intros s. rewrite parse_duration_eq. destruct (spec_duration s); discriminate. Qed.

(* the documented duration syntax *)
Definition duration_text (s : bytes) (ns : Z) : Prop :=
  exists ws ds u f, s = ws ++ ds ++ u /\ forallb isspace ws = true /\ ds <> [] /\ forallb isdigit ds = true /\
                    In (u, f) doc_units /\ ns = decimal ds * f.

Lemma assoc_in u f tbl : assoc u tbl = Some f -> In (u, f) tbl.
Proof. apply tlookup_in. Qed.

Lemma doc_units_assoc u f : In (u, f) doc_units -> assoc u doc_units = Some f.
Proof. cbn. intros H. repeat (destruct H as [H|H]; [inversion H; subst; reflexivity|]). contradiction. Qed.

Lemma spec_duration_value_iff s v : spec_duration_value s = Some v <-> duration_text s v.
Proof.
  unfold spec_duration_value. rewrite drop_ws_skip.
  destruct (skip_ws_spec s) as (ws & Hs & Hws & Hhd).
  destruct (span_of isdigit (skip_ws s)) as [ds rest] eqn:S.
  rewrite (dur_candidates_eq doc_units doc_units_nondigit _ _ _ S).
  destruct (span_of_spec _ _ _ _ S) as (Hb & Hds & Hrest).
  split.
  - destruct ds as [|d ds]; cbn [nilb]; [discriminate|].
    destruct (assoc rest doc_units) as [f|] eqn:Ef; cbn; [|discriminate].
    intros H. inversion H; subst v. exists ws, (d :: ds), rest, f. rewrite <- Hb. repeat split; auto; try discriminate.
    now apply assoc_in.
  - intros (ws' & ds' & u & f & Hs' & Hws' & Hne & Hds' & Hin & Hv).
    assert (Hsk : skip_ws s = ds' ++ u).
    { rewrite Hs'. apply skip_ws_unique; auto. destruct ds' as [|x ds']; [congruence|].
      cbn in Hds'. apply andb_true_iff in Hds' as [Hx _]. cbn. now apply digit_not_space. }
    assert (S' : span_of isdigit (ds' ++ u) = (ds', u)).
    { apply span_of_unique; auto. now apply (doc_units_nondigit u f). }
    rewrite <- Hsk, S in S'. inversion S'; subst ds' u.
    destruct ds; [congruence|]. cbn [nilb]. rewrite (doc_units_assoc _ _ Hin). cbn. now subst v.
Qed.

Theorem duration_spec_proof : forall (v : envv) (sentinel : Z),
  (raw_nonempty v = None -> get_duration v sentinel = Some (false, 0)) /\
  (forall s, raw_nonempty v = Some s ->
     (forall ns, get_duration v sentinel = Some (true, ns) <-> duration_text s ns /\ 0 < ns <= 2 ^ 63 - 1) /\
     ((forall ns, ~ (duration_text s ns /\ 0 < ns <= 2 ^ 63 - 1)) -> get_duration v sentinel = Some (false, sentinel))).
Proof.
  intros v sentinel. unfold get_duration. split; [intros ->; reflexivity|].
  intros s ->. rewrite parse_duration_eq. unfold spec_duration.
  change (2 ^ 63 - 1) with 9223372036854775807.
  destruct (spec_duration_value s) as [t|] eqn:E.
  - apply spec_duration_value_iff in E. split.
    + intros ns. destruct ((0 <? t) && (t <=? 9223372036854775807)) eqn:R.
      * split.
        -- intros H. inversion H; subst ns. split; [auto|lia].
        -- intros [H _]. apply spec_duration_value_iff in H. apply spec_duration_value_iff in E. congruence.
      * split; [discriminate|]. intros [H Hr]. apply spec_duration_value_iff in H. apply spec_duration_value_iff in E.
        assert (ns = t) by congruence. lia.
    + intros H. destruct ((0 <? t) && (t <=? 9223372036854775807)) eqn:R; [|reflexivity].
      exfalso. apply (H t). split; [auto|lia].
  - split.
    + intros ns. split; [discriminate|]. intros [H _]. apply spec_duration_value_iff in H. congruence.
    + reflexivity.
Qed.

Example duration_spec_nonvacuous :
  duration_text (bs " 15ms") 15000000 /\ get_duration (Some (bs " 15ms")) 777 = Some (true, 15000000) /\
  get_duration (Some (bs "2562047h")) 777 = Some (true, 9223369200000000000) /\
  get_duration (Some (bs "2562048h")) 777 = Some (false, 777) /\
  get_duration (Some (bs "9223372036854775808ns")) 777 = Some (false, 777) /\
  get_duration (Some (bs "0s")) 777 = Some (false, 777) /\ get_duration (Some (bs "5 s")) 777 = Some (false, 777).
Proof.
  repeat split; try reflexivity.
  exists [x20], (bs "15"), (bs "ms"), 1000000. repeat split; auto; try discriminate. cbn. auto 10.
Qed.
