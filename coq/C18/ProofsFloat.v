(* C18 proofs, part 4: the float reader accepts only texts of the ISO C float syntax (whole text);
   and the summary "every reader accepts or yields its default". *)
From V Require Import C18.Glue C18.ProofsBase C18.ProofsEnv C18.ProofsRes.
From Coq Require Import Lia ZifyBool ZifyNat ZifyN.
Local Open Scope Z_scope.

(* ---------------------------------------------------------------- byte sweeps *)
Lemma lower_is_x b : lower_is "x" b = Byte.eqb b x78 || Byte.eqb b x58.
Proof. destruct b; reflexivity. Qed.
Lemma lower_is_e b : lower_is "e" b = is_e b.
Proof. destruct b; reflexivity. Qed.
Lemma lower_is_p b : lower_is "p" b = is_p b.
Proof. destruct b; reflexivity. Qed.
Lemma digit_not_e b : isdigit b = true -> is_e b = false.
Proof. destruct b; cbn; intros H; try discriminate; reflexivity. Qed.
Lemma digit_not_dot b : isdigit b = true -> is_dot b = false.
Proof. destruct b; cbn; intros H; try discriminate; reflexivity. Qed.
Lemma hex_not_p b : ishex b = true -> is_p b = false.
Proof. destruct b; cbn; intros H; try discriminate; reflexivity. Qed.
Lemma hex_not_dot b : ishex b = true -> is_dot b = false.
Proof. destruct b; cbn; intros H; try discriminate; reflexivity. Qed.
Lemma digit_not_x b : isdigit b = true -> Byte.eqb b x78 || Byte.eqb b x58 = false.
Proof. destruct b; cbn; intros H; try discriminate; reflexivity. Qed.
Lemma is_dot_eq b : is_dot b = Byte.eqb b dot.
Proof. reflexivity. Qed.
Lemma sign_split b : (Byte.eqb b minus_sign = true \/ Byte.eqb b plus_sign = true) <-> is_sign b = true.
Proof. unfold is_sign. rewrite orb_true_iff. change minus_sign with x2d. change plus_sign with x2b. tauto. Qed.

(* ---------------------------------------------------------------- caseless prefixes *)
Lemma caseless_length a : forall l, caseless_eqb a l = true -> length a = length l.
Proof.
  induction a as [|x a IH]; intros [|y l]; cbn; try discriminate; auto.
  intros H. apply andb_true_iff in H as [_ H]. f_equal. auto.
Qed.

Lemma caseless_app a : forall l1 b l2, caseless_eqb a l1 = true -> caseless_eqb b l2 = true ->
  caseless_eqb (a ++ b) (l1 ++ l2) = true.
Proof.
  induction a as [|x a IH]; intros [|y l1] b l2; cbn; try discriminate; auto.
  intros H1 H2. apply andb_true_iff in H1 as [H1 H1']. rewrite H1. cbn. auto.
Qed.

Lemma strip_ci_spec lit : forallb (fun x => Byte.eqb (tolower x) x) lit = true ->
  forall s r, strip_ci lit s = Some r -> exists p, s = p ++ r /\ caseless_eqb p lit = true.
Proof.
  induction lit as [|x lit IH]; intros Hl s r; cbn.
  - intros H. inversion H; subst. exists []. auto.
  - cbn in Hl. apply andb_true_iff in Hl as [Hx Hl]. destruct s as [|y s]; [discriminate|].
    destruct (Byte.eqb (tolower y) x) eqn:E; [|discriminate].
    intros H. destruct (IH Hl _ _ H) as (p & -> & Hp). exists (y :: p). split; [reflexivity|].
    cbn. apply byte_eqb_eq in Hx. rewrite Hx, E, Hp. reflexivity.
Qed.

(* ---------------------------------------------------------------- split_at_first *)
Lemma split_at_first_none q a : forallb (fun b => negb (q b)) a = true -> split_at_first q a = (a, None).
Proof.
  induction a as [|b a IH]; cbn; auto. intros H. apply andb_true_iff in H as [H1 H2].
  apply negb_true_iff in H1. rewrite H1, (IH H2). reflexivity.
Qed.
Lemma split_at_first_some q a b r : forallb (fun b => negb (q b)) a = true -> q b = true ->
  split_at_first q (a ++ b :: r) = (a, Some r).
Proof.
  induction a as [|x a IH]; cbn; intros H Hb.
  - now rewrite Hb.
  - apply andb_true_iff in H as [H1 H2]. apply negb_true_iff in H1. rewrite H1, (IH H2 Hb). reflexivity.
Qed.

Lemma forallb_impl {A} (p q : A -> bool) l : (forall x, p x = true -> q x = true) -> forallb p l = true -> forallb q l = true.
Proof. intros H. induction l; cbn; auto. intros F. apply andb_true_iff in F as [F1 F2]. rewrite (H _ F1). auto. Qed.

(* ---------------------------------------------------------------- exponent part *)
Lemma exp_part_expo s e : exp_part s = Some (e, []) -> expo s <> None.
Proof.
  unfold exp_part, expo.
  assert (E : (match s with
               | b :: t => if Byte.eqb b minus_sign then (true, t) else if Byte.eqb b plus_sign then (false, t) else (false, s)
               | [] => (false, s)
               end) = (has_minus s, strip_sign s)).
  { destruct s as [|b t]; [reflexivity|]. unfold has_minus, strip_sign, is_sign.
    change minus_sign with x2d. change plus_sign with x2b.
    destruct (Byte.eqb b x2d) eqn:E1.
    - rewrite orb_true_r. reflexivity.
    - destruct (Byte.eqb b x2b); reflexivity. }
  rewrite E. destruct (span_of isdigit (strip_sign s)) as [ds rest] eqn:S.
  destruct ds as [|d ds]; [discriminate|]. intros H. inversion H; subst rest.
  assert (A : all_digits (strip_sign s) = true) by (apply all_digits_span; eauto). rewrite A. discriminate.
Qed.

(* ---------------------------------------------------------------- one number form *)
Section Number.
  Variable p : byte -> bool.           (* digit class *)
  Variable is_exp : byte -> bool.      (* exponent marker *)
  Variable val : bytes -> Z.
  Variables base scale : Z.
  Hypothesis p_not_exp : forall b, p b = true -> is_exp b = false.
  Hypothesis p_not_dot : forall b, p b = true -> is_dot b = false.
  Hypothesis dot_not_exp : is_exp dot = false.

  Lemma digits_no_exp a : forallb p a = true -> forallb (fun b => negb (is_exp b)) a = true.
  Proof. apply forallb_impl. intros b H. now rewrite (p_not_exp b H). Qed.
  Lemma digits_no_dot a : forallb p a = true -> forallb (fun b => negb (is_dot b)) a = true.
  Proof. apply forallb_impl. intros b H. now rewrite (p_not_dot b H). Qed.

  (* the text s0 = mantissa ++ r, with r empty or a well-formed exponent, is a number for the specification *)
  Lemma num_ok s0 ip fp r :
    mantissa p s0 = (ip, fp, r) -> ip ++ fp <> [] ->
    (r = [] \/ exists b r' e, r = b :: r' /\ is_exp b = true /\ exp_part r' = Some (e, [])) ->
    num_of p val base scale is_exp s0 <> None.
  Proof.
    unfold mantissa. intros M Hne Hr.
    destruct (span_of p s0) as [ip0 r0] eqn:S0.
    destruct (span_of_spec _ _ _ _ S0) as (Hs0 & Hip & Hr0).
    (* ms: the mantissa text; in both shapes s0 = ms ++ r *)
    assert (X : exists ms, s0 = ms ++ r /\ forallb (fun b => negb (is_exp b)) ms = true /\
                           mant p ms = Some (ip ++ fp, length fp)).
    { destruct r0 as [|b r1].
      - inversion M; subst. exists ip. rewrite !app_nil_r. repeat split; auto using digits_no_exp.
        unfold mant. rewrite (split_at_first_none is_dot ip) by now apply digits_no_dot.
        rewrite app_nil_r in *. rewrite Hip. cbn. destruct ip; [congruence|reflexivity].
      - destruct (Byte.eqb b dot) eqn:Eb.
        + apply byte_eqb_eq in Eb. subst b. destruct (span_of p r1) as [fp0 r2] eqn:S1. inversion M; subst.
          destruct (span_of_spec _ _ _ _ S1) as (Hr1 & Hfp & _). subst r1.
          exists (ip ++ dot :: fp). rewrite <- app_assoc. cbn. repeat split; auto.
          * rewrite forallb_app. rewrite digits_no_exp by auto. cbn. rewrite dot_not_exp. cbn. now apply digits_no_exp.
          * unfold mant. rewrite (split_at_first_some is_dot ip dot fp) by (auto using digits_no_dot).
            rewrite Hip, Hfp. cbn. destruct (ip ++ fp); [congruence|reflexivity].
        + inversion M; subst. exists ip. repeat split; auto using digits_no_exp.
          unfold mant. rewrite (split_at_first_none is_dot ip) by now apply digits_no_dot.
          rewrite app_nil_r in *. rewrite Hip. cbn. destruct ip; [congruence|reflexivity]. }
    destruct X as (ms & Hs & Hms & Hmant).
    unfold num_of. destruct Hr as [->|(b & r' & e & -> & Hb & He)].
    - rewrite app_nil_r in Hs. rewrite Hs. rewrite (split_at_first_none is_exp ms Hms), Hmant. discriminate.
    - rewrite Hs. rewrite (split_at_first_some is_exp ms b r' Hms Hb), Hmant.
      pose proof (exp_part_expo _ _ He) as X. destruct (expo r'); [discriminate|congruence].
  Qed.
End Number.

(* ---------------------------------------------------------------- strtof_body against spec_float_body *)
Lemma lit_lower_inf : forallb (fun x => Byte.eqb (tolower x) x) (bs "inf") = true. Proof. reflexivity. Qed.
Lemma lit_lower_inity : forallb (fun x => Byte.eqb (tolower x) x) (bs "inity") = true. Proof. reflexivity. Qed.
Lemma lit_lower_nan : forallb (fun x => Byte.eqb (tolower x) x) (bs "nan") = true. Proof. reflexivity. Qed.

(* what the tail after the mantissa must look like when everything was consumed *)
Lemma tail_consumed (em : byte -> bool) (mk : Z -> fkind) (e0 : Z) r k :
  match r with
  | b :: r' => if em b then match exp_part r' with
                            | Some (e, r2) => Some (mk (e0 + e), r2)
                            | None => Some (mk e0, r)
                            end
               else Some (mk e0, r)
  | [] => Some (mk e0, r)
  end = Some (k, []) ->
  r = [] \/ exists b r' e, r = b :: r' /\ em b = true /\ exp_part r' = Some (e, []).
Proof.
  destruct r as [|b r']; [auto|]. destruct (em b) eqn:E.
  - destruct (exp_part r') as [[e r2]|] eqn:X.
    + intros H. inversion H; subst. right. eauto 6.
    + intros H. inversion H.
  - intros H. inversion H.
Qed.

Lemma mantissa_hex_nonempty c t' ip fp r :
  mantissa ishex (c :: t') = (ip, fp, r) ->
  (ishex c = true \/ (c = dot /\ exists d t'', t' = d :: t'' /\ ishex d = true)) -> ip ++ fp <> [].
Proof.
  intros M [Hc|(-> & d & t'' & -> & Hd)]; unfold mantissa in M; cbn [span_of] in M.
  - rewrite Hc in M. destruct (span_of ishex t') as [a r0]. destruct r0 as [|b r1].
    + inversion M. discriminate.
    + destruct (Byte.eqb b dot); [destruct (span_of ishex r1)|]; inversion M; discriminate.
  - change (ishex dot) with false in M. cbv iota in M. rewrite byte_eqb_refl in M. cbn [span_of] in M.
    rewrite Hd in M. destruct (span_of ishex t'') as [a r0]. inversion M. discriminate.
Qed.

Lemma body_accept t k : strtof_body t = Some (k, []) -> spec_float_body t <> None.
Proof.
  unfold strtof_body, spec_float_body.
  destruct (strip_ci (bs "inf") t) as [r|] eqn:Einf.
  { destruct (strip_ci_spec _ lit_lower_inf _ _ Einf) as (p1 & Ht & Hp1).
    destruct (strip_ci (bs "inity") r) as [r2|] eqn:Einity.
    - intros H. inversion H; subst r2.
      destruct (strip_ci_spec _ lit_lower_inity _ _ Einity) as (p2 & Hr & Hp2). rewrite app_nil_r in Hr. subst r t.
      assert (X : caseless_eqb (p1 ++ p2) (bs "infinity") = true) by (apply (caseless_app p1 (bs "inf") p2 (bs "inity")); auto).
      rewrite X, orb_true_r. discriminate.
    - intros H. inversion H; subst r. rewrite app_nil_r in Ht. subst t. rewrite Hp1. discriminate. }
  destruct (caseless_eqb t (bs "inf") || caseless_eqb t (bs "infinity")); [discriminate|].
  destruct (strip_ci (bs "nan") t) as [r|] eqn:Enan.
  { destruct (strip_ci_spec _ lit_lower_nan _ _ Enan) as (p1 & Ht & Hp1).
    pose proof (caseless_length _ _ Hp1) as L. change (length (bs "nan")) with 3%nat in L.
    assert (F : firstn 3 t = p1) by (subst t; rewrite <- L; apply firstn_app_exact).
    assert (K : skipn 3 t = r) by (subst t; rewrite <- L; apply skipn_app_exact).
    rewrite F, K, Hp1. cbn [andb].
    destruct r as [|b r']; [discriminate|].
    destruct (Byte.eqb b x28) eqn:Eb.
    - destruct (span_of is_nchar r') as [seq r2] eqn:S.
      destruct (span_of_spec _ _ _ _ S) as (Hr' & Hseq & _).
      destruct r2 as [|c r3]; [intros H; inversion H|].
      destruct (Byte.eqb c x29) eqn:Ec; [|intros H; inversion H].
      intros H. inversion H; subst r3. apply byte_eqb_eq in Ec. subst c r'.
      cbn [nilb orb]. rewrite last_last, byte_eqb_refl, removelast_last, Hseq.
      destruct (seq ++ [x29]) eqn:Q; [destruct seq; discriminate|]. cbn. discriminate.
    - intros H. inversion H. }
  (* numbers *)
  set (hex_start := match t with
                    | z :: x :: c :: t' => Byte.eqb z x30 && lower_is "x" x &&
                                           (ishex c || (Byte.eqb c dot && match t' with d :: _ => ishex d | [] => false end))
                    | _ => false
                    end).
  destruct (caseless_eqb (firstn 3 t) (bs "nan") && _); [discriminate|].
  destruct hex_start eqn:Hx.
  - (* hexadecimal *)
    unfold hex_start in Hx. destruct t as [|z [|x [|c t']]]; try discriminate.
    apply andb_true_iff in Hx as [Hx Hc]. apply andb_true_iff in Hx as [Hz Hxx].
    rewrite lower_is_x in Hxx. rewrite Hz, Hxx. cbn [andb skipn].
    assert (Hc' : ishex c || is_dot c = true).
    { apply orb_true_iff in Hc as [Hc|Hc]; [rewrite Hc; reflexivity|]. apply andb_true_iff in Hc as [Hc _].
      rewrite is_dot_eq, Hc. apply orb_true_r. }
    rewrite Hc'.
    destruct (mantissa ishex (c :: t')) as [[ip fp] r] eqn:M.
    intros H.
    assert (T : r = [] \/ exists b r' e, r = b :: r' /\ is_p b = true /\ exp_part r' = Some (e, [])).
    { destruct r as [|b r']; [auto|]. rewrite lower_is_p in H.
      apply (tail_consumed is_p (FHex (hex_val (ip ++ fp))) (- 4 * Z.of_nat (length fp)) (b :: r') k). exact H. }
    apply (num_ok ishex is_p hexadecimal 2 4 hex_not_p hex_not_dot eq_refl (c :: t') ip fp r M); auto.
    (* at least one hexadecimal digit *)
    apply (mantissa_hex_nonempty c t' ip fp r M).
    apply orb_true_iff in Hc as [Hc|Hc]; [now left|right].
    apply andb_true_iff in Hc as [Hd Hn]. apply byte_eqb_eq in Hd. split; auto.
    destruct t' as [|d t'']; [discriminate|]. eauto.
  - (* decimal *)
    destruct (mantissa isdigit t) as [[ip fp] r] eqn:M.
    destruct (ip ++ fp) as [|d0 ds0] eqn:Hds; [discriminate|].
    intros H.
    assert (T : r = [] \/ exists b r' e, r = b :: r' /\ is_e b = true /\ exp_part r' = Some (e, [])).
    { destruct r as [|b r']; [auto|]. rewrite lower_is_e in H.
      apply (tail_consumed is_e (FDec (dec_val (d0 :: ds0))) (- Z.of_nat (length fp)) (b :: r') k). exact H. }
    assert (N : num_of isdigit decimal 10 1 is_e t <> None).
    { apply (num_ok isdigit is_e decimal 10 1 digit_not_e digit_not_dot eq_refl t ip fp r M); auto. rewrite Hds. discriminate. }
    (* the specification takes the hexadecimal branch only for texts the decimal scan cannot consume *)
    destruct t as [|z [|x [|c t']]]; auto.
    destruct (Byte.eqb z x30 && (Byte.eqb x x78 || Byte.eqb x x58) && (ishex c || is_dot c)) eqn:Hh; auto.
    exfalso. apply andb_true_iff in Hh as [Hh _]. apply andb_true_iff in Hh as [Hz Hxx].
    apply byte_eqb_eq in Hz. subst z.
    assert (Xd : isdigit x = false).
    { destruct (isdigit x) eqn:D; auto. apply digit_not_x in D. congruence. }
    unfold mantissa in M. cbn in M. rewrite Xd in M.
    assert (Xdot : Byte.eqb x dot = false).
    { apply orb_true_iff in Hxx as [Hxx|Hxx]; apply byte_eqb_eq in Hxx; subst x; reflexivity. }
    rewrite Xdot in M. inversion M; subst.
    destruct T as [T|(b & r' & e & T & Tb & _)]; [discriminate|]. inversion T; subst.
    apply orb_true_iff in Hxx as [Hxx|Hxx]; apply byte_eqb_eq in Hxx; subst b; discriminate.
Qed.

Theorem float_accept_syntax_proof : forall s, s <> [] ->
  fst (get_float (Some s)) = true -> spec_float_syntax s <> None.
Proof.
  intros s Hne. unfold get_float.
  assert (R : raw_nonempty (Some s) = Some s) by (destruct s; [congruence|reflexivity]). rewrite R.
  unfold strtof_parse, spec_float_syntax. rewrite drop_ws_skip.
  set (r := skip_ws s).
  assert (E : (match r with
               | b :: t => if Byte.eqb b minus_sign then (true, t) else if Byte.eqb b plus_sign then (false, t) else (false, r)
               | [] => (false, r)
               end) = (has_minus r, strip_sign r)).
  { destruct r as [|b t]; [reflexivity|]. unfold has_minus, strip_sign, is_sign.
    change minus_sign with x2d. change plus_sign with x2b.
    destruct (Byte.eqb b x2d) eqn:E1.
    - rewrite orb_true_r. reflexivity.
    - destruct (Byte.eqb b x2b); reflexivity. }
  rewrite E.
  destruct (strtof_body (strip_sign r)) as [[k rest]|] eqn:B; [|cbn; discriminate].
  cbn [sf_kind sf_consumed sf_neg].
  destruct (f32_magnitude k) as [bits er]. destruct er; [cbn; discriminate|].
  destruct (Nat.eqb (length s - length rest) (length s)) eqn:L; [|cbn; discriminate].
  intros _. apply Nat.eqb_eq in L.
  assert (rest = []).
  { destruct rest; auto. cbn [length] in L. destruct s; [congruence|]. cbn [length] in L. lia. }
  subst rest. pose proof (body_accept _ _ B) as X.
  destruct (spec_float_body (strip_sign r)); [discriminate|congruence].
Qed.

Example float_accept_nonvacuous :
  fst (get_float (Some (bs " -1.5e3"))) = true /\ spec_float_syntax (bs " -1.5e3") <> None /\
  get_float (Some (bs "1.5x")) = (false, 0) /\ get_float (Some (bs "1e39")) = (false, 0) /\
  get_float (Some (bs "0x1.8p1")) = (true, 1077936128) /\ get_float (Some (bs "-inf")) = (true, 4286578688).
Proof. repeat split; try reflexivity. discriminate. Qed.

(* ---------------------------------------------------------------- every reader accepts or yields its default *)
Theorem readers_total_proof : forall v : envv,
  (snd (get_bool v) = true -> exists s, raw_nonempty v = Some s /\ word_ci s lit_true) /\
  (fst (get_uint v) = false -> snd (get_uint v) = 0) /\
  (fst (get_float v) = false -> snd (get_float v) = 0) /\
  (fst (get_string v) = false -> snd (get_string v) = []) /\
  (forall sentinel, exists r n, get_duration v sentinel = Some (r, n) /\ (r = false -> n = 0 \/ n = sentinel)).
Proof.
  intros v. repeat split.
  - rewrite get_bool_eq. destruct (raw_nonempty v) as [s|]; [|discriminate].
    destruct (spec_bool s) as [[|]|] eqn:E; cbn; try discriminate. intros _. exists s. split; auto. now apply spec_bool_true.
  - rewrite get_uint_eq. destruct (raw_nonempty v) as [s|]; [|reflexivity]. destruct (spec_uint s); [discriminate|reflexivity].
  - unfold get_float. destruct (raw_nonempty v) as [s|]; [|reflexivity].
    destruct (strtof_parse s) as [r|]; [|reflexivity].
    destruct (f32_magnitude (sf_kind r)) as [bits er]. destruct er; [reflexivity|].
    destruct (negb (Nat.eqb (sf_consumed r) (length s))); [reflexivity|]. cbn. discriminate.
  - rewrite string_spec_proof. destruct (raw_nonempty v); [discriminate|reflexivity].
  - intros sentinel. unfold get_duration. destruct (raw_nonempty v) as [s|].
    + rewrite parse_duration_eq. destruct (spec_duration s) as [t|].
      * exists true, t. split; [reflexivity|discriminate].
      * exists false, sentinel. split; auto.
    + exists false, 0. split; auto.
Qed.
