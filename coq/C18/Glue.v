(* Glue between the token wire format and the C18 model/spec.  Extracted.
   Cases:   BOOL v | UINT v stale | DUR v | FLT v stale | STR v | DIS v | DET ra sn
            RES ra sn ; op ; op ...        op = N schema (k ty v)* | M i j | C schema (k ty v)*
            PROV ; N schema (k ty v)* ; ... ; op ; ...   op = E (s|l|m) i | G i | I i | A i | K i | D i
              (E m i = A i then K i; G GetMeter, I create the counter, A Add(1), K / D collect on the cumulative / delta reader)
   v, ra, sn: NONE (unset) or x<bytes> without NUL;  ty v = s x<bytes> | i <int64> | b <0|1>. *)
From V Require Export C18.Spec.
Local Open Scope Z_scope.

Definition dur_sentinel : Z := 777.

Inductive case :=
| CBool (v : envv)
| CUint (v : envv) (stale : bool)
| CDur (v : envv)
| CFlt (v : envv) (stale : bool)
| CStr (v : envv)
| CDis (v : envv)
| CDet (ra sn : envv)
| CRes (ra sn : envv) (ops : list rop)
| CProv (rs : list (list (bytes * value) * bytes)) (ops : list pop).

Definition parse_env (t : tok) : option envv :=
  match t with
  | TB b => if existsb (Byte.eqb x00) b then None else Some (Some b)
  | TT _ => if is_tag "NONE" t then Some None else None
  | TZ _ => None
  end.

Definition parse_flag (t : tok) : option bool :=
  match t with TZ 0 => Some false | TZ 1 => Some true | _ => None end.

Fixpoint parse_attrs (l : list tok) : option (list (bytes * value)) :=
  match l with
  | [] => Some []
  | TB k :: ty :: v :: l' =>
      match (if is_tag "s" ty then match v with TB s => Some (VStr s) | _ => None end
             else if is_tag "i" ty then match v with
                                        | TZ z => if fits_i64 z then Some (VInt z) else None
                                        | _ => None
                                        end
             else if is_tag "b" ty then option_map VBool (parse_flag v)
             else None), parse_attrs l' with
      | Some x, Some r => Some ((k, x) :: r)
      | _, _ => None
      end
  | _ => None
  end.

Definition parse_nat (t : tok) : option nat :=
  match t with TZ z => if 0 <=? z then Some (Z.to_nat z) else None | _ => None end.

Definition parse_rop (l : list tok) : option rop :=
  match l with
  | t :: TB schema :: rest =>
      if is_tag "N" t then option_map (fun a => RNew a schema) (parse_attrs rest)
      else if is_tag "C" t then option_map (fun a => RCreate a schema) (parse_attrs rest)
      else None
  | [t; a; b] => if is_tag "M" t then match parse_nat a, parse_nat b with
                                      | Some i, Some j => Some (RMerge i j)
                                      | _, _ => None
                                      end
                 else None
  | _ => None
  end.

Fixpoint all_some {A} (l : list (option A)) : option (list A) :=
  match l with
  | [] => Some []
  | Some x :: l' => option_map (cons x) (all_some l')
  | None :: _ => None
  end.

Definition parse_signal (t : tok) : option signal :=
  if is_tag "s" t then Some SigSpan else if is_tag "l" t then Some SigLog else if is_tag "m" t then Some SigMetric else None.

Definition parse_pop (op : list tok) : option (list pop) :=
  match op with
  | [t; sg; i] => if is_tag "E" t then
                    match parse_signal sg, parse_nat i with
                    | Some SigMetric, Some n => Some [PA n; PK false n]
                    | Some s, Some n => Some [PE s n]
                    | _, _ => None
                    end
                  else None
  | [t; i] => match parse_nat i with
              | Some n => if is_tag "G" t then Some [PG n] else if is_tag "I" t then Some [PI n]
                          else if is_tag "A" t then Some [PA n] else if is_tag "K" t then Some [PK false n]
                          else if is_tag "D" t then Some [PK true n] else None
              | None => None
              end
  | _ => None
  end.

(* providers first (N ...), then the operations *)
Fixpoint parse_prov (l : list (list tok)) (rs : list (list (bytes * value) * bytes)) : option case :=
  match l with
  | (t :: TB schema :: rest) :: l' =>
      if is_tag "N" t then
        match parse_attrs rest with
        | Some a => parse_prov l' (rs ++ [(a, schema)])
        | None => None
        end
      else None
  | _ => option_map (fun o => CProv rs (concat o)) (all_some (map parse_pop l))
  end.

Definition parse_case (l : list tok) : option case :=
  match l with
  | [t; v] =>
      match parse_env v with
      | Some e => if is_tag "BOOL" t then Some (CBool e) else if is_tag "DUR" t then Some (CDur e)
                  else if is_tag "STR" t then Some (CStr e) else if is_tag "DIS" t then Some (CDis e) else None
      | None => None
      end
  | t :: rest =>
      if is_tag "UINT" t then match rest with
                              | [v; f] => match parse_env v, parse_flag f with Some e, Some b => Some (CUint e b) | _, _ => None end
                              | _ => None
                              end
      else if is_tag "FLT" t then match rest with
                                  | [v; f] => match parse_env v, parse_flag f with Some e, Some b => Some (CFlt e b) | _, _ => None end
                                  | _ => None
                                  end
      else if is_tag "DET" t then match rest with
                                  | [a; b] => match parse_env a, parse_env b with Some x, Some y => Some (CDet x y) | _, _ => None end
                                  | _ => None
                                  end
      else if is_tag "RES" t then
        match split_toks ";" rest with
        | [a; b] :: ops => match parse_env a, parse_env b, all_some (map parse_rop ops) with
                           | Some x, Some y, Some o => Some (CRes x y o)
                           | _, _, _ => None
                           end
        | _ => None
        end
      else if is_tag "PROV" t then
        match split_toks ";" rest with
        | [] :: ops => parse_prov ops []
        | _ => None
        end
      else None
  | [] => None
  end.

(* ------------------------------------------------------------------ printing *)
Definition print_value (v : value) : list tok :=
  match v with
  | VStr s => [tag "s"; TB s]
  | VInt z => [tag "i"; TZ z]
  | VBool b => [tag "b"; tbool b]
  end.
Definition print_res (r : resource) : list tok :=
  let m := sort_map (r_attrs r) in
  TB (r_schema r) :: tnat (length m) :: flat_map (fun kv => TB (fst kv) :: print_value (snd kv)) m.
Definition print_ores (o : option resource) : list tok :=
  match o with Some r => print_res r | None => [tag "THROW"] end.

Fixpoint join_toks (sep : string) (l : list (list tok)) : list tok :=
  match l with
  | [] => []
  | [x] => x
  | x :: l' => x ++ tag sep :: join_toks sep l'
  end.

Definition resources_of (rs : list (list (bytes * value) * bytes)) : list resource :=
  map (fun p => mk_res (map_of_list (fst p)) (snd p)) rs.

Definition run_model (l : list tok) : list tok :=
  match parse_case l with
  | Some (CBool v) => let '(r, b) := get_bool v in [tag "B"; tbool r; tbool b]
  | Some (CUint v _) => let '(r, n) := get_uint v in [tag "U"; tbool r; TZ n]
  | Some (CDur v) => match get_duration v dur_sentinel with
                     | Some (r, n) => [tag "D"; tbool r; TZ n]
                     | None => [tag "D"; tag "UB"]
                     end
  | Some (CFlt v _) => let '(r, n) := get_float v in [tag "F"; tbool r; TZ n]
  | Some (CStr v) => let '(r, s) := get_string v in [tag "S"; tbool r; TB s]
  | Some (CDis v) => let i := provider_installed v in [tag "X"; tbool (sdk_disabled v); tbool i; tbool i; tbool i]
  | Some (CDet ra sn) => tag "R" :: print_res (detect ra sn)
  | Some (CRes ra sn ops) =>
      match run_rops ra sn ops with
      | [] => [tag "EMPTY"]
      | st => join_toks ";" (map print_ores st)
      end
  | Some (CProv rs ops) =>
      match run_emits (resources_of rs) ops with
      | [] => [tag "EMPTY"]
      | items => join_toks ";" (map (fun it : option (pitem * bool) => match it with
                                               | Some (p, has_data) =>
                                                   (if has_data then tag "d" else tag "e") ::
                                                   match p_ref p with
                                                   | Some i => tnat i :: print_res (p_res p)
                                                   | None => [TZ (-1)]
                                                   end
                                               | None => [tag "NOPROVIDER"]
                                               end) items)
      end
  | None => bad_case
  end.

(* ------------------------------------------------------------------ branch tags *)
Definition tag_uint (v : envv) : string :=
  match raw_nonempty v with
  | None => "uint_unset"
  | Some s => let r := strtoull10 s in
              if su_erange r then "uint_erange"
              else if Nat.eqb (su_consumed r) 0 then "uint_noconv"
              else if negb (Nat.eqb (su_consumed r) (length s)) then "uint_trailing"
              else if existsb (Byte.eqb minus_sign) s then "uint_minus"
              else if u32_max <? su_val r then "uint_gt32"
              else if Byte.eqb (hd x00 s) plus_sign then "uint_ok_plus"
              else if isspace (hd x00 s) then "uint_ok_ws" else "uint_ok"
  end.
Definition tag_dur (v : envv) : string :=
  match raw_nonempty v with
  | None => "dur_unset"
  | Some s => match dur_digits (skip_ws s) 0 with
              | SRange => "dur_digits_overflow"
              | SUB => "dur_ub"
              | SOk r u => if r =? 0 then "dur_zero"
                           else match unit_lookup u c18_duration_units with
                                | None => "dur_bad_unit"
                                | Some f => match convert_timeout r f with
                                            | DOk _ => if nilb u then "dur_ok_nounit" else if f =? 1 then "dur_ok_ns" else "dur_ok_unit"
                                            | _ => "dur_unit_overflow"
                                            end
                                end
              end
  end.
Definition tag_flt (v : envv) : string :=
  match raw_nonempty v with
  | None => "flt_unset"
  | Some s => match strtof_parse s with
              | None => "flt_noconv"
              | Some r => if snd (f32_magnitude (sf_kind r)) then "flt_erange"
                          else if negb (Nat.eqb (sf_consumed r) (length s)) then "flt_trailing"
                          else match sf_kind r with
                               | FDec _ _ => "flt_ok_dec" | FHex _ _ => "flt_ok_hex" | FInf => "flt_ok_inf" | FNan _ => "flt_ok_nan"
                               end
              end
  end.
Definition tag_res (ra sn : envv) (ops : list rop) : string :=
  let st := run_rops ra sn ops in
  if existsb (fun op => match op with RCreate _ _ => true | _ => false end) ops then
    if existsb (fun o => match o with None => true | Some _ => false end) st then "res_create_throw"
    else if existsb (fun o => match o with
                              | Some r => match lookup key_service_name (r_attrs r) with
                                          | Some (VStr n) => starts_with (bs "unknown_service") n
                                          | _ => false
                                          end
                              | None => false
                              end) st then "res_create_fallback"
    else "res_create"
  else if existsb (fun op => match op with RMerge _ _ => true | _ => false end) ops then "res_merge" else "res_new".

Definition run_tag (l : list tok) : list tok :=
  match parse_case l with
  | Some (CBool v) => [tag (match raw_nonempty v with
                            | None => "bool_unset"
                            | Some s => match spec_bool s with Some true => "bool_true" | Some false => "bool_false" | None => "bool_junk" end
                            end)]
  | Some (CUint v _) => [tag (tag_uint v)]
  | Some (CDur v) => [tag (tag_dur v)]
  | Some (CFlt v _) => [tag (tag_flt v)]
  | Some (CStr v) => [tag "str"]
  | Some (CDis v) => [tag (if sdk_disabled v then "disabled" else "enabled")]
  | Some (CDet ra sn) => [tag (match raw_nonempty ra, raw_nonempty sn with
                               | None, None => "det_none" | Some _, None => "det_attrs" | None, Some _ => "det_name" | Some _, Some _ => "det_both"
                               end)]
  | Some (CRes ra sn ops) => [tag (tag_res ra sn ops)]
  | Some (CProv rs ops) =>
      [tag (if existsb (fun it => match it with Some (_, false) => true | _ => false end) (run_emits (resources_of rs) ops)
            then "prov_batch_without_data"
            else if existsb (fun op => match op with PK _ _ => true | _ => false end) ops then "prov_metrics" else "prov")]
  | None => bad_case
  end.

(* ------------------------------------------------------------------ observations *)
Definition obs_flag (t : tok) : option bool := parse_flag t.

Fixpoint parse_listing (n : nat) (l : list tok) : option (amap * list tok) :=
  match n with
  | O => Some ([], l)
  | S n' =>
      match l with
      | TB k :: ty :: v :: l' =>
          match (if is_tag "s" ty then match v with TB s => Some (VStr s) | _ => None end
                 else if is_tag "i" ty then match v with TZ z => Some (VInt z) | _ => None end
                 else if is_tag "b" ty then option_map VBool (parse_flag v)
                 else None), parse_listing n' l' with
          | Some x, Some (m, r) => Some ((k, x) :: m, r)
          | _, _ => None
          end
      | _ => None
      end
  end.
Definition parse_robs (l : list tok) : option robs :=
  match l with
  | [t] => if is_tag "THROW" t then Some None else None
  | TB sch :: TZ n :: rest =>
      if (0 <=? n) && (n <=? Z.of_nat (length rest)) then
        match parse_listing (Z.to_nat n) rest with
        | Some (m, []) => Some (Some (sch, m))
        | _ => None
        end
      else None
  | _ => None
  end.
Definition parse_pobs (l : list tok) : option pobs :=
  match l with
  | [t] => if is_tag "NOTHING" t then Some None else None
  | f :: rest =>
      match (if is_tag "d" f then Some true else if is_tag "e" f then Some false else None), rest with
      | Some has_data, [t] => if is_tag "NULLRES" t then Some (Some (-2, None, has_data))
                              else match t with TZ z => Some (Some (z, None, has_data)) | _ => None end
      | Some has_data, TZ ref :: more => match parse_robs more with Some r => Some (Some (ref, r, has_data)) | None => None end
      | _, _ => None
      end
  | _ => None
  end.

Definition unparsable : list tok := fail "obs:unparsable".

Definition run_spec (l obs : list tok) : list tok :=
  match parse_case l with
  | Some (CBool v) => match obs with
                      | [_; a; b] => match obs_flag a, obs_flag b with Some r, Some x => clause_bool v r x | _, _ => unparsable end
                      | _ => unparsable
                      end
  | Some (CUint v stale) => match obs with
                            | [_; a; TZ n] => match obs_flag a with Some r => clause_uint v stale r n | None => unparsable end
                            | _ => unparsable
                            end
  | Some (CDur v) => match obs with
                     | [_; a; TZ n] => match obs_flag a with Some r => clause_duration v dur_sentinel r n | None => unparsable end
                     | [_; _] => fail "duration_spec:undefined_behaviour"
                     | _ => unparsable
                     end
  | Some (CFlt v stale) => match obs with
                           | [_; a; TZ n] => match obs_flag a with Some r => clause_float v stale r n | None => unparsable end
                           | _ => unparsable
                           end
  | Some (CStr v) => match obs with
                     | [_; a; TB s] => match obs_flag a with Some r => clause_string v r s | None => unparsable end
                     | _ => unparsable
                     end
  | Some (CDis v) => match obs with
                     | [_; a; b; c; d] => match obs_flag a, obs_flag b, obs_flag c, obs_flag d with
                                          | Some w, Some x, Some y, Some z => clause_disabled v w x y z
                                          | _, _, _, _ => unparsable
                                          end
                     | _ => unparsable
                     end
  | Some (CDet ra sn) => match obs with
                         | _ :: rest => match parse_robs rest with Some o => clause_detect ra sn o | None => unparsable end
                         | [] => unparsable
                         end
  | Some (CRes ra sn ops) =>
      match ops with
      | [] => []
      | _ => match all_some (map parse_robs (split_toks ";" obs)) with
             | Some os => clause_rops ra sn ops os
             | None => unparsable
             end
      end
  | Some (CProv rs ops) =>
      match flat_map (fun op => match pop_target op with Some x => [x] | None => [] end) ops with
      | [] => []
      | _ => match all_some (map parse_pobs (split_toks ";" obs)) with
             | Some os => clause_emits rs ops os
             | None => unparsable
             end
      end
  | None => bad_case
  end.
