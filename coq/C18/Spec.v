(* SPEC for C18, written from the property text and the documented syntaxes, independently of how the
   code scans: whole-string recognisers (no end pointers, no early exits), unbounded arithmetic with the
   range test at the end, per-key precedence rules for resources.  Boolean / token-list valued so it runs
   on the implementation's observations. *)
From V Require Export C18.Model.
Local Open Scope Z_scope.

(* ------------------------------------------------------------------ documented syntaxes *)

Fixpoint drop_ws (s : bytes) : bytes :=
  match s with b :: s' => if isspace b then drop_ws s' else s | [] => [] end.

(* value of a decimal digit string by positional weights (least significant digit first) *)
Fixpoint dec_weighted (rev_ds : bytes) : Z :=
  match rev_ds with
  | [] => 0
  | d :: r => (Z.of_N (b2n d) - 48) + 10 * dec_weighted r
  end.
Definition decimal (ds : bytes) : Z := dec_weighted (rev ds).

Definition all_digits (s : bytes) : bool := negb (nilb s) && forallb isdigit s.

(* booleans: the text "true" / "false" in any letter case *)
Fixpoint ci_is (s : bytes) (lit : list (byte * byte)) : bool :=
  match s, lit with
  | [], [] => true
  | b :: s', (lo, up) :: lit' => (Byte.eqb b lo || Byte.eqb b up) && ci_is s' lit'
  | _, _ => false
  end.
Definition lit_true : list (byte * byte) := [(x74, x54); (x72, x52); (x75, x55); (x65, x45)].
Definition lit_false : list (byte * byte) := [(x66, x46); (x61, x41); (x6c, x4c); (x73, x53); (x65, x45)].
Definition spec_bool (s : bytes) : option bool :=
  if ci_is s lit_true then Some true else if ci_is s lit_false then Some false else None.

(* unsigned integers: optional leading white space, optional '+', decimal digits, at most 2^32-1 *)
Definition spec_uint (s : bytes) : option Z :=
  let b := drop_ws s in
  let d := match b with c :: t => if Byte.eqb c x2b then t else b | [] => b end in
  if all_digits d then (if decimal d <=? 4294967295 then Some (decimal d) else None) else None.

(* durations: optional leading white space, decimal digits, one of the documented units (none = seconds);
   the value in nanoseconds must be positive and fit the 64-bit signed tick counter *)
Definition doc_units : list (bytes * Z) :=
  [(bs "ns", 1); (bs "us", 1000); (bs "ms", 1000000); (bs "s", 1000000000);
   (bs "m", 60000000000); (bs "h", 3600000000000); ([], 1000000000)].

Fixpoint strip_prefix (p s : bytes) : option bytes :=
  match p, s with
  | [], _ => Some s
  | x :: p', y :: s' => if Byte.eqb x y then strip_prefix p' s' else None
  | _ :: _, [] => None
  end.
Definition strip_suffix (u s : bytes) : option bytes := option_map (@rev byte) (strip_prefix (rev u) (rev s)).

(* the mathematical value (in ns) of a syntactically valid duration, whatever its size *)
Fixpoint dur_candidates (body : bytes) (units : list (bytes * Z)) : option Z :=
  match units with
  | [] => None
  | (u, f) :: units' =>
      match strip_suffix u body with
      | Some p => if all_digits p then Some (decimal p * f) else dur_candidates body units'
      | None => dur_candidates body units'
      end
  end.
Definition spec_duration_value (s : bytes) : option Z := dur_candidates (drop_ws s) doc_units.
Definition spec_duration (s : bytes) : option Z :=
  match spec_duration_value s with
  | Some v => if (0 <? v) && (v <=? 9223372036854775807) then Some v else None
  | None => None
  end.

(* floats: the strtof subject sequence of ISO C for the "C" locale, matched against the whole text *)
Definition is_sign (b : byte) : bool := Byte.eqb b x2b || Byte.eqb b x2d.
Definition strip_sign (s : bytes) : bytes := match s with c :: t => if is_sign c then t else s | [] => s end.
Definition has_minus (s : bytes) : bool := match s with c :: _ => Byte.eqb c x2d | [] => false end.

Fixpoint split_at_first (p : byte -> bool) (s : bytes) : bytes * option bytes :=
  match s with
  | [] => ([], None)
  | b :: s' => if p b then ([], Some s') else let '(a, r) := split_at_first p s' in (b :: a, r)
  end.
Definition is_e (b : byte) : bool := Byte.eqb b x65 || Byte.eqb b x45.
Definition is_p (b : byte) : bool := Byte.eqb b x70 || Byte.eqb b x50.
Definition is_dot (b : byte) : bool := Byte.eqb b x2e.

(* mantissa "ddd", "ddd.", ".ddd", "ddd.ddd" over digit class p: Some (all digits, number after the point) *)
Definition mant (p : byte -> bool) (s : bytes) : option (bytes * nat) :=
  let '(ip, fr) := split_at_first is_dot s in
  let fp := match fr with Some f => f | None => [] end in
  if forallb p ip && forallb p fp && negb (nilb (ip ++ fp)) then Some (ip ++ fp, length fp) else None.
Definition expo (s : bytes) : option Z :=
  let d := strip_sign s in
  if all_digits d then Some (if has_minus s then - decimal d else decimal d) else None.

Fixpoint hex_weighted (rev_ds : bytes) : Z :=
  match rev_ds with
  | [] => 0
  | d :: r => (match hexval d with Some v => Z.of_N v | None => 0 end) + 16 * hex_weighted r
  end.
Definition hexadecimal (ds : bytes) : Z := hex_weighted (rev ds).

Inductive fnum :=
| NNum (m base e : Z)     (* m * base^e with m >= 0, base 10 or 2, e any integer *)
| NInf
| NNan (plain : bool).   (* plain = no (n-char-sequence), whose meaning ISO C leaves to the implementation *)

Definition num_of (p : byte -> bool) (val : bytes -> Z) (base scale : Z) (is_exp : byte -> bool) (s : bytes) : option fnum :=
  let '(ms, es) := split_at_first is_exp s in
  match mant p ms, es with
  | Some (ds, nf), None => Some (NNum (val ds) base (- scale * Z.of_nat nf))
  | Some (ds, nf), Some e => match expo e with
                             | Some ev => Some (NNum (val ds) base (ev - scale * Z.of_nat nf))
                             | None => None
                             end
  | None, _ => None
  end.

(* the number a float text (without sign) denotes; None = not a float text *)
Definition spec_float_body (s : bytes) : option fnum :=
  if caseless_eqb s (bs "inf") || caseless_eqb s (bs "infinity") then Some NInf
  else if caseless_eqb (firstn 3 s) (bs "nan") &&
          (nilb (skipn 3 s) ||
           match skipn 3 s with
           | o :: t => Byte.eqb o x28 && Byte.eqb (last t x00) x29 && negb (nilb t) && forallb is_nchar (removelast t)
           | [] => false
           end) then Some (NNan (nilb (skipn 3 s)))
  else
    match s with
    | z :: x :: c :: t =>
        if Byte.eqb z x30 && (Byte.eqb x x78 || Byte.eqb x x58) && (ishex c || is_dot c)
        then num_of ishex hexadecimal 2 4 is_p (c :: t)
        else num_of isdigit decimal 10 1 is_e s
    | _ => num_of isdigit decimal 10 1 is_e s
    end.
Definition spec_float_syntax (s : bytes) : option (bool * fnum) :=
  let b := drop_ws s in
  match spec_float_body (strip_sign b) with
  | Some n => Some (has_minus b, n)
  | None => None
  end.

(* magnitude classes: exact rational unless it is so far outside binary32 that the class alone decides *)
Inductive fmag := MZero | MBig | MTiny | MRat (n d : Z).
Definition magnitude (m base e : Z) : fmag :=
  if m =? 0 then MZero
  else if 2000 <? e then MBig
  else if e <? -2000 - Z.log2 m then MTiny
  else if 0 <=? e then MRat (m * base ^ e) 1 else MRat m (base ^ (- e)).

(* binary32 magnitudes as exact dyadic rationals; bits = 0x7f800000 stands for 2^128 *)
Definition f32_rat (bits : Z) : Z * Z :=
  let ex := bits / 2 ^ 23 in
  let fr := bits mod 2 ^ 23 in
  let m := if ex =? 0 then fr else fr + 2 ^ 23 in
  let e := (if ex =? 0 then 1 else ex) - 150 in
  if 0 <=? e then (m * 2 ^ e, 1) else (m, 2 ^ (- e)).
(* |n/d - x| * (d * xd) *)
Definition dist_num (n d : Z) (x : Z * Z) : Z := Z.abs (n * snd x - fst x * d).
(* is [bits] (finite) the round-to-nearest-even image of n/d, 2^128 counting as the neighbour above FLT_MAX? *)
Definition nearest_even (n d bits : Z) : bool :=
  let x := f32_rat bits in
  let closer_or_even (y : Z * Z) :=
      let a := dist_num n d x * snd y in
      let b := dist_num n d y * snd x in
      (a <? b) || ((a =? b) && Z.even bits) in
  (if bits =? 0 then true else closer_or_even (f32_rat (bits - 1))) && closer_or_even (f32_rat (bits + 1)).
Definition f32_inf : Z := 2139095040.
Definition sign_bit : Z := 2147483648.
(* n/d < 2^-126 *)
Definition below_normal (n d : Z) : bool := n * 2 ^ 126 <? d.
(* n/d >= 2^128 - 2^103: rounds to infinity *)
Definition rounds_to_inf (n d : Z) : bool := (2 ^ 128 - 2 ^ 103) * d <=? n.

(* ------------------------------------------------------------------ clauses on observations *)

Definition feature_uint (s : bytes) : string :=
  if existsb (Byte.eqb x2d) s then "minus_sign"
  else if all_digits (match drop_ws s with c :: t => if Byte.eqb c x2b then t else c :: t | [] => [] end) then "overflow"
  else "junk".

Definition clause_bool (v : envv) (ret value : bool) : list tok :=
  match raw_nonempty v with
  | None => check (negb ret && negb value) "bool_spec:unset_or_empty"
  | Some s => match spec_bool s with
              | Some b => check (ret && Bool.eqb value b) "bool_spec:wrong_value"
              | None => check (negb value) "readers_total_default_on_junk:bool"
              end
  end.

Definition clause_uint (v : envv) (stale : bool) (ret : bool) (value : Z) : list tok :=
  match raw_nonempty v with
  | None => check (negb ret && (value =? 0)) "uint_spec:unset_or_empty"
  | Some s => match spec_uint s with
              | Some n => check (ret && (value =? n)) (if stale then "uint_spec:stale_errno" else "uint_spec:wrong_value")
              | None => check (negb ret && (value =? 0))
                              (match feature_uint s with
                               | "minus_sign" => "uint_spec:minus_sign"
                               | "overflow" => "uint_spec:overflow"
                               | _ => "readers_total_default_on_junk:uint"
                               end)%string
              end
  end.

(* [sentinel] is what the caller's variable held before the call: a rejected text must leave it alone or zero it *)
Definition clause_duration (v : envv) (sentinel : Z) (ret : bool) (value : Z) : list tok :=
  match raw_nonempty v with
  | None => check (negb ret && ((value =? 0) || (value =? sentinel))) "duration_spec:unset_or_empty"
  | Some s => match spec_duration s with
              | Some n => check (ret && (value =? n)) "duration_spec:wrong_value"
              | None => check (negb ret && ((value =? 0) || (value =? sentinel)))
                              (match spec_duration_value s with
                               | Some n => if n =? 0 then "duration_spec:zero" else "duration_spec:overflow"
                               | None => "readers_total_default_on_junk:duration"
                               end)
              end
  end.

Definition clause_float (v : envv) (stale : bool) (ret : bool) (bits : Z) : list tok :=
  let rejected := negb ret && (bits =? 0) in
  match raw_nonempty v with
  | None => check rejected "float_spec:unset_or_empty"
  | Some s =>
      match spec_float_syntax s with
      | None => check rejected "readers_total_default_on_junk:float"
      | Some (neg, n) =>
          let mag := if sign_bit <=? bits then bits - sign_bit else bits in
          let sign_ok := Bool.eqb neg (sign_bit <=? bits) in
          match n with
          | NInf => check (ret && sign_ok && (mag =? f32_inf)) "float_spec:infinity"
          | NNan plain => check ((ret && (f32_inf <? mag)) || (negb plain && rejected)) "float_spec:nan"
          | NNum m base e =>
              match magnitude m base e with
              | MZero => check (ret && sign_ok && (mag =? 0)) "float_spec:zero"
              | MBig => check rejected "float_spec:overflow"
              | MTiny => check (rejected || (ret && sign_ok && (mag =? 0))) "float_spec:underflow"
              | MRat a b =>
                  if rounds_to_inf a b then check rejected "float_spec:overflow"
                  else if rejected then check (below_normal a b) (if stale then "float_spec:stale_errno" else "float_spec:valid_rejected")
                  else check (ret && sign_ok && (mag <? f32_inf) && nearest_even a b mag) "float_spec:value_not_nearest"
              end
          end
      end
  end.

Definition clause_string (v : envv) (ret : bool) (value : bytes) : list tok :=
  match raw_nonempty v with
  | None => check (negb ret && nilb value) "string_spec:unset_or_empty"
  | Some s => check (ret && bytes_eqb value s) "string_spec:wrong_value"
  end.

(* OTEL_SDK_DISABLED: disabled iff the text is "true" (any case); then the sdk helpers install nothing *)
Definition clause_disabled (v : envv) (dis t m l : bool) : list tok :=
  let want := match raw_nonempty v with
              | Some s => match spec_bool s with Some b => b | None => false end
              | None => false
              end in
  check (Bool.eqb dis want) "sdk_disabled:wrong_decision" ++
  check (Bool.eqb t (negb want) && Bool.eqb m (negb want) && Bool.eqb l (negb want)) "sdk_disabled:provider_install".

(* ------------------------------------------------------------------ key=value lists *)

(* pieces between the commas: every piece, including empty ones *)
Fixpoint pieces (c : byte) (s : bytes) : list bytes :=
  match s with
  | [] => [[]]
  | b :: s' => if Byte.eqb b c then [] :: pieces c s'
               else match pieces c s' with p :: ps => (b :: p) :: ps | [] => [[b]] end
  end.

(* the value the list text [s] gives key [k]: that of the last piece "k=value" (a key holds no '=') *)
Definition env_lookup (s k : bytes) : option bytes :=
  if existsb (Byte.eqb x3d) k then None
  else fold_left (fun acc p => match strip_prefix (k ++ [x3d]) p with Some v => Some v | None => acc end)
                 (pieces x2c s) None.
(* keys mentioned by the list text *)
Definition env_keys (s : bytes) : list bytes :=
  fold_right (fun p acc => match split_at_first (Byte.eqb x3d) p with (k, Some _) => k :: acc | (_, None) => acc end)
             [] (pieces x2c s).

Definition key_service_name : bytes := bs "service.name".
Definition key_exe_name : bytes := bs "process.executable.name".

(* what the environment says about key k: OTEL_SERVICE_NAME (when set and not empty) beats the list *)
Definition env_says (ra sn : envv) (k : bytes) : option value :=
  match (if bytes_eqb k key_service_name then raw_nonempty sn else None) with
  | Some n => Some (VStr n)
  | None => match raw_nonempty ra with
            | Some s => option_map VStr (env_lookup s k)
            | None => None
            end
  end.

(* ------------------------------------------------------------------ resources *)

Definition robs := option (bytes * amap).     (* an observed resource: schema URL and attribute listing; None = threw *)

Fixpoint strictly_sorted (m : amap) : bool :=
  match m with
  | a :: ((b :: _) as m') => bytes_ltb (fst a) (fst b) && strictly_sorted m'
  | _ => true
  end.

Definition ovalue_eqb (a b : option value) : bool :=
  match a, b with
  | Some x, Some y => value_eqb x y
  | None, None => true
  | _, _ => false
  end.

(* the last binding of k in a caller's list *)
Definition last_binding (k : bytes) (l : list (bytes * value)) : option value :=
  fold_left (fun acc kv => if bytes_eqb k (fst kv) then Some (snd kv) else acc) l None.

Definition clause_new (attrs : list (bytes * value)) (schema : bytes) (o : robs) : list tok :=
  match o with
  | None => fail "resource_value:construction_threw"
  | Some (sch, m) =>
      check (strictly_sorted m) "obs:listing_not_sorted" ++
      check (bytes_eqb sch schema &&
             forallb (fun k => ovalue_eqb (lookup k m) (last_binding k attrs)) (map fst attrs ++ map fst m))
            "merge_operands_unchanged:resource_differs_from_its_construction"
  end.

Definition clause_merge (a b r : robs) : list tok :=
  match a, b, r with
  | Some (sa, ma), Some (sb, mb), Some (sr, mr) =>
      let keys := map fst ma ++ map fst mb ++ map fst mr in
      let want k := match lookup k mb with Some v => Some v | None => lookup k ma end in
      check (strictly_sorted mr) "obs:listing_not_sorted" ++
      check (forallb (fun k => match lookup k ma, lookup k mb with
                               | Some _, Some _ => ovalue_eqb (lookup k mr) (want k)
                               | _, _ => true
                               end) keys) "merge_spec:shared_key_not_from_other" ++
      check (forallb (fun k => match lookup k ma, lookup k mb with
                               | Some _, Some _ => true
                               | _, _ => ovalue_eqb (lookup k mr) (want k)
                               end) keys) "merge_spec:not_the_union" ++
      check (bytes_eqb sr (if nilb sb then sa else sb)) "merge_spec:schema_url"
  | Some _, Some _, None => fail "merge_spec:threw"
  | _, _, _ => []     (* an operand is missing: nothing to say *)
  end.

Definition doc_defaults : list (bytes * value) :=
  [(bs "telemetry.sdk.language", VStr (bs "cpp"));
   (bs "telemetry.sdk.name", VStr (bs "opentelemetry"));
   (bs "telemetry.sdk.version",
    VStr (match find (fun kv => bytes_eqb (nb (fst kv)) (bs "telemetry.sdk.version")) c18_default_attrs with
          | Some (_, ver) => nb ver      (* OPENTELEMETRY_SDK_VERSION as the sources define it now *)
          | None => []
          end))].

Definition starts_with (p s : bytes) : bool := match strip_prefix p s with Some _ => true | None => false end.

Definition clause_create (ra sn : envv) (attrs : list (bytes * value)) (schema : bytes) (o : robs) : list tok :=
  let user k := last_binding k attrs in
  let env k := env_says ra sn k in
  let dflt k := last_binding k doc_defaults in
  let want k := match user k with Some v => Some v | None => match env k with Some v => Some v | None => dflt k end end in
  match o with
  | None =>
      match want key_service_name, want key_exe_name with
      | None, Some (VInt _) | None, Some (VBool _) => fail "service_name_always_present:non_string_executable_name"
      | _, _ => fail "service_name_always_present:create_threw"
      end
  | Some (sch, m) =>
      let keys := map fst attrs ++ key_service_name :: match raw_nonempty ra with Some s => env_keys s | None => [] end
                  ++ map fst doc_defaults ++ map fst m in
      check (strictly_sorted m) "obs:listing_not_sorted" ++
      check (forallb (fun k => match user k with Some v => ovalue_eqb (lookup k m) (Some v) | None => true end) keys)
            "create_precedence:caller_attribute_lost" ++
      check (forallb (fun k => match user k, env k with None, Some v => ovalue_eqb (lookup k m) (Some v) | _, _ => true end) keys)
            "create_precedence:environment_attribute_lost" ++
      check (forallb (fun k => match user k, env k, dflt k with None, None, Some v => ovalue_eqb (lookup k m) (Some v) | _, _, _ => true end) keys)
            "create_precedence:sdk_default_lost" ++
      check (forallb (fun k => match want k with
                               | None => bytes_eqb k key_service_name || ovalue_eqb (lookup k m) None
                               | Some _ => true
                               end) keys) "create_precedence:unexpected_attribute" ++
      check (match lookup key_service_name m with Some _ => true | None => false end) "service_name_always_present:missing" ++
      check (match want key_service_name, lookup key_service_name m with
             | None, Some (VStr n) => starts_with (bs "unknown_service") n
             | None, Some _ => false
             | _, _ => true
             end) "service_name_always_present:fallback_value" ++
      check (bytes_eqb sch schema) "create_precedence:schema_url"
  end.

Definition clause_detect (ra sn : envv) (o : robs) : list tok :=
  match o with
  | None => fail "detector_spec:threw"
  | Some (sch, m) =>
      let keys := key_service_name :: match raw_nonempty ra with Some s => env_keys s | None => [] end ++ map fst m in
      check (strictly_sorted m) "obs:listing_not_sorted" ++
      check (forallb (fun k => ovalue_eqb (lookup k m) (env_says ra sn k)) keys)
            (if forallb (fun k => if bytes_eqb k key_service_name then ovalue_eqb (lookup k m) (env_says ra sn k) else true) keys
             then "detector_spec:key_value_list" else "detector_spec:service_name_precedence") ++
      check (nilb sch) "detector_spec:schema_url"
  end.

(* the resource store script: entry n of the final listing against what operation n must have produced *)
Fixpoint clause_rops_aux (ra sn : envv) (ops : list rop) (obs all : list robs) : list tok :=
  match ops, obs with
  | op :: ops', o :: obs' =>
      match op with
      | RNew attrs schema => clause_new attrs schema o
      | RMerge i j => clause_merge (nth i all None) (nth j all None) o
      | RCreate attrs schema => clause_create ra sn attrs schema o
      end ++ clause_rops_aux ra sn ops' obs' all
  | [], [] => []
  | _, _ => fail "obs:wrong_number_of_resources"
  end.
Definition clause_rops (ra sn : envv) (ops : list rop) (obs : list robs) : list tok := clause_rops_aux ra sn ops obs obs.

(* providers: EVERY item an exporter or reader callback receives - with or without data - must reference the
   resource object of the provider it came through, and that resource lists what the provider was built from *)
Definition pobs := option (Z * robs * bool).     (* reference index (-1 = none of the providers, -2 = null), resource seen, has data *)
Definition pop_target (op : pop) : option (signal * nat) :=
  match op with
  | PE sg i => Some (sg, i)
  | PK _ i => Some (SigMetric, i)
  | _ => None
  end.
Fixpoint clause_emits (rs : list (list (bytes * value) * bytes)) (ops : list pop) (obs : list pobs) : list tok :=
  match ops with
  | [] => match obs with [] => [] | _ => fail "obs:wrong_number_of_items" end
  | op :: ops' =>
      match pop_target op with
      | None => clause_emits rs ops' obs
      | Some (sg, i) =>
          match obs with
          | [] => fail "obs:wrong_number_of_items"
          | o :: obs' =>
              match nth_error rs i, o with
              | Some (attrs, schema), Some (ref, r, has_data) =>
                  check (ref =? Z.of_nat i)
                        (match sg with
                         | SigSpan => "provider_resource_referenced:span"
                         | SigLog => "provider_resource_referenced:log_record"
                         | SigMetric => if has_data then "provider_resource_referenced:metric_batch"
                                        else "provider_resource_referenced:metric_batch_without_data"
                         end) ++
                  (if ref <? 0 then [] else clause_new attrs schema r)
              | Some _, None => fail "provider_resource_referenced:nothing_exported"
              | None, _ => []
              end ++ clause_emits rs ops' obs'
          end
      end
  end.
