(* C18 proofs, part 3: model_meets_spec, clause by clause - every SPEC clause that ./check evaluates on the
   implementation's observations yields no failure on the model's own results, for every input. *)
From V Require Import C18.Glue C18.ProofsBase C18.ProofsEnv C18.ProofsRes.
From Coq Require Import Lia ZifyBool ZifyNat ZifyN.
Local Open Scope Z_scope.

(* ================================================================ scalar readers *)

Theorem clause_bool_ok : forall v, clause_bool v (fst (get_bool v)) (snd (get_bool v)) = [].
Proof.
  intros v. rewrite get_bool_eq. unfold clause_bool. destruct (raw_nonempty v) as [s|]; [|reflexivity].
  destruct (spec_bool s) as [[|]|]; reflexivity.
Qed.

Theorem clause_uint_ok : forall v stale, clause_uint v stale (fst (get_uint v)) (snd (get_uint v)) = [].
Proof.
  intros v stale. rewrite get_uint_eq. unfold clause_uint. destruct (raw_nonempty v) as [s|]; [|reflexivity].
  destruct (spec_uint s) as [n|]; cbn [fst snd andb negb].
  - rewrite Z.eqb_refl. reflexivity.
  - reflexivity.
Qed.

Theorem clause_duration_ok : forall v sentinel,
  exists r n, get_duration v sentinel = Some (r, n) /\ clause_duration v sentinel r n = [].
Proof.
  intros v sentinel. unfold get_duration, clause_duration. destruct (raw_nonempty v) as [s|].
  - rewrite parse_duration_eq. destruct (spec_duration s) as [t|] eqn:E.
    + exists true, t. split; [reflexivity|]. cbn. rewrite Z.eqb_refl. reflexivity.
    + exists false, sentinel. split; [reflexivity|]. cbn. rewrite Z.eqb_refl, orb_true_r. reflexivity.
  - exists false, 0. split; reflexivity.
Qed.

Theorem clause_string_ok : forall v, clause_string v (fst (get_string v)) (snd (get_string v)) = [].
Proof.
  intros v. rewrite string_spec_proof. unfold clause_string. destruct (raw_nonempty v) as [s|]; [|reflexivity].
  cbn. rewrite bytes_eqb_refl. reflexivity.
Qed.

Theorem clause_disabled_ok : forall v,
  clause_disabled v (sdk_disabled v) (provider_installed v) (provider_installed v) (provider_installed v) = [].
Proof.
  intros v. unfold clause_disabled, provider_installed, sdk_disabled. rewrite get_bool_eq.
  destruct (raw_nonempty v) as [s|]; [|reflexivity]. destruct (spec_bool s) as [[|]|]; reflexivity.
Qed.

(* the float reader: a rejected text leaves the default, never a partial value *)
Theorem float_reject_default : forall v, fst (get_float v) = false -> snd (get_float v) = 0.
Proof.
  intros v. unfold get_float. destruct (raw_nonempty v) as [s|]; [|reflexivity].
  destruct (strtof_parse s) as [r|]; [|reflexivity].
  destruct (f32_magnitude (sf_kind r)) as [bits er]. destruct er; [reflexivity|].
  destruct (negb (Nat.eqb (sf_consumed r) (length s))); [reflexivity|]. cbn. discriminate.
Qed.

(* ================================================================ the order on keys *)
Lemma b2n_inj x y : b2n x = b2n y -> x = y.
Proof.
  unfold b2n. intros H. pose proof (Byte.of_to_N x) as Hx. pose proof (Byte.of_to_N y) as Hy.
  rewrite H in Hx. congruence.
Qed.

Lemma ltb_irrefl a : bytes_ltb a a = false.
Proof. induction a as [|x a IH]; cbn; auto. rewrite IH, N.ltb_irrefl, N.eqb_refl. reflexivity. Qed.

Lemma ltb_trans a : forall b c, bytes_ltb a b = true -> bytes_ltb b c = true -> bytes_ltb a c = true.
Proof.
  induction a as [|x a IH]; intros [|y b] [|z c]; cbn; try discriminate; auto.
  intros H1 H2.
  apply orb_true_iff in H1. apply orb_true_iff in H2. apply orb_true_iff.
  destruct H1 as [H1|H1]; destruct H2 as [H2|H2].
  - left. lia.
  - apply andb_true_iff in H2 as [H2 _]. left. lia.
  - apply andb_true_iff in H1 as [H1 _]. left. lia.
  - apply andb_true_iff in H1 as [H1 H1']. apply andb_true_iff in H2 as [H2 H2']. right.
    apply andb_true_iff. split; [lia|eauto].
Qed.

Lemma ltb_total a : forall b, bytes_ltb a b = false -> a <> b -> bytes_ltb b a = true.
Proof.
  induction a as [|x a IH]; intros [|y b]; cbn; auto; try congruence; try discriminate.
  intros H Hne. apply orb_false_iff in H as [H1 H2]. apply orb_true_iff.
  destruct (N.eqb (b2n x) (b2n y)) eqn:E.
  - cbn in H2. right. apply andb_true_iff. split; [lia|].
    apply N.eqb_eq, b2n_inj in E. subst y. apply IH; auto. congruence.
  - left. lia.
Qed.

(* ================================================================ sort_map *)
Definition lt_all (k : bytes) (m : amap) : Prop := forall x, In x (keys m) -> bytes_ltb k x = true.

Lemma strictly_sorted_cons kv m : strictly_sorted (kv :: m) = true <-> lt_all (fst kv) m /\ strictly_sorted m = true.
Proof.
  revert kv. induction m as [|kv' m IH]; intros kv.
  - cbn. split; [intros _; split; [intros x []|reflexivity] | reflexivity].
  - change (strictly_sorted (kv :: kv' :: m)) with (bytes_ltb (fst kv) (fst kv') && strictly_sorted (kv' :: m)).
    rewrite andb_true_iff. split.
    + intros [H1 H2]. split; auto. intros x [Hx|Hx].
      * now subst x.
      * apply IH in H2 as [H2 _]. apply (ltb_trans _ (fst kv')); auto.
    + intros [H1 H2]. split; auto. apply H1. now left.
Qed.

Lemma keys_insert_sorted kv m x : In x (keys (insert_sorted kv m)) <-> x = fst kv \/ In x (keys m).
Proof.
  induction m as [|kv' m IH]; cbn.
  - intuition.
  - destruct (bytes_ltb (fst kv') (fst kv)); cbn; rewrite ?IH; intuition.
Qed.

Lemma sorted_insert kv m : strictly_sorted m = true -> ~ In (fst kv) (keys m) -> strictly_sorted (insert_sorted kv m) = true.
Proof.
  induction m as [|kv' m IH]; intros Hs Hn.
  - reflexivity.
  - cbn [insert_sorted]. apply strictly_sorted_cons in Hs as [H1 H2].
    destruct (bytes_ltb (fst kv') (fst kv)) eqn:E.
    + apply strictly_sorted_cons. split.
      * intros x Hx. apply keys_insert_sorted in Hx as [->|Hx]; auto.
      * apply IH; auto. intros X. apply Hn. now right.
    + assert (L : bytes_ltb (fst kv) (fst kv') = true).
      { apply ltb_total; auto. intros X. apply Hn. left. auto. }
      apply strictly_sorted_cons. split.
      * intros x [Hx|Hx]; [now subst|]. apply (ltb_trans _ (fst kv')); auto.
      * apply strictly_sorted_cons. auto.
Qed.

Lemma keys_sort_map m x : In x (keys (sort_map m)) <-> In x (keys m).
Proof.
  induction m as [|kv m IH]; cbn; [tauto|]. rewrite keys_insert_sorted, IH. intuition.
Qed.

Lemma sorted_sort_map m : NoDup (keys m) -> strictly_sorted (sort_map m) = true.
Proof.
  induction m as [|kv m IH]; intros H; [reflexivity|].
  inversion H as [|? ? Hnin Hnd]; subst. cbn [sort_map fold_right]. apply sorted_insert; [now apply IH|].
  intros X. apply Hnin. apply (keys_sort_map m). exact X.
Qed.

Lemma lookup_insert_sorted k kv m : ~ In (fst kv) (keys m) ->
  lookup k (insert_sorted kv m) = if bytes_eqb k (fst kv) then Some (snd kv) else lookup k m.
Proof.
  destruct kv as [k' v]. cbn [fst snd]. induction m as [|[k1 v1] m IH]; intros Hn.
  - reflexivity.
  - cbn [insert_sorted fst]. destruct (bytes_ltb k1 k'); cbn [lookup].
    + rewrite IH by (intros X; apply Hn; now right).
      destruct (bytes_eqb k k1) eqn:E1; [|reflexivity]. destruct (bytes_eqb k k') eqn:E2; [|reflexivity].
      apply bytes_eqb_eq in E1, E2. subst. exfalso. apply Hn. now left.
    + reflexivity.
Qed.

Lemma lookup_sort_map k m : NoDup (keys m) -> lookup k (sort_map m) = lookup k m.
Proof.
  induction m as [|[k' v] m IH]; intros H; [reflexivity|]. inversion H as [|? ? Hnin Hnd]; subst.
  cbn [sort_map fold_right]. rewrite lookup_insert_sorted.
  - cbn. fold (sort_map m). now rewrite IH.
  - cbn. intros X. apply Hnin. apply (keys_sort_map m). exact X.
Qed.

(* what the drivers list for a resource *)
Definition obs_of (r : resource) : robs := Some (r_schema r, sort_map (r_attrs r)).
Definition obs_of_o (o : option resource) : robs := match o with Some r => obs_of r | None => None end.

Lemma value_eqb_refl v : value_eqb v v = true.
Proof. destruct v; cbn; [apply bytes_eqb_refl | apply Z.eqb_refl | now destruct b]. Qed.
Lemma ovalue_eqb_refl o : ovalue_eqb o o = true.
Proof. destruct o; cbn; auto. apply value_eqb_refl. Qed.

Lemma forallb_all {A} (p : A -> bool) l : (forall x, p x = true) -> forallb p l = true.
Proof. intros H. apply forallb_forall. auto. Qed.

(* ================================================================ resource clauses *)

Theorem clause_new_ok : forall attrs schema, clause_new attrs schema (obs_of (mk_res (map_of_list attrs) schema)) = [].
Proof.
  intros attrs schema. unfold clause_new, obs_of. cbn [r_schema r_attrs].
  rewrite sorted_sort_map by apply nodup_map_of_list. rewrite bytes_eqb_refl. cbn [check app andb].
  rewrite forallb_all; [reflexivity|]. intros k.
  rewrite lookup_sort_map by apply nodup_map_of_list. rewrite lookup_map_of_list. apply ovalue_eqb_refl.
Qed.

Theorem clause_merge_ok : forall a b, NoDup (keys (r_attrs a)) -> NoDup (keys (r_attrs b)) ->
  clause_merge (obs_of a) (obs_of b) (obs_of (merge a b)) = [].
Proof.
  intros a b Ha Hb. unfold clause_merge, obs_of.
  destruct (merge_spec_proof a b) as (Hl & Hs & Hn). specialize (Hn Hb).
  rewrite sorted_sort_map by auto. cbn [check app].
  assert (L : forall k, lookup k (sort_map (r_attrs (merge a b))) =
                        match lookup k (sort_map (r_attrs b)) with Some v => Some v | None => lookup k (sort_map (r_attrs a)) end).
  { intros k. rewrite !lookup_sort_map by auto. apply Hl. }
  rewrite forallb_all.
  2:{ intros k. rewrite L. destruct (lookup k (sort_map (r_attrs a))); destruct (lookup k (sort_map (r_attrs b))); auto; apply ovalue_eqb_refl. }
  rewrite forallb_all.
  2:{ intros k. rewrite L. destruct (lookup k (sort_map (r_attrs a))); destruct (lookup k (sort_map (r_attrs b))); auto; apply ovalue_eqb_refl. }
  cbn [check app]. rewrite Hs. unfold nilb. destruct (r_schema b); rewrite bytes_eqb_refl; reflexivity.
Qed.

Theorem clause_detect_ok : forall ra sn, clause_detect ra sn (obs_of (detect ra sn)) = [].
Proof.
  intros ra sn. unfold clause_detect, obs_of.
  assert (N : NoDup (keys (r_attrs (detect ra sn)))) by apply (detector_spec_proof ra sn []).
  rewrite sorted_sort_map by auto. cbn [check app].
  assert (L : forall k, ovalue_eqb (lookup k (sort_map (r_attrs (detect ra sn)))) (env_says ra sn k) = true).
  { intros k. rewrite lookup_sort_map by auto. destruct (detector_spec_proof ra sn k) as (-> & _ & _). apply ovalue_eqb_refl. }
  rewrite forallb_all by exact L. cbn. reflexivity.
Qed.

Lemma doc_defaults_lookup k : last_binding k doc_defaults = lookup k doc_defaults.
Proof. symmetry. apply lookup_doc_defaults. Qed.

Lemma layered_list ra sn attrs k :
  layered ra sn (map_of_list attrs) k =
  match last_binding k attrs with
  | Some v => Some v
  | None => match env_says ra sn k with Some v => Some v | None => last_binding k doc_defaults end
  end.
Proof. unfold layered. rewrite lookup_map_of_list, doc_defaults_lookup. reflexivity. Qed.

Lemma starts_with_app p s : starts_with p (p ++ s) = true.
Proof.
  unfold starts_with. assert (H : strip_prefix p (p ++ s) = Some s) by now apply strip_prefix_spec. now rewrite H.
Qed.

Lemma create_nodup ra sn attrs schema : NoDup (keys (r_attrs (create ra sn (map_of_list attrs) schema))).
Proof.
  unfold create. destruct detector_consts as (_ & _ & _ & Es & Ee). rewrite Es, Ee.
  pose proof (merged_nodup ra sn (map_of_list attrs) schema (nodup_map_of_list attrs)) as M.
  destruct (lookup key_service_name _); [exact M|]. cbn [r_attrs]. now apply nodup_map_set.
Qed.

(* Create: no clause fails *)
Theorem clause_create_ok : forall ra sn attrs schema,
  clause_create ra sn attrs schema (obs_of (create ra sn (map_of_list attrs) schema)) = [].
Proof.
  intros ra sn attrs schema.
  destruct (create_characterised ra sn (map_of_list attrs) schema) as (Cs & Cl).
  set (r := create ra sn (map_of_list attrs) schema) in *.
  assert (N : NoDup (keys (r_attrs r))) by apply create_nodup.
  unfold clause_create, obs_of.
  rewrite sorted_sort_map by auto. cbn [check app].
  assert (L : forall k, lookup k (sort_map (r_attrs r)) =
                        match layered ra sn (map_of_list attrs) k with
                        | Some v => Some v
                        | None => if bytes_eqb k key_service_name
                                  then Some (fallback_name (layered ra sn (map_of_list attrs) key_exe_name)) else None
                        end).
  { intros k. rewrite lookup_sort_map by auto. apply Cl. }
  rewrite forallb_all.
  2:{ intros k. rewrite L, layered_list. destruct (last_binding k attrs); auto. apply ovalue_eqb_refl. }
  rewrite forallb_all.
  2:{ intros k. rewrite L, layered_list. destruct (last_binding k attrs); auto. destruct (env_says ra sn k); auto. apply ovalue_eqb_refl. }
  rewrite forallb_all.
  2:{ intros k. rewrite L, layered_list. destruct (last_binding k attrs); auto. destruct (env_says ra sn k); auto.
      destruct (last_binding k doc_defaults); auto. apply ovalue_eqb_refl. }
  rewrite forallb_all.
  2:{ intros k. rewrite L, layered_list. destruct (last_binding k attrs); auto. destruct (env_says ra sn k); auto.
      destruct (last_binding k doc_defaults); auto. destruct (bytes_eqb k key_service_name); auto. }
  cbn [check app].
  rewrite (L key_service_name), bytes_eqb_refl. rewrite !layered_list in *.
  destruct (match last_binding key_service_name attrs with
            | Some v => Some v
            | None => match env_says ra sn key_service_name with Some v => Some v | None => last_binding key_service_name doc_defaults end
            end) as [sv|] eqn:Ls.
  + cbn [check app]. rewrite Cs, bytes_eqb_refl. reflexivity.
  + destruct (match last_binding key_exe_name attrs with
              | Some v => Some v
              | None => match env_says ra sn key_exe_name with Some v => Some v | None => last_binding key_exe_name doc_defaults end
              end) as [[e|z|b]|] eqn:Le; cbn [fallback_name].
    * rewrite starts_with_app. cbn [check app]. rewrite Cs, bytes_eqb_refl. reflexivity.
    * change (bs "unknown_service") with (bs "unknown_service" ++ []). rewrite starts_with_app.
      cbn [check app]. rewrite Cs, bytes_eqb_refl. reflexivity.
    * change (bs "unknown_service") with (bs "unknown_service" ++ []). rewrite starts_with_app.
      cbn [check app]. rewrite Cs, bytes_eqb_refl. reflexivity.
    * change (bs "unknown_service") with (bs "unknown_service" ++ []). rewrite starts_with_app.
      cbn [check app]. rewrite Cs, bytes_eqb_refl. reflexivity.
Qed.

(* ================================================================ whole scripts *)

Lemma app_eq_nil_intro {A} (a b : list A) : a = [] -> b = [] -> a ++ b = [].
Proof. intros -> ->. reflexivity. Qed.

Definition nodup_o (o : option resource) : Prop := match o with Some r => NoDup (keys (r_attrs r)) | None => True end.

(* the entry an operation appends *)
Definition relem (ra sn : envv) (st : store) (op : rop) : option resource :=
  match op with
  | RNew attrs schema => Some (mk_res (map_of_list attrs) schema)
  | RMerge i j => match nth_error st i, nth_error st j with
                  | Some (Some a), Some (Some b) => Some (merge a b)
                  | _, _ => None
                  end
  | RCreate attrs schema => Some (create ra sn (map_of_list attrs) schema)
  end.
Lemma rstep_relem ra sn st op : rstep ra sn st op = st ++ [relem ra sn st op].
Proof. reflexivity. Qed.

Lemma relem_nodup ra sn st op : Forall nodup_o st -> nodup_o (relem ra sn st op).
Proof.
  intros H. destruct op as [attrs schema|i j|attrs schema]; cbn [relem].
  - cbn. apply nodup_map_of_list.
  - destruct (nth_error st i) as [[a|]|] eqn:Ei; cbn; auto.
    destruct (nth_error st j) as [[b|]|] eqn:Ej; cbn; auto.
    apply merge_spec_proof. apply nth_error_In in Ej. rewrite Forall_forall in H. apply (H _ Ej).
  - cbn. apply create_nodup.
Qed.

Fixpoint entries (ra sn : envv) (st : store) (ops : list rop) : store :=
  match ops with
  | [] => []
  | op :: ops' => relem ra sn st op :: entries ra sn (st ++ [relem ra sn st op]) ops'
  end.

Lemma fold_entries ra sn ops : forall st, fold_left (rstep ra sn) ops st = st ++ entries ra sn st ops.
Proof.
  induction ops as [|op ops IH]; intros st; cbn [fold_left entries].
  - now rewrite app_nil_r.
  - rewrite IH, rstep_relem, <- app_assoc. reflexivity.
Qed.

(* the clause for one operation, given a final listing [all] of which the store at that time is a prefix *)
Definition op_wf (n : nat) (op : rop) : Prop :=
  match op with RMerge i j => (i < n)%nat /\ (j < n)%nat | _ => True end.
(* merges refer to resources made earlier in the script *)
Fixpoint rops_wf (n : nat) (ops : list rop) : Prop :=
  match ops with
  | [] => True
  | op :: ops' => op_wf n op /\ rops_wf (S n) ops'
  end.

Lemma clause_op_ok ra sn (st : store) (all : list robs) op :
  Forall nodup_o st -> op_wf (length st) op ->
  (forall i, (i < length st)%nat -> nth i all None = obs_of_o (nth i st None)) ->
  match op with
  | RNew attrs schema => clause_new attrs schema (obs_of_o (relem ra sn st op))
  | RMerge i j => clause_merge (nth i all None) (nth j all None) (obs_of_o (relem ra sn st op))
  | RCreate attrs schema => clause_create ra sn attrs schema (obs_of_o (relem ra sn st op))
  end = [].
Proof.
  intros Hn Hwf Hall.
  destruct op as [attrs schema|i j|attrs schema]; cbn [relem].
  - cbn [obs_of_o]. apply clause_new_ok.
  - destruct (nth_error st i) as [[a|]|] eqn:Ei.
    + assert (Li : (i < length st)%nat) by (apply nth_error_Some; congruence).
      rewrite (Hall i Li), (nth_error_nth st i None Ei).
      destruct (nth_error st j) as [[b|]|] eqn:Ej.
      * assert (Lj : (j < length st)%nat) by (apply nth_error_Some; congruence).
        rewrite (Hall j Lj), (nth_error_nth st j None Ej). cbn [obs_of_o].
        apply clause_merge_ok.
        -- apply nth_error_In in Ei. rewrite Forall_forall in Hn. apply (Hn _ Ei).
        -- apply nth_error_In in Ej. rewrite Forall_forall in Hn. apply (Hn _ Ej).
      * assert (Lj : (j < length st)%nat) by (apply nth_error_Some; congruence).
        rewrite (Hall j Lj), (nth_error_nth st j None Ej). reflexivity.
      * apply nth_error_None in Ej. cbn in Hwf. lia.
    + assert (Li : (i < length st)%nat) by (apply nth_error_Some; congruence).
      rewrite (Hall i Li), (nth_error_nth st i None Ei). reflexivity.
    + apply nth_error_None in Ei. cbn in Hwf. lia.
  - cbn [obs_of_o]. apply clause_create_ok.
Qed.

Lemma clause_rops_from ra sn : forall rest st, Forall nodup_o st -> rops_wf (length st) rest ->
  clause_rops_aux ra sn rest (map obs_of_o (entries ra sn st rest))
                  (map obs_of_o (st ++ entries ra sn st rest)) = [].
Proof.
  induction rest as [|op rest IH]; intros st Hn Hwf.
  - reflexivity.
  - destruct Hwf as [Hwf1 Hwf2]. cbn [entries map clause_rops_aux].
    set (x := relem ra sn st op).
    set (all := map obs_of_o (st ++ x :: entries ra sn (st ++ [x]) rest)).
    apply app_eq_nil_intro.
    + apply clause_op_ok; auto. intros i Hi. unfold all.
      change None with (obs_of_o None) at 1. rewrite map_nth. now rewrite app_nth1.
    + assert (E : all = map obs_of_o ((st ++ [x]) ++ entries ra sn (st ++ [x]) rest))
        by (unfold all; rewrite <- app_assoc; reflexivity).
      rewrite E. apply IH.
      * apply Forall_app. split; auto. constructor; [|constructor]. now apply relem_nodup.
      * rewrite app_length. cbn [length]. replace (length st + 1)%nat with (S (length st)) by lia. exact Hwf2.
Qed.

(* every clause evaluated on a resource script holds of the model *)
Theorem clause_rops_ok : forall ra sn ops, rops_wf 0 ops ->
  clause_rops ra sn ops (map obs_of_o (run_rops ra sn ops)) = [].
Proof.
  intros ra sn ops Hwf. unfold clause_rops, run_rops. rewrite fold_entries. cbn [app].
  apply (clause_rops_from ra sn ops []); [constructor|exact Hwf].
Qed.

(* ================================================================ providers *)
Definition to_pobs (it : option (pitem * bool)) : pobs :=
  match it with
  | Some (p, has_data) => Some (match p_ref p with Some i => Z.of_nat i | None => -1 end, obs_of (p_res p), has_data)
  | None => None
  end.

Theorem clause_emits_ok : forall rs ops st,
  Forall (fun op => match observed op with Some i => (i < length rs)%nat | None => True end) ops ->
  clause_emits rs ops (map to_pobs (run_pops (resources_of rs) st ops)) = [].
Proof.
  intros rs ops. induction ops as [|op ops IH]; intros st H; [reflexivity|].
  inversion H as [|? ? Hop Hops]; subst.
  assert (X : forall sg i d, observed op = Some i -> pop_target op = Some (sg, i) ->
              clause_emits rs (op :: ops) (to_pobs (item_of (resources_of rs) i d) :: map to_pobs (run_pops (resources_of rs) st ops)) = []).
  { intros sg i d Ho Ht. rewrite Ho in Hop. cbn [clause_emits]. rewrite Ht.
    unfold item_of, resources_of at 1. rewrite nth_error_map.
    destruct (nth_error rs i) as [[attrs schema]|] eqn:E; [|apply nth_error_None in E; lia].
    cbn [option_map to_pobs p_ref p_res fst snd]. rewrite Z.eqb_refl. cbn [check app].
    assert (Y : (Z.of_nat i <? 0) = false) by lia. rewrite Y. rewrite clause_new_ok. cbn [app]. now apply IH. }
  destruct op as [sg i|i|i|i|d i]; cbn [run_pops pstep app map].
  - apply (X sg i true); reflexivity.
  - cbn [clause_emits pop_target]. now apply IH.
  - cbn [clause_emits pop_target]. now apply IH.
  - cbn [clause_emits pop_target]. now apply IH.
  - apply (X SigMetric i _); reflexivity.
Qed.
