(* C05 proofs, part 2: the world - several threads, each with its own C10 runtime-context stack over a shared
   heap of context nodes, one span table, one exporter.  An invariant of every reachable world under every
   schedule of StartSpan / End / WithActiveSpan / Attach / Detach / context construction, and what it gives:
   exported = exactly the recording spans that were ended, each once; span contexts never change; every
   operation only extends the heap. *)
From V Require Import C10.ProofsCtx C10.ProofsStack C10.ProofsProps.
From V Require Import C05.Spec C05.ProofsCore.
From Coq Require Import Lia ZifyBool ZifyNat ZifyN.
Local Open Scope nat_scope.

(* ------------------------------------------------------------------ list toolkit *)
Lemma nth_error_set_nth : forall A (l : list A) k v j,
  nth_error (set_nth k v l) j = if Nat.eqb j k then (if Nat.ltb k (length l) then Some v else None) else nth_error l j.
Proof.
  induction l as [|x l IH]; intros k v j.
  - assert (E : set_nth k v (@nil A) = []) by (destruct k; reflexivity). rewrite E.
    assert (N : nth_error (@nil A) j = None) by (destruct j; reflexivity). rewrite N.
    destruct (Nat.eqb j k); [|reflexivity]. destruct k; reflexivity.
  - destruct k as [|k]; destruct j as [|j]; cbn [set_nth nth_error Nat.eqb length]; try reflexivity.
    rewrite IH. destruct (Nat.eqb j k); [|reflexivity].
    change (Nat.ltb (S k) (S (length l))) with (Nat.ltb k (length l)). reflexivity.
Qed.

Lemma set_nth_length' : forall A (l : list A) k v, length (set_nth k v l) = length l.
Proof. induction l as [|x l IH]; intros [|k] v; cbn; auto. Qed.

Lemma Forall_set_nth : forall A (P : A -> Prop) l k v, Forall P l -> P v -> Forall P (set_nth k v l).
Proof.
  induction l as [|x l IH]; intros k v H Hv; [destruct k; constructor|].
  inversion H; subst. destruct k; cbn; constructor; auto.
Qed.

Lemma Forall_nth_default : forall A (P : A -> Prop) l d k, Forall P l -> P d -> P (nth k l d).
Proof.
  induction l as [|x l IH]; intros d k H Hd; [destruct k; exact Hd|].
  inversion H; subst. destruct k; cbn; auto.
Qed.

Lemma nth_set_nth_other : forall A (l : list A) k v j d, j <> k -> nth j (set_nth k v l) d = nth j l d.
Proof.
  induction l as [|x l IH]; intros k v j d H; [destruct k; reflexivity|].
  destruct k, j; cbn; try reflexivity; try lia. apply IH. lia.
Qed.

Lemma nth_set_nth_same : forall A (l : list A) k v d, k < length l -> nth k (set_nth k v l) d = v.
Proof.
  induction l as [|x l IH]; intros k v d H; [cbn in H; lia|].
  destruct k; cbn; [reflexivity|]. apply IH. cbn in H. lia.
Qed.

Lemma NoDup_app_one : forall A (l : list A) k, NoDup l -> ~ In k l -> NoDup (l ++ [k]).
Proof.
  induction l as [|x l IH]; intros k H N; cbn; [constructor; [intros []|constructor]|].
  inversion H; subst. constructor.
  - intro I. apply in_app_or in I. destruct I as [I|[I|[]]]; [contradiction|]. subst. apply N. left. reflexivity.
  - apply IH; [assumption|]. intro I. apply N. right. exact I.
Qed.

(* ------------------------------------------------------------------ the invariant *)
Definition node_ref_ok (nspans : nat) (nd : node) : Prop :=
  forall n, n_val nd = (KS, n) -> (0 <= n < Z.of_nat nspans)%Z.
Definition refs_ok (h : heap) (nspans : nat) : Prop := Forall (node_ref_ok nspans) h.

Record WInv (w : world) : Prop := mk_WInv {
  I_wf : Forall stack_wf (w_stks w);
  I_pool : Forall (ctx_ok (w_heap w)) (w_pool w);
  I_stk : Forall (fun s => Forall (ctx_ok (w_heap w)) (abs s)) (w_stks w);
  I_refs : refs_ok (w_heap w) (length (w_spans w));
  I_nodup : NoDup (w_exp w);
  I_sound : forall k, In k (w_exp w) ->
            exists s, nth_error (w_spans w) k = Some s /\ sp_rec s = true /\ sp_ended s = true;
  I_complete : forall k s, nth_error (w_spans w) k = Some s -> sp_rec s = true -> sp_ended s = true -> In k (w_exp w)
}.

Lemma abs_stack0 : abs stack0 = [].
Proof. reflexivity. Qed.

Lemma WInv_init : forall n, WInv (world0 n).
Proof.
  intro n. constructor; cbn.
  - apply Forall_forall. intros s H. apply repeat_spec in H. subst. apply stack0_wf.
  - constructor; [exact I | constructor].
  - apply Forall_forall. intros s H. apply repeat_spec in H. subst. rewrite abs_stack0. constructor.
  - constructor.
  - constructor.
  - intros k [].
  - intros k s H. destruct k; discriminate.
Qed.

Lemma stk_of_wf : forall w t, WInv w -> stack_wf (stk_of w t).
Proof. intros w t H. unfold stk_of. apply Forall_nth_default; [apply (I_wf w H) | apply stack0_wf]. Qed.

Lemma stk_of_ok : forall w t, WInv w -> Forall (ctx_ok (w_heap w)) (abs (stk_of w t)).
Proof.
  intros w t H. unfold stk_of.
  apply (Forall_nth_default _ (fun s => Forall (ctx_ok (w_heap w)) (abs s))); [apply (I_stk w H) | rewrite abs_stack0; constructor].
Qed.

Lemma top_ok : forall w t, WInv w -> ctx_ok (w_heap w) (top (stk_of w t)).
Proof.
  intros w t H. rewrite (top_abs _ (stk_of_wf w t H)). pose proof (stk_of_ok w t H) as F.
  destruct (abs (stk_of w t)); [exact I | inversion F; assumption].
Qed.

Lemma pool_nth_ok : forall w i, WInv w -> ctx_ok (w_heap w) (nth i (w_pool w) root).
Proof. intros w i H. apply Forall_nth_default; [apply (I_pool w H) | exact I]. Qed.

Lemma resolve_ok : forall w t r, WInv w -> ctx_ok (w_heap w) (resolve (view w t) r).
Proof. intros w t [|i] H; cbn [resolve view t_stk t_pool]; [apply top_ok | apply pool_nth_ok]; exact H. Qed.

(* ------------------------------------------------------------------ adding a span *)
Lemma refs_ok_mono : forall h n m, n <= m -> refs_ok h n -> refs_ok h m.
Proof.
  intros h n m L H. unfold refs_ok in *. eapply Forall_impl; [|exact H].
  intros nd R k E. specialize (R k E). lia.
Qed.

Lemma WInv_add_span : forall w s, WInv w -> sp_ended s = false -> WInv (add_span w s).
Proof.
  intros w s H E. destruct H as [H1 H2 H3 H4 H5 H6 H7]. constructor; cbn [add_span w_stks w_heap w_pool w_spans w_exp]; auto.
  - rewrite app_length. cbn. eapply refs_ok_mono; [|exact H4]. lia.
  - intros k Hk. destruct (H6 k Hk) as [s0 [A B]]. exists s0. split; [|exact B].
    rewrite nth_error_app1; [exact A|]. apply nth_error_Some. congruence.
  - intros k s0 A B C. destruct (Nat.lt_ge_cases k (length (w_spans w))) as [L|L].
    + rewrite nth_error_app1 in A by exact L. eapply H7; eauto.
    + rewrite nth_error_app2 in A by exact L. destruct (k - length (w_spans w)) as [|j]; cbn in A.
      * inversion A; subst. congruence.
      * destruct j; discriminate.
Qed.

(* ------------------------------------------------------------------ End *)
Lemma WInv_end : forall w k, WInv w -> WInv (fst (do_end w k)).
Proof.
  intros w k H. unfold do_end. destruct (nth_error (w_spans w) k) as [s|] eqn:N; [|exact H].
  assert (Lk : k < length (w_spans w)) by (apply nth_error_Some; congruence).
  destruct H as [H1 H2 H3 H4 H5 H6 H7]. cbn [fst].
  constructor; cbn [w_stks w_heap w_pool w_spans w_exp]; auto.
  - rewrite set_nth_length'. exact H4.
  - destruct (sp_rec s && negb (sp_ended s)) eqn:F; [|exact H5].
    apply andb_true_iff in F. destruct F as [F1 F2]. apply negb_true_iff in F2.
    apply NoDup_app_one; [exact H5|]. intro Hin. destruct (H6 k Hin) as [s0 [A [_ B]]]. congruence.
  - intros j Hj. rewrite nth_error_set_nth.
    destruct (Nat.eqb j k) eqn:E.
    + apply Nat.eqb_eq in E. subst j.
      assert (L : Nat.ltb k (length (w_spans w)) = true) by (apply Nat.ltb_lt; exact Lk). rewrite L.
      exists (set_ended s). split; [reflexivity|]. cbn. split; [|reflexivity].
      destruct (sp_rec s && negb (sp_ended s)) eqn:F.
      * apply andb_true_iff in F. tauto.
      * destruct (H6 k Hj) as [s0 [A [B _]]]. congruence.
    + apply Nat.eqb_neq in E. destruct (sp_rec s && negb (sp_ended s)) eqn:F.
      * apply in_app_or in Hj. destruct Hj as [Hj|[Hj|[]]]; [apply H6; exact Hj | congruence].
      * apply H6. exact Hj.
  - intros j s0 A B C. rewrite nth_error_set_nth in A.
    destruct (Nat.eqb j k) eqn:E.
    + apply Nat.eqb_eq in E. subst j.
      assert (L : Nat.ltb k (length (w_spans w)) = true) by (apply Nat.ltb_lt; exact Lk). rewrite L in A.
      inversion A; subst s0. cbn in B.
      destruct (sp_ended s) eqn:En.
      * rewrite B. cbn. eapply H7; eauto.
      * rewrite B. cbn. apply in_or_app. right. left. reflexivity.
    + destruct (sp_rec s && negb (sp_ended s)); [apply in_or_app; left|]; eapply H7; eauto.
Qed.

(* ------------------------------------------------------------------ context operations *)
Lemma WInv_ctx_update : forall w ex p t s' toks',
  WInv w ->
  Forall (node_ref_ok (length (w_spans w))) ex ->
  Forall (ctx_ok (ex ++ w_heap w)) p ->
  stack_wf s' -> Forall (ctx_ok (ex ++ w_heap w)) (abs s') ->
  WInv (mk_w (ex ++ w_heap w) (w_pool w ++ p) toks' (set_nth t s' (w_stks w)) (w_spans w) (w_exp w)).
Proof.
  intros w ex p t s' toks' [H1 H2 H3 H4 H5 H6 H7] R P W A.
  constructor; cbn [w_stks w_heap w_pool w_spans w_exp]; auto.
  - apply Forall_set_nth; assumption.
  - apply Forall_app. split; [|exact P]. eapply Forall_impl; [|exact H2]. intros c; apply ctx_ok_app.
  - apply Forall_set_nth; [|exact A]. eapply Forall_impl; [|exact H3].
    intros s F. eapply Forall_impl; [|exact F]. intros c; apply ctx_ok_app.
  - apply Forall_app. split; assumption.
Qed.

Lemma ldetach_Forall : forall (P : ctx -> Prop) l c, Forall P l -> Forall P (fst (ldetach l c)).
Proof.
  intros P l c H. unfold ldetach. destruct (lunwind c l) as [r|] eqn:E; [|exact H]. cbn [fst].
  revert r E. induction H as [|x l Hx Hl IH]; intros r E; [discriminate|].
  cbn [lunwind] in E. destruct (ctx_eqb c x); [inversion E; subst; exact Hl | apply IH; exact E].
Qed.

Lemma detach_keeps : forall w t c, WInv w ->
  stack_wf (fst (detach (stk_of w t) c)) /\ Forall (ctx_ok (w_heap w)) (abs (fst (detach (stk_of w t) c))).
Proof.
  intros w t c H. destruct (detach_abs (stk_of w t) c (stk_of_wf w t H)) as [W A]. split; [exact W|].
  assert (E : abs (fst (detach (stk_of w t) c)) = fst (ldetach (abs (stk_of w t)) c)) by (rewrite <- A; reflexivity).
  rewrite E. apply ldetach_Forall. apply stk_of_ok. exact H.
Qed.

Lemma push_keeps : forall w t c ex, WInv w -> ctx_ok (ex ++ w_heap w) c ->
  stack_wf (push (stk_of w t) c) /\ Forall (ctx_ok (ex ++ w_heap w)) (abs (push (stk_of w t) c)).
Proof.
  intros w t c ex H C. destruct (push_abs (stk_of w t) c (stk_of_wf w t H)) as [W A]. split; [exact W|].
  rewrite A. constructor; [exact C|]. eapply Forall_impl; [|apply (stk_of_ok w t H)]. intros x; apply ctx_ok_app.
Qed.

Lemma same_stack_keeps : forall w t ex, WInv w ->
  stack_wf (stk_of w t) /\ Forall (ctx_ok (ex ++ w_heap w)) (abs (stk_of w t)).
Proof.
  intros w t ex H. split; [apply stk_of_wf; exact H|].
  eapply Forall_impl; [|apply (stk_of_ok w t H)]. intros x; apply ctx_ok_app.
Qed.

Lemma WInv_cop : forall w t co, WInv w -> cop_ok w co = true -> WInv (unview w t (fst (step (view w t) co))).
Proof.
  intros w t co H OK.
  destruct co as [r k v | r b | r k | r k | r | keys | i j | r | k | k | | sp]; cbn [cop_ok] in OK; try discriminate.
  - (* OSet *)
    cbn [step view t_heap t_pool t_stk t_toks set_value alloc]. unfold unview. cbn [fst t_heap t_pool t_stk t_toks].
    destruct (same_stack_keeps w t [mk_node (Some k) v (resolve (view w t) r)] H) as [W A].
    apply (WInv_ctx_update w [mk_node (Some k) v (resolve (view w t) r)] [Some (length (w_heap w))] t _ (w_toks w) H); auto.
    + constructor; [|constructor]. intros n E. cbn [n_val] in E. subst v. cbn in OK.
      unfold span_ref_ok in OK. lia.
    + constructor; [|constructor]. cbn. lia.
  - (* OAttach *)
    cbn [step view t_heap t_pool t_stk t_toks]. unfold unview. cbn [fst t_heap t_pool t_stk t_toks].
    pose proof (resolve_ok w t r H) as C.
    destruct (push_keeps w t (resolve (view w t) r) [] H C) as [W A].
    pose proof (WInv_ctx_update w [] [] t _ (w_toks w ++ [TLive (resolve (view w t) r)]) H (Forall_nil _) (Forall_nil _) W A) as G.
    cbn [app] in G. rewrite app_nil_r in G. exact G.
  - (* ODetach *)
    cbn [step view t_heap t_pool t_stk t_toks].
    destruct (tok_ctx (nth k (w_toks w) TDead)) as [c|].
    + destruct (detach (stk_of w t) c) as [s b] eqn:D. unfold unview, with_stk. cbn [fst t_heap t_pool t_stk t_toks].
      destruct (detach_keeps w t c H) as [W A]. rewrite D in W, A. cbn [fst] in W, A.
      pose proof (WInv_ctx_update w [] [] t s (w_toks w) H (Forall_nil _) (Forall_nil _) W A) as G.
      cbn [app] in G. rewrite app_nil_r in G. exact G.
    + unfold unview. cbn [fst t_heap t_pool t_stk t_toks].
      destruct (same_stack_keeps w t [] H) as [W A].
      pose proof (WInv_ctx_update w [] [] t _ (w_toks w) H (Forall_nil _) (Forall_nil _) W A) as G.
      cbn [app] in G. rewrite app_nil_r in G. exact G.
  - (* OKill *)
    cbn [step view t_heap t_pool t_stk t_toks].
    assert (Same : forall toks', WInv (mk_w (w_heap w) (w_pool w) toks' (set_nth t (stk_of w t) (w_stks w)) (w_spans w) (w_exp w))).
    { intro toks'. destruct (same_stack_keeps w t [] H) as [W A].
      pose proof (WInv_ctx_update w [] [] t _ toks' H (Forall_nil _) (Forall_nil _) W A) as G.
      cbn [app] in G. rewrite app_nil_r in G. exact G. }
    assert (Det : forall c toks', WInv (mk_w (w_heap w) (w_pool w) toks' (set_nth t (fst (detach (stk_of w t) c)) (w_stks w)) (w_spans w) (w_exp w))).
    { intros c toks'. destruct (detach_keeps w t c H) as [W A].
      pose proof (WInv_ctx_update w [] [] t _ toks' H (Forall_nil _) (Forall_nil _) W A) as G.
      cbn [app] in G. rewrite app_nil_r in G. exact G. }
    destruct (nth k (w_toks w) TDead) as [|c|c|c]; unfold unview; cbn [fst t_heap t_pool t_stk t_toks view];
      first [apply Same | apply Det].
  - (* OScope *)
    cbn [step view t_heap t_pool t_stk t_toks set_value alloc]. unfold unview. cbn [fst t_heap t_pool t_stk t_toks].
    set (nd := mk_node (Some span_key) (KS, sp) (top (stk_of w t))).
    assert (C : ctx_ok ([nd] ++ w_heap w) (Some (length (w_heap w)))) by (cbn; lia).
    destruct (push_keeps w t (Some (length (w_heap w))) [nd] H C) as [W A].
    apply (WInv_ctx_update w [nd] [Some (length (w_heap w))] t _ _ H); auto.
    + constructor; [|constructor]. intros n E. cbn [n_val nd] in E. inversion E; subst n.
      unfold span_ref_ok in OK. lia.
Qed.

(* ------------------------------------------------------------------ every operation, every thread *)
Theorem WInv_step : forall cf w t o, WInv w -> WInv (fst (sstep cf w t o)).
Proof.
  intros cf w t o H. destruct o as [p gsid gtid scr | k | c | | co]; cbn [sstep].
  - unfold do_start. destruct (negb (cf_enabled cf)); cbn [fst]; apply WInv_add_span; auto.
  - apply WInv_end. exact H.
  - cbn [fst]. apply WInv_add_span; auto.
  - exact H.
  - destruct (cop_ok w co) eqn:OK; [|exact H].
    destruct (step (view w t) co) as [st out] eqn:S. cbn [fst].
    replace st with (fst (step (view w t) co)) by (rewrite S; reflexivity). apply WInv_cop; assumption.
Qed.

Lemma srun_cons : forall cf w t o ops,
  fst (srun cf w ((t, o) :: ops)) = fst (srun cf (fst (sstep cf w t o)) ops) /\
  snd (srun cf w ((t, o) :: ops)) = snd (sstep cf w t o) :: snd (srun cf (fst (sstep cf w t o)) ops).
Proof.
  intros. cbn [srun]. destruct (sstep cf w t o) as [w1 out]. cbn [fst snd].
  destruct (srun cf w1 ops) as [w2 outs]. split; reflexivity.
Qed.

Theorem WInv_run : forall cf ops w, WInv w -> WInv (fst (srun cf w ops)).
Proof.
  intros cf ops. induction ops as [|[t o] ops IH]; intros w H; [exact H|].
  destruct (srun_cons cf w t o ops) as [E _]. rewrite E. apply IH. apply WInv_step. exact H.
Qed.

Theorem WInv_reachable : forall cf n ops, WInv (fst (srun cf (world0 n) ops)).
Proof. intros. apply WInv_run. apply WInv_init. Qed.

(* ------------------------------------------------------------------ what reaches the exporter *)
(* for every program, every number of threads, every schedule: the exporter has received exactly the spans that
   were created recording and have been ended, each of them once; in particular never a non-recording one *)
Theorem exported_iff_recorded_and_ended : forall cf n ops,
  let w := fst (srun cf (world0 n) ops) in
  NoDup (w_exp w) /\
  (forall k, In k (w_exp w) -> k < length (w_spans w)) /\
  (forall k s, nth_error (w_spans w) k = Some s -> (In k (w_exp w) <-> sp_rec s = true /\ sp_ended s = true)).
Proof.
  intros cf n ops w. pose proof (WInv_reachable cf n ops) as H. fold w in H.
  split; [apply (I_nodup w H)|]. split.
  - intros k Hk. destruct (I_sound w H k Hk) as [s [A _]]. apply nth_error_Some. congruence.
  - intros k s N. split.
    + intro Hk. destruct (I_sound w H k Hk) as [s0 [A B]]. rewrite N in A. inversion A; subst. exact B.
    + intros [A B]. eapply (I_complete w H); eauto.
Qed.

Corollary not_recorded_never_exported : forall cf n ops k s,
  let w := fst (srun cf (world0 n) ops) in
  nth_error (w_spans w) k = Some s -> sp_rec s = false -> ~ In k (w_exp w).
Proof.
  intros cf n ops k s w N R Hin. destruct (exported_iff_recorded_and_ended cf n ops) as (_ & _ & E).
  apply (E k s N) in Hin. destruct Hin. congruence.
Qed.

(* ------------------------------------------------------------------ spans never change their identity *)
Definition same_identity (a b : span_rec) : Prop :=
  sp_ctx b = sp_ctx a /\ sp_psid b = sp_psid a /\ sp_rec b = sp_rec a /\ sp_attrs b = sp_attrs a /\
  (sp_ended a = true -> sp_ended b = true).

Lemma same_identity_refl : forall a, same_identity a a.
Proof. intro a. repeat split; auto. Qed.

Lemma same_identity_trans : forall a b c, same_identity a b -> same_identity b c -> same_identity a c.
Proof. intros a b c (A1 & A2 & A3 & A4 & A5) (B1 & B2 & B3 & B4 & B5). repeat split; try congruence. auto. Qed.

(* one operation: the heap and the pool are only extended, the span table is only extended, every existing
   entry keeps context, parent, recording flag and attributes *)
Lemma step_extends_world : forall cf w t o,
  let w' := fst (sstep cf w t o) in
  (exists ex, w_heap w' = ex ++ w_heap w) /\
  length (w_spans w) <= length (w_spans w') /\
  (forall k s, nth_error (w_spans w) k = Some s -> exists s', nth_error (w_spans w') k = Some s' /\ same_identity s s') /\
  (forall u, u <> t -> stk_of w' u = stk_of w u).
Proof.
  intros cf w t o w'. subst w'.
  assert (Add : forall s,
    (exists ex, w_heap (add_span w s) = ex ++ w_heap w) /\
    length (w_spans w) <= length (w_spans (add_span w s)) /\
    (forall k s0, nth_error (w_spans w) k = Some s0 -> exists s', nth_error (w_spans (add_span w s)) k = Some s' /\ same_identity s0 s') /\
    (forall u, u <> t -> stk_of (add_span w s) u = stk_of w u)).
  { intro s. cbn [add_span w_heap w_spans]. split; [exists []; reflexivity|]. split; [rewrite app_length; lia|]. split.
    - intros k s0 N. exists s0. split; [|apply same_identity_refl]. rewrite nth_error_app1; [exact N|]. apply nth_error_Some. congruence.
    - intros u _. reflexivity. }
  assert (Same : (exists ex, w_heap w = ex ++ w_heap w) /\ length (w_spans w) <= length (w_spans w) /\
    (forall k s0, nth_error (w_spans w) k = Some s0 -> exists s', nth_error (w_spans w) k = Some s' /\ same_identity s0 s') /\
    (forall u, u <> t -> stk_of w u = stk_of w u)).
  { split; [exists []; reflexivity|]. split; [lia|]. split; [|reflexivity].
    intros k s0 N. exists s0. split; [exact N | apply same_identity_refl]. }
  destruct o as [p gsid gtid scr | k | c | | co]; cbn [sstep].
  - unfold do_start. destruct (negb (cf_enabled cf)); cbn [fst]; apply Add.
  - unfold do_end. destruct (nth_error (w_spans w) k) as [s|] eqn:N; [|exact Same]. cbn [fst w_heap w_spans].
    split; [exists []; reflexivity|]. split; [rewrite set_nth_length'; lia|]. split.
    + intros j s0 Nj. rewrite nth_error_set_nth. destruct (Nat.eqb j k) eqn:E.
      * apply Nat.eqb_eq in E. subst j. rewrite N in Nj. inversion Nj; subst s0.
        assert (L : Nat.ltb k (length (w_spans w)) = true) by (apply Nat.ltb_lt; apply nth_error_Some; congruence).
        rewrite L. exists (set_ended s). split; [reflexivity|]. repeat split; auto.
      * exists s0. split; [exact Nj | apply same_identity_refl].
    + intros u _. reflexivity.
  - cbn [fst]. apply Add.
  - exact Same.
  - destruct (cop_ok w co); [|exact Same].
    destruct (step (view w t) co) as [st out] eqn:S. cbn [fst].
    destruct (step_extends (view w t) co) as [ex [p [E _]]]. rewrite S in E. cbn [fst view t_heap] in E.
    unfold unview. cbn [w_heap w_spans]. split; [exists ex; exact E|]. split; [lia|]. split.
    + intros k s0 N. exists s0. split; [exact N | apply same_identity_refl].
    + intros u Hu. unfold stk_of. cbn [w_stks]. apply nth_set_nth_other. exact Hu.
Qed.

Theorem span_identity_stable : forall cf ops w k s,
  nth_error (w_spans w) k = Some s ->
  exists s', nth_error (w_spans (fst (srun cf w ops))) k = Some s' /\ same_identity s s'.
Proof.
  intros cf ops. induction ops as [|[t o] ops IH]; intros w k s N.
  - exists s. split; [exact N | apply same_identity_refl].
  - destruct (srun_cons cf w t o ops) as [E _]. rewrite E.
    destruct (step_extends_world cf w t o) as (_ & _ & St & _). destruct (St k s N) as [s1 [N1 I1]].
    destruct (IH _ k s1 N1) as [s2 [N2 I2]]. exists s2. split; [exact N2 | eapply same_identity_trans; eauto].
Qed.

Lemma ctx_of_idx_stable : forall cf w t o i,
  (i < Z.of_nat (length (w_spans w)))%Z -> ctx_of_idx (fst (sstep cf w t o)) i = ctx_of_idx w i.
Proof.
  intros cf w t o i L. unfold ctx_of_idx. destruct (i <? 0)%Z eqn:Neg; [reflexivity|].
  destruct (nth_error (w_spans w) (Z.to_nat i)) as [s|] eqn:N.
  - destruct (step_extends_world cf w t o) as (_ & _ & St & _). destruct (St _ s N) as [s' [N' (I & _)]].
    rewrite N'. exact I.
  - apply nth_error_None in N. lia.
Qed.

(* ------------------------------------------------------------------ the active span of a thread *)
Lemma get_value_ext : forall ex h c k, ctx_ok h c -> get_value (ex ++ h) c k = get_value h c k.
Proof. intros. unfold get_value. rewrite chain_app_old by assumption. reflexivity. Qed.

(* every span index stored in a context names an existing span *)
Lemma get_value_ref : forall h c k n nspans, refs_ok h nspans -> get_value h c k = (KS, n) -> (0 <= n < Z.of_nat nspans)%Z.
Proof.
  intros h c k n nspans R G. unfold get_value in G.
  destruct (find (node_matches k) (chain h c)) as [nd|] eqn:F; [|discriminate].
  apply find_some in F. destruct F as [Fin _].
  assert (Sub : forall h c nd, In nd (chain h c) -> In nd h).
  { clear. induction h as [|x h IH]; intros c nd Hin; [destruct Hin|].
    cbn [chain] in Hin. destruct c as [i|]; [|destruct Hin].
    destruct (Nat.eqb i (length h)).
    - destruct Hin as [Hin|Hin]; [left; exact Hin | right; eapply IH; exact Hin].
    - right. eapply IH. exact Hin. }
  apply Sub in Fin. unfold refs_ok in R. rewrite Forall_forall in R. apply (R nd Fin). exact G.
Qed.

Lemma active_idx_range : forall w t, WInv w ->
  active_idx w t = (-1)%Z \/ (0 <= active_idx w t < Z.of_nat (length (w_spans w)))%Z.
Proof.
  intros w t H. unfold active_idx, span_of.
  destruct (get_value (w_heap w) (top (stk_of w t)) span_key) as [kd n] eqn:G. cbn [fst snd].
  destruct kd; auto. right. eapply get_value_ref; [apply (I_refs w H) | exact G].
Qed.

(* "several threads each with its own active-span stack": whatever another thread does - start, end, activate,
   attach, detach, release tokens of any thread, build contexts - the span active on this thread stays the same *)
Theorem active_span_is_thread_local : forall cf w t u o, WInv w -> u <> t ->
  active_idx (fst (sstep cf w u o)) t = active_idx w t /\ active_ctx (fst (sstep cf w u o)) t = active_ctx w t.
Proof.
  intros cf w t u o H Hu.
  destruct (step_extends_world cf w u o) as ([ex E] & _ & _ & Stk).
  assert (A : active_idx (fst (sstep cf w u o)) t = active_idx w t).
  { unfold active_idx. rewrite (Stk t) by congruence. rewrite E. rewrite get_value_ext; [reflexivity | apply top_ok; exact H]. }
  split; [exact A|]. unfold active_ctx. rewrite A.
  destruct (active_idx_range w t H) as [R|R].
  - rewrite R. reflexivity.
  - apply ctx_of_idx_stable. lia.
Qed.

Definition on_other_threads (t : nat) (ops : list (nat * sop)) : Prop := Forall (fun p => fst p <> t) ops.

Theorem active_span_survives_other_threads : forall cf ops w t, WInv w -> on_other_threads t ops ->
  active_ctx (fst (srun cf w ops)) t = active_ctx w t.
Proof.
  intros cf ops. induction ops as [|[u o] ops IH]; intros w t H O; [reflexivity|].
  destruct (srun_cons cf w u o ops) as [E _]. rewrite E. inversion O; subst. cbn [fst] in *.
  rewrite IH; [|apply WInv_step; exact H | assumption].
  apply active_span_is_thread_local; [exact H | assumption].
Qed.

Lemma stk_of_set : forall h p tk stks sp e t s, t < length stks ->
  stk_of (mk_w h p tk (set_nth t s stks) sp e) t = s.
Proof. intros. unfold stk_of. cbn [w_stks]. apply nth_set_nth_same. assumption. Qed.

(* the fields of the world after Scope(span) and after the release of a scope token, on thread t *)
Lemma scope_step_fields : forall cf w t sp, span_ref_ok w sp = true -> t < length (w_stks w) ->
  let w1 := fst (sstep cf w t (SCtx (OScope sp))) in
  w_heap w1 = mk_node (Some span_key) (KS, sp) (top (stk_of w t)) :: w_heap w /\
  stk_of w1 t = push (stk_of w t) (Some (length (w_heap w))) /\
  w_spans w1 = w_spans w /\
  w_toks w1 = w_toks w ++ [TScope (Some (length (w_heap w)))] /\
  length (w_stks w1) = length (w_stks w).
Proof.
  intros cf w t sp OK Lt w1. subst w1. cbn [sstep cop_ok]. rewrite OK.
  cbn [step view t_heap t_pool t_stk t_toks set_value alloc]. unfold unview. cbn [fst t_heap t_pool t_stk t_toks w_heap w_spans w_toks w_stks].
  repeat split; try reflexivity.
  - apply stk_of_set. exact Lt.
  - apply set_nth_length'.
Qed.

Lemma kill_scope_fields : forall cf w t k c, nth k (w_toks w) TDead = TScope c -> t < length (w_stks w) ->
  let w1 := fst (sstep cf w t (SCtx (OKill k))) in
  w_heap w1 = w_heap w /\ stk_of w1 t = fst (detach (stk_of w t) c) /\ w_spans w1 = w_spans w.
Proof.
  intros cf w t k c N Lt w1. subst w1. cbn [sstep cop_ok].
  cbn [step view t_heap t_pool t_stk t_toks]. rewrite N. unfold unview. cbn [fst t_heap t_pool t_stk t_toks w_heap w_spans].
  repeat split; try reflexivity. apply stk_of_set. exact Lt.
Qed.

(* WithActiveSpan / Scope: the span becomes the active one of the calling thread *)
Theorem scope_activates_span : forall cf w t sp, WInv w -> span_ref_ok w sp = true ->
  let w1 := fst (sstep cf w t (SCtx (OScope sp))) in
  t < length (w_stks w) ->
  active_idx w1 t = sp /\ active_ctx w1 t = ctx_of_idx w sp.
Proof.
  intros cf w t sp H OK w1 Lt. destruct (scope_step_fields cf w t sp OK Lt) as (Hh & Hs & Hsp & _). fold w1 in Hh, Hs, Hsp.
  assert (A : active_idx w1 t = sp).
  { unfold active_idx. rewrite Hh, Hs. rewrite (attach_makes_current _ _ (stk_of_wf w t H)).
    pose proof (set_value_get_same (w_heap w) (top (stk_of w t)) span_key (KS, sp)) as G.
    unfold set_value, alloc in G. cbn [fst snd] in G. rewrite G. reflexivity. }
  split; [exact A|]. unfold active_ctx. rewrite A. unfold ctx_of_idx. rewrite Hsp. reflexivity.
Qed.

(* ... and releasing the scope (properly nested) makes the previously active span active again *)
Theorem scope_exit_reactivates_previous : forall cf w t sp, WInv w -> span_ref_ok w sp = true -> t < length (w_stks w) ->
  let w1 := fst (sstep cf w t (SCtx (OScope sp))) in
  let w2 := fst (sstep cf w1 t (SCtx (OKill (length (w_toks w))))) in
  active_idx w2 t = active_idx w t /\ active_ctx w2 t = active_ctx w t.
Proof.
  intros cf w t sp H OK Lt w1 w2. destruct (scope_step_fields cf w t sp OK Lt) as (Hh & Hs & Hsp & Htk & Hl). fold w1 in Hh, Hs, Hsp, Htk, Hl.
  set (c := Some (length (w_heap w))) in *.
  assert (N : nth (length (w_toks w)) (w_toks w1) TDead = TScope c).
  { rewrite Htk. rewrite app_nth2 by lia. rewrite Nat.sub_diag. reflexivity. }
  assert (Lt1 : t < length (w_stks w1)) by (rewrite Hl; exact Lt).
  destruct (kill_scope_fields cf w1 t _ c N Lt1) as (Kh & Ks & Ksp). fold w2 in Kh, Ks, Ksp.
  destruct (detach_top_restores (stk_of w t) c (stk_of_wf w t H)) as (_ & _ & T).
  assert (A : active_idx w2 t = active_idx w t).
  { unfold active_idx. rewrite Kh, Ks, Hh, Hs, T.
    change (mk_node (Some span_key) (KS, sp) (top (stk_of w t)) :: w_heap w)
      with ([mk_node (Some span_key) (KS, sp) (top (stk_of w t))] ++ w_heap w).
    rewrite get_value_ext; [reflexivity | apply top_ok; exact H]. }
  split; [exact A|]. unfold active_ctx. rewrite A. unfold ctx_of_idx. rewrite Ksp, Hsp. reflexivity.
Qed.

(* ------------------------------------------------------------------ StartSpan in a world *)
(* what one StartSpan does to the world: one more table entry, computed by [new_span] from the parent that
   [resolve_parent] picks among the explicit parent and the span active on the calling thread; nothing else changes *)
Theorem start_step : forall cf w t p gsid gtid scr, cf_enabled cf = true ->
  let b := new_span (cf_samp cf scr) (cf_random cf) gsid gtid
                    (resolve_parent (active_ctx w t) (eval_parent w t p)) in
  let w' := fst (sstep cf w t (SStart p gsid gtid scr)) in
  w_spans w' = w_spans w ++ [mk_span (b_ctx b) (b_psid b) (b_rec b) false (b_attrs b)] /\
  w_exp w' = w_exp w /\ w_heap w' = w_heap w /\ w_stks w' = w_stks w /\
  snd (sstep cf w t (SStart p gsid gtid scr)) =
    OStart (mk_so (active_ctx w t) (cx_obs (eval_parent w t p)) (b_ctx b) (b_rec b) 1 (b_tid_calls b)
                  (Some (b_seen_parent b, b_seen_tid b, seen_of (b_res b)))).
Proof.
  intros cf w t p gsid gtid scr En b w'. subst b w'. cbn [sstep]. unfold do_start. rewrite En. cbn [negb fst snd add_span w_spans w_exp w_heap w_stks].
  repeat split.
Qed.

(* a disabled tracer hands out the no-op span: invalid context, nothing consulted, nothing recorded *)
Theorem start_step_disabled : forall cf w t p gsid gtid scr, cf_enabled cf = false ->
  let w' := fst (sstep cf w t (SStart p gsid gtid scr)) in
  w_spans w' = w_spans w ++ [mk_span ctx_invalid (zeros 8) false false []] /\ w_exp w' = w_exp w.
Proof. intros cf w t p gsid gtid scr En w'. subst w'. cbn [sstep]. unfold do_start. rewrite En. split; reflexivity. Qed.

(* the whole chain for the third mechanism: a span made active with WithActiveSpan / Scope on thread t is the
   parent of a span started on t with default options - whatever the OTHER threads do in between (any operations,
   any number), and whatever the sampler decides *)
Theorem child_of_active_span_under_any_schedule : forall cf w t sp ops gsid gtid scr,
  WInv w -> cf_enabled cf = true -> t < length (w_stks w) ->
  span_ref_ok w sp = true -> ctx_valid (ctx_of_idx w sp) = true ->
  on_other_threads t ops ->
  let w1 := fst (srun cf (fst (sstep cf w t (SCtx (OScope sp)))) ops) in
  let w2 := fst (sstep cf w1 t (SStart PDef gsid gtid scr)) in
  exists s, w_spans w2 = w_spans w1 ++ [s] /\
    c_tid (sp_ctx s) = c_tid (ctx_of_idx w sp) /\ sp_psid s = c_sid (ctx_of_idx w sp) /\ c_sid (sp_ctx s) = gsid.
Proof.
  intros cf w t sp ops gsid gtid scr H En Lt OK V O w1 w2.
  destruct (scope_activates_span cf w t sp H OK Lt) as [_ A].
  assert (H1 : WInv (fst (sstep cf w t (SCtx (OScope sp))))) by (apply WInv_step; exact H).
  assert (A1 : active_ctx w1 t = ctx_of_idx w sp).
  { subst w1. rewrite (active_span_survives_other_threads cf ops _ t H1 O). exact A. }
  destruct (start_step cf w1 t PDef gsid gtid scr En) as (S & _). fold w2 in S.
  eexists. split; [exact S|]. cbn [sp_ctx sp_psid eval_parent].
  rewrite A1. unfold resolve_parent. change (ctx_valid ctx_invalid) with false. cbn iota.
  destruct (child_of_valid_parent (cf_samp cf scr) (cf_random cf) gsid gtid _ V) as (X1 & X2 & X3 & _).
  unfold born_of in X1, X2, X3. auto.
Qed.

(* first mechanism: an explicit valid SpanContext wins over whatever is active on the thread *)
Theorem explicit_span_context_wins : forall cf w t c gsid gtid scr, cf_enabled cf = true -> ctx_valid c = true ->
  let w' := fst (sstep cf w t (SStart (PSc c) gsid gtid scr)) in
  exists s, w_spans w' = w_spans w ++ [s] /\ c_tid (sp_ctx s) = c_tid c /\ sp_psid s = c_sid c /\ c_sid (sp_ctx s) = gsid.
Proof.
  intros cf w t c gsid gtid scr En V w'. destruct (start_step cf w t (PSc c) gsid gtid scr En) as (S & _). fold w' in S.
  eexists. split; [exact S|]. cbn [sp_ctx sp_psid eval_parent resolve_parent]. rewrite V.
  destruct (child_of_valid_parent (cf_samp cf scr) (cf_random cf) gsid gtid c V) as (X1 & X2 & X3 & _).
  unfold born_of in X1, X2, X3. auto.
Qed.

Lemma root_key_not_span_key : root_key <> span_key.
Proof. vm_compute. discriminate. Qed.

(* second mechanism: a Context made with trace::SetSpan(context, span k) names span k as the parent (if its
   context is valid), whatever is active on the thread and whatever else the context carries underneath *)
Theorem explicit_context_span_wins : forall cf w t i k gsid gtid scr,
  WInv w -> cf_enabled cf = true -> span_ref_ok w k = true -> ctx_valid (ctx_of_idx w k) = true ->
  let w1 := fst (sstep cf w t (SCtx (OSet (CIdx i) span_key (KS, k)))) in
  let w2 := fst (sstep cf w1 t (SStart (PCx (CIdx (length (w_pool w)))) gsid gtid scr)) in
  exists s, w_spans w2 = w_spans w1 ++ [s] /\
    c_tid (sp_ctx s) = c_tid (ctx_of_idx w k) /\ sp_psid s = c_sid (ctx_of_idx w k) /\ c_sid (sp_ctx s) = gsid.
Proof.
  intros cf w t i k gsid gtid scr H En OK V w1 w2.
  assert (F : w_heap w1 = mk_node (Some span_key) (KS, k) (nth i (w_pool w) root) :: w_heap w /\
              w_pool w1 = w_pool w ++ [Some (length (w_heap w))] /\ w_spans w1 = w_spans w).
  { subst w1. cbn [sstep cop_ok]. rewrite OK. cbn [step view resolve t_heap t_pool t_stk t_toks set_value alloc].
    unfold unview. cbn [fst t_heap t_pool t_stk t_toks w_heap w_pool w_spans]. repeat split. }
  destruct F as (Fh & Fp & Fs).
  destruct (start_step cf w1 t (PCx (CIdx (length (w_pool w)))) gsid gtid scr En) as (S & _). fold w2 in S.
  eexists. split; [exact S|]. cbn [sp_ctx sp_psid eval_parent resolve view t_pool].
  assert (C : cx_span_ctx w1 (nth (length (w_pool w)) (w_pool w1) root) = ctx_of_idx w k).
  { rewrite Fp. rewrite app_nth2 by lia. rewrite Nat.sub_diag. cbn [nth]. unfold cx_span_ctx. rewrite Fh.
    pose proof (set_value_get_same (w_heap w) (nth i (w_pool w) root) span_key (KS, k)) as G.
    unfold set_value, alloc in G. cbn [fst snd] in G. rewrite G. cbn [span_of fst snd].
    unfold ctx_of_idx. rewrite Fs. reflexivity. }
  rewrite C. unfold resolve_parent. rewrite V.
  destruct (child_of_valid_parent (cf_samp cf scr) (cf_random cf) gsid gtid _ V) as (X1 & X2 & X3 & _).
  unfold born_of in X1, X2, X3. auto.
Qed.

(* ... and a Context marked as root (over one that carries no span) starts a new trace although a span is active *)
Theorem root_marker_context_starts_trace : forall cf w t i gsid gtid scr,
  WInv w -> cf_enabled cf = true ->
  span_of (get_value (w_heap w) (nth i (w_pool w) root) span_key) = (-1)%Z ->
  let w1 := fst (sstep cf w t (SCtx (OSet (CIdx i) root_key (KB, 1%Z)))) in
  let w2 := fst (sstep cf w1 t (SStart (PCx (CIdx (length (w_pool w)))) gsid gtid scr)) in
  exists s, w_spans w2 = w_spans w1 ++ [s] /\ c_tid (sp_ctx s) = gtid /\ sp_psid s = zeros 8 /\ c_sid (sp_ctx s) = gsid.
Proof.
  intros cf w t i gsid gtid scr H En NoSpan w1 w2.
  assert (F : w_heap w1 = mk_node (Some root_key) (KB, 1%Z) (nth i (w_pool w) root) :: w_heap w /\
              w_pool w1 = w_pool w ++ [Some (length (w_heap w))] /\ w_spans w1 = w_spans w).
  { subst w1. cbn [sstep cop_ok]. cbn [step view resolve t_heap t_pool t_stk t_toks set_value alloc].
    unfold unview. cbn [fst t_heap t_pool t_stk t_toks w_heap w_pool w_spans]. repeat split. }
  destruct F as (Fh & Fp & Fs).
  destruct (start_step cf w1 t (PCx (CIdx (length (w_pool w)))) gsid gtid scr En) as (S & _). fold w2 in S.
  eexists. split; [exact S|]. cbn [sp_ctx sp_psid eval_parent resolve view t_pool].
  assert (N : nth (length (w_pool w)) (w_pool w1) root = Some (length (w_heap w))).
  { rewrite Fp. rewrite app_nth2 by lia. rewrite Nat.sub_diag. reflexivity. }
  rewrite N.
  assert (C : cx_span_ctx w1 (Some (length (w_heap w))) = ctx_invalid).
  { unfold cx_span_ctx. rewrite Fh.
    pose proof (set_value_get_other (w_heap w) (nth i (w_pool w) root) root_key (KB, 1%Z) span_key) as G.
    unfold set_value, alloc in G. cbn [fst snd] in G. rewrite G by (intro E; apply root_key_not_span_key; congruence).
    rewrite NoSpan. reflexivity. }
  assert (R : cx_is_root w1 (Some (length (w_heap w))) = true).
  { unfold cx_is_root. rewrite Fh.
    pose proof (set_value_get_same (w_heap w) (nth i (w_pool w) root) root_key (KB, 1%Z)) as G.
    unfold set_value, alloc in G. cbn [fst snd] in G. rewrite G. reflexivity. }
  rewrite C, R. unfold resolve_parent. change (ctx_valid ctx_invalid) with false. cbn iota.
  assert (V : ctx_valid ctx_invalid = false) by reflexivity.
  destruct (root_without_valid_parent (cf_samp cf scr) (cf_random cf) gsid gtid _ V) as (X1 & X2 & X3 & _).
  unfold born_of in X1, X2, X3. auto.
Qed.

(* ------------------------------------------------------------------ non-vacuity: a small tree on two threads *)
Definition ex_cfg : cfg := cfg_of true true CScript.
Definition ex_scr (d : decision) : sresult := mk_sres d None None.
Definition ex_prog : list (nat * sop) :=
  [(0, SWrap ex_parent);                                              (* 0: remote parent, flags 0xff *)
   (0, SCtx (OScope 0%Z));
   (0, SStart PDef (repeat x11 8) (repeat x21 16) (ex_scr Drop));            (* 1: dropped child of 0 *)
   (1, SStart PDef (repeat x12 8) (repeat x22 16) (ex_scr RecordAndSample)); (* 2: root on thread 1 *)
   (0, SCtx (OScope 1%Z));
   (0, SStart PDef (repeat x13 8) (repeat x23 16) (ex_scr RecordOnly));      (* 3: child of the dropped span *)
   (0, SEnd 3); (0, SEnd 3); (0, SEnd 1)].

Example tree_example :
  let w := fst (srun ex_cfg (world0 2) ex_prog) in
  map (fun s => (c_tid (sp_ctx s), sp_psid s, flags_z (sp_ctx s), sp_rec s)) (w_spans w) =
    [(ex_tid, zeros 8, 255%Z, false);
     (ex_tid, ex_sid, 0%Z, false);
     (repeat x22 16, zeros 8, 1%Z, true);
     (ex_tid, repeat x11 8, 0%Z, true)] /\
  w_exp w = [3] /\ ctx_valid (ctx_of_idx w 1) = true.
Proof. vm_compute. repeat split. Qed.

Example world_hypotheses_satisfiable :
  let w := fst (srun ex_cfg (world0 2) [(0, SWrap ex_parent)]) in
  WInv w /\ cf_enabled ex_cfg = true /\ 0 < length (w_stks w) /\ span_ref_ok w 0 = true /\
  ctx_valid (ctx_of_idx w 0) = true /\ on_other_threads 0 [(1, SStart PDef (repeat x12 8) (repeat x22 16) (ex_scr Drop))] /\
  span_of (get_value (w_heap w) (nth 0 (w_pool w) root) span_key) = (-1)%Z.
Proof.
  split; [apply WInv_run; apply WInv_init|]. vm_compute. repeat split; try lia.
  constructor; [cbn; lia | constructor].
Qed.

Lemma not_recorded_not_exported_full : forall cf n ops,
  let w := fst (srun cf (world0 n) ops) in
  NoDup (w_exp w) /\
  (forall k, In k (w_exp w) -> k < length (w_spans w)) /\
  (forall k s, nth_error (w_spans w) k = Some s -> (In k (w_exp w) <-> sp_rec s = true /\ sp_ended s = true)) /\
  (forall k s, nth_error (w_spans w) k = Some s -> sp_rec s = false -> ~ In k (w_exp w)).
Proof.
  intros cf n ops w. destruct (exported_iff_recorded_and_ended cf n ops) as (A & B & C).
  split; [exact A|]. split; [exact B|]. split; [exact C|].
  intros k s N R. exact (not_recorded_never_exported cf n ops k s N R).
Qed.
