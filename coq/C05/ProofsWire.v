(* C05 proofs, part 4: the token format.  Printing the model's observation of a program and parsing it back
   (the way run_spec parses the implementation's line) gives the observation again; hence
   run_spec l (run_model l) = [] for every case line that parses. *)
From V Require Import C10.ProofsCtx.
From V Require Import C05.Glue C05.ProofsCore C05.ProofsMeets.
From Coq Require Import Lia ZifyBool ZifyNat ZifyN.
Local Open Scope Z_scope.

(* ------------------------------------------------------------------ splitting at separator tags *)
Definition no_tag (sp : string) (l : list tok) : Prop := Forall (fun t => is_tag sp t = false) l.

Lemma split_aux_clean : forall sp a cur, no_tag sp a -> split_toks_aux sp a cur = [rev cur ++ a].
Proof.
  intros sp a. induction a as [|x a IH]; intros cur H; cbn [split_toks_aux]; [rewrite app_nil_r; reflexivity|].
  inversion H; subst. rewrite H2. rewrite IH by assumption. cbn [rev]. rewrite <- app_assoc. reflexivity.
Qed.

Lemma split_aux_sep : forall sp a s rest cur, no_tag sp a -> is_tag sp s = true ->
  split_toks_aux sp (a ++ s :: rest) cur = (rev cur ++ a) :: split_toks_aux sp rest [].
Proof.
  intros sp a. induction a as [|x a IH]; intros s rest cur H S; cbn [app split_toks_aux].
  - rewrite S, app_nil_r. reflexivity.
  - inversion H; subst. rewrite H2. rewrite IH by assumption. cbn [rev]. rewrite <- app_assoc. reflexivity.
Qed.

Lemma split3 : forall a b c, no_tag "|" a -> no_tag "|" b -> no_tag "|" c ->
  split_toks "|" (a ++ bar :: b ++ bar :: c) = [a; b; c].
Proof.
  intros a b c A B C. unfold split_toks.
  rewrite split_aux_sep by (assumption || reflexivity). cbn [rev app].
  rewrite split_aux_sep by (assumption || reflexivity). cbn [rev app].
  rewrite split_aux_clean by assumption. reflexivity.
Qed.

Lemma split_chunks : forall chunks, Forall (no_tag ";") chunks ->
  split_toks ";" (flat_map (fun ch => ch ++ [sep]) chunks) = chunks ++ [[]].
Proof.
  unfold split_toks. induction chunks as [|c cs IH]; intro H; [reflexivity|].
  inversion H; subst. cbn [flat_map]. rewrite <- app_assoc. cbn [app].
  rewrite split_aux_sep by (assumption || reflexivity). cbn [rev app]. rewrite IH by assumption. reflexivity.
Qed.

Lemma split_records_aux : forall rs r, no_tag "X" r -> Forall (no_tag "X") rs ->
  split_toks_aux "X" (r ++ flat_map (fun r => tag "X" :: r) rs) [] = r :: rs.
Proof.
  induction rs as [|r' rs IH]; intros r R H.
  - cbn [flat_map]. rewrite app_nil_r. rewrite split_aux_clean by assumption. reflexivity.
  - inversion H; subst. cbn [flat_map app]. rewrite split_aux_sep by (assumption || reflexivity). cbn [rev app].
    rewrite IH by assumption. reflexivity.
Qed.

Lemma split_records : forall rs, Forall (no_tag "X") rs ->
  split_toks "X" (flat_map (fun r => tag "X" :: r) rs) = [] :: rs.
Proof.
  intros [|r rs] H; [reflexivity|]. inversion H; subst. unfold split_toks. cbn [flat_map app].
  change (split_toks_aux "X" (tag "X" :: r ++ flat_map (fun r0 => tag "X" :: r0) rs) [])
    with ([] :: split_toks_aux "X" (r ++ flat_map (fun r0 => tag "X" :: r0) rs) []).
  rewrite split_records_aux by assumption. reflexivity.
Qed.

(* ------------------------------------------------------------------ which tokens are separators *)
Lemma no_tag_app : forall sp a b, no_tag sp a -> no_tag sp b -> no_tag sp (a ++ b).
Proof. intros. apply Forall_app. split; assumption. Qed.

Lemma no_tag_map_TZ : forall sp l, no_tag sp (map TZ l).
Proof. intros sp l. induction l; constructor; auto. Qed.

Lemma no_tag_ctx : forall sp c, no_tag sp (print_ctx c).
Proof. intros sp c. unfold print_ctx. repeat constructor. Qed.

Ltac seps := match goal with H : _ \/ _ |- _ => destruct H as [H|H]; subst end.

Lemma no_tag_seen : forall sp s, sp = ";"%string \/ sp = "|"%string -> no_tag sp (print_seen s).
Proof.
  intros sp s H. destruct s as [[[pc tid] [[d ts] n]]|]; unfold print_seen; seps;
    try (repeat constructor; fail).
  - apply no_tag_app; [repeat constructor|]. apply no_tag_app; [apply no_tag_ctx|]. destruct d, ts; repeat constructor.
  - apply no_tag_app; [repeat constructor|]. apply no_tag_app; [apply no_tag_ctx|]. destruct d, ts; repeat constructor.
Qed.

Lemma no_tag_start : forall sp so, sp = ";"%string \/ sp = "|"%string -> no_tag sp (print_start so).
Proof.
  intros sp so H. unfold print_start.
  apply no_tag_app; [seps; repeat constructor|]. apply no_tag_app; [apply no_tag_ctx|].
  apply no_tag_app; [destruct (so_cx so) as [[c r]|]; [|constructor];
                     apply no_tag_app; [seps; repeat constructor|]; apply no_tag_app; [apply no_tag_ctx | repeat constructor]|].
  apply no_tag_app; [seps; repeat constructor|]. apply no_tag_app; [apply no_tag_ctx|].
  apply no_tag_app; [seps; repeat constructor | apply no_tag_seen; exact H].
Qed.

Definition xbody (x : xrec) : list tok :=
  [tnat (x_name x); TB (x_tid x); TB (x_sid x); TB (x_psid x); TZ (x_flags x); TZ (x_cflags x); tbool (x_remote x);
   TB (x_ts x); tnat (length (x_attrs x))] ++ map TZ (x_attrs x).

Lemma print_x_body : forall x, print_x x = tag "X" :: xbody x.
Proof. reflexivity. Qed.

Lemma no_tag_xbody : forall sp x, no_tag sp (xbody x).
Proof. intros. unfold xbody. apply no_tag_app; [repeat constructor | apply no_tag_map_TZ]. Qed.

Lemma no_tag_xs : forall sp xs, sp = ";"%string \/ sp = "|"%string -> no_tag sp (flat_map print_x xs).
Proof.
  intros sp xs H. induction xs as [|x xs IH]; [constructor|]. cbn [flat_map]. apply no_tag_app; [|exact IH].
  rewrite print_x_body. constructor; [seps; reflexivity | apply no_tag_xbody].
Qed.

(* ------------------------------------------------------------------ parse (print x) = x *)
Lemma n2b_b2n : forall b, n2b (b2n b) = b.
Proof. intros b. unfold n2b, b2n. now rewrite Byte.of_to_N. Qed.

Lemma parse_bool_tbool : forall b, parse_bool (tbool b) = Some b.
Proof. destruct b; reflexivity. Qed.

Lemma parse_nat_tnat : forall n, parse_nat (tnat n) = Some n.
Proof. intro n. unfold parse_nat, tnat. assert (H : (0 <=? Z.of_nat n) = true) by lia. rewrite H, Nat2Z.id. reflexivity. Qed.

Lemma parse_octx_print : forall c,
  parse_octx (TB (c_tid c)) (TB (c_sid c)) (TZ (flags_z c)) (tbool (c_remote c)) (TB (c_ts c)) = Some c.
Proof.
  intro c. unfold parse_octx. rewrite parse_bool_tbool.
  pose proof (flags_z_range c) as R.
  assert (H : (0 <=? flags_z c) && (flags_z c <? 256) = true) by lia. rewrite H.
  unfold flags_z. rewrite N2Z.id, n2b_b2n. destruct c; reflexivity.
Qed.

Lemma parse_decision_tok : forall d, parse_decision (dec_tok d) = Some d.
Proof. destruct d; reflexivity. Qed.

Lemma parse_seen_print : forall s, parse_seen (print_seen s) = Some s.
Proof.
  intros [[[pc tid] [[d ts] n]]|]; [|reflexivity].
  unfold print_seen, print_ctx. cbn [app]. unfold parse_seen.
  rewrite parse_octx_print, parse_decision_tok. destruct ts; reflexivity.
Qed.

Lemma parse_new_print : forall active cx nc r n1 n2 sn,
  parse_new active cx ([tag "S"] ++ print_ctx nc ++ [tbool r; tag "G"; TZ n1; TZ n2] ++ print_seen sn) =
  Some (mk_so active cx nc r n1 n2 sn).
Proof.
  intros. unfold print_ctx. cbn [app]. unfold parse_new.
  rewrite parse_octx_print, parse_bool_tbool, parse_seen_print. reflexivity.
Qed.

Lemma parse_start_print : forall so, parse_start_obs (print_start so) = Some so.
Proof.
  intros [active cx nc r n1 n2 sn]. unfold print_start. cbn [so_active so_cx so_new so_rec so_sid_calls so_tid_calls so_samp].
  destruct cx as [[cc rt]|].
  - unfold print_ctx at 1 2. cbn [app]. unfold parse_start_obs. rewrite parse_octx_print. cbn [is_tag negb].
    change (is_tag "A" (tag "A")) with true. change (is_tag "C" (tag "C")) with true. cbn [negb].
    rewrite parse_octx_print, parse_bool_tbool. apply parse_new_print.
  - unfold print_ctx at 1. cbn [app]. unfold parse_start_obs. rewrite parse_octx_print.
    change (is_tag "A" (tag "A")) with true. cbn [negb].
    unfold print_ctx at 1. cbn [app]. change (is_tag "C" (tag "S")) with false. cbv iota.
    apply (parse_new_print active None nc r n1 n2 sn).
Qed.

Lemma parse_zs_any_map : forall l, parse_zs_any (map TZ l) = Some l.
Proof. induction l as [|x l IH]; cbn; [reflexivity | rewrite IH; reflexivity]. Qed.

Lemma parse_x_body : forall x, parse_x (xbody x) = Some x.
Proof.
  intros [nm tid sid psid f cf r ts attrs]. unfold xbody. cbn [x_name x_tid x_sid x_psid x_flags x_cflags x_remote x_ts x_attrs app].
  unfold parse_x. rewrite !parse_nat_tnat, parse_bool_tbool, parse_zs_any_map, Nat.eqb_refl. reflexivity.
Qed.

Lemma flat_map_print_x : forall xs, flat_map print_x xs = flat_map (fun r => tag "X" :: r) (map xbody xs).
Proof. induction xs as [|x xs IH]; [reflexivity|]. cbn [flat_map map]. rewrite IH, print_x_body. reflexivity. Qed.

Lemma parse_all_bodies : forall xs, parse_all parse_x (map xbody xs) = Some xs.
Proof. induction xs as [|x xs IH]; [reflexivity|]. cbn [map parse_all]. rewrite parse_x_body, IH. reflexivity. Qed.

Lemma parse_xs_print : forall xs, parse_xs (flat_map print_x xs) = Some xs.
Proof.
  intro xs. unfold parse_xs. rewrite flat_map_print_x, split_records.
  - apply parse_all_bodies.
  - apply Forall_forall. intros r H. apply in_map_iff in H. destruct H as [x [E _]]. subst. apply no_tag_xbody.
Qed.

Lemma is_badref_xs : forall xs, is_badref (flat_map print_x xs) = false.
Proof. intros [|x xs]; [reflexivity|]. cbn [flat_map]. rewrite print_x_body. unfold xbody. reflexivity. Qed.

(* the outputs of the context operations the harness supports *)
Lemma c10_out_ok : forall w st co, cop_ok w co = true ->
  is_badref (snd (step st co)) = false /\ no_tag ";" (snd (step st co)) /\ no_tag "|" (snd (step st co)).
Proof.
  intros w st co OK.
  destruct co as [r k v | r b | r k | r k | r | keys | i j | r | k | k | | sp]; cbn [cop_ok] in OK; try discriminate; cbn [step].
  - destruct (set_value (t_heap st) (resolve st r) k v). cbn. repeat split; constructor.
  - cbn. repeat split; constructor.
  - destruct (tok_ctx (nth k (t_toks st) TDead)) as [c|].
    + destruct (detach (t_stk st) c) as [s b]. cbn [snd]. destruct b; cbn; repeat split; repeat constructor.
    + cbn [snd]. destruct (nth k (t_toks st) TDead); cbn; repeat split; repeat constructor.
  - destruct (nth k (t_toks st) TDead); cbn; repeat split; constructor.
  - destruct (set_value (t_heap st) (top (t_stk st)) span_key (KS, sp)). cbn. repeat split; constructor.
Qed.

Definition good_pair (o : sop) (ob : op_obs) : Prop :=
  parse_op_obs o (print_op ob) = Some ob /\ no_tag ";" (print_op ob) /\ no_tag "|" (print_op ob).

Lemma good_step : forall cf w t o, good_pair o (snd (sstep cf w t o)).
Proof.
  intros cf w t o. unfold good_pair. destruct o as [p gsid gtid scr | k | c | | co]; cbn [sstep].
  - assert (G : forall so, parse_op_obs (SStart p gsid gtid scr) (print_op (OStart so)) = Some (OStart so) /\
                          no_tag ";" (print_op (OStart so)) /\ no_tag "|" (print_op (OStart so))).
    { intro so. cbn [parse_op_obs print_op]. rewrite parse_start_print. repeat split; apply no_tag_start; auto. }
    unfold do_start. destruct (negb (cf_enabled cf)); cbn [snd]; apply G.
  - unfold do_end. destruct (nth_error (w_spans w) k) as [s|]; cbn [snd parse_op_obs print_op].
    + rewrite is_badref_xs, parse_xs_print. repeat split; apply no_tag_xs; auto.
    + repeat split; repeat constructor.
  - cbn [snd parse_op_obs print_op]. repeat split; constructor.
  - cbn [snd parse_op_obs print_op]. change (is_tag "ACT" (tag "ACT")) with true. unfold print_ctx. cbv iota.
    rewrite parse_octx_print. repeat split; repeat constructor.
  - destruct (cop_ok w co) eqn:OK.
    + destruct (c10_out_ok w (view w t) co OK) as (A & B & C).
      destruct (step (view w t) co) as [st out]. cbn [snd] in *. cbn [parse_op_obs print_op]. rewrite A. repeat split; assumption.
    + cbn [snd parse_op_obs print_op]. repeat split; repeat constructor.
Qed.

Lemma good_run : forall cf ops w, Forall2 good_pair (map snd ops) (snd (srun cf w ops)).
Proof.
  intros cf ops. induction ops as [|[t o] ops IH]; intro w; [constructor|].
  rewrite srun_cons'. cbn [map snd]. constructor; [apply good_step | apply IH].
Qed.

Lemma parse_ops_good : forall ops obs, Forall2 good_pair (map snd ops) obs ->
  parse_ops_obs ops (map print_op obs ++ [[]]) = Some obs.
Proof.
  induction ops as [|[t o] ops IH]; intros obs H.
  - inversion H; subst. reflexivity.
  - cbn [map] in H. inversion H as [|o' ob os obs' G F]; subst.
    cbn [map app parse_ops_obs]. destruct G as [P _]. cbn [snd] in P. rewrite P, (IH _ F). reflexivity.
Qed.

Lemma good_no_tags : forall os obs, Forall2 good_pair os obs ->
  Forall (no_tag ";") (map print_op obs) /\ no_tag "|" (flat_map (fun ob => print_op ob ++ [sep]) obs).
Proof.
  intros os obs H. induction H as [|o ob os obs G _ IH]; [split; constructor|].
  destruct IH as [A B]. destruct G as (_ & G1 & G2). split; [constructor; assumption|].
  cbn [flat_map]. apply no_tag_app; [apply no_tag_app; [exact G2 | repeat constructor] | exact B].
Qed.

Lemma flat_map_chunks : forall obs,
  flat_map (fun ob => print_op ob ++ [sep]) obs = flat_map (fun ch => ch ++ [sep]) (map print_op obs).
Proof. induction obs as [|ob obs IH]; [reflexivity|]. cbn [flat_map map]. rewrite IH. reflexivity. Qed.

Lemma parse_dump_print : forall d fuel, (length d < fuel)%nat ->
  parse_dump (flat_map (fun p => print_ctx (fst p) ++ [tbool (snd p)]) d) fuel = Some d.
Proof.
  induction d as [|[c r] d IH]; intros fuel L; destruct fuel as [|f]; try (cbn in L; lia); [reflexivity|].
  cbn [flat_map fst snd]. unfold print_ctx at 1. cbn [app parse_dump].
  rewrite parse_octx_print, parse_bool_tbool, IH by (cbn in L; lia). reflexivity.
Qed.

Lemma dump_tokens_length : forall d : list (span_ctx * bool),
  (length d <= length (flat_map (fun p => print_ctx (fst p) ++ [tbool (snd p)]) d))%nat.
Proof. induction d as [|p d IH]; [cbn; lia|]. cbn [flat_map]. rewrite !app_length. unfold print_ctx at 1. cbn [length]. lia. Qed.

Lemma no_tag_dump : forall d, no_tag "|" (flat_map (fun p : span_ctx * bool => print_ctx (fst p) ++ [tbool (snd p)]) d).
Proof. induction d as [|p d IH]; [constructor|]. cbn [flat_map]. apply no_tag_app; [apply no_tag_app; [apply no_tag_ctx | repeat constructor] | exact IH]. Qed.

(* ------------------------------------------------------------------ the round trip, and model_meets_spec on the wire *)
Theorem observation_roundtrip : forall cf n ops,
  parse_case_obs ops (print_case (run_case cf n ops)) = Some (run_case cf n ops).
Proof.
  intros cf n ops. unfold run_case.
  pose proof (good_run cf ops (world0 n)) as G.
  destruct (srun cf (world0 n) ops) as [w obs]. cbn [snd] in G.
  destruct (end_all w (seq 0 (length (w_spans w)))) as [w' ex].
  unfold print_case, parse_case_obs. cbn [co_ops co_fin co_dump].
  destruct (good_no_tags _ _ G) as [T1 T2].
  rewrite split3; [| exact T2 | apply no_tag_xs; auto | apply no_tag_dump].
  rewrite flat_map_chunks, split_chunks by exact T1.
  rewrite (parse_ops_good ops obs G), parse_xs_print.
  rewrite parse_dump_print; [reflexivity|]. pose proof (dump_tokens_length (dump_spans w')). lia.
Qed.

(* the assumption on the default-generator oracle, for a case line (nothing for a scripted generator) *)
Definition case_oracle_fresh (l : list tok) : Prop :=
  match parse_case l with Some (cf, n, ops) => oracle_fresh cf (world0 n) ops | None => True end.

Lemma parsed_cfg : forall l cf n ops, parse_case l = Some (cf, n, ops) ->
  exists e g cs, cf = cfg_of_gen e g cs.
Proof.
  intros l cf n ops P. unfold parse_case in P. destruct (split_toks "|" l) as [|hdr [|body [|x y]]]; try discriminate.
  unfold parse_cfg in P. destruct (parse_cfg_cs hdr) as [[[[e r] n0] cs]|]; [|discriminate].
  destruct body.
  - inversion P; subst. eauto.
  - destruct (parse_all (parse_top n0) (split_toks ";" (t :: body))); [|discriminate]. cbn in P. inversion P; subst. eauto.
Qed.

Lemma parse_all_threads : forall n chunks ops, parse_all (parse_top n) chunks = Some ops -> threads_ok n ops.
Proof.
  intros n chunks. induction chunks as [|c cs IH]; intros ops P; cbn [parse_all] in P.
  - inversion P. constructor.
  - destruct (parse_top n c) as [[t o]|] eqn:T; [|discriminate].
    destruct (parse_all (parse_top n) cs) as [r|]; [|discriminate]. inversion P; subst. constructor; [|apply IH; reflexivity].
    unfold parse_top in T. destruct c as [|t0 rest]; [discriminate|].
    destruct (parse_nat t0) as [t'|]; [|discriminate]. destruct (parse_sop rest); [|discriminate].
    destruct (Nat.ltb t' n) eqn:L; [|discriminate]. inversion T; subst. cbn. apply Nat.ltb_lt. exact L.
Qed.

Lemma parsed_threads : forall l cf n ops, parse_case l = Some (cf, n, ops) -> threads_ok n ops.
Proof.
  intros l cf n ops P. unfold parse_case in P. destruct (split_toks "|" l) as [|hdr [|body [|x y]]]; try discriminate.
  destruct (parse_cfg hdr) as [[cf0 n0]|]; [|discriminate].
  destruct body.
  - inversion P; subst. constructor.
  - destruct (parse_all (parse_top n0) (split_toks ";" (t :: body))) as [r|] eqn:A; [|discriminate]. cbn in P. inversion P; subst.
    eapply parse_all_threads. exact A.
Qed.

Lemma model_meets_spec_wire_case : forall l : list tok, parse_case l <> None -> case_oracle_fresh l ->
  run_spec_case l (run_model_case l) = [].
Proof.
  intros l H F. unfold run_spec_case, run_model_case, case_oracle_fresh in *. destruct (parse_case l) as [[[cf n] ops]|] eqn:P; [|contradiction].
  rewrite observation_roundtrip.
  destruct (parsed_cfg l cf n ops P) as (e & g & cs & E).
  apply model_meets_spec_oracles; [| exact (parsed_threads l cf n ops P) | exact F].
  subst cf. destruct g; [apply cfg_of_ok | apply cfg_of_default_ok].
Qed.

(* the entry points of the extracted checker: program cases as above; an independence-probe line is answered PURE *)
Theorem model_meets_spec_wire : forall l : list tok, parse_case l <> None \/ is_purity l = true -> case_oracle_fresh l ->
  run_spec l (run_model l) = [].
Proof.
  intros l H F. unfold run_spec, run_model. destruct (is_purity l) eqn:P; [reflexivity|].
  apply model_meets_spec_wire_case; [|exact F]. destruct H as [H|H]; [exact H | discriminate].
Qed.

(* with a scripted generator the assumption is empty *)
Corollary model_meets_spec_wire_scripted : forall l cf n ops, parse_case l = Some (cf, n, ops) -> cf_defgen cf = false ->
  run_spec l (run_model l) = [].
Proof.
  intros l cf n ops P D. apply model_meets_spec_wire; [left; congruence|]. unfold case_oracle_fresh. rewrite P.
  apply oracle_fresh_scripted. exact D.
Qed.

Example wire_nonvacuous :
  let l := [tag "CFG"; TZ 1; TZ 0; TZ 1; tag "SCRIPT"; tag "|"; TZ 0; tag "ST"; tag "DEF"; tag "G"; TB (repeat x01 8); TB (repeat x02 16);
            tag "R"; tag "DROP"; tag "NULL"; TZ (-1)] in
  parse_case l <> None /\ length (run_model l) = 36%nat.
Proof. split; [vm_compute; discriminate | vm_compute; reflexivity]. Qed.
