(* Glue between the token wire format and the C05 model/spec.  Extracted.

   case  :=  CFG <enabled 0|1> <generator> <threads 1..4> <sampler> "|" [ op { ";" op } ]
   generator := 0 | 1 (scripted IdGenerator with IsRandom() = 0 | 1: returns the ids written in each ST operation)
              | 2 (the SDK's default RandomIdGenerator; the harness renames each id it hands out to the id written in the
                   ST operation - first come first served, zero ids are not renamed - so a case whose written ids are fresh
                   is observed exactly as with a scripted generator iff the real ids are non-zero and pairwise distinct)
   sampler := PB* (ON | OFF | RATIO <bits> | SCRIPT)
   op    :=  <thread> ST <parent> G <span id:8> <trace id:16> R <decision> <trace state | NULL> <n | -1> {<attribute value>}
          |  <thread> END <k> | <thread> WRAP <ctx> | <thread> CSP
          |  <thread> SV <i> <key> <kind> <n> | <thread> RSV <key> <kind> <n> | <thread> SSP <i> <span> | <thread> ROOT <i> <0|1>
          |  <thread> AT <i> | <thread> ATC | <thread> DT <k> | <thread> KT <k> | <thread> WAS <span> | <thread> SCO <span>
   parent := DEF | SC <ctx> | CX <i> | CXCUR
   ctx   :=  <trace id:16 bytes> <span id:8 bytes> <flags 0..255> <remote 0|1> <trace-state header bytes>
   Trace states travel as header text; the harness builds them with TraceState::FromHeader and prints
   ToHeader(), the model canonicalises with C14's from_header/to_header.

   observation := { op-output ";" } "|" { X-record } "|" { <ctx> <IsRecording> }                            *)
From V Require Export C05.Spec.
From V Require C14.Model C12.Glue.
Local Open Scope Z_scope.

Definition case := (cfg * nat * list (nat * sop))%type.

Definition two63 : Z := 9223372036854775808.

(* ToHeader(FromHeader(h)) *)
Definition canon_ts (h : bytes) : bytes := C14.Model.to_header (C14.Model.from_header h).

Definition parse_bool (t : tok) : option bool :=
  match t with TZ 0 => Some false | TZ 1 => Some true | _ => None end.
Definition parse_nat (t : tok) : option nat :=
  match t with TZ n => if 0 <=? n then Some (Z.to_nat n) else None | _ => None end.

Definition parse_ctx5 (a b c d e : tok) : option span_ctx :=
  match a, b, c, parse_bool d, e with
  | TB tid, TB sid, TZ f, Some r, TB ts =>
      if Nat.eqb (length tid) 16 && Nat.eqb (length sid) 8 && (0 <=? f) && (f <? 256)
      then Some (mk_ctx tid sid (n2b (Z.to_N f)) r (canon_ts ts)) else None
  | _, _, _, _, _ => None
  end.

Fixpoint parse_cs (l : list tok) : option csampler :=
  match l with
  | [] => None
  | [t] => if is_tag "SCRIPT" t then Some CScript else option_map CBuiltin (C12.Glue.parse_sampler [t])
  | t :: l' =>
      if is_tag "PB" t then
        match parse_cs l' with
        | Some (CBuiltin b) => Some (CBuiltin (SParent b))
        | Some d => Some (CParent d)
        | None => None
        end
      else option_map CBuiltin (C12.Glue.parse_sampler l)
  end.

Definition parse_decision (t : tok) : option decision :=
  if is_tag "DROP" t then Some Drop else if is_tag "RECORD_ONLY" t then Some RecordOnly
  else if is_tag "RECORD_AND_SAMPLE" t then Some RecordAndSample else None.
Definition parse_ts (t : tok) : option (option bytes) :=
  match t with TB h => Some (Some h) | _ => if is_tag "NULL" t then Some None else None end.

Fixpoint parse_zs (l : list tok) : option (list Z) :=
  match l with
  | [] => Some []
  | TZ v :: l' => if (- two63 <=? v) && (v <? two63) then option_map (cons v) (parse_zs l') else None
  | _ => None
  end.

(* R <decision> <ts|NULL> <n|-1> v1..vn   (the scripted sampler's answer) *)
Definition parse_sres (l : list tok) : option sresult :=
  match l with
  | r :: d :: ts :: TZ n :: vals =>
      match parse_decision d, parse_ts ts, parse_zs vals with
      | Some dec, Some ots, Some vs =>
          if negb (is_tag "R" r) then None
          else if n =? -1 then (if Nat.eqb (length vs) 0 then Some (mk_sres dec (option_map canon_ts ots) None) else None)
          else if (0 <=? n) && (n <=? 8) && (Z.of_nat (length vs) =? n) then Some (mk_sres dec (option_map canon_ts ots) (Some vs))
          else None
      | _, _, _ => None
      end
  | _ => None
  end.

(* G <sid> <tid> R ... *)
Definition parse_gen_res (p : parent_opt) (l : list tok) : option sop :=
  match l with
  | g :: TB sid :: TB tid :: rest =>
      if is_tag "G" g && Nat.eqb (length sid) 8 && Nat.eqb (length tid) 16
      then option_map (SStart p sid tid) (parse_sres rest) else None
  | _ => None
  end.

Definition parse_start (l : list tok) : option sop :=
  match l with
  | t :: rest =>
      if is_tag "DEF" t then parse_gen_res PDef rest
      else if is_tag "CXCUR" t then parse_gen_res (PCx CCur) rest
      else if is_tag "CX" t then
        match rest with
        | ti :: rest' => match parse_nat ti with Some i => parse_gen_res (PCx (CIdx i)) rest' | None => None end
        | [] => None
        end
      else if is_tag "SC" t then
        match rest with
        | a :: b :: c :: d :: e :: rest' =>
            match parse_ctx5 a b c d e with Some pc => parse_gen_res (PSc pc) rest' | None => None end
        | _ => None
        end
      else None
  | [] => None
  end.

Definition parse_kind (t : tok) : option vkind :=
  if is_tag "m" t then Some KM else if is_tag "b" t then Some KB else if is_tag "i" t then Some KI
  else if is_tag "u" t then Some KU else if is_tag "s" t then Some KS else None.

Definition two64 : Z := 18446744073709551616.
Definition parse_value (tk tn : tok) : option value :=
  match parse_kind tk, tn with
  | Some k, TZ n =>
      if match k with
         | KM => n =? 0
         | KB => (0 <=? n) && (n <=? 1)
         | KI => (- two63 <=? n) && (n <? two63)
         | KU => (0 <=? n) && (n <? two64)
         | _ => (0 <=? n) && (n <? 1000000)
         end then Some (k, n) else None
  | _, _ => None
  end.

Definition parse_sop (l : list tok) : option sop :=
  match l with
  | [] => None
  | t :: a =>
      if is_tag "ST" t then parse_start a
      else if is_tag "END" t then match a with [tk] => option_map SEnd (parse_nat tk) | _ => None end
      else if is_tag "WRAP" t then match a with [a1; a2; a3; a4; a5] => option_map SWrap (parse_ctx5 a1 a2 a3 a4 a5) | _ => None end
      else if is_tag "CSP" t then match a with [] => Some SActive | _ => None end
      else if is_tag "SV" t then
        match a with [ti; TB k; tk; tn] =>
          match parse_nat ti, parse_value tk tn with Some i, Some v => Some (SCtx (OSet (CIdx i) k v)) | _, _ => None end
        | _ => None end
      else if is_tag "RSV" t then
        match a with [TB k; tk; tn] =>
          match parse_value tk tn with Some v => Some (SCtx (OSet CCur k v)) | None => None end
        | _ => None end
      else if is_tag "SSP" t then
        match a with [ti; TZ s] =>
          match parse_nat ti, parse_value (tag "s") (TZ s) with Some i, Some v => Some (SCtx (OSet (CIdx i) span_key v)) | _, _ => None end
        | _ => None end
      else if is_tag "ROOT" t then
        match a with [ti; tb] =>
          match parse_nat ti, parse_value (tag "b") tb with Some i, Some v => Some (SCtx (OSet (CIdx i) root_key v)) | _, _ => None end
        | _ => None end
      else if is_tag "AT" t then match a with [ti] => option_map (fun i => SCtx (OAttach (CIdx i))) (parse_nat ti) | _ => None end
      else if is_tag "ATC" t then match a with [] => Some (SCtx (OAttach CCur)) | _ => None end
      else if is_tag "DT" t then match a with [tk] => option_map (fun k => SCtx (ODetach k)) (parse_nat tk) | _ => None end
      else if is_tag "KT" t then match a with [tk] => option_map (fun k => SCtx (OKill k)) (parse_nat tk) | _ => None end
      else if is_tag "WAS" t || is_tag "SCO" t then
        match a with [TZ s] => match parse_value (tag "s") (TZ s) with Some (_, n) => Some (SCtx (OScope n)) | None => None end
        | _ => None end
      else None
  end.

Definition parse_top (nthreads : nat) (l : list tok) : option (nat * sop) :=
  match l with
  | t0 :: rest =>
      match parse_nat t0, parse_sop rest with
      | Some t, Some o => if Nat.ltb t nthreads then Some (t, o) else None
      | _, _ => None
      end
  | [] => None
  end.

Fixpoint parse_all {A B} (f : A -> option B) (l : list A) : option (list B) :=
  match l with
  | [] => Some []
  | x :: l' => match f x, parse_all f l' with Some y, Some r => Some (y :: r) | _, _ => None end
  end.

Definition parse_gen (t : tok) : option (option bool) :=      (* None = default generator *)
  match t with TZ 0 => Some (Some false) | TZ 1 => Some (Some true) | TZ 2 => Some None | _ => None end.
Definition parse_cfg_cs (l : list tok) : option (bool * option bool * nat * csampler) :=
  match l with
  | c :: en :: rnd :: nth :: s =>
      match parse_bool en, parse_gen rnd, parse_nat nth, parse_cs s with
      | Some e, Some r, Some n, Some cs =>
          if is_tag "CFG" c && Nat.leb 1 n && Nat.leb n 4 then Some (e, r, n, cs) else None
      | _, _, _, _ => None
      end
  | _ => None
  end.
Definition cfg_of_gen (e : bool) (g : option bool) (cs : csampler) : cfg :=
  match g with Some r => cfg_of e r cs | None => cfg_of_default e cs end.
Definition parse_cfg (l : list tok) : option (cfg * nat) :=
  match parse_cfg_cs l with Some (e, r, n, cs) => Some (cfg_of_gen e r cs, n) | None => None end.
(* the sampler of a case, for the coverage tag *)
Definition case_sampler (l : list tok) : csampler :=
  match split_toks "|" l with
  | hdr :: _ => match parse_cfg_cs hdr with Some (_, _, _, cs) => cs | None => CScript end
  | [] => CScript
  end.

Definition parse_case (l : list tok) : option case :=
  match split_toks "|" l with
  | [hdr; body] =>
      match parse_cfg hdr with
      | Some (cf, n) =>
          match body with
          | [] => Some (cf, n, [])
          | _ => option_map (fun ops => (cf, n, ops)) (parse_all (parse_top n) (split_toks ";" body))
          end
      | None => None
      end
  | _ => None
  end.

(* ------------------------------------------------------------------ printing observations *)
Definition print_ctx (c : span_ctx) : list tok :=
  [TB (c_tid c); TB (c_sid c); TZ (flags_z c); tbool (c_remote c); TB (c_ts c)].
Definition dec_tok (d : decision) : tok :=
  match d with Drop => tag "DROP" | RecordOnly => tag "RECORD_ONLY" | RecordAndSample => tag "RECORD_AND_SAMPLE" end.
Definition print_seen (s : option seen) : list tok :=
  match s with
  | None => [tag "NOCALL"]
  | Some (pc, tid, (d, ts, n)) =>
      [tag "P"] ++ print_ctx pc ++ [TB tid; tag "R"; dec_tok d; match ts with Some h => TB h | None => tag "NULL" end; TZ n]
  end.
Definition print_start (o : start_obs) : list tok :=
  [tag "A"] ++ print_ctx (so_active o) ++
  match so_cx o with Some (c, r) => [tag "C"] ++ print_ctx c ++ [tbool r] | None => [] end ++
  [tag "S"] ++ print_ctx (so_new o) ++ [tbool (so_rec o); tag "G"; TZ (so_sid_calls o); TZ (so_tid_calls o)] ++
  print_seen (so_samp o).
Definition print_x (x : xrec) : list tok :=
  [tag "X"; tnat (x_name x); TB (x_tid x); TB (x_sid x); TB (x_psid x); TZ (x_flags x); TZ (x_cflags x); tbool (x_remote x);
   TB (x_ts x); tnat (length (x_attrs x))] ++ map TZ (x_attrs x).
Definition print_op (o : op_obs) : list tok :=
  match o with
  | OStart so => print_start so
  | OEnd xs => flat_map print_x xs
  | OBadRef => [tag "BADREF"]
  | OActive c => tag "ACT" :: print_ctx c
  | OCtxOut l => l
  end.
Definition print_case (o : case_obs) : list tok :=
  flat_map (fun ob => print_op ob ++ [sep]) (co_ops o) ++ bar :: flat_map print_x (co_fin o) ++
  bar :: flat_map (fun p => print_ctx (fst p) ++ [tbool (snd p)]) (co_dump o).

(* ------------------------------------------------------------------ parsing observations (directed by the operations) *)
Definition parse_octx (a b c d e : tok) : option span_ctx :=
  match a, b, c, parse_bool d, e with
  | TB tid, TB sid, TZ f, Some r, TB ts => if (0 <=? f) && (f <? 256) then Some (mk_ctx tid sid (n2b (Z.to_N f)) r ts) else None
  | _, _, _, _, _ => None
  end.

Definition parse_seen (l : list tok) : option (option seen) :=
  match l with
  | [t] => if is_tag "NOCALL" t then Some None else None
  | [_; a; b; c; d; e; TB tid; _; td; tts; TZ n] =>
      match parse_octx a b c d e, parse_decision td, parse_ts tts with
      | Some pc, Some dec, Some ts => Some (Some (pc, tid, (dec, ts, n)))
      | _, _, _ => None
      end
  | _ => None
  end.

(* S ctx5 rec G n1 n2 <seen> *)
Definition parse_new (active : span_ctx) (cx : option (span_ctx * bool)) (l : list tok) : option start_obs :=
  match l with
  | s :: a :: b :: c :: d :: e :: tr :: g :: TZ n1 :: TZ n2 :: rest =>
      match parse_octx a b c d e, parse_bool tr, parse_seen rest with
      | Some nc, Some r, Some sn => if is_tag "S" s && is_tag "G" g then Some (mk_so active cx nc r n1 n2 sn) else None
      | _, _, _ => None
      end
  | _ => None
  end.

Definition parse_start_obs (l : list tok) : option start_obs :=
  match l with
  | ta :: a :: b :: c :: d :: e :: rest =>
      match parse_octx a b c d e with
      | Some active =>
          if negb (is_tag "A" ta) then None
          else match rest with
               | tc :: a' :: b' :: c' :: d' :: e' :: tr :: rest' =>
                   if is_tag "C" tc then
                     match parse_octx a' b' c' d' e', parse_bool tr with
                     | Some cc, Some r => parse_new active (Some (cc, r)) rest'
                     | _, _ => None
                     end
                   else parse_new active None rest
               | _ => None
               end
      | None => None
      end
  | _ => None
  end.

(* attribute values as the exporter printed them (no range restriction on observations) *)
Fixpoint parse_zs_any (l : list tok) : option (list Z) :=
  match l with
  | [] => Some []
  | TZ v :: l' => option_map (cons v) (parse_zs_any l')
  | _ => None
  end.

Definition parse_x (l : list tok) : option xrec :=
  match l with
  | tn :: TB tid :: TB sid :: TB psid :: TZ f :: TZ cf :: tr :: TB ts :: tc :: vals =>
      match parse_nat tn, parse_bool tr, parse_nat tc, parse_zs_any vals with
      | Some n, Some r, Some cnt, Some vs => if Nat.eqb cnt (length vs) then Some (mk_x n tid sid psid f cf r ts vs) else None
      | _, _, _, _ => None
      end
  | _ => None
  end.
Definition parse_xs (l : list tok) : option (list xrec) :=
  match split_toks "X" l with
  | [] :: recs => parse_all parse_x recs
  | _ => None
  end.

Definition is_badref (l : list tok) : bool := match l with [t] => is_tag "BADREF" t | _ => false end.

Definition parse_op_obs (o : sop) (l : list tok) : option op_obs :=
  match o with
  | SStart _ _ _ _ => option_map OStart (parse_start_obs l)
  | SEnd _ => if is_badref l then Some OBadRef else option_map OEnd (parse_xs l)
  | SActive =>
      match l with
      | [t; a; b; c; d; e] => if is_tag "ACT" t then option_map OActive (parse_octx a b c d e) else None
      | _ => None
      end
  | SWrap _ | SCtx _ => if is_badref l then Some OBadRef else Some (OCtxOut l)
  end.

Fixpoint parse_ops_obs (ops : list (nat * sop)) (chunks : list (list tok)) : option (list op_obs) :=
  match ops, chunks with
  | [], [[]] => Some []
  | (_, o) :: ops', ch :: chunks' =>
      match parse_op_obs o ch, parse_ops_obs ops' chunks' with
      | Some ob, Some r => Some (ob :: r)
      | _, _ => None
      end
  | _, _ => None
  end.

Fixpoint parse_dump (l : list tok) (fuel : nat) : option (list (span_ctx * bool)) :=
  match fuel with
  | O => None
  | S f =>
      match l with
      | [] => Some []
      | a :: b :: c :: d :: e :: tr :: rest =>
          match parse_octx a b c d e, parse_bool tr, parse_dump rest f with
          | Some cx, Some r, Some more => Some ((cx, r) :: more)
          | _, _, _ => None
          end
      | _ => None
      end
  end.

Definition parse_case_obs (ops : list (nat * sop)) (l : list tok) : option case_obs :=
  match split_toks "|" l with
  | [p1; p2; p3] =>
      match parse_ops_obs ops (split_toks ";" p1), parse_xs p2, parse_dump p3 (S (length p3)) with
      | Some a, Some b, Some c => Some (mk_co a b c)
      | _, _, _ => None
      end
  | _ => None
  end.

(* ------------------------------------------------------------------ entry points *)
Definition run_model_case (l : list tok) : list tok :=
  match parse_case l with
  | Some (cf, n, ops) => print_case (run_case cf n ops)
  | None => bad_case
  end.

Definition run_spec_case (l obs : list tok) : list tok :=
  match parse_case l with
  | Some (cf, n, ops) =>
      match parse_case_obs ops obs with
      | Some o => spec_case cf n ops o
      | None => fail "obs:unparsable"
      end
  | None => bad_case
  end.

(* independence probe (harness/c05_purity.cc, ThreadSanitizer build; NOT a theorem - a run-time probe of the assumption that
   concurrent StartSpan calls of several threads on one tracer share no hidden state):
     PURITY <scenario 0 span trees on a shared tracer | 1 first StartSpan on fresh tracers> <threads> <rounds> <iters>
   observation: PURE | DIFFERS x<description> | RACE x<report head> | HARNESSRACE x.. | CRASH .. | HANG *)
Definition is_purity (l : list tok) : bool :=
  match l with
  | [t; TZ _; TZ _; TZ _; TZ _] => is_tag "PURITY" t
  | _ => false
  end.

Definition spec_purity (obs : list tok) : list tok :=
  match obs with
  | [t] => if is_tag "PURE" t then [] else if is_tag "HANG" t then fail "purity:hang" else fail "obs:unparsable"
  | t :: _ => if is_tag "RACE" t then fail "purity:data_race"
              else if is_tag "DIFFERS" t then fail "purity:result_differs"
              else if is_tag "HARNESSRACE" t then fail "harness:probe_race"
              else if is_tag "CRASH" t then fail "purity:crash"
              else fail "obs:unparsable"
  | [] => fail "obs:unparsable"
  end.

Definition run_model (l : list tok) : list tok := if is_purity l then [tag "PURE"] else run_model_case l.
Definition run_spec (l obs : list tok) : list tok := if is_purity l then spec_purity obs else run_spec_case l obs.

(* ------------------------------------------------------------------ coverage tag of a case *)
Local Open Scope string_scope.
Local Notation "a +++ b" := (String.append a b) (at level 60, right associativity).

Fixpoint cs_tag (s : csampler) : string :=
  match s with
  | CBuiltin b => C12.Glue.sampler_tag b
  | CScript => "script"
  | CParent d => "pb_" +++ cs_tag d
  end.

(* the features one StartSpan exercised: which precedence branch, the decision, where the trace state came from,
   what kind of parent *)
Definition start_features (cf : cfg) (w : world) (t : nat) (p : parent_opt) (gsid gtid : bytes) (scr : sresult) : list string :=
  let active := active_ctx w t in
  let pa := eval_parent w t p in
  let parent := resolve_parent active pa in
  let b := new_span (cf_samp cf scr) (cf_random cf) gsid gtid parent in
  [match pa with
   | PAsCtx c => if ctx_valid c then (if ctx_valid active then "E" else "e") else if ctx_valid active then "a" else "n"
   | PAsContext c r => if ctx_valid c then (if ctx_valid active then "C" else "c")
                       else if r then (if ctx_valid active then "R" else "r") else if ctx_valid active then "f" else "g"
   end;
   match sr_dec (b_res b) with Drop => "D" | RecordOnly => "O" | RecordAndSample => "S" end;
   match sr_ts (b_res b) with Some _ => "t" | None => if ctx_valid parent then "p" else "d" end;
   if ctx_valid parent then (if c_remote parent then "m" else "l") else "";
   if ctx_valid parent && ctx_sampled parent && negb (is_sampled (sr_dec (b_res b))) then "4" else "";
   if ctx_valid (b_ctx b) then "" else "z";
   if Nat.ltb 0 t then "T" else ""].

Fixpoint features (cf : cfg) (w : world) (ops : list (nat * sop)) : list string :=
  match ops with
  | [] => []
  | (t, o) :: ops' =>
      match o with SStart p gsid gtid scr => start_features cf w t p gsid gtid scr | _ => [] end ++
      features cf (fst (sstep cf w t o)) ops'
  end.

Definition all_features : list string :=
  ["E"; "e"; "a"; "n"; "C"; "c"; "R"; "r"; "f"; "g"; "D"; "O"; "S"; "t"; "p"; "d"; "m"; "l"; "4"; "z"; "T"].

Definition run_tag (l : list tok) : list tok :=
  if is_purity l then [tag "independence_probe"] else
  match parse_case l with
  | Some (cf, n, ops) =>
      let fs := features cf (world0 n) ops in
      if existsb (fun o => match snd o with SStart _ _ _ _ => true | _ => false end) ops then
        [tag ((if cf_enabled cf then "" else "disabled_") +++ (if cf_defgen cf then "defgen_" else "") +++ cs_tag (case_sampler l) +++ "_" +++
              fold_right (fun f acc => if existsb (String.eqb f) fs then f +++ acc else acc) "" all_features)]
      else [tag "nostart"]
  | None => bad_case
  end.
