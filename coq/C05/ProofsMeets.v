(* C05 proofs, part 3: the SPEC checker that ./check runs on the implementation's observations accepts the
   model's observation of every program - every configuration, every number of threads, every schedule. *)
From V Require Import C10.ProofsCtx C10.ProofsStack C10.ProofsSim C10.ProofsStep C10.ProofsProps.
From V Require Import C05.Spec C05.ProofsCore.
From Coq Require Import Lia ZifyBool ZifyNat ZifyN.
Local Open Scope Z_scope.

(* ------------------------------------------------------------------ reflexivity of the comparisons *)
Lemma byte_eqb_refl : forall b, Byte.eqb b b = true.
Proof. intro b. apply Byte.byte_dec_lb. reflexivity. Qed.

Lemma ctx5_eqb_refl : forall c, ctx5_eqb c c = true.
Proof.
  intro c. unfold ctx5_eqb. rewrite !bytes_eqb_refl, byte_eqb_refl, Bool.eqb_reflx. reflexivity.
Qed.

Lemma decision_eqb_refl : forall d, decision_eqb d d = true.
Proof. destruct d; reflexivity. Qed.

Lemma opt_bytes_eqb_refl : forall o, opt_bytes_eqb o o = true.
Proof. destruct o; cbn; [apply bytes_eqb_refl | reflexivity]. Qed.

Lemma zlist_eqb_refl : forall l, zlist_eqb l l = true.
Proof.
  intro l. unfold zlist_eqb. rewrite Nat.eqb_refl. cbn.
  induction l as [|x l IH]; cbn; [reflexivity|]. rewrite Z.eqb_refl. exact IH.
Qed.

Lemma check_true : forall b s, b = true -> check b s = [].
Proof. intros b s H. rewrite H. reflexivity. Qed.

Lemma is_valid_ctx_valid : forall c, is_valid c = ctx_valid c.
Proof. reflexivity. Qed.

(* ------------------------------------------------------------------ the SPEC's parent is the model's *)
Definition compat (p : parent_opt) (pa : parent_arg) : Prop :=
  match p, pa with
  | PDef, PAsCtx c => c = ctx_invalid
  | PSc c, PAsCtx c' => c' = c
  | PCx _, PAsContext _ _ => True
  | _, _ => False
  end.

Lemma eval_parent_compat : forall w t p, compat p (eval_parent w t p).
Proof. intros w t [|c|r]; cbn; auto. Qed.

Definition opt_parent (c : span_ctx) : option span_ctx := if ctx_valid c then Some c else None.

Lemma spec_parent_resolve : forall p pa active nc r n1 n2 sn, compat p pa ->
  snd (spec_parent p (mk_so active (cx_obs pa) nc r n1 n2 sn)) = opt_parent (resolve_parent active pa).
Proof.
  intros p pa active nc r n1 n2 sn C. unfold spec_parent, opt_parent. cbv zeta. cbn [so_active so_cx]. change is_valid with ctx_valid.
  destruct p as [|c|cr]; destruct pa as [c'|c' rt]; cbn in C; try contradiction; subst; cbn [cx_obs resolve_parent].
  - change (ctx_valid ctx_invalid) with false. cbn iota.
    destruct (ctx_valid active) eqn:A; cbn [snd]; reflexivity.
  - destruct (ctx_valid c) eqn:V; cbn [snd]; rewrite ?V; [reflexivity|].
    destruct (ctx_valid active) eqn:A; cbn [snd]; reflexivity.
  - destruct (ctx_valid c') eqn:V; cbn [snd]; rewrite ?V; [reflexivity|].
    destruct rt; cbn [snd]; [reflexivity|]. destruct (ctx_valid active) eqn:A; cbn [snd]; reflexivity.
Qed.

Lemma sampled_bit_flags : forall c, sampled_bit c = Z.odd (flags_z c).
Proof. reflexivity. Qed.

Lemma csample_attrs : forall s scr p t,
  sr_attrs (csample s scr p t) = None \/ sr_attrs (csample s scr p t) = sr_attrs scr.
Proof.
  induction s as [b| |d IH]; intros scr p t; cbn [csample].
  - left. reflexivity.
  - right. reflexivity.
  - destruct (negb (ctx_valid p)); [apply IH|]. destruct (ctx_sampled p); left; reflexivity.
Qed.

(* ------------------------------------------------------------------ one StartSpan of the model passes every clause *)
(* what the theorem needs to know about the configured sampler function: when it is declared to be the scripted
   sampler it answers the script; the attribute map it returns is either null or the scripted one *)
Definition samp_ok (cf : cfg) : Prop :=
  (cf_script cf = true -> forall scr p t, cf_samp cf scr p t = scr) /\
  (forall scr p t, sr_attrs (cf_samp cf scr p t) = None \/ sr_attrs (cf_samp cf scr p t) = sr_attrs scr).

Lemma cfg_of_ok : forall e r s, samp_ok (cfg_of e r s).
Proof.
  intros e r s. split; cbn [cfg_of cf_script cf_samp].
  - destruct s; try discriminate. reflexivity.
  - apply csample_attrs.
Qed.

Lemma cfg_of_default_ok : forall e s, samp_ok (cfg_of_default e s).
Proof.
  intros e s. split; cbn [cfg_of_default cf_script cf_samp].
  - destruct s; try discriminate. reflexivity.
  - apply csample_attrs.
Qed.

Section StartOk.
Variable cf : cfg.
Hypothesis OK : samp_ok cf.
Variables (gsid gtid : bytes) (scr : sresult).

Definition model_start_obs (active : span_ctx) (pa : parent_arg) : start_obs :=
  let b := new_span (cf_samp cf scr) (cf_random cf) gsid gtid (resolve_parent active pa) in
  mk_so active (cx_obs pa) (b_ctx b) (b_rec b) 1 (b_tid_calls b) (Some (b_seen_parent b, b_seen_tid b, seen_of (b_res b))).

Lemma odd_flag : forall b : bool, Z.odd (if b then 1 else 0) = b.
Proof. destruct b; reflexivity. Qed.

Lemma spec_start_enabled_model : forall p pa active, compat p pa ->
  spec_start_enabled cf p gsid gtid scr (model_start_obs active pa) = [].
Proof.
  intros p pa active C. unfold spec_start_enabled.
  pose proof (spec_parent_resolve p pa active) as SP. unfold model_start_obs in *.
  set (parent := resolve_parent active pa) in *.
  set (samp := cf_samp cf scr) in *.
  set (b := new_span samp (cf_random cf) gsid gtid parent) in *.
  specialize (SP (b_ctx b) (b_rec b) 1 (b_tid_calls b) (Some (b_seen_parent b, b_seen_tid b, seen_of (b_res b))) C).
  destruct (spec_parent p _) as [how par]. cbn [snd] in SP. subst par.
  assert (CX : match p with PCx _ => cx_obs pa <> None | _ => True end).
  { destruct p; auto. destruct pa; cbn in C; [contradiction | discriminate]. }
  cbn [so_cx so_samp so_new so_sid_calls so_tid_calls so_rec seen_of].
  assert (Body : forall l : list tok, l = [] ->
            match p, cx_obs pa with PCx _, None => fail "obs:context_parent_not_observed" | _, _ => l end = []).
  { intros l E. subst l. destruct p; try reflexivity. destruct (cx_obs pa); [reflexivity | contradiction]. }
  apply Body. clear Body CX.
  pose proof (new_flags samp (cf_random cf) gsid gtid parent) as NF. fold (born_of samp (cf_random cf) gsid gtid parent) in NF.
  change (born_of samp (cf_random cf) gsid gtid parent) with b in NF.
  pose proof (new_context_validity samp (cf_random cf) gsid gtid parent) as [NR NV].
  change (born_of samp (cf_random cf) gsid gtid parent) with b in NR, NV.
  pose proof (tracestate_choice samp (cf_random cf) gsid gtid parent) as TS.
  change (born_of samp (cf_random cf) gsid gtid parent) with b in TS.
  pose proof (recording_is_decision samp (cf_random cf) gsid gtid parent) as (RD & RS & _).
  change (born_of samp (cf_random cf) gsid gtid parent) with b in RD, RS.
  assert (C1 : (1 =? 1) = true) by reflexivity.
  assert (C2 : bytes_eqb (c_sid (b_ctx b)) gsid = true) by apply bytes_eqb_refl.
  assert (C3 : bytes_eqb (b_seen_tid b) (c_tid (b_ctx b)) = true) by apply bytes_eqb_refl.
  assert (C4 : negb (c_remote (b_ctx b)) = true) by (rewrite NR; reflexivity).
  assert (C5 : Bool.eqb (sampled_bit (b_ctx b)) (is_sampled (sr_dec (b_res b))) = true)
    by (rewrite sampled_bit_flags, NF, odd_flag; apply Bool.eqb_reflx).
  assert (C6 : (Z.of_N (b2n (c_flags (b_ctx b))) <=? 1) = true)
    by (fold (flags_z (b_ctx b)); rewrite NF; destruct (is_sampled _); reflexivity).
  assert (C7 : Bool.eqb (b_rec b) (is_recording (sr_dec (b_res b))) = true) by (rewrite RD; apply Bool.eqb_reflx).
  assert (Script : (if cf_script cf
                    then check (decision_eqb (sr_dec (b_res b)) (sr_dec scr) && opt_bytes_eqb (sr_ts (b_res b)) (sr_ts scr) &&
                                (match sr_attrs (b_res b) with Some l => Z.of_nat (length l) | None => -1 end =?
                                 match sr_attrs scr with Some l => Z.of_nat (length l) | None => -1 end)) "harness:scripted_result"
                    else []) = []).
  { destruct (cf_script cf) eqn:CS; try reflexivity.
    assert (E : b_res b = scr) by (rewrite RS; subst samp; apply (proj1 OK CS)).
    rewrite E, decision_eqb_refl, opt_bytes_eqb_refl, Z.eqb_refl. reflexivity. }
  unfold opt_parent. destruct (ctx_valid parent) eqn:V.
  - destruct (child_of_valid_parent samp (cf_random cf) gsid gtid parent V) as (X1 & X2 & X3 & X4 & X5 & X6).
    change (born_of samp (cf_random cf) gsid gtid parent) with b in X1, X2, X3, X4, X5, X6.
    rewrite C1, C2, C3, C4, C5, C6, C7. cbn [check app].
    rewrite X1, X4, X5, bytes_eqb_refl, ctx5_eqb_refl. cbn [Z.eqb check app].
    rewrite is_valid_ctx_valid, NV, ?V. cbn [orb]. rewrite andb_true_r.
    assert (I : implb (negb (all_zero gsid)) (negb (all_zero gsid)) = true) by (destruct (all_zero gsid); reflexivity).
    rewrite I. cbn [check app].
    rewrite TS, ?V. destruct (sr_ts (b_res b)); rewrite bytes_eqb_refl; cbn [check app]; exact Script.
  - destruct (root_without_valid_parent samp (cf_random cf) gsid gtid parent V) as (X1 & X2 & X3 & X4 & X5).
    change (born_of samp (cf_random cf) gsid gtid parent) with b in X1, X2, X3, X4, X5.
    assert (SPa : b_seen_parent b = parent) by reflexivity.
    rewrite C1, C2, C3, C4, C5, C6, C7. cbn [check app].
    rewrite X1, X4, SPa, bytes_eqb_refl, is_valid_ctx_valid, ?V. cbn [Z.eqb negb check app].
    rewrite is_valid_ctx_valid, NV, ?V. cbn [orb].
    assert (I : implb (negb (all_zero gsid) && negb (all_zero gtid)) (negb (all_zero gsid) && negb (all_zero gtid)) = true)
      by (destruct (all_zero gsid), (all_zero gtid); reflexivity).
    rewrite I. cbn [check app].
    rewrite TS, ?V. destruct (sr_ts (b_res b)); rewrite bytes_eqb_refl; cbn [check app]; exact Script.
Qed.
End StartOk.

(* ------------------------------------------------------------------ the checker's table is the model's span table *)
Definition ss_of (s : span_rec) : sspan := mk_ss (sp_ctx s) (sp_psid s) (sp_rec s) (sp_ended s) (sp_attrs s).
Definition tbl_of (w : world) : list sspan := map ss_of (w_spans w).

(* recording spans were made by StartSpan: their context is a local one *)
Definition rec_local (w : world) : Prop := Forall (fun s => sp_rec s = true -> c_remote (sp_ctx s) = false) (w_spans w).

Lemma map_set_nth : forall A B (f : A -> B) l k v, map f (set_nth k v l) = set_nth k (f v) (map f l).
Proof. induction l as [|x l IH]; intros [|k] v; cbn; try reflexivity. rewrite IH. reflexivity. Qed.

Lemma set_nth_app_mid : forall A (a : list A) v x r, set_nth (length a) v (a ++ x :: r) = a ++ v :: r.
Proof. intros A a v x r. induction a as [|y a IH]; cbn; [reflexivity | rewrite IH; reflexivity]. Qed.

Lemma Forall_set_nth' : forall A (P : A -> Prop) l k v, Forall P l -> P v -> Forall P (set_nth k v l).
Proof.
  induction l as [|x l IH]; intros k v H Hv; [destruct k; constructor|].
  inversion H; subst. destruct k; cbn; constructor; auto.
Qed.

Lemma spec_xrec_model : forall k s, c_remote (sp_ctx s) = false ->
  spec_xrec k (ss_of s) (mk_x k (c_tid (sp_ctx s)) (c_sid (sp_ctx s)) (sp_psid s) (flags_z (sp_ctx s)) (flags_z (sp_ctx s))
                              (c_remote (sp_ctx s)) (c_ts (sp_ctx s)) (sp_attrs s)) = [].
Proof.
  intros k s R. unfold spec_xrec. cbn [x_name x_tid x_sid x_psid x_flags x_cflags x_remote x_ts x_attrs ss_of ss_ctx ss_psid ss_attrs].
  rewrite Nat.eqb_refl, !bytes_eqb_refl, zlist_eqb_refl, R. unfold flags_z. rewrite Z.eqb_refl. reflexivity.
Qed.

Lemma sspan_of_start_model : forall cf p pa gsid gtid scr active, samp_ok cf -> compat p pa -> cf_enabled cf = true ->
  let b := new_span (cf_samp cf scr) (cf_random cf) gsid gtid (resolve_parent active pa) in
  sspan_of_start cf p scr (model_start_obs cf gsid gtid scr active pa) = mk_ss (b_ctx b) (b_psid b) (b_rec b) false (b_attrs b).
Proof.
  intros cf p pa gsid gtid scr active OK C En b. unfold sspan_of_start, model_start_obs. fold b.
  rewrite (spec_parent_resolve p pa active _ _ _ _ _ C). rewrite En.
  cbn [so_new so_rec so_samp seen_of]. f_equal.
  - unfold opt_parent. subst b. unfold new_span. cbn [b_psid]. destruct (ctx_valid (resolve_parent active pa)); reflexivity.
  - subst b. unfold new_span. cbn [b_rec b_attrs b_res].
    set (r := cf_samp cf scr _ _).
    destruct (proj2 OK scr (resolve_parent active pa)
                (if ctx_valid (resolve_parent active pa) then c_tid (resolve_parent active pa) else gtid)) as [E|E]; fold r in E.
    + rewrite E. cbn. rewrite andb_false_r. destruct (is_recording (sr_dec r)); reflexivity.
    + rewrite E. destruct (sr_attrs scr) as [l|].
      * assert (P : (0 <=? Z.of_nat (length l)) = true) by lia. rewrite P, andb_true_r. reflexivity.
      * cbn. rewrite andb_false_r. destruct (is_recording (sr_dec r)); reflexivity.
Qed.

(* ------------------------------------------------------------------ the default generator as an oracle of FRESH ids *)
(* With the default RandomIdGenerator the ids written in the operations stand for what the generator returns; the
   assumption on that oracle is that every id is fresh at the moment it is drawn: non-zero and different from the
   corresponding id of every span in the table.  (With a scripted generator nothing is assumed.) *)
Definition start_fresh (cf : cfg) (w : world) (o : sop) : Prop :=
  match o with
  | SStart _ gsid gtid _ =>
      cf_enabled cf = true -> cf_defgen cf = true ->
      fresh_sid_b (tbl_of w) gsid = true /\ fresh_tid_b (tbl_of w) gtid = true
  | _ => True
  end.

Fixpoint oracle_fresh (cf : cfg) (w : world) (ops : list (nat * sop)) : Prop :=
  match ops with
  | [] => True
  | (t, o) :: ops' => start_fresh cf w o /\ oracle_fresh cf (fst (sstep cf w t o)) ops'
  end.

Lemma oracle_fresh_scripted : forall cf ops w, cf_defgen cf = false -> oracle_fresh cf w ops.
Proof.
  intros cf ops. induction ops as [|[t o] ops IH]; intros w H; [exact I|]. split; [|apply IH; exact H].
  destruct o; cbn; auto. intros _ D. congruence.
Qed.

Lemma spec_fresh_model : forall cf w p pa gsid gtid scr active, compat p pa ->
  (cf_enabled cf = true -> cf_defgen cf = true -> fresh_sid_b (tbl_of w) gsid = true /\ fresh_tid_b (tbl_of w) gtid = true) ->
  spec_fresh cf (tbl_of w) p (model_start_obs cf gsid gtid scr active pa) = [].
Proof.
  intros cf w p pa gsid gtid scr active C F. unfold spec_fresh.
  destruct (cf_enabled cf && cf_defgen cf) eqn:ED; [|reflexivity].
  apply andb_true_iff in ED. destruct (F (proj1 ED) (proj2 ED)) as [FS FT].
  unfold fresh_sid_b in FS. unfold fresh_tid_b in FT. apply andb_true_iff in FS, FT. destruct FS as [S1 S2]. destruct FT as [T1 T2].
  unfold model_start_obs. rewrite (spec_parent_resolve p pa active _ _ _ _ _ C). cbn [so_new].
  set (parent := resolve_parent active pa).
  assert (Sid : c_sid (b_ctx (new_span (cf_samp cf scr) (cf_random cf) gsid gtid parent)) = gsid) by reflexivity.
  rewrite Sid, S1, S2. cbn [check app]. unfold opt_parent. destruct (ctx_valid parent) eqn:V; [reflexivity|].
  destruct (root_without_valid_parent (cf_samp cf scr) (cf_random cf) gsid gtid parent V) as (X1 & _).
  unfold born_of in X1. rewrite X1, T1, T2. reflexivity.
Qed.

(* ------------------------------------------------------------------ the checker's machine simulates the model's world *)
(* every thread's view of the world (C10 thread world: heap, named contexts, its own array stack, tokens) is related
   by C10's simulation relation R to the checker's view (association lists, its own list of names, tokens) *)
Record Sim (n : nat) (w : world) (s : cstate) : Prop := mk_Sim {
  Sim_tbl : cs_tbl s = tbl_of w;
  Sim_n1 : length (w_stks w) = n;
  Sim_n2 : length (cs_stacks s) = n;
  Sim_R : forall t, (t < n)%nat -> R (view w t) (cview s t)
}.

Lemma R_last : forall t a l, R t a -> R t (C10.Spec.mk_s (C10.Spec.s_pool a) (C10.Spec.s_stack a) (C10.Spec.s_toks a) l).
Proof. intros t a l [H1 H2 H3 H4 H5 H6 H7 H8 H9 H10]. constructor; assumption. Qed.

Lemma nth_repeat : forall A (x : A) n t d, (t < n)%nat -> nth t (repeat x n) d = x.
Proof. intros A x n. induction n as [|n IH]; intros t d H; [lia|]. destruct t; cbn; [reflexivity | apply IH; lia]. Qed.

Lemma Sim_init : forall n, Sim n (world0 n) (cstate0 n).
Proof.
  intro n. constructor; cbn; try reflexivity; try apply repeat_length.
  intros t Ht. unfold view, cview, stk_of. cbn [world0 cstate0 w_heap w_pool w_toks w_stks cs_pool cs_toks cs_stacks].
  rewrite !nth_repeat by exact Ht. apply (R_last tstate0 C10.Spec.sstate0 ""). apply R_init.
Qed.

(* the shared parts (heap, named contexts, tokens) come from the thread that moved, the stack from the thread itself *)
Lemma R_other : forall T' A' h pool stk toks apool astk atoks l l',
  R T' A' -> R (mk_t h pool stk toks) (C10.Spec.mk_s apool astk atoks l) ->
  (exists p, t_pool T' = pool ++ p) -> (length atoks <= length (C10.Spec.s_toks A'))%nat ->
  R (mk_t (t_heap T') (t_pool T') stk (t_toks T')) (C10.Spec.mk_s (C10.Spec.s_pool A') astk (C10.Spec.s_toks A') l').
Proof.
  intros T' A' h pool stk toks apool astk atoks l l' [H1 H2 H3 H4 H5 H6 H7 H8 H9 H10] [G1 G2 G3 G4 G5 G6 G7 G8 G9 G10] [p E] L.
  cbn [t_heap t_pool t_stk t_toks C10.Spec.s_pool C10.Spec.s_stack C10.Spec.s_toks] in *.
  constructor; cbn [t_heap t_pool t_stk t_toks C10.Spec.s_pool C10.Spec.s_stack C10.Spec.s_toks]; try assumption.
  - rewrite G6. apply map_ext_in. intros i Hi. rewrite Forall_forall in G7. specialize (G7 i Hi).
    unfold nm. rewrite E. symmetry. apply app_nth1. exact G7.
  - rewrite E, app_length. eapply Forall_impl; [|exact G7]. intros i Hi. cbn in Hi. lia.
  - lia.
Qed.

Lemma sstep_toks_grow : forall a o, (length (C10.Spec.s_toks a) <= length (C10.Spec.s_toks (fst (C10.Spec.sstep a o))))%nat.
Proof.
  intros a o. destruct o as [r k v | r b | r k | r k | r | keys | i j | r | k | k | | sp]; cbn [C10.Spec.sstep fst C10.Spec.s_toks];
    try lia; try (rewrite app_length; cbn; lia).
  - destruct (nth k (C10.Spec.s_toks a) C10.Spec.SDead) as [|i|i|i]; try (cbn; lia);
      destruct (C10.Spec.sdetach (C10.Spec.s_stack a) i) as [[stk b] kd]; cbn; lia.
  - destruct (nth k (C10.Spec.s_toks a) C10.Spec.SDead) as [|i|i|i]; try (cbn; lia);
      destruct (C10.Spec.sdetach (C10.Spec.s_stack a) i) as [[stk b] kd]; cbn [fst C10.Spec.s_toks]; rewrite set_nth_length; lia.
Qed.

Lemma view_eta : forall w t st, (t < length (w_stks w))%nat -> view (unview w t st) t = st.
Proof.
  intros w t [h p stk tk] L. unfold view, unview, stk_of. cbn [w_heap w_pool w_toks w_stks t_heap t_pool t_stk t_toks].
  rewrite nth_set_nth_same by exact L. reflexivity.
Qed.

(* a context operation of thread t keeps every thread's view related *)
Lemma Sim_ctx_step : forall n w s t co, Sim n w s -> (t < n)%nat ->
  Sim n (unview w t (fst (step (view w t) co))) (cunview s t (fst (C10.Spec.sstep (cview s t) co))).
Proof.
  intros n w s t co [S1 S2 S3 S4] Ht.
  pose proof (S4 t Ht) as Rt. destruct (step_sim (view w t) (cview s t) co Rt) as [R' _].
  set (T' := fst (step (view w t) co)) in *. set (A' := fst (C10.Spec.sstep (cview s t) co)) in *.
  constructor.
  - exact S1.
  - unfold unview. cbn [w_stks]. rewrite set_nth_length. exact S2.
  - unfold cunview. cbn [cs_stacks]. rewrite set_nth_length. exact S3.
  - intros u Hu. destruct (Nat.eq_dec u t) as [->|Ne].
    + rewrite view_eta by lia. unfold cunview, cview. cbn [cs_pool cs_toks cs_stacks].
      rewrite nth_set_nth_same by lia. apply R_last. exact R'.
    + unfold view at 1, unview, stk_of. cbn [w_heap w_pool w_toks w_stks].
      rewrite nth_set_nth_other by congruence.
      unfold cunview, cview. cbn [cs_pool cs_toks cs_stacks]. rewrite nth_set_nth_other by congruence.
      pose proof (S4 u Hu) as Ru. unfold view, cview in Ru.
      eapply R_other; [exact R' | exact Ru | |].
      * destruct (step_extends (view w t) co) as [ex [p [_ P]]]. exists p. exact P.
      * apply (sstep_toks_grow (cview s t) co).
Qed.

Lemma Sim_same_ctx : forall n w s w' s',
  Sim n w s -> w_heap w' = w_heap w -> w_pool w' = w_pool w -> w_toks w' = w_toks w -> w_stks w' = w_stks w ->
  cs_pool s' = cs_pool s -> cs_toks s' = cs_toks s -> cs_stacks s' = cs_stacks s -> cs_tbl s' = tbl_of w' ->
  Sim n w' s'.
Proof.
  intros n w s w' s' [S1 S2 S3 S4] E1 E2 E3 E4 F1 F2 F3 F4. constructor; try congruence.
  intros t Ht. unfold view, cview, stk_of. rewrite E1, E2, E3, E4, F1, F2, F3. apply (S4 t Ht).
Qed.

(* ------------------------------------------------------------------ the checker's answers are the model's *)
Lemma ctx_of_tbl_idx : forall w i, ctx_of_tbl (tbl_of w) i = ctx_of_idx w i.
Proof.
  intros w i. unfold ctx_of_tbl, ctx_of_idx, tbl_of. destruct (i <? 0); [reflexivity|].
  rewrite nth_error_map. destruct (nth_error (w_spans w) (Z.to_nat i)); reflexivity.
Qed.

Lemma exp_active_model : forall n w s t, Sim n w s -> (t < n)%nat -> exp_active s t = active_ctx w t.
Proof.
  intros n w s t [S1 S2 S3 S4] Ht. pose proof (S4 t Ht) as Rt.
  destruct (scur_ok _ _ Rt) as [L T]. unfold exp_active, span_in, active_ctx, active_idx, binds_of.
  rewrite S1, ctx_of_tbl_idx. f_equal. f_equal.
  change (top (stk_of w t)) with (top (t_stk (view w t))). rewrite T.
  symmetry. apply (get_sim (view w t) (cview s t) _ span_key Rt L).
Qed.

Lemma exp_cx_model : forall n w s t p, Sim n w s -> (t < n)%nat -> exp_cx s t p = cx_obs (eval_parent w t p).
Proof.
  intros n w s t p [S1 S2 S3 S4] Ht. destruct p as [|c|r]; try reflexivity.
  pose proof (S4 t Ht) as Rt. destruct (res_ok _ _ r Rt) as [L E].
  cbn [exp_cx eval_parent cx_obs]. rewrite E. unfold span_in, root_in, cx_span_ctx, cx_is_root, binds_of.
  change (w_heap w) with (t_heap (view w t)). change (nm (t_pool (view w t))) with (nm (t_pool (view w t))).
  rewrite !(get_sim (view w t) (cview s t) _ _ Rt L). rewrite S1, ctx_of_tbl_idx. reflexivity.
Qed.

Lemma scop_ok_model : forall w co, scop_ok (length (tbl_of w)) co = cop_ok w co.
Proof.
  intros w co. unfold tbl_of. rewrite map_length. unfold scop_ok, cop_ok, span_ref_ok.
  destruct co as [r k v | r b | r k | r k | r | keys | i j | r | k | k | | sp]; reflexivity.
Qed.

Lemma tok_eqb_refl : forall t, tok_eqb t t = true.
Proof. destruct t; cbn; [apply bytes_eqb_refl | apply Z.eqb_refl | apply bytes_eqb_refl]. Qed.
Lemma toks_eqb_refl : forall l, toks_eqb l l = true.
Proof. induction l as [|t l IH]; cbn; [reflexivity | rewrite tok_eqb_refl; exact IH]. Qed.

Lemma cx_eqb_refl : forall c, cx_eqb c c = true.
Proof. destruct c as [[c r]|]; cbn; [rewrite ctx5_eqb_refl, Bool.eqb_reflx; reflexivity | reflexivity]. Qed.

Lemma so_eta : forall so, mk_so (so_active so) (so_cx so) (so_new so) (so_rec so) (so_sid_calls so) (so_tid_calls so) (so_samp so) = so.
Proof. destruct so; reflexivity. Qed.

(* one operation: the checker, run on the model's observation, reports nothing and keeps in step with the world *)
Lemma spec_op_model : forall cf n w s t o, samp_ok cf -> start_fresh cf w o -> rec_local w -> Sim n w s -> (t < n)%nat ->
  snd (spec_op cf s t o (snd (sstep cf w t o))) = [] /\
  Sim n (fst (sstep cf w t o)) (fst (spec_op cf s t o (snd (sstep cf w t o)))) /\
  rec_local (fst (sstep cf w t o)).
Proof.
  intros cf n w s t o OK FR RL SM Ht. pose proof (Sim_tbl _ _ _ SM) as TB.
  destruct o as [p gsid gtid scr | k | c | | co]; cbn [sstep].
  - (* StartSpan *)
    assert (Start : forall so, so_active so = active_ctx w t -> so_cx so = cx_obs (eval_parent w t p) ->
              spec_op cf s t (SStart p gsid gtid scr) (OStart so) =
              (with_tbl s (tbl_of w ++ [sspan_of_start cf p scr so]),
               spec_start cf p gsid gtid scr so ++ spec_fresh cf (tbl_of w) p so)).
    { intros so A C. cbn [spec_op]. rewrite (exp_active_model n w s t SM Ht), (exp_cx_model n w s t p SM Ht), <- A, <- C.
      rewrite so_eta, TB, ctx5_eqb_refl, cx_eqb_refl. reflexivity. }
    unfold do_start. destruct (cf_enabled cf) eqn:En; cbn [negb fst snd].
    + rewrite Start by reflexivity. cbn [fst snd]. unfold spec_start. rewrite En.
      pose proof (spec_start_enabled_model cf OK gsid gtid scr p _ (active_ctx w t) (eval_parent_compat w t p)) as S1.
      pose proof (sspan_of_start_model cf p _ gsid gtid scr (active_ctx w t) OK (eval_parent_compat w t p) En) as S2.
      pose proof (spec_fresh_model cf w p _ gsid gtid scr (active_ctx w t) (eval_parent_compat w t p) FR) as S3.
      unfold model_start_obs in S1, S2, S3. cbv zeta in S1, S2, S3. rewrite S1, S2, S3.
      split; [reflexivity|]. split.
      * eapply Sim_same_ctx; [exact SM | reflexivity..|].
        unfold with_tbl, tbl_of, add_span. cbn [cs_tbl w_spans]. rewrite map_app. reflexivity.
      * unfold rec_local, add_span. cbn [w_spans]. apply Forall_app. split; [exact RL|]. constructor; [|constructor].
        intros _. cbn [sp_ctx]. reflexivity.
    + rewrite Start by reflexivity. cbn [fst snd]. unfold spec_start. rewrite En.
      split; [unfold spec_start_disabled, spec_fresh; rewrite En; reflexivity|]. split.
      * eapply Sim_same_ctx; [exact SM | reflexivity..|].
        unfold with_tbl, tbl_of, add_span. cbn [cs_tbl w_spans]. rewrite map_app.
        unfold sspan_of_start. rewrite En. reflexivity.
      * unfold rec_local, add_span. cbn [w_spans]. apply Forall_app. split; [exact RL|]. constructor; [|constructor]. discriminate.
  - (* End *)
    unfold do_end. cbn [spec_op]. rewrite TB. unfold tbl_of.
    destruct (nth_error (w_spans w) k) as [e|] eqn:N; cbn [fst snd spec_op]; rewrite nth_error_map, N; cbn [option_map fst snd].
    + split; [|split].
      * unfold spec_end. cbn [ss_of ss_rec ss_ended]. destruct (sp_rec e && negb (sp_ended e)) eqn:F.
        -- unfold export_of. rewrite N. apply spec_xrec_model.
           unfold rec_local in RL. rewrite Forall_forall in RL. apply (RL e (nth_error_In _ _ N)).
           apply andb_true_iff in F. tauto.
        -- reflexivity.
      * eapply Sim_same_ctx; [exact SM | reflexivity..|].
        unfold with_tbl, tbl_of. cbn [cs_tbl w_spans]. rewrite map_set_nth. reflexivity.
      * unfold rec_local in *. cbn [w_spans]. apply Forall_set_nth'; [exact RL|]. cbn.
        rewrite Forall_forall in RL. apply (RL e (nth_error_In _ _ N)).
    + split; [reflexivity | split; [exact SM | exact RL]].
  - (* Wrap *)
    cbn [fst snd spec_op]. split; [reflexivity|]. split.
    + eapply Sim_same_ctx; [exact SM | reflexivity..|].
      unfold with_tbl, tbl_of, add_span. cbn [cs_tbl w_spans]. rewrite TB, map_app. reflexivity.
    + unfold rec_local, add_span. cbn [w_spans]. apply Forall_app. split; [exact RL|]. constructor; [|constructor]. discriminate.
  - (* GetCurrentSpan *)
    cbn [fst snd spec_op]. rewrite (exp_active_model n w s t SM Ht), ctx5_eqb_refl. split; [reflexivity | split; [exact SM | exact RL]].
  - (* context operations *)
    cbn [spec_op]. rewrite TB, scop_ok_model.
    destruct (cop_ok w co) eqn:CO.
    + destruct (step_sim (view w t) (cview s t) co (Sim_R _ _ _ SM t Ht)) as [_ Out].
      pose proof (Sim_ctx_step n w s t co SM Ht) as SM'.
      destruct (step (view w t) co) as [st out]. cbn [fst snd] in *.
      destruct (C10.Spec.sstep (cview s t) co) as [a cs]. cbn [fst snd] in *.
      rewrite Out. unfold outs, chunk_toks. rewrite toks_eqb_refl. split; [reflexivity | split; [exact SM' | exact RL]].
    + cbn [fst snd]. split; [reflexivity | split; [exact SM | exact RL]].
Qed.

Lemma srun_cons' : forall cf w t o ops,
  srun cf w ((t, o) :: ops) =
  (fst (srun cf (fst (sstep cf w t o)) ops), snd (sstep cf w t o) :: snd (srun cf (fst (sstep cf w t o)) ops)).
Proof.
  intros. cbn [srun]. destruct (sstep cf w t o) as [w1 out]. cbn [fst snd]. destruct (srun cf w1 ops) as [w2 outs]. reflexivity.
Qed.

Definition threads_ok (n : nat) (ops : list (nat * sop)) : Prop := Forall (fun p => (fst p < n)%nat) ops.

Lemma spec_ops_model : forall cf n ops w s, samp_ok cf -> oracle_fresh cf w ops -> rec_local w -> Sim n w s -> threads_ok n ops ->
  snd (spec_ops cf s ops (snd (srun cf w ops))) = [] /\
  cs_tbl (fst (spec_ops cf s ops (snd (srun cf w ops)))) = tbl_of (fst (srun cf w ops)) /\
  rec_local (fst (srun cf w ops)).
Proof.
  intros cf n ops. induction ops as [|[t o] ops IH]; intros w s OK FR RL SM TH.
  - cbn. split; [reflexivity | split; [apply (Sim_tbl _ _ _ SM) | exact RL]].
  - rewrite srun_cons'. cbn [fst snd spec_ops]. destruct FR as [FR1 FR2]. inversion TH as [|x l Ht TH']; subst. cbn [fst] in Ht.
    destruct (spec_op_model cf n w s t o OK FR1 RL SM Ht) as (E & SM1 & RL1).
    destruct (spec_op cf s t o (snd (sstep cf w t o))) as [s1 f]. cbn [fst snd] in E, SM1. subst f.
    destruct (IH _ s1 OK FR2 RL1 SM1 TH') as (E2 & T2 & RL2).
    destruct (spec_ops cf s1 ops (snd (srun cf (fst (sstep cf w t o)) ops))) as [s2 fs]. cbn [fst snd] in *.
    subst fs. split; [reflexivity | split; assumption].
Qed.

(* ------------------------------------------------------------------ the end of the program *)
Lemma end_all_cons : forall w k ks,
  end_all w (k :: ks) =
  (fst (end_all (fst (do_end w k)) ks),
   match snd (do_end w k) with OEnd xs => xs | _ => [] end ++ snd (end_all (fst (do_end w k)) ks)).
Proof. intros. cbn [end_all]. destruct (do_end w k) as [w1 out]. cbn [fst snd]. destruct (end_all w1 ks) as [w2 outs]. reflexivity. Qed.

Lemma finish_model : forall rest pre w, w_spans w = pre ++ rest -> rec_local w ->
  spec_finish (length pre) (map ss_of rest) (snd (end_all w (seq (length pre) (length rest)))) = [] /\
  map sp_ctx (w_spans (fst (end_all w (seq (length pre) (length rest))))) = map sp_ctx (w_spans w).
Proof.
  induction rest as [|s rest IH]; intros pre w E RL; [split; reflexivity|].
  cbn [length seq map]. rewrite end_all_cons.
  assert (N : nth_error (w_spans w) (length pre) = Some s).
  { rewrite E. rewrite nth_error_app2 by lia. rewrite Nat.sub_diag. reflexivity. }
  unfold do_end. rewrite N. cbn [fst snd].
  set (w1 := mk_w _ _ _ _ _ _).
  assert (E1 : w_spans w1 = (pre ++ [set_ended s]) ++ rest).
  { subst w1. cbn [w_spans]. rewrite E, set_nth_app_mid, <- app_assoc. reflexivity. }
  assert (RL1 : rec_local w1).
  { unfold rec_local in *. rewrite E1. rewrite E in RL. apply Forall_app in RL. destruct RL as [R1 R2].
    inversion R2; subst. apply Forall_app. split; [apply Forall_app; split; [exact R1 | constructor; [assumption | constructor]] | assumption]. }
  destruct (IH (pre ++ [set_ended s]) w1 E1 RL1) as [F C].
  rewrite app_length in F, C. cbn [length] in F, C. rewrite Nat.add_1_r in F, C.
  split.
  - cbn [spec_finish ss_of ss_rec ss_ended]. destruct (sp_rec s && negb (sp_ended s)) eqn:Fi.
    + unfold export_of. rewrite N. cbn [app]. rewrite spec_xrec_model; [exact F|].
      unfold rec_local in RL. rewrite Forall_forall in RL. apply (RL s (nth_error_In _ _ N)). apply andb_true_iff in Fi. tauto.
    + cbn [app]. exact F.
  - rewrite C, E1, E. rewrite !map_app. cbn [map set_ended sp_ctx]. rewrite <- app_assoc. reflexivity.
Qed.

Lemma spec_dump_model : forall l l', map sp_ctx l' = map sp_ctx l ->
  spec_dump (map ss_of l) (map (fun s => (sp_ctx s, false)) l') = [].
Proof.
  induction l as [|s l IH]; intros [|s' l'] E; try discriminate; [reflexivity|].
  cbn in E. inversion E. cbn [map spec_dump ss_of ss_ctx]. rewrite H0, ctx5_eqb_refl. cbn. apply IH. assumption.
Qed.

(* ------------------------------------------------------------------ model_meets_spec *)
Theorem model_meets_spec_oracles : forall cf n ops, samp_ok cf -> threads_ok n ops -> oracle_fresh cf (world0 n) ops ->
  spec_case cf n ops (run_case cf n ops) = [].
Proof.
  intros cf n ops OK TH FR. unfold run_case, spec_case.
  assert (RL0 : rec_local (world0 n)) by constructor.
  destruct (spec_ops_model cf n ops (world0 n) (cstate0 n) OK FR RL0 (Sim_init n) TH) as (E & T & RL).
  destruct (srun cf (world0 n) ops) as [w out] eqn:R. cbn [fst snd] in E, T, RL.
  destruct (finish_model (w_spans w) [] w eq_refl RL) as [F C]. cbn [length] in F, C.
  destruct (end_all w (seq 0 (length (w_spans w)))) as [w' ex] eqn:EA. cbn [fst snd] in F, C.
  cbn [co_ops co_fin co_dump]. destruct (spec_ops cf (cstate0 n) ops out) as [s f]. cbn [fst snd] in E, T. subst f.
  cbn [app]. rewrite T. unfold tbl_of. rewrite F. cbn [app].
  unfold dump_spans. apply spec_dump_model. exact C.
Qed.

(* with a custom id generator nothing is assumed about the ids *)
Theorem model_meets_spec_any_sampler : forall cf n ops, samp_ok cf -> threads_ok n ops -> cf_defgen cf = false ->
  spec_case cf n ops (run_case cf n ops) = [].
Proof. intros cf n ops OK TH D. apply model_meets_spec_oracles; [exact OK | exact TH | apply oracle_fresh_scripted; exact D]. Qed.

(* every configuration a case file can describe with a scripted generator: built-in samplers (C12), the scripted one,
   ParentBased around either; every operation runs on one of the n threads *)
Theorem model_meets_spec : forall enabled random s n ops, threads_ok n ops ->
  spec_case (cfg_of enabled random s) n ops (run_case (cfg_of enabled random s) n ops) = [].
Proof. intros. apply model_meets_spec_any_sampler; [apply cfg_of_ok | assumption | reflexivity]. Qed.

(* ... and with the default RandomIdGenerator, under the assumption that it yields fresh ids *)
Theorem model_meets_spec_default_generator : forall enabled s n ops, threads_ok n ops ->
  oracle_fresh (cfg_of_default enabled s) (world0 n) ops ->
  spec_case (cfg_of_default enabled s) n ops (run_case (cfg_of_default enabled s) n ops) = [].
Proof. intros. apply model_meets_spec_oracles; [apply cfg_of_default_ok | assumption | assumption]. Qed.

Example oracle_fresh_nonvacuous :
  let cf := cfg_of_default true CScript in
  let ops := [(0%nat, SStart PDef (repeat x11 8) (repeat x21 16) (mk_sres RecordAndSample None None)); (0%nat, SCtx (OScope 0));
              (1%nat, SStart PDef (repeat x12 8) (repeat x22 16) (mk_sres RecordAndSample None None));
              (0%nat, SStart PDef (repeat x13 8) (repeat x23 16) (mk_sres Drop None None))] in
  oracle_fresh cf (world0 2) ops /\ cf_defgen cf = true /\
  (* a repeated or a zero id is NOT accepted by the checker *)
  spec_case cf 1 [(0%nat, SStart PDef (zeros 8) (repeat x21 16) (mk_sres Drop None None))]
            (run_case cf 1 [(0%nat, SStart PDef (zeros 8) (repeat x21 16) (mk_sres Drop None None))]) <> [].
Proof. vm_compute. repeat split; intros; try reflexivity; discriminate. Qed.

(* the theorem is not vacuous: on a program with several spans, parents of all three kinds, several threads *)
Example model_meets_spec_nonvacuous :
  let cf := cfg_of true true CScript in
  let ops := [(0%nat, SWrap ex_parent); (0%nat, SCtx (OScope 0)); (0%nat, SStart PDef (repeat x11 8) (repeat x21 16) (mk_sres Drop None None));
              (1%nat, SStart (PSc ex_parent) (repeat x12 8) (repeat x22 16) (mk_sres RecordAndSample (Some (bs "s=1")) (Some [7])));
              (1%nat, SEnd 2%nat)] in
  length (co_ops (run_case cf 2 ops)) = 5%nat /\ length (co_dump (run_case cf 2 ops)) = 3%nat /\
  (exists x, snd (srun cf (world0 2) ops) <> [] /\ nth 4 (co_ops (run_case cf 2 ops)) OBadRef = OEnd [x]).
Proof. vm_compute. repeat split. eexists. split; [discriminate | reflexivity]. Qed.

(* the checker does not take the implementation's word for the active span: an observation in which the report about
   the active span is wrong, or in which a child of the innermost open scope comes out as a root, is rejected *)
Example active_span_clause_fires :
  let cf := cfg_of true false CScript in
  let ops := [(0%nat, SWrap ex_parent); (0%nat, SCtx (OScope 0));
              (0%nat, SStart PDef (repeat x11 8) (repeat x21 16) (mk_sres RecordAndSample None None))] in
  (* what an implementation that lost the scope would show: no active span, a new trace *)
  let lost := new_span (cf_samp cf (mk_sres RecordAndSample None None)) false (repeat x11 8) (repeat x21 16) ctx_invalid in
  let obs := mk_co [OCtxOut []; OCtxOut [];
                    OStart (mk_so ctx_invalid None (b_ctx lost) true 1 1 (Some (ctx_invalid, repeat x21 16, (RecordAndSample, None, -1))))]
                   [mk_x 2 (repeat x21 16) (repeat x11 8) (zeros 8) 1 1 false [] []]
                   [(ex_parent, false); (b_ctx lost, false)] in
  existsb (tok_eqb (tag "active_span:not_the_innermost_open_scope")) (spec_case cf 1 ops obs) = true /\
  existsb (tok_eqb (tag "parent_precedence:active_span_trace_id_not_inherited")) (spec_case cf 1 ops obs) = true.
Proof. vm_compute. split; reflexivity. Qed.
