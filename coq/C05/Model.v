(* MODEL for C05: sdk Tracer::StartSpan (sdk/src/trace/tracer.cc) - parent resolution, id generation,
   sampling, flag derivation, trace-state choice, noop span for non-recording decisions -, the Span
   constructor's SetIdentity and Span::End (sdk/src/trace/span.cc), trace::GetSpan / IsRootSpan
   (api trace/context.h), Tracer::GetCurrentSpan, DefaultSpan, and the harness exporter behind a
   SimpleSpanProcessor.  The runtime-context stack that decides the active span is the C10 model
   (coq/C10/Model.v), one stack per thread over a shared heap of context nodes; the built-in samplers
   are the C12 model (coq/C12/Model.v).  The id generator and the scripted sampler are oracles: every
   StartSpan operation carries the ids the generator will return and the result the scripted sampler
   will give at that call.  Definitions only - no proofs in this file. *)
From V Require Export C10.Model.
From V Require Export C12.Model.
From V Require Import Gen.Consts.
Local Open Scope Z_scope.

(* ------------------------------------------------------------------ sampler results, samplers *)
(* SamplingResult: decision, trace_state (None = nullptr; Some h = a TraceState whose header is h),
   attributes (None = nullptr; Some l = a map whose values, in key order, are l) *)
Record sresult := mk_sres { sr_dec : decision; sr_ts : option bytes; sr_attrs : option (list Z) }.

Inductive csampler :=
| CBuiltin (s : sampler)       (* AlwaysOn / AlwaysOff / TraceIdRatioBased / ParentBased of those (C12) *)
| CScript                      (* the harness' scripted sampler: returns the result written in the operation *)
| CParent (d : csampler).      (* ParentBasedSampler(delegate) around a scripted delegate *)

Definition extra0 : extra := mk_extra [] 0 0 0.

(* Sampler::ShouldSample(parent_context, trace_id, ...) of the configured sampler *)
Fixpoint csample (s : csampler) (scripted : sresult) (parent : span_ctx) (tid : bytes) : sresult :=
  match s with
  | CBuiltin b => let r := should_sample b parent tid extra0 in mk_sres (fst r) (snd r) None
  | CScript => scripted
  | CParent d =>
      if negb (ctx_valid parent) then csample d scripted parent tid
      else if ctx_sampled parent then mk_sres RecordAndSample (Some (c_ts parent)) None
      else mk_sres Drop (Some (c_ts parent)) None
  end.

(* ------------------------------------------------------------------ Tracer::StartSpan, pure part *)
(* what StartSpanOptions::parent holds, after the lookups in an explicit Context have been made *)
Inductive parent_arg :=
| PAsCtx (c : span_ctx)                       (* a SpanContext (the default is SpanContext::GetInvalid()) *)
| PAsContext (c : span_ctx) (is_root : bool). (* a Context: GetSpan(context)->GetContext(), IsRootSpan(context) *)

(* tracer.cc:61-86; [active] = GetCurrentSpan()->GetContext().  SpanContext{false,false} = ctx_invalid *)
Definition resolve_parent (active : span_ctx) (p : parent_arg) : span_ctx :=
  match p with
  | PAsCtx c => if ctx_valid c then c else active
  | PAsContext c is_root => if ctx_valid c then c else if is_root then ctx_invalid else active
  end.

Definition flags_z (c : span_ctx) : Z := Z.of_N (b2n (c_flags c)).
Definition z2flags (z : Z) : byte := n2b (Z.to_N z).

(* tracer.cc:92-132 *)
Definition derive_flags (parent_valid : bool) (parent_flags : Z) (random sampled : bool) : Z :=
  let flags0 := if parent_valid then parent_flags else if random then c12_kIsRandom else 0 in
  let flags1 := if sampled then Z.lor flags0 c12_kIsSampled
                else Z.land flags0 (255 - c12_kIsSampled) in     (* & (uint8_t)~kIsSampled *)
  Z.land flags1 c12_kAllW3CTraceContext1Flags.

(* everything StartSpan decides about the new span *)
Record born := mk_born {
  b_ctx : span_ctx;            (* Span::GetContext() of the returned span *)
  b_psid : bytes;              (* parent span id handed to Recordable::SetIdentity *)
  b_rec : bool;                (* an sdk Span with a recordable (true) or a NoopSpan (false) *)
  b_attrs : list Z;            (* attributes the sampler asked to add *)
  b_seen_parent : span_ctx;    (* arguments the sampler was called with *)
  b_seen_tid : bytes;
  b_res : sresult;             (* what the sampler answered *)
  b_tid_calls : Z              (* calls of IdGenerator::GenerateTraceId *)
}.

(* tracer.cc:88-167 with the parent already resolved; [samp] = the sampler, [random] = IdGenerator::IsRandom(),
   [gsid] [gtid] = what GenerateSpanId / GenerateTraceId return at this call *)
Definition new_span (samp : span_ctx -> bytes -> sresult) (random : bool) (gsid gtid : bytes) (parent : span_ctx) : born :=
  let valid := ctx_valid parent in
  let tid := if valid then c_tid parent else gtid in
  let r := samp parent tid in
  let flags := derive_flags valid (flags_z parent) random (is_sampled (sr_dec r)) in
  let ts := match sr_ts r with Some h => h | None => if valid then c_ts parent else ts_default end in
  mk_born (mk_ctx tid gsid (z2flags flags) false ts)
          (if valid then c_sid parent else zeros 8)
          (is_recording (sr_dec r))
          (if is_recording (sr_dec r) then match sr_attrs r with Some l => l | None => [] end else [])
          parent tid r (if valid then 0 else 1).

(* ------------------------------------------------------------------ the world *)
(* one entry of the harness' span table *)
Record span_rec := mk_span {
  sp_ctx : span_ctx;          (* GetContext() *)
  sp_psid : bytes;            (* parent span id in the recordable *)
  sp_rec : bool;              (* created as a recording sdk Span *)
  sp_ended : bool;            (* End() was called *)
  sp_attrs : list Z
}.

Record world := mk_w {
  w_heap : heap;               (* context nodes (C10), shared: contexts are immutable *)
  w_pool : list ctx;           (* named contexts; 0 = Context() *)
  w_toks : list tokst;         (* tokens / scopes obtained so far, by any thread *)
  w_stks : list stack;         (* thread_local runtime-context stack of every thread *)
  w_spans : list span_rec;     (* span table *)
  w_exp : list nat             (* indices of the spans handed to the exporter, in order *)
}.
Definition world0 (nthreads : nat) : world := mk_w [] [root] [] (repeat stack0 nthreads) [] [].

(* the tracer's configuration: TracerConfig enabled, IdGenerator::IsRandom(), and the configured sampler as a
   function of (the answer the scripted sampler would give at this call, parent context, trace id);
   [cf_script] says that the sampler IS the scripted one *)
Record cfg := mk_cfg {
  cf_enabled : bool; cf_random : bool; cf_script : bool;
  cf_samp : sresult -> span_ctx -> bytes -> sresult;
  cf_defgen : bool     (* the ids come from the SDK's default RandomIdGenerator (sdk/src/trace/random_id_generator.cc over
                          sdk/src/common/random.cc): the harness renames every id it hands out to the id written in the
                          operation, first come first served; a zero id is not renamed *)
}.
(* a custom (scripted) id generator *)
Definition cfg_of (enabled random : bool) (s : csampler) : cfg :=
  mk_cfg enabled random (match s with CScript => true | _ => false end) (csample s) false.
(* the default RandomIdGenerator (IsRandom() = true) *)
Definition cfg_of_default (enabled : bool) (s : csampler) : cfg :=
  mk_cfg enabled true (match s with CScript => true | _ => false end) (csample s) true.

Definition stk_of (w : world) (t : nat) : stack := nth t (w_stks w) stack0.
(* the calling thread's view as a C10 thread world *)
Definition view (w : world) (t : nat) : tstate := mk_t (w_heap w) (w_pool w) (stk_of w t) (w_toks w).
Definition unview (w : world) (t : nat) (st : tstate) : world :=
  mk_w (t_heap st) (t_pool st) (t_toks st) (set_nth t (t_stk st) (w_stks w)) (w_spans w) (w_exp w).

Definition root_key : bytes := map n2b kIsRootSpanKeyBytes.

Definition span_ref_ok (w : world) (n : Z) : bool := (0 <=? n) && (n <? Z.of_nat (length (w_spans w))).

(* GetContext() of table entry [i]; -1 (no span in the context) = a fresh DefaultSpan(SpanContext::GetInvalid()) *)
Definition ctx_of_idx (w : world) (i : Z) : span_ctx :=
  if i <? 0 then ctx_invalid
  else match nth_error (w_spans w) (Z.to_nat i) with Some s => sp_ctx s | None => ctx_invalid end.

(* Tracer::GetCurrentSpan()->GetContext() on thread t *)
Definition active_idx (w : world) (t : nat) : Z := span_of (get_value (w_heap w) (top (stk_of w t)) span_key).
Definition active_ctx (w : world) (t : nat) : span_ctx := ctx_of_idx w (active_idx w t).

(* trace::GetSpan(context)->GetContext() and trace::IsRootSpan(context) *)
Definition cx_span_ctx (w : world) (c : ctx) : span_ctx := ctx_of_idx w (span_of (get_value (w_heap w) c span_key)).
Definition cx_is_root (w : world) (c : ctx) : bool :=
  match get_value (w_heap w) c root_key with
  | (KB, n) => negb (n =? 0)
  | _ => false
  end.

Inductive parent_opt :=
| PDef                    (* options.parent left at its default *)
| PSc (c : span_ctx)      (* options.parent = a SpanContext *)
| PCx (r : cref).         (* options.parent = a Context: a named one, or RuntimeContext::GetCurrent() *)

Definition eval_parent (w : world) (t : nat) (p : parent_opt) : parent_arg :=
  match p with
  | PDef => PAsCtx ctx_invalid
  | PSc c => PAsCtx c
  | PCx r => let c := resolve (view w t) r in PAsContext (cx_span_ctx w c) (cx_is_root w c)
  end.

Inductive sop :=
| SStart (p : parent_opt) (gsid gtid : bytes) (scr : sresult)   (* Tracer::StartSpan *)
| SEnd (k : nat)                                                  (* Span::End of table entry k *)
| SWrap (c : span_ctx)                                            (* new DefaultSpan(c): how a propagated remote parent arrives *)
| SActive                                                         (* Tracer::GetCurrentSpan()->GetContext() *)
| SCtx (o : op).                                                  (* a context operation of C10 *)

(* ------------------------------------------------------------------ observations (structured; printed by Glue.v) *)
(* what the harness' spying sampler saw and answered: parent context, trace id, (decision, trace state, number of
   attributes or -1 for a null map) *)
Definition seen := (span_ctx * bytes * (decision * option bytes * Z))%type.
Definition seen_of (r : sresult) : decision * option bytes * Z :=
  (sr_dec r, sr_ts r, match sr_attrs r with Some l => Z.of_nat (length l) | None => -1 end).

Record start_obs := mk_so {
  so_active : span_ctx;                  (* Tracer::GetCurrentSpan()->GetContext() just before the call *)
  so_cx : option (span_ctx * bool);      (* explicit Context parent: GetSpan(c)->GetContext(), IsRootSpan(c) *)
  so_new : span_ctx;                     (* GetContext() of the returned span *)
  so_rec : bool;                         (* IsRecording() of the returned span *)
  so_sid_calls : Z;                      (* calls of GenerateSpanId / GenerateTraceId during StartSpan *)
  so_tid_calls : Z;
  so_samp : option seen                  (* None = the sampler was not consulted *)
}.

(* what the exporter received: span name (= table index), identity, flags of the recordable and of its context,
   remote, trace state, attribute values *)
Record xrec := mk_x {
  x_name : nat; x_tid : bytes; x_sid : bytes; x_psid : bytes; x_flags : Z; x_cflags : Z;
  x_remote : bool; x_ts : bytes; x_attrs : list Z
}.

Inductive op_obs :=
| OStart (o : start_obs)
| OEnd (xs : list xrec)       (* what reached the exporter during End *)
| OBadRef                     (* the operation names a span that does not exist: nothing was done *)
| OActive (c : span_ctx)
| OCtxOut (l : list tok).     (* output of a context operation, as in C10 *)

Definition export_of (w : world) (i : nat) : list xrec :=
  match nth_error (w_spans w) i with
  | Some s => [mk_x i (c_tid (sp_ctx s)) (c_sid (sp_ctx s)) (sp_psid s) (flags_z (sp_ctx s)) (flags_z (sp_ctx s))
                    (c_remote (sp_ctx s)) (c_ts (sp_ctx s)) (sp_attrs s)]
  | None => []
  end.

(* ------------------------------------------------------------------ one operation of thread t *)
Definition add_span (w : world) (s : span_rec) : world :=
  mk_w (w_heap w) (w_pool w) (w_toks w) (w_stks w) (w_spans w ++ [s]) (w_exp w).

(* which context operations the harness supports, and whether their span references exist *)
Definition cop_ok (w : world) (o : op) : bool :=
  match o with
  | OSet _ _ (KS, n) => span_ref_ok w n
  | OSet _ _ (KC, _) | OSet _ _ (KG, _) | OSet _ _ (KD, _) => false
  | OSet _ _ _ => true
  | OScope n => span_ref_ok w n
  | OAttach _ | ODetach _ | OKill _ => true
  | _ => false
  end.

Definition cx_obs (pa : parent_arg) : option (span_ctx * bool) :=
  match pa with PAsContext c r => Some (c, r) | PAsCtx _ => None end.

Definition do_start (cf : cfg) (w : world) (t : nat) (p : parent_opt) (gsid gtid : bytes) (scr : sresult) : world * op_obs :=
  let active := active_ctx w t in
  let pa := eval_parent w t p in
  if negb (cf_enabled cf) then
    (* kNoopTracer->StartSpan: the static NoopSpan with SpanContext(false,false) *)
    (add_span w (mk_span ctx_invalid (zeros 8) false false []),
     OStart (mk_so active (cx_obs pa) ctx_invalid false 0 0 None))
  else
    let b := new_span (cf_samp cf scr) (cf_random cf) gsid gtid (resolve_parent active pa) in
    (add_span w (mk_span (b_ctx b) (b_psid b) (b_rec b) false (b_attrs b)),
     OStart (mk_so active (cx_obs pa) (b_ctx b) (b_rec b) 1 (b_tid_calls b)
                   (Some (b_seen_parent b, b_seen_tid b, seen_of (b_res b))))).

Definition set_ended (s : span_rec) : span_rec := mk_span (sp_ctx s) (sp_psid s) (sp_rec s) true (sp_attrs s).

(* Span::End: the first End of a recording span hands it to the processor -> exporter; everything else is a no-op *)
Definition do_end (w : world) (k : nat) : world * op_obs :=
  match nth_error (w_spans w) k with
  | None => (w, OBadRef)
  | Some s =>
      let first := sp_rec s && negb (sp_ended s) in
      (mk_w (w_heap w) (w_pool w) (w_toks w) (w_stks w) (set_nth k (set_ended s) (w_spans w))
            (if first then w_exp w ++ [k] else w_exp w),
       OEnd (if first then export_of w k else []))
  end.

Definition sstep (cf : cfg) (w : world) (t : nat) (o : sop) : world * op_obs :=
  match o with
  | SStart p gsid gtid scr => do_start cf w t p gsid gtid scr
  | SEnd k => do_end w k
  | SWrap c => (add_span w (mk_span c (zeros 8) false false []), OCtxOut [])
  | SActive => (w, OActive (active_ctx w t))
  | SCtx co =>
      if cop_ok w co then let (st, out) := step (view w t) co in (unview w t st, OCtxOut out)
      else (w, OBadRef)
  end.

Fixpoint srun (cf : cfg) (w : world) (ops : list (nat * sop)) : world * list op_obs :=
  match ops with
  | [] => (w, [])
  | (t, o) :: ops' =>
      let (w1, out) := sstep cf w t o in
      let (w2, outs) := srun cf w1 ops' in
      (w2, out :: outs)
  end.

(* end of a case: the harness ends every span in table order (exports what is still open), then reads
   GetContext() / IsRecording() of every table entry *)
Fixpoint end_all (w : world) (ks : list nat) : world * list xrec :=
  match ks with
  | [] => (w, [])
  | k :: ks' =>
      let (w1, out) := do_end w k in
      let (w2, outs) := end_all w1 ks' in
      (w2, match out with OEnd xs => xs | _ => [] end ++ outs)
  end.

Definition dump_spans (w : world) : list (span_ctx * bool) := map (fun s => (sp_ctx s, false)) (w_spans w).

Record case_obs := mk_co { co_ops : list op_obs; co_fin : list xrec; co_dump : list (span_ctx * bool) }.

Definition run_case (cf : cfg) (nthreads : nat) (ops : list (nat * sop)) : case_obs :=
  let (w, out) := srun cf (world0 nthreads) ops in
  let (w', ex) := end_all w (seq 0 (length (w_spans w))) in
  mk_co out ex (dump_spans w').
