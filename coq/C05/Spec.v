(* SPEC for C05, sentence by sentence of the property statement, as a checker that runs on the
   OBSERVATIONS of a program (of the implementation, or of the model).  It never looks at how StartSpan computes
   anything.  "The span active on the calling thread" and "the span / root marker of an explicit Context" are
   computed by the checker itself from the program's script: it replays the Scope / WithActiveSpan / Attach /
   Detach / release and context-construction operations on the abstract machine of the C10 SPEC (per-thread lists of
   context names, association lists) and compares what Tracer::GetCurrentSpan() / trace::GetSpan / IsRootSpan
   reported with it (clauses active_span, explicit_context); parentage is judged against the checker's own answer.
   "The sampler's decision" is what the sampler returned (the harness wraps the configured sampler and the id
   generator and reports their calls).

   The property's sentences and the clause tags:
     S1  parent = explicit SpanContext, else explicit Context, else active span, in that order     parent_precedence:*
     S2  with a valid parent: same trace id, parent's span id recorded, fresh non-zero span id        child:*  span_id:*
     S3  without one (or context marked as root): new trace, fresh non-zero ids, no parent            root:*
     S4  sampled flag = the sampler's decision                                                       sampled_flag_equals_decision:*
     S5  only W3C level-1 flag bits                                                                   only_level1_flag_bits:*
     S6  trace state = the sampler's if given, else the parent's                                      tracestate_choice:*
     S7  a span that is not recorded is never exported, yet exposes this valid context                not_recorded:*  export:*  context_stable:*
     S1' the active span is the one of the innermost open scope of the calling thread               active_span:*  explicit_context:*  context_ops:*  *)
From V Require Export C05.Model.
From V Require C10.Spec.
Local Open Scope string_scope.
Local Open Scope list_scope.
Local Open Scope Z_scope.
Local Notation "a +++ b" := (String.append a b) (at level 60, right associativity).

Definition ctx5_eqb (a b : span_ctx) : bool :=
  bytes_eqb (c_tid a) (c_tid b) && bytes_eqb (c_sid a) (c_sid b) && Byte.eqb (c_flags a) (c_flags b) &&
  Bool.eqb (c_remote a) (c_remote b) && bytes_eqb (c_ts a) (c_ts b).

(* a SpanContext is valid when both ids are non-zero *)
Definition is_valid (c : span_ctx) : bool := negb (all_zero (c_tid c)) && negb (all_zero (c_sid c)).
Definition sampled_bit (c : span_ctx) : bool := Z.odd (Z.of_N (b2n (c_flags c))).

(* ------------------------------------------------------------------ S1: who is the parent *)
(* which mechanism provides the parent (for the clause tag), and the parent itself (None = none: a new trace) *)
Definition spec_parent (p : parent_opt) (o : start_obs) : string * option span_ctx :=
  let from_active := if is_valid (so_active o) then ("active_span", Some (so_active o)) else ("no_parent", None) in
  match p with
  | PDef => from_active
  | PSc c => if is_valid c then ("explicit_span_context", Some c) else from_active
  | PCx _ =>
      match so_cx o with
      | Some (c, marked_root) =>
          if is_valid c then ("explicit_context_span", Some c)
          else if marked_root then ("root_marker", None)
          else from_active
      | None => ("unobserved", None)
      end
  end.

Definition opt_bytes_eqb (a b : option bytes) : bool :=
  match a, b with
  | Some x, Some y => bytes_eqb x y
  | None, None => true
  | _, _ => false
  end.

(* ------------------------------------------------------------------ one StartSpan *)
(* what the span table of the checker remembers of a span *)
Record sspan := mk_ss {
  ss_ctx : span_ctx;       (* the context it exposed when it was started *)
  ss_psid : bytes;         (* the span id of the parent it must record *)
  ss_rec : bool;           (* it said it was recording *)
  ss_ended : bool;
  ss_attrs : list Z        (* attribute values the sampler asked for *)
}.

Definition spec_start_enabled (cf : cfg) (p : parent_opt) (gsid gtid : bytes) (scr : sresult) (o : start_obs) : list tok :=
  let (how, parent) := spec_parent p o in
  match p, so_cx o with
  | PCx _, None => fail "obs:context_parent_not_observed"
  | _, _ =>
  match so_samp o with
  | None => fail "sampler:not_consulted"
  | Some (seen_parent, seen_tid, (dec, sts, nattrs)) =>
      let n := so_new o in
      (* S2 / S3: identity *)
      check (so_sid_calls o =? 1) "span_id:generator_not_asked_once" ++
      check (bytes_eqb (c_sid n) gsid) "span_id:not_the_generated_one" ++
      match parent with
      | Some pc =>
          check (bytes_eqb (c_tid n) (c_tid pc)) ("parent_precedence:" +++ how +++ "_trace_id_not_inherited") ++
          check (so_tid_calls o =? 0) "child:trace_id_generated_for_child" ++
          check (ctx5_eqb seen_parent pc) ("parent_precedence:" +++ how +++ "_not_the_parent_given_to_sampler")
      | None =>
          check (bytes_eqb (c_tid n) gtid) ("root:" +++ how +++ "_trace_id_not_the_generated_one") ++
          check (so_tid_calls o =? 1) "root:generator_not_asked_once" ++
          check (negb (is_valid seen_parent)) ("root:" +++ how +++ "_valid_parent_given_to_sampler")
      end ++
      check (bytes_eqb seen_tid (c_tid n)) "sampler_args:trace_id" ++
      (* fresh NON-ZERO ids: whenever the ids the generator produced are non-zero, the new context is valid *)
      check (implb (negb (all_zero gsid) && match parent with Some _ => true | None => negb (all_zero gtid) end) (is_valid n))
            "not_recorded:context_invalid" ++
      check (negb (c_remote n)) "new_context:marked_remote" ++
      (* S4, S5: flags *)
      check (Bool.eqb (sampled_bit n) (is_sampled dec))
            (if negb (is_sampled dec) && match parent with Some pc => sampled_bit pc | None => false end
             then "sampled_flag_equals_decision:inherited" else "sampled_flag_equals_decision:differs") ++
      check (Z.of_N (b2n (c_flags n)) <=? 1) "only_level1_flag_bits:extra_bits" ++
      (* S6: trace state *)
      match sts, parent with
      | Some h, _ => check (bytes_eqb (c_ts n) h) "tracestate_choice:sampler_state_ignored"
      | None, Some pc => check (bytes_eqb (c_ts n) (c_ts pc)) "tracestate_choice:parent_state_not_inherited"
      | None, None => check (bytes_eqb (c_ts n) []) "tracestate_choice:root_state_not_empty"
      end ++
      (* S7: recording *)
      check (Bool.eqb (so_rec o) (is_recording dec)) "not_recorded:recording_differs_from_decision" ++
      (* the harness' scripted sampler answers what the case says *)
      (if cf_script cf
       then check (decision_eqb dec (sr_dec scr) && opt_bytes_eqb sts (sr_ts scr) &&
                   (nattrs =? match sr_attrs scr with Some l => Z.of_nat (length l) | None => -1 end))
                  "harness:scripted_result"
       else [])
  end
  end.

(* a disabled tracer (TracerConfig) hands out the no-op span: invalid context, nothing consulted *)
Definition spec_start_disabled (o : start_obs) : list tok :=
  check (negb (is_valid (so_new o)) && negb (so_rec o)) "disabled:real_span" ++
  check ((so_sid_calls o =? 0) && (so_tid_calls o =? 0) && match so_samp o with None => true | Some _ => false end)
        "disabled:generator_or_sampler_consulted".

Definition spec_start (cf : cfg) (p : parent_opt) (gsid gtid : bytes) (scr : sresult) (o : start_obs) : list tok :=
  if cf_enabled cf then spec_start_enabled cf p gsid gtid scr o else spec_start_disabled o.

(* the table entry the checker keeps for a started span *)
Definition sspan_of_start (cf : cfg) (p : parent_opt) (scr : sresult) (o : start_obs) : sspan :=
  let parent := snd (spec_parent p o) in
  let recording := so_rec o in
  mk_ss (so_new o)
        (if cf_enabled cf then match parent with Some pc => c_sid pc | None => zeros 8 end else zeros 8)
        recording false
        (match so_samp o with
         | Some (_, _, (_, _, nattrs)) =>
             if recording && (0 <=? nattrs) then match sr_attrs scr with Some l => l | None => [] end else []
         | None => []
         end).

(* ------------------------------------------------------------------ S2/S3 with the default generator: FRESH ids *)
(* With the SDK's own RandomIdGenerator nothing is known about the ids beforehand; what the property demands is
   that they are fresh: non-zero and different from the id of every span seen so far in the program (the span id
   always, the trace id when a new trace is started).  [tbl] = the spans started or wrapped before this one. *)
Definition fresh_sid_b (tbl : list sspan) (sid : bytes) : bool :=
  negb (all_zero sid) && negb (existsb (fun s => bytes_eqb (c_sid (ss_ctx s)) sid) tbl).
Definition fresh_tid_b (tbl : list sspan) (tid : bytes) : bool :=
  negb (all_zero tid) && negb (existsb (fun s => bytes_eqb (c_tid (ss_ctx s)) tid) tbl).

Definition spec_fresh (cf : cfg) (tbl : list sspan) (p : parent_opt) (o : start_obs) : list tok :=
  if cf_enabled cf && cf_defgen cf then
    check (negb (all_zero (c_sid (so_new o)))) "fresh_ids:zero_span_id" ++
    check (negb (existsb (fun s => bytes_eqb (c_sid (ss_ctx s)) (c_sid (so_new o))) tbl)) "fresh_ids:span_id_repeated" ++
    match snd (spec_parent p o) with
    | Some _ => []
    | None =>
        check (negb (all_zero (c_tid (so_new o)))) "fresh_ids:zero_trace_id" ++
        check (negb (existsb (fun s => bytes_eqb (c_tid (ss_ctx s)) (c_tid (so_new o))) tbl)) "fresh_ids:trace_id_repeated"
    end
  else [].

(* ------------------------------------------------------------------ S7: exports *)
Definition zlist_eqb (a b : list Z) : bool :=
  Nat.eqb (length a) (length b) && forallb (fun p => Z.eqb (fst p) (snd p)) (combine a b).

(* the record the exporter must have received for table entry k *)
Definition spec_xrec (k : nat) (s : sspan) (x : xrec) : list tok :=
  check (Nat.eqb (x_name x) k) "export:wrong_span" ++
  check (bytes_eqb (x_tid x) (c_tid (ss_ctx s)) && bytes_eqb (x_sid x) (c_sid (ss_ctx s))) "export:identity_differs_from_context" ++
  check (bytes_eqb (x_psid x) (ss_psid s))
        (if all_zero (ss_psid s) then "root:exported_with_parent" else "child:parent_span_id_not_recorded") ++
  check ((x_flags x =? Z.of_N (b2n (c_flags (ss_ctx s)))) && (x_cflags x =? Z.of_N (b2n (c_flags (ss_ctx s))))) "export:flags_differ_from_context" ++
  check (negb (x_remote x)) "export:marked_remote" ++
  check (bytes_eqb (x_ts x) (c_ts (ss_ctx s))) "export:trace_state_differs_from_context" ++
  check (zlist_eqb (x_attrs x) (ss_attrs s)) "export:sampler_attributes".

(* End of table entry k: exported exactly when it is the first End of a recording span *)
Definition spec_end (k : nat) (s : sspan) (xs : list xrec) : list tok :=
  if ss_rec s && negb (ss_ended s) then
    match xs with
    | [x] => spec_xrec k s x
    | [] => fail "export:recorded_span_not_exported"
    | _ => fail "export:more_than_one_record"
    end
  else
    match xs with
    | [] => []
    | _ => fail (if ss_rec s then "export:exported_twice" else "not_recorded:exported")
    end.

Definition ss_end (s : sspan) : sspan := mk_ss (ss_ctx s) (ss_psid s) (ss_rec s) true (ss_attrs s).

(* ------------------------------------------------------------------ which span is active: the checker's own machine *)
(* The checker does not believe what the implementation reports about the active span.  It replays the context
   operations of the program (Scope / WithActiveSpan, Attach, Detach, release of tokens and scopes, construction of
   contexts) on the abstract machine of the C10 SPEC (coq/C10/Spec.v): a context is an association list that never
   changes, named by order of creation; every thread has a plain LIST of names (innermost first); a token remembers
   its name; releasing a token or scope on a thread removes everything above and including its most recent
   occurrence on THAT thread's list, and does nothing when it is not there.  Contexts and tokens are shared between
   the threads, the lists are per thread. *)
Record cstate := mk_cs {
  cs_pool : list C10.Spec.actx;        (* 0 = Context() *)
  cs_toks : list C10.Spec.stok;
  cs_stacks : list (list nat);         (* one per thread *)
  cs_tbl : list sspan                  (* the span table *)
}.
Definition cstate0 (nthreads : nat) : cstate := mk_cs [C10.Spec.actx0] [] (repeat [] nthreads) [].

Definition cview (s : cstate) (t : nat) : C10.Spec.sstate :=
  C10.Spec.mk_s (cs_pool s) (nth t (cs_stacks s) []) (cs_toks s) "".
Definition cunview (s : cstate) (t : nat) (a : C10.Spec.sstate) : cstate :=
  mk_cs (C10.Spec.s_pool a) (C10.Spec.s_toks a) (set_nth t (C10.Spec.s_stack a) (cs_stacks s)) (cs_tbl s).
Definition with_tbl (s : cstate) (tbl : list sspan) : cstate := mk_cs (cs_pool s) (cs_toks s) (cs_stacks s) tbl.

(* the context of table entry i; -1 = no span *)
Definition ctx_of_tbl (tbl : list sspan) (i : Z) : span_ctx :=
  if i <? 0 then ctx_invalid
  else match nth_error tbl (Z.to_nat i) with Some e => ss_ctx e | None => ctx_invalid end.

(* what context [name] says about its span and its root marker *)
Definition binds_of (s : cstate) (name : nat) : list (bytes * value) := C10.Spec.a_binds (nth name (cs_pool s) C10.Spec.actx0).
Definition span_in (s : cstate) (name : nat) : span_ctx :=
  ctx_of_tbl (cs_tbl s) (span_of (C10.Spec.assoc span_key (binds_of s name))).
Definition root_in (s : cstate) (name : nat) : bool :=
  match C10.Spec.assoc root_key (binds_of s name) with
  | (KB, n) => negb (n =? 0)
  | _ => false
  end.

(* the span active on thread t: the one bound in the innermost context of its list (Context() when the list is empty) *)
Definition exp_active (s : cstate) (t : nat) : span_ctx := span_in s (C10.Spec.scur (cview s t)).
(* what an explicit Context parent carries *)
Definition exp_cx (s : cstate) (t : nat) (p : parent_opt) : option (span_ctx * bool) :=
  match p with
  | PCx r => let name := C10.Spec.sres (cview s t) r in Some (span_in s name, root_in s name)
  | _ => None
  end.

Definition cx_eqb (a b : option (span_ctx * bool)) : bool :=
  match a, b with
  | Some (c, r), Some (c', r') => ctx5_eqb c c' && Bool.eqb r r'
  | None, None => true
  | _, _ => false
  end.

(* which context operations are executed (their span references exist) *)
Definition scop_ok (nspans : nat) (o : op) : bool :=
  let ref_ok n := (0 <=? n) && (n <? Z.of_nat nspans) in
  match o with
  | OSet _ _ (KS, n) => ref_ok n
  | OSet _ _ (KC, _) | OSet _ _ (KG, _) | OSet _ _ (KD, _) => false
  | OSet _ _ _ => true
  | OScope n => ref_ok n
  | OAttach _ | ODetach _ | OKill _ => true
  | _ => false
  end.

Definition chunk_toks (cs : list C10.Spec.chunk) : list tok := flat_map fst cs.

(* ------------------------------------------------------------------ a whole program *)
Definition spec_op (cf : cfg) (s : cstate) (t : nat) (o : sop) (ob : op_obs) : cstate * list tok :=
  let tbl := cs_tbl s in
  match o, ob with
  | SStart p gsid gtid scr, OStart so =>
      (* the parent is decided from the checker's own active span / context contents, not from the report *)
      let ea := exp_active s t in
      let ec := exp_cx s t p in
      let so' := mk_so ea ec (so_new so) (so_rec so) (so_sid_calls so) (so_tid_calls so) (so_samp so) in
      (with_tbl s (tbl ++ [sspan_of_start cf p scr so']),
       check (ctx5_eqb (so_active so) ea) "active_span:not_the_innermost_open_scope" ++
       check (cx_eqb (so_cx so) ec) "explicit_context:span_or_root_marker_misread" ++
       spec_start cf p gsid gtid scr so' ++ spec_fresh cf tbl p so')
  | SEnd k, OEnd xs =>
      match nth_error tbl k with
      | Some e => (with_tbl s (set_nth k (ss_end e) tbl), spec_end k e xs)
      | None => (s, fail "harness:end_of_unknown_span")
      end
  | SEnd k, OBadRef =>
      match nth_error tbl k with
      | Some _ => (s, fail "harness:badref")
      | None => (s, [])
      end
  | SWrap c, OCtxOut [] => (with_tbl s (tbl ++ [mk_ss c (zeros 8) false false []]), [])
  | SActive, OActive c => (s, check (ctx5_eqb c (exp_active s t)) "active_span:not_the_innermost_open_scope")
  | SCtx co, OCtxOut l =>
      if scop_ok (length tbl) co then
        let (a, cs) := C10.Spec.sstep (cview s t) co in
        (cunview s t a, check (toks_eqb l (chunk_toks cs)) "context_ops:detach_result")
      else (s, fail "harness:badref_not_reported")
  | SCtx co, OBadRef => if scop_ok (length tbl) co then (s, fail "harness:badref") else (s, [])
  | _, _ => (s, fail "obs:operation_kind")
  end.

Fixpoint spec_ops (cf : cfg) (s : cstate) (ops : list (nat * sop)) (obs : list op_obs) : cstate * list tok :=
  match ops, obs with
  | [], [] => (s, [])
  | (t, o) :: ops', ob :: obs' =>
      let (s1, f) := spec_op cf s t o ob in
      let (s2, fs) := spec_ops cf s1 ops' obs' in
      (s2, f ++ fs)
  | _, _ => (s, fail "obs:operation_count")
  end.

(* the harness ends every span in table order: exactly the recording spans still open are exported, in order *)
Fixpoint spec_finish (k : nat) (tbl : list sspan) (xs : list xrec) : list tok :=
  match tbl with
  | [] => match xs with [] => [] | _ => fail "export:unknown_span" end
  | s :: tbl' =>
      if ss_rec s && negb (ss_ended s) then
        match xs with
        | x :: xs' => spec_xrec k s x ++ spec_finish (S k) tbl' xs'
        | [] => fail "export:recorded_span_not_exported"
        end
      else spec_finish (S k) tbl' xs
  end.

(* at the end every span still exposes the context it was started with, and none is recording *)
Fixpoint spec_dump (tbl : list sspan) (d : list (span_ctx * bool)) : list tok :=
  match tbl, d with
  | [], [] => []
  | s :: tbl', (c, r) :: d' =>
      check (ctx5_eqb c (ss_ctx s)) "context_stable:changed" ++ check (negb r) "end:still_recording" ++ spec_dump tbl' d'
  | _, _ => fail "obs:dump_length"
  end.

Definition spec_case (cf : cfg) (nthreads : nat) (ops : list (nat * sop)) (o : case_obs) : list tok :=
  let (s, f) := spec_ops cf (cstate0 nthreads) ops (co_ops o) in
  f ++ spec_finish 0 (cs_tbl s) (co_fin o) ++ spec_dump (cs_tbl s) (co_dump o).
