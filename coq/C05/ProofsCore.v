(* C05 proofs, part 1: the pure part of Tracer::StartSpan - parent resolution and what [new_span] decides -
   for every active span, every explicit parent, every parent flags byte, every sampler (an arbitrary function)
   and every pair of generated ids. *)
From V Require Import C05.Spec.
From V Require Import Gen.Consts.
From Coq Require Import Lia ZifyBool ZifyNat ZifyN.
Local Open Scope Z_scope.

(* ------------------------------------------------------------------ bytes *)
Lemma b2n_n2b : forall n, (n < 256)%N -> b2n (n2b n) = n.
Proof.
  intros n Hn. unfold n2b, b2n. destruct (Byte.of_N n) as [b|] eqn:E.
  - now apply Byte.to_of_N.
  - apply Byte.of_N_None_iff in E. lia.
Qed.

Lemma b2n_lt : forall b, (b2n b < 256)%N.
Proof. intros b. unfold b2n. pose proof (Byte.to_N_bounded b). lia. Qed.

Lemma flags_z_range : forall c, 0 <= flags_z c < 256.
Proof. intro c. unfold flags_z. pose proof (b2n_lt (c_flags c)). lia. Qed.

Lemma flags_z_z2flags : forall z, 0 <= z < 256 -> Z.of_N (b2n (z2flags z)) = z.
Proof. intros z H. unfold z2flags. rewrite b2n_n2b by lia. lia. Qed.

(* ------------------------------------------------------------------ flags *)
(* the flags byte of a new span is exactly the sampled bit of the decision - whatever the parent's flags byte
   (any of the 256), whether or not there is a parent, whether or not the generator says its ids are random *)
Lemma derive_flags_value : forall pv pf random sampled, 0 <= pf ->
  derive_flags pv pf random sampled = if sampled then 1 else 0.
Proof.
  intros pv pf random sampled Hpf. unfold derive_flags, c12_kIsSampled, c12_kIsRandom, c12_kAllW3CTraceContext1Flags.
  set (f0 := if pv then pf else if random then 2 else 0).
  assert (H0 : 0 <= f0) by (subst f0; destruct pv; [exact Hpf | destruct random; lia]).
  destruct sampled.
  - rewrite Z.land_lor_distr_l. change (Z.land 1 1) with 1.
    change 1 with (Z.ones 1) at 1. rewrite Z.land_ones by lia. change (2 ^ 1) with 2.
    assert (M : f0 mod 2 = 0 \/ f0 mod 2 = 1) by (pose proof (Z.mod_pos_bound f0 2); lia).
    destruct M as [M|M]; rewrite M; reflexivity.
  - rewrite <- Z.land_assoc. change (Z.land (255 - 1) 1) with 0. apply Z.land_0_r.
Qed.

Section NewSpan.
Variable samp : span_ctx -> bytes -> sresult.
Variable random : bool.
Variables gsid gtid : bytes.

Definition born_of (parent : span_ctx) : born := new_span samp random gsid gtid parent.

Lemma new_flags : forall parent,
  flags_z (b_ctx (born_of parent)) = if is_sampled (sr_dec (b_res (born_of parent))) then 1 else 0.
Proof.
  intro parent. unfold born_of, new_span. cbn [b_ctx b_res c_flags flags_z].
  rewrite derive_flags_value by (pose proof (flags_z_range parent); lia).
  unfold flags_z. cbn [c_flags]. apply flags_z_z2flags. destruct (is_sampled _); lia.
Qed.

(* "Its sampled flag equals the sampler's decision" - for every parent (every flags byte) and every decision *)
Theorem sampled_flag_equals_decision : forall parent,
  ctx_sampled (b_ctx (born_of parent)) = is_sampled (sr_dec (b_res (born_of parent))).
Proof.
  intro parent. unfold ctx_sampled. fold (flags_z (b_ctx (born_of parent))). rewrite new_flags.
  unfold c12_kIsSampled. destruct (is_sampled _); reflexivity.
Qed.

(* in particular a dropped child of a sampled parent is not sampled (F4, repaired in 6f9bc57) *)
Corollary dropped_child_of_sampled_parent_not_sampled : forall parent,
  ctx_sampled parent = true -> is_sampled (sr_dec (samp parent (if ctx_valid parent then c_tid parent else gtid))) = false ->
  ctx_sampled (b_ctx (born_of parent)) = false.
Proof. intros parent _ H. rewrite sampled_flag_equals_decision. exact H. Qed.

(* "only W3C level-1 flag bits are set": nothing outside the mask the code applies, which is the sampled bit *)
Theorem only_level1_flag_bits : forall parent,
  Z.land (flags_z (b_ctx (born_of parent))) (255 - c12_kAllW3CTraceContext1Flags) = 0 /\
  (flags_z (b_ctx (born_of parent)) = 0 \/ flags_z (b_ctx (born_of parent)) = 1) /\
  c12_kAllW3CTraceContext1Flags = c12_kIsSampled.
Proof.
  intro parent. rewrite new_flags. unfold c12_kAllW3CTraceContext1Flags, c12_kIsSampled.
  destruct (is_sampled _); repeat split; auto.
Qed.

(* the random-trace-id bit (level 2) never reaches a span context, even for a root span of a random generator *)
Corollary random_bit_never_set : forall parent,
  Z.land (flags_z (b_ctx (born_of parent))) c12_kIsRandom = 0.
Proof. intro parent. rewrite new_flags. unfold c12_kIsRandom. destruct (is_sampled _); reflexivity. Qed.

(* ------------------------------------------------------------------ identity *)
Theorem child_of_valid_parent : forall parent, ctx_valid parent = true ->
  c_tid (b_ctx (born_of parent)) = c_tid parent /\
  b_psid (born_of parent) = c_sid parent /\
  c_sid (b_ctx (born_of parent)) = gsid /\
  b_tid_calls (born_of parent) = 0 /\
  b_seen_parent (born_of parent) = parent /\ b_seen_tid (born_of parent) = c_tid parent.
Proof. intros parent H. unfold born_of, new_span. cbn. rewrite H. repeat split. Qed.

Theorem root_without_valid_parent : forall parent, ctx_valid parent = false ->
  c_tid (b_ctx (born_of parent)) = gtid /\
  c_sid (b_ctx (born_of parent)) = gsid /\
  b_psid (born_of parent) = zeros 8 /\
  b_tid_calls (born_of parent) = 1 /\
  b_seen_tid (born_of parent) = gtid.
Proof. intros parent H. unfold born_of, new_span. cbn. rewrite H. repeat split. Qed.

(* the new context is a local one, and its validity is exactly the non-zero-ness of the ids the generator gave
   (the trace id only matters when it is used, i.e. without a valid parent) *)
Theorem new_context_validity : forall parent,
  c_remote (b_ctx (born_of parent)) = false /\
  ctx_valid (b_ctx (born_of parent)) = negb (all_zero gsid) && (ctx_valid parent || negb (all_zero gtid)).
Proof.
  intro parent. split; [reflexivity|]. unfold born_of, new_span, ctx_valid at 1. cbn [b_ctx c_tid c_sid].
  destruct (ctx_valid parent) eqn:V.
  - unfold ctx_valid in V. apply andb_true_iff in V. destruct V as [V1 _]. rewrite V1. cbn. rewrite andb_true_r. reflexivity.
  - cbn. apply andb_comm.
Qed.

(* what happens with a generator that returns zero ids: the span exists, but its context is invalid - it is not
   propagated and cannot be anybody's parent; with non-zero ids (the assumption on the oracle) it is always valid *)
Theorem invalid_generator_ids : forall parent,
  (all_zero gsid = true -> ctx_valid (b_ctx (born_of parent)) = false) /\
  (ctx_valid parent = false -> all_zero gtid = true -> ctx_valid (b_ctx (born_of parent)) = false) /\
  (all_zero gsid = false -> all_zero gtid = false -> ctx_valid (b_ctx (born_of parent)) = true) /\
  (all_zero gsid = false -> ctx_valid parent = true -> ctx_valid (b_ctx (born_of parent)) = true).
Proof.
  intro parent. destruct (new_context_validity parent) as [_ E]. rewrite E.
  repeat split; intros; repeat match goal with H : _ = _ |- _ => rewrite H end; cbn;
    try reflexivity; try apply orb_true_r; try apply andb_false_r.
Qed.

(* ------------------------------------------------------------------ trace state, recording *)
Theorem tracestate_choice : forall parent,
  c_ts (b_ctx (born_of parent)) =
  match sr_ts (b_res (born_of parent)) with
  | Some h => h                                            (* the sampler's, if it gives one *)
  | None => if ctx_valid parent then c_ts parent else []   (* else the parent's; empty for a new trace *)
  end.
Proof. intro parent. reflexivity. Qed.

Theorem recording_is_decision : forall parent,
  b_rec (born_of parent) = is_recording (sr_dec (b_res (born_of parent))) /\
  b_res (born_of parent) = samp parent (if ctx_valid parent then c_tid parent else gtid) /\
  (b_rec (born_of parent) = false -> b_attrs (born_of parent) = []).
Proof.
  intro parent. unfold born_of, new_span. cbn. repeat split.
  intro H. rewrite H. reflexivity.
Qed.
End NewSpan.

(* ------------------------------------------------------------------ precedence *)
(* explicit SpanContext (if valid), else explicit Context (its span if valid, none if marked root), else the
   active span *)
Theorem parent_precedence : forall active,
  (forall c, ctx_valid c = true -> resolve_parent active (PAsCtx c) = c) /\
  (forall c, ctx_valid c = false -> resolve_parent active (PAsCtx c) = active) /\
  (forall c r, ctx_valid c = true -> resolve_parent active (PAsContext c r) = c) /\
  (forall c, ctx_valid c = false -> resolve_parent active (PAsContext c true) = ctx_invalid) /\
  (forall c, ctx_valid c = false -> resolve_parent active (PAsContext c false) = active) /\
  ctx_valid ctx_invalid = false.
Proof.
  intro active. unfold resolve_parent. repeat split; intros; try rewrite H; reflexivity.
Qed.

(* the two sentences about identity, through the precedence: for every active span and explicit parent *)
Theorem child_inherits_trace_id_and_records_parent : forall samp random gsid gtid active pa,
  let parent := resolve_parent active pa in
  let b := new_span samp random gsid gtid parent in
  ctx_valid parent = true ->
  c_tid (b_ctx b) = c_tid parent /\ b_psid b = c_sid parent /\ c_sid (b_ctx b) = gsid /\ b_tid_calls b = 0.
Proof.
  intros samp random gsid gtid active pa parent b H.
  destruct (child_of_valid_parent samp random gsid gtid parent H) as (A & B & C & D & _). auto.
Qed.

Theorem root_has_fresh_ids_no_parent : forall samp random gsid gtid active pa,
  let parent := resolve_parent active pa in
  let b := new_span samp random gsid gtid parent in
  ctx_valid parent = false ->
  c_tid (b_ctx b) = gtid /\ c_sid (b_ctx b) = gsid /\ b_psid b = zeros 8 /\ b_tid_calls b = 1 /\
  c_ts (b_ctx b) = match sr_ts (b_res b) with Some h => h | None => [] end.
Proof.
  intros samp random gsid gtid active pa parent b H.
  destruct (root_without_valid_parent samp random gsid gtid parent H) as (A & B & C & D & _).
  repeat split; auto. subst b. rewrite tracestate_choice. rewrite H. reflexivity.
Qed.

(* a context marked as root starts a new trace whatever is active, unless it also carries a valid span *)
Corollary root_marker_starts_new_trace : forall samp random gsid gtid active c,
  ctx_valid c = false ->
  let b := new_span samp random gsid gtid (resolve_parent active (PAsContext c true)) in
  c_tid (b_ctx b) = gtid /\ b_psid b = zeros 8.
Proof.
  intros samp random gsid gtid active c H b.
  destruct (root_has_fresh_ids_no_parent samp random gsid gtid active (PAsContext c true)) as (A & _ & C & _).
  - cbn. rewrite H. reflexivity.
  - split; assumption.
Qed.

(* ------------------------------------------------------------------ non-vacuity *)
Definition ex_tid : bytes := repeat x01 16.
Definition ex_sid : bytes := repeat x02 8.
Definition ex_parent : span_ctx := mk_ctx ex_tid ex_sid xff true (bs "a=1").
Definition ex_samp (d : decision) (ts : option bytes) : span_ctx -> bytes -> sresult := fun _ _ => mk_sres d ts None.

Example child_example :
  ctx_valid ex_parent = true /\ ctx_sampled ex_parent = true /\
  let b := new_span (ex_samp Drop None) true (repeat x03 8) (repeat x04 16) (resolve_parent ctx_invalid (PAsCtx ex_parent)) in
  b_ctx b = mk_ctx ex_tid (repeat x03 8) x00 false (bs "a=1") /\ b_psid b = ex_sid /\ b_rec b = false /\ ctx_valid (b_ctx b) = true.
Proof. vm_compute. repeat split. Qed.

Example root_example :
  let b := new_span (ex_samp RecordAndSample (Some (bs "s=1"))) true (repeat x03 8) (repeat x04 16)
                    (resolve_parent ex_parent (PAsContext ctx_invalid true)) in
  ctx_valid (resolve_parent ex_parent (PAsContext ctx_invalid true)) = false /\
  b_ctx b = mk_ctx (repeat x04 16) (repeat x03 8) x01 false (bs "s=1") /\ b_psid b = zeros 8 /\ b_rec b = true.
Proof. vm_compute. repeat split. Qed.

Example precedence_example :
  let other := mk_ctx (repeat x09 16) (repeat x08 8) x01 false [] in
  resolve_parent ex_parent (PAsCtx other) = other /\ resolve_parent ex_parent (PAsContext other true) = other /\
  resolve_parent ex_parent (PAsCtx ctx_invalid) = ex_parent /\ resolve_parent ex_parent (PAsContext ctx_invalid false) = ex_parent.
Proof. vm_compute. repeat split. Qed.

Example zero_span_id_example :
  let b := new_span (ex_samp RecordAndSample None) false (zeros 8) (repeat x04 16) ex_parent in
  all_zero (zeros 8) = true /\ ctx_valid (b_ctx b) = false.
Proof. vm_compute. split; reflexivity. Qed.

(* ------------------------------------------------------------------ agreement with the C12 model of the same function *)
(* C12 models StartSpan with no active span and an explicit SpanContext; it is this model at that point *)
Theorem agrees_with_C12_start_span : forall s explicit gsid gtid random x,
  let b := new_span (fun p t => let r := should_sample s p t x in mk_sres (fst r) (snd r) None) random gsid gtid
                    (resolve_parent ctx_invalid (PAsCtx explicit)) in
  let st := start_span s explicit gtid random x in
  c_tid (b_ctx b) = st_tid st /\ c_ts (b_ctx b) = st_ts st /\ b_rec b = st_recording st /\
  flags_z (b_ctx b) = st_flags st.
Proof.
  intros s explicit gsid gtid random x b st. subst b st.
  rewrite new_flags. unfold born_of, new_span, start_span, resolve_parent.
  cbn [b_ctx b_rec b_res c_tid c_ts sr_dec sr_ts st_tid st_ts st_recording st_flags].
  destruct (ctx_valid explicit) eqn:V; rewrite ?V.
  - repeat split.
    pose proof (derive_flags_value true (Z.of_N (b2n (c_flags explicit))) random (is_sampled (fst (should_sample s explicit (c_tid explicit) x)))) as D.
    unfold derive_flags in D. rewrite D; [reflexivity|]. pose proof (b2n_lt (c_flags explicit)). lia.
  - change (ctx_valid ctx_invalid) with false. cbn iota. repeat split.
    pose proof (derive_flags_value false 0 random (is_sampled (fst (should_sample s ctx_invalid gtid x)))) as D.
    unfold derive_flags in D. rewrite D; [reflexivity|lia].
Qed.

(* ------------------------------------------------------------------ the statements as they appear in Properties_C05.v *)
Lemma sampled_flag_equals_decision_full : forall samp random gsid gtid parent,
  let b := new_span samp random gsid gtid parent in
  ctx_sampled (b_ctx b) = is_sampled (sr_dec (b_res b)) /\
  b_res b = samp parent (if ctx_valid parent then c_tid parent else gtid).
Proof.
  intros samp random gsid gtid parent b. split.
  - exact (sampled_flag_equals_decision samp random gsid gtid parent).
  - exact (proj1 (proj2 (recording_is_decision samp random gsid gtid parent))).
Qed.

Lemma only_level1_flag_bits_full : forall samp random gsid gtid parent,
  let b := new_span samp random gsid gtid parent in
  Z.land (flags_z (b_ctx b)) (255 - c12_kAllW3CTraceContext1Flags) = 0 /\
  (flags_z (b_ctx b) = 0 \/ flags_z (b_ctx b) = 1) /\
  c12_kAllW3CTraceContext1Flags = c12_kIsSampled /\
  Z.land (flags_z (b_ctx b)) c12_kIsRandom = 0.
Proof.
  intros samp random gsid gtid parent b.
  destruct (only_level1_flag_bits samp random gsid gtid parent) as (A & B & C).
  repeat split; try assumption. exact (random_bit_never_set samp random gsid gtid parent).
Qed.

Lemma not_recorded_still_valid_context : forall samp random gsid gtid parent,
  let b := new_span samp random gsid gtid parent in
  b_rec b = is_recording (sr_dec (b_res b)) /\
  c_remote (b_ctx b) = false /\
  ctx_valid (b_ctx b) = negb (all_zero gsid) && (ctx_valid parent || negb (all_zero gtid)).
Proof.
  intros samp random gsid gtid parent b.
  destruct (new_context_validity samp random gsid gtid parent) as [A B].
  split; [exact (proj1 (recording_is_decision samp random gsid gtid parent)) | split; assumption].
Qed.

Example not_recorded_example :
  let b := new_span (ex_samp Drop (Some (bs "s=1"))) false (repeat x03 8) (repeat x04 16) ctx_invalid in
  b_rec b = false /\ ctx_valid (b_ctx b) = true /\ c_ts (b_ctx b) = bs "s=1".
Proof. vm_compute. repeat split. Qed.
