(* C07 proofs, part 4: one series behind 1..n readers of mixed temporality.  For every history of
   Record and Collect operations, a delta reader is handed a point that represents exactly the values recorded
   since its previous collection, a cumulative reader one that represents all values so far; no point is
   reported only when there is nothing to report.

   The proof is generic in what "the point h represents the list xs" means ([Rep h xs]): anything that holds
   for the fresh aggregation and the empty list, is preserved by Aggregate and Merge, and does not depend on the
   order of the list.  Instances: h = agg o c xs for an instrument kind with exact addition (below), and
   "equal to agg o c xs up to the sum, and with the exact sum whenever the SPEC checks it" for both real
   instrument kinds (ProofsMachine). *)
From V Require Import C07.Spec C07.ProofsBucket C07.ProofsAgg.
From Coq Require Import Lia ZifyBool ZifyNat Arith Permutation.
Local Open Scope Z_scope.

Lemma set_nth_length : forall {A} (l : list A) i x, length (set_nth i x l) = length l.
Proof. induction l as [|y l IH]; intros [|i] x; cbn [set_nth length]; try reflexivity. rewrite IH. reflexivity. Qed.
Lemma set_nth_same : forall {A} (l : list A) i x d, (i < length l)%nat -> nth i (set_nth i x l) d = x.
Proof.
  induction l as [|y l IH]; intros [|i] x d H; cbn [length] in H; try lia; cbn [set_nth nth]; [reflexivity|].
  apply IH. lia.
Qed.
Lemma set_nth_other : forall {A} (l : list A) i j x d, i <> j -> nth j (set_nth i x l) d = nth j l d.
Proof.
  induction l as [|y l IH]; intros [|i] [|j] x d H; cbn [set_nth nth]; try reflexivity; try lia.
  apply IH. lia.
Qed.
Lemma nth_map_in : forall {A B} (f : A -> B) l i d d', (i < length l)%nat -> nth i (map f l) d' = f (nth i l d).
Proof.
  intros A B f l i d d' H. rewrite (nth_indep _ d' (f d)) by (rewrite map_length; exact H). apply map_nth.
Qed.

Section Series.
Variable o : ops.
Variable c : cfg.
Variable temps : list temp.
Let n := length temps.

Variable Rep : hist -> list Z -> Prop.
Hypothesis Rep_new : Rep (new_hist o c) [].
Hypothesis Rep_agg : forall h xs v, Rep h xs -> Rep (aggregate o h v) (xs ++ [v]).
Hypothesis Rep_merge : forall a b xs ys, Rep a xs -> Rep b ys -> Rep (merge o a b) (xs ++ ys).
Hypothesis Rep_swap : forall h xs ys, Rep h (xs ++ ys) -> Rep h (ys ++ xs).

(* an optional aggregation: absent only when there is nothing to represent *)
Definition orep (m : option hist) (xs : list Z) : Prop :=
  match m with None => xs = [] | Some h => Rep h xs end.
Definition fastc : Prop := n = 1%nat /\ nth 0 temps TDelta = TDelta.

Lemma fold_merge_some : forall hs us a w, Forall2 Rep hs us -> Rep a w ->
  exists h, fold_left (merge_opt o c) hs (Some a) = Some h /\ Rep h (w ++ concat us).
Proof.
  intros hs us a w H. revert a w. induction H as [|x u hs us Hxu _ IH]; intros a w Ha; cbn [fold_left concat].
  - exists a. rewrite app_nil_r. split; [reflexivity|exact Ha].
  - unfold merge_opt at 2. destruct (IH (merge o a x) (w ++ u) (Rep_merge _ _ _ _ Ha Hxu)) as (h & Hf & Hr).
    exists h. split; [exact Hf|]. rewrite app_assoc. exact Hr.
Qed.
Lemma fold_merge_none : forall hs us, Forall2 Rep hs us ->
  orep (fold_left (merge_opt o c) hs None) (concat us) /\
  (fold_left (merge_opt o c) hs None = None -> us = []).
Proof.
  intros hs us H. destruct H as [|x u hs us Hxu Hrest]; cbn [fold_left concat].
  - split; [reflexivity|reflexivity].
  - unfold merge_opt at 2 4.
    destruct (fold_merge_some hs us (merge o (new_hist o c) x) u Hrest) as (h & Hf & Hr).
    { apply (Rep_merge _ _ [] u Rep_new Hxu). }
    rewrite Hf. split; [exact Hr|discriminate].
Qed.

(* what is known about reader r: [us] are the value lists of its stashed interval aggregations,
   [prev] (cumulative readers) the values it had been given at its previous collection *)
Definition rinv (t : temp) (rs : rstate) (p cv total : list Z) : Prop :=
  exists us prev,
    Forall2 Rep (r_unrep rs) us /\ p = concat us ++ cv /\
    (r_entry rs = false -> us = []) /\
    (fastc -> r_entry rs = false) /\
    (t = TCumul -> total = prev ++ concat us ++ cv /\
                   ((r_last rs = None /\ prev = []) \/ (exists l, r_last rs = Some l /\ Rep l prev)) /\
                   (r_entry rs = false -> prev = [])).

Lemma rinv_intro : forall t rs p cv total us prev,
  Forall2 Rep (r_unrep rs) us -> p = concat us ++ cv ->
  (r_entry rs = false -> us = []) ->
  (fastc -> r_entry rs = false) ->
  (t = TCumul -> total = prev ++ concat us ++ cv /\
                 ((r_last rs = None /\ prev = []) \/ (exists l, r_last rs = Some l /\ Rep l prev)) /\
                 (r_entry rs = false -> prev = [])) ->
  rinv t rs p cv total.
Proof. intros. exists us, prev. repeat (split; [assumption|]). assumption. Qed.

Definition inv (st : sstate) (pend : list (list Z)) (total : list Z) : Prop :=
  exists cv, orep (s_cur st) cv /\ length (s_rd st) = n /\ length pend = n /\
    forall r, (r < n)%nat -> rinv (nth r temps TDelta) (nth r (s_rd st) rstate0) (nth r pend []) cv total.

Lemma inv_init : inv (sstate0 n) (repeat [] n) [].
Proof.
  exists []. cbn [sstate0 s_cur s_rd orep].
  split; [reflexivity|]. split; [apply repeat_length|]. split; [apply repeat_length|].
  intros r Hr. rewrite !nth_repeat.
  apply (rinv_intro _ _ _ _ _ [] []); cbn [rstate0 r_unrep r_entry r_last concat app].
  - constructor.
  - reflexivity.
  - reflexivity.
  - reflexivity.
  - intros _. split; [reflexivity|]. split; [left; split; reflexivity|reflexivity].
Qed.

Lemma inv_record : forall st pend total v,
  inv st pend total -> inv (record o c st v) (map (fun p => p ++ [v]) pend) (total ++ [v]).
Proof.
  intros st pend total v (cv & Hcur & Hl1 & Hl2 & Hr).
  exists (cv ++ [v]). cbn [record s_cur s_rd]. rewrite map_length. repeat split; try assumption.
  - cbn [orep]. destruct (s_cur st) as [h|]; cbn [orep] in Hcur.
    + apply Rep_agg. exact Hcur.
    + subst cv. apply (Rep_agg _ [] v Rep_new).
  - intros r Hlt. destruct (Hr r Hlt) as (us & prev & H1 & H2 & H3 & H4 & H5).
    rewrite (nth_map_in _ _ _ []) by lia. rewrite H2.
    apply (rinv_intro _ _ _ _ _ us prev); try assumption.
    + rewrite app_assoc. reflexivity.
    + intros Ht. destruct (H5 Ht) as (Htot & Hl & Hp).
      split; [rewrite Htot, !app_assoc; reflexivity|]. split; assumption.
Qed.

(* the verdict on one collection: nothing reported only if there is nothing to report, otherwise a point that
   represents the expected values *)
Definition ok (e : string * list Z) (out : option hist) : Prop := orep out (snd e).

Definition expected (r : nat) (pend : list (list Z)) (total : list Z) : string * list Z :=
  if is_delta (nth r temps TDelta) then ("delta"%string, nth r pend []) else ("cumulative"%string, total).

Lemma inv_collect : forall st pend total r,
  inv st pend total -> (r < n)%nat ->
  ok (expected r pend total) (snd (collect o c temps st r)) /\
  inv (fst (collect o c temps st r)) (set_nth r [] pend) total.
Proof.
  intros st pend total r (cv & Hcur & Hl1 & Hl2 & Hr) Hlt.
  unfold collect. fold n.
  destruct (Nat.eqb n 1 && is_delta (nth r temps TDelta)) eqn:Efast.
  - (* single delta reader: the interval aggregation is handed over directly *)
    apply andb_true_iff in Efast. destruct Efast as [En Ed]. apply Nat.eqb_eq in En.
    assert (r = 0%nat) by lia. subst r.
    assert (Hf : fastc). { split; [exact En|]. destruct (nth 0 temps TDelta); [reflexivity|discriminate]. }
    destruct (Hr 0%nat Hlt) as (us & prev & H1 & H2 & H3 & H4 & H5).
    specialize (H4 Hf). specialize (H3 H4). subst us. cbn [concat app] in H2.
    cbn [fst snd]. split.
    + unfold expected, ok. rewrite Ed. cbn [snd]. rewrite H2. exact Hcur.
    + exists []. cbn [s_cur s_rd orep]. rewrite set_nth_length. repeat split; try assumption.
      intros r Hr'. assert (r = 0%nat) by lia. subst r.
      rewrite set_nth_same by lia.
      apply (rinv_intro _ _ _ _ _ [] prev); try assumption; try reflexivity.
      * intros _. exact H4.
      * intros Hc. rewrite Hc in Ed. discriminate.
  - assert (Hnf : ~ fastc).
    { intros [Hn1 Ht]. apply andb_false_iff in Efast. destruct Efast as [E|E].
      - apply Nat.eqb_neq in E. lia.
      - assert (r = 0%nat) by lia. subst r. rewrite Ht in E. discriminate. }
    (* the interval aggregation, if any, is stashed for every reader *)
    set (rd1 := match s_cur st with
                | Some h => map (fun x => mkR (r_unrep x ++ [h]) true (r_last x)) (s_rd st)
                | None => s_rd st
                end).
    assert (Hl1' : length rd1 = n).
    { unfold rd1. destruct (s_cur st); [rewrite map_length|]; exact Hl1. }
    assert (Hmid : forall r', (r' < n)%nat ->
               rinv (nth r' temps TDelta) (nth r' rd1 rstate0) (nth r' pend []) [] total).
    { intros r' Hr'. destruct (Hr r' Hr') as (us & prev & H1 & H2 & H3 & H4 & H5).
      unfold rd1. destruct (s_cur st) as [h|]; cbn [orep] in Hcur.
      - rewrite (nth_map_in _ _ _ rstate0) by lia.
        apply (rinv_intro _ _ _ _ _ (us ++ [cv]) prev); cbn [r_unrep r_entry r_last].
        + apply Forall2_app; [exact H1|constructor; [exact Hcur|constructor]].
        + rewrite H2, concat_app. cbn [concat]. rewrite !app_nil_r. reflexivity.
        + discriminate.
        + intros Hf. contradiction.
        + intros Ht. destruct (H5 Ht) as (Htot & Hl & _).
          split; [rewrite Htot, concat_app; cbn [concat]; rewrite !app_nil_r; reflexivity|].
          split; [exact Hl|discriminate].
      - subst cv. apply (rinv_intro _ _ _ _ _ us prev); assumption. }
    clearbody rd1.
    destruct (Hmid r Hlt) as (us & prev & H1 & H2 & H3 & H4 & H5).
    rewrite app_nil_r in H2.
    destruct (r_entry (nth r rd1 rstate0)) eqn:Eentry; cbn [negb fst snd].
    + (* merge the stash, and for a cumulative reader what it was given before *)
      destruct (fold_merge_none _ _ H1) as [Hm Hmn].
      set (merged := fold_left (merge_opt o c) (r_unrep (nth r rd1 rstate0)) None) in *.
      destruct (is_delta (nth r temps TDelta)) eqn:Ed.
      * split.
        -- unfold expected, ok. rewrite Ed. cbn [snd]. rewrite H2. exact Hm.
        -- exists []. cbn [s_cur s_rd orep]. rewrite !set_nth_length. repeat split; try assumption.
           intros r' Hr'. destruct (Nat.eq_dec r r') as [<-|Hne].
           ++ rewrite !set_nth_same by lia.
              apply (rinv_intro _ _ _ _ _ [] []); cbn [r_unrep r_entry r_last concat app].
              ** constructor.
              ** reflexivity.
              ** reflexivity.
              ** intros Hf. contradiction.
              ** intros Hc. rewrite Hc in Ed. discriminate.
           ++ rewrite !set_nth_other by exact Hne. apply Hmid. exact Hr'.
      * assert (Ht : nth r temps TDelta = TCumul) by (destruct (nth r temps TDelta); [discriminate|reflexivity]).
        destruct (H5 Ht) as (Htot & Hlast & _). rewrite app_nil_r in Htot.
        set (result := match r_last (nth r rd1 rstate0) with
                       | Some l => merge_opt o c merged l
                       | None => merged
                       end).
        assert (Hres : orep result total).
        { unfold result. destruct Hlast as [[Hn Hp]|(l & Hs & Hl)].
          - rewrite Hn. subst prev. cbn [app] in Htot. rewrite Htot. exact Hm.
          - rewrite Hs. unfold merge_opt. cbn [orep]. rewrite Htot. apply Rep_swap.
            destruct merged as [m|]; cbn [orep] in Hm.
            + apply Rep_merge; assumption.
            + rewrite (Hmn eq_refl). cbn [concat]. apply (Rep_merge _ _ [] prev Rep_new Hl). }
        split.
        -- unfold expected, ok. rewrite Ed. cbn [snd]. fold result. exact Hres.
        -- exists []. cbn [s_cur s_rd orep]. rewrite !set_nth_length. repeat split; try assumption.
           intros r' Hr'. destruct (Nat.eq_dec r r') as [<-|Hne].
           ++ rewrite !set_nth_same by lia. fold result.
              apply (rinv_intro _ _ _ _ _ [] total); cbn [r_unrep r_entry r_last concat app].
              ** constructor.
              ** reflexivity.
              ** reflexivity.
              ** intros Hf. contradiction.
              ** intros _. split; [rewrite app_nil_r; reflexivity|]. split; [|discriminate].
                 destruct result as [res|]; cbn [orep] in Hres; [right; exists res; split; [reflexivity|exact Hres]|left; split; [reflexivity|exact Hres]].
           ++ rewrite !set_nth_other by exact Hne. apply Hmid. exact Hr'.
    + (* nothing was ever stashed for this reader *)
      specialize (H3 eq_refl). subst us. cbn [concat] in H2.
      split.
      * unfold expected, ok. destruct (is_delta (nth r temps TDelta)) eqn:Ed; cbn [orep snd]; [exact H2|].
        assert (Ht : nth r temps TDelta = TCumul) by (destruct (nth r temps TDelta); [discriminate|reflexivity]).
        destruct (H5 Ht) as (Htot & _ & Hp). rewrite (Hp eq_refl) in Htot. exact Htot.
      * exists []. cbn [s_cur s_rd orep]. rewrite set_nth_length. repeat split; try assumption.
        intros r' Hr'. destruct (Nat.eq_dec r r') as [<-|Hne].
        -- rewrite set_nth_same by lia. pose proof (Hmid r Hr') as Hm. rewrite H2 in Hm. exact Hm.
        -- rewrite set_nth_other by exact Hne. apply Hmid. exact Hr'.
Qed.

Definition valid_sop (op : sop) : Prop := match op with SRec _ => True | SCollect r => (r < n)%nat end.

Theorem series_rep_inv : forall l st pend total,
  inv st pend total -> Forall valid_sop l ->
  Forall2 ok (expect_sops temps pend total l) (run_sops o c temps st l).
Proof.
  induction l as [|op l IH]; intros st pend total Hinv Hv; cbn [expect_sops run_sops].
  - constructor.
  - inversion Hv as [|? ? Hop Hl]; subst.
    destruct op as [v|r].
    + apply IH; [apply inv_record; exact Hinv|exact Hl].
    + cbn [valid_sop] in Hop.
      destruct (inv_collect st pend total r Hinv Hop) as [Hok Hinv'].
      destruct (collect o c temps st r) as [st' out]. cbn [fst snd] in *.
      constructor.
      * exact Hok.
      * apply IH; assumption.
Qed.

Theorem series_rep : forall l, Forall valid_sop l ->
  Forall2 ok (expect_sops temps (repeat [] n) [] l) (run_sops o c temps (sstate0 n) l).
Proof. intros l Hv. apply series_rep_inv; [apply inv_init|exact Hv]. Qed.

End Series.

(* ---- instance: an instrument kind with exact addition, "represents" = "is the aggregation of" ---- *)
Definition ok_eq (o : ops) (c : cfg) (e : string * list Z) (out : option hist) : Prop :=
  match out with None => snd e = [] | Some h => h = agg o c (snd e) end.

Theorem series_lossless_lemma : forall o c, exact_add o -> forall temps l, Forall (valid_sop temps) l ->
  Forall2 (ok_eq o c) (expect_sops temps (repeat [] (length temps)) [] l)
          (run_sops o c temps (sstate0 (length temps)) l).
Proof.
  intros o c He temps l Hv.
  apply (series_rep o c temps (fun h xs => h = agg o c xs)); try assumption.
  - reflexivity.
  - intros h xs v ->. unfold agg. rewrite fold_left_app. reflexivity.
  - intros a b xs ys -> ->. apply merge_homomorphism_lemma. exact He.
  - intros h xs ys ->. apply agg_perm; [exact He|apply Permutation_app_comm].
Qed.
