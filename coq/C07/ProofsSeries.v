(* C07 proofs, part 4: one series behind 1..n readers of mixed temporality.  For every history of
   Record and Collect operations, a delta reader is handed the aggregation of exactly the values recorded
   since its previous collection, a cumulative reader the aggregation of all values so far; no point is
   reported only when there is nothing to report.  (For an instrument kind whose addition is exact; the
   double instrument is related to it in ProofsSim.) *)
From V Require Import C07.Spec C07.ProofsBucket C07.ProofsAgg.
From Coq Require Import Lia ZifyBool ZifyNat Arith Permutation.
Local Open Scope Z_scope.

Lemma set_nth_length : forall {A} (l : list A) i x, length (set_nth i x l) = length l.
Proof. induction l as [|y l IH]; intros [|i] x; cbn [set_nth length]; try reflexivity. rewrite IH. reflexivity. Qed.
Lemma set_nth_same : forall {A} (l : list A) i x d, (i < length l)%nat -> nth i (set_nth i x l) d = x.
Proof.
  induction l as [|y l IH]; intros [|i] x d H; cbn [length] in H; try lia; cbn [set_nth nth]; [reflexivity|].
  apply IH. lia.
Qed.
Lemma set_nth_other : forall {A} (l : list A) i j x d, i <> j -> nth j (set_nth i x l) d = nth j l d.
Proof.
  induction l as [|y l IH]; intros [|i] [|j] x d H; cbn [set_nth nth]; try reflexivity; try lia.
  apply IH. lia.
Qed.
Lemma nth_map_in : forall {A B} (f : A -> B) l i d d', (i < length l)%nat -> nth i (map f l) d' = f (nth i l d).
Proof.
  intros A B f l i d d' H. rewrite (nth_indep _ d' (f d)) by (rewrite map_length; exact H). apply map_nth.
Qed.

Section Series.
Variable o : ops.
Variable c : cfg.
Hypothesis He : exact_add o.
Variable temps : list temp.
Let n := length temps.

Definition A (xs : list Z) : hist := agg o c xs.
Definition opt_agg (xs : list Z) : option hist := match xs with [] => None | _ => Some (A xs) end.
Definition fastc : Prop := n = 1%nat /\ nth 0 temps TDelta = TDelta.

Lemma A_nil : A [] = new_hist o c.
Proof. reflexivity. Qed.
Lemma A_snoc : forall xs v, aggregate o (A xs) v = A (xs ++ [v]).
Proof. intros. unfold A, agg. rewrite fold_left_app. reflexivity. Qed.
Lemma A_merge : forall xs ys, merge o (A xs) (A ys) = A (xs ++ ys).
Proof. intros. apply merge_homomorphism_lemma. exact He. Qed.

Lemma fold_merge_some : forall us w,
  fold_left (merge_opt o c) (map A us) (Some (A w)) = Some (A (w ++ concat us)).
Proof.
  induction us as [|u us IH]; intros w; cbn [map fold_left concat].
  - rewrite app_nil_r. reflexivity.
  - unfold merge_opt at 2. rewrite A_merge, IH, app_assoc. reflexivity.
Qed.
Lemma fold_merge_none : forall us,
  fold_left (merge_opt o c) (map A us) None = match us with [] => None | _ => Some (A (concat us)) end.
Proof.
  intros [|u us]; [reflexivity|]. cbn [map fold_left concat].
  unfold merge_opt at 2. rewrite <- A_nil, A_merge. cbn [app]. apply fold_merge_some.
Qed.

(* what is known about reader r: [us] are the value lists of its stashed interval aggregations,
   [prev] (cumulative readers) the values it had been given at its previous collection *)
Definition rinv (t : temp) (rs : rstate) (p cv total : list Z) : Prop :=
  exists us prev,
    r_unrep rs = map A us /\ p = concat us ++ cv /\
    (r_entry rs = false -> us = []) /\
    (fastc -> r_entry rs = false) /\
    (t = TCumul -> total = prev ++ concat us ++ cv /\
                   ((r_last rs = None /\ prev = []) \/ r_last rs = Some (A prev)) /\
                   (r_entry rs = false -> prev = [])).

Lemma rinv_intro : forall t rs p cv total us prev,
  r_unrep rs = map A us -> p = concat us ++ cv ->
  (r_entry rs = false -> us = []) ->
  (fastc -> r_entry rs = false) ->
  (t = TCumul -> total = prev ++ concat us ++ cv /\
                 ((r_last rs = None /\ prev = []) \/ r_last rs = Some (A prev)) /\
                 (r_entry rs = false -> prev = [])) ->
  rinv t rs p cv total.
Proof. intros. exists us, prev. repeat (split; [assumption|]). assumption. Qed.

Definition inv (st : sstate) (pend : list (list Z)) (total : list Z) : Prop :=
  exists cv, s_cur st = opt_agg cv /\ length (s_rd st) = n /\ length pend = n /\
    forall r, (r < n)%nat -> rinv (nth r temps TDelta) (nth r (s_rd st) rstate0) (nth r pend []) cv total.

Lemma inv_init : inv (sstate0 n) (repeat [] n) [].
Proof.
  exists []. cbn [sstate0 s_cur s_rd opt_agg].
  split; [reflexivity|]. split; [apply repeat_length|]. split; [apply repeat_length|].
  intros r Hr. rewrite !nth_repeat.
  apply (rinv_intro _ _ _ _ _ [] []); cbn [rstate0 r_unrep r_entry r_last map concat app]; try reflexivity.
  intros _. split; [reflexivity|]. split; [left; split; reflexivity|reflexivity].
Qed.

Lemma inv_record : forall st pend total v,
  inv st pend total -> inv (record o c st v) (map (fun p => p ++ [v]) pend) (total ++ [v]).
Proof.
  intros st pend total v (cv & Hcur & Hl1 & Hl2 & Hr).
  exists (cv ++ [v]). cbn [record s_cur s_rd]. rewrite map_length. repeat split; try assumption.
  - rewrite Hcur. destruct cv as [|x cv]; cbn [opt_agg].
    + rewrite <- A_nil, A_snoc. reflexivity.
    + rewrite A_snoc. reflexivity.
  - intros r Hlt. destruct (Hr r Hlt) as (us & prev & H1 & H2 & H3 & H4 & H5).
    rewrite (nth_map_in _ _ _ []) by lia. rewrite H2.
    apply (rinv_intro _ _ _ _ _ us prev); try assumption.
    + rewrite app_assoc. reflexivity.
    + intros Ht. destruct (H5 Ht) as (Htot & Hl & Hp).
      split; [rewrite Htot, !app_assoc; reflexivity|]. split; assumption.
Qed.

(* the verdict on one collection: nothing reported only if there is nothing to report, otherwise exactly
   the aggregation of the expected values *)
Definition ok (e : string * list Z) (out : option hist) : Prop :=
  match out with None => snd e = [] | Some h => h = A (snd e) end.

Definition expected (r : nat) (pend : list (list Z)) (total : list Z) : string * list Z :=
  if is_delta (nth r temps TDelta) then ("delta"%string, nth r pend []) else ("cumulative"%string, total).

Lemma ok_opt_agg : forall name xs, ok (name, xs) (opt_agg xs).
Proof. intros name [|x xs]; cbn [opt_agg ok snd]; reflexivity. Qed.

Lemma A_perm_swap : forall xs ys, A (xs ++ ys) = A (ys ++ xs).
Proof. intros. unfold A. apply agg_perm; [exact He|apply Permutation_app_comm]. Qed.

Lemma inv_collect : forall st pend total r,
  inv st pend total -> (r < n)%nat ->
  ok (expected r pend total) (snd (collect o c temps st r)) /\
  inv (fst (collect o c temps st r)) (set_nth r [] pend) total.
Proof.
  intros st pend total r (cv & Hcur & Hl1 & Hl2 & Hr) Hlt.
  unfold collect. fold n.
  destruct (Nat.eqb n 1 && is_delta (nth r temps TDelta)) eqn:Efast.
  - (* single delta reader: the interval aggregation is handed over directly *)
    apply andb_true_iff in Efast. destruct Efast as [En Ed]. apply Nat.eqb_eq in En.
    assert (r = 0%nat) by lia. subst r.
    assert (Hf : fastc). { split; [exact En|]. destruct (nth 0 temps TDelta); [reflexivity|discriminate]. }
    destruct (Hr 0%nat Hlt) as (us & prev & H1 & H2 & H3 & H4 & H5).
    specialize (H4 Hf). specialize (H3 H4). subst us. cbn [concat app] in H2.
    cbn [fst snd]. split.
    + unfold expected. rewrite Ed, H2, Hcur. apply ok_opt_agg.
    + exists []. cbn [s_cur s_rd opt_agg]. rewrite set_nth_length. repeat split; try assumption.
      intros r Hr'. assert (r = 0%nat) by lia. subst r.
      rewrite set_nth_same by lia.
      apply (rinv_intro _ _ _ _ _ [] prev); try assumption; try reflexivity.
      * intros _. exact H4.
      * intros Hc. rewrite Hc in Ed. discriminate.
  - assert (Hnf : ~ fastc).
    { intros [Hn1 Ht]. apply andb_false_iff in Efast. destruct Efast as [E|E].
      - apply Nat.eqb_neq in E. lia.
      - assert (r = 0%nat) by lia. subst r. rewrite Ht in E. discriminate. }
    (* the interval aggregation, if any, is stashed for every reader *)
    set (rd1 := match s_cur st with
                | Some h => map (fun x => mkR (r_unrep x ++ [h]) true (r_last x)) (s_rd st)
                | None => s_rd st
                end).
    assert (Hl1' : length rd1 = n).
    { unfold rd1. destruct (s_cur st); [rewrite map_length|]; exact Hl1. }
    assert (Hmid : forall r', (r' < n)%nat ->
               rinv (nth r' temps TDelta) (nth r' rd1 rstate0) (nth r' pend []) [] total).
    { intros r' Hr'. destruct (Hr r' Hr') as (us & prev & H1 & H2 & H3 & H4 & H5).
      unfold rd1. rewrite Hcur. destruct cv as [|x cv]; cbn [opt_agg].
      - apply (rinv_intro _ _ _ _ _ us prev); assumption.
      - rewrite (nth_map_in _ _ _ rstate0) by lia.
        apply (rinv_intro _ _ _ _ _ (us ++ [x :: cv]) prev); cbn [r_unrep r_entry r_last].
        + rewrite H1, map_app. reflexivity.
        + rewrite H2, concat_app. cbn [concat]. rewrite !app_nil_r. reflexivity.
        + discriminate.
        + intros Hf. contradiction.
        + intros Ht. destruct (H5 Ht) as (Htot & Hl & _).
          split; [rewrite Htot, concat_app; cbn [concat]; rewrite !app_nil_r; reflexivity|].
          split; [exact Hl|discriminate]. }
    clearbody rd1.
    destruct (Hmid r Hlt) as (us & prev & H1 & H2 & H3 & H4 & H5).
    rewrite app_nil_r in H2.
    destruct (r_entry (nth r rd1 rstate0)) eqn:Eentry; cbn [negb fst snd].
    + (* merge the stash, and for a cumulative reader what it was given before *)
      rewrite H1, fold_merge_none.
      set (merged := match us with [] => None | _ :: _ => Some (A (concat us)) end).
      destruct (is_delta (nth r temps TDelta)) eqn:Ed.
      * split.
        -- unfold expected. rewrite Ed, H2. unfold merged.
           destruct us as [|u us]; cbn [ok snd concat app]; reflexivity.
        -- exists []. cbn [s_cur s_rd opt_agg]. rewrite !set_nth_length. repeat split; try assumption.
           intros r' Hr'. destruct (Nat.eq_dec r r') as [<-|Hne].
           ++ rewrite !set_nth_same by lia.
              apply (rinv_intro _ _ _ _ _ [] []); cbn [r_unrep r_entry r_last map concat app]; try reflexivity; try discriminate.
              ** intros Hf. contradiction.
              ** intros Hc. rewrite Hc in Ed. discriminate.
           ++ rewrite !set_nth_other by exact Hne. apply Hmid. exact Hr'.
      * assert (Ht : nth r temps TDelta = TCumul) by (destruct (nth r temps TDelta); [discriminate|reflexivity]).
        destruct (H5 Ht) as (Htot & Hlast & _). rewrite app_nil_r in Htot.
        set (result := match r_last (nth r rd1 rstate0) with
                       | Some l => merge_opt o c merged l
                       | None => merged
                       end).
        assert (Hres : (result = None /\ total = []) \/ result = Some (A total)).
        { unfold result. destruct Hlast as [[Hn Hp]|Hs].
          - rewrite Hn. subst prev. cbn [app] in Htot. unfold merged.
            destruct us as [|u us]; [left; split; [reflexivity|exact Htot]|right; rewrite Htot; reflexivity].
          - rewrite Hs. right. unfold merge_opt, merged.
            destruct us as [|u us].
            + rewrite <- A_nil, A_merge. cbn [concat app] in *. rewrite app_nil_r in Htot. rewrite Htot. reflexivity.
            + rewrite A_merge, A_perm_swap, Htot. reflexivity. }
        split.
        -- unfold expected. rewrite Ed. fold result.
           destruct Hres as [[-> Hn] | ->]; cbn [ok snd]; [exact Hn|reflexivity].
        -- exists []. cbn [s_cur s_rd opt_agg]. rewrite !set_nth_length. repeat split; try assumption.
           intros r' Hr'. destruct (Nat.eq_dec r r') as [<-|Hne].
           ++ rewrite !set_nth_same by lia. fold result.
              apply (rinv_intro _ _ _ _ _ [] total); cbn [r_unrep r_entry r_last map concat app]; try reflexivity; try discriminate.
              ** intros Hf. contradiction.
              ** intros _. split; [rewrite app_nil_r; reflexivity|]. split; [|discriminate].
                 destruct Hres as [[-> Hn] | ->]; [left; split; [reflexivity|exact Hn]|right; reflexivity].
           ++ rewrite !set_nth_other by exact Hne. apply Hmid. exact Hr'.
    + (* nothing was ever stashed for this reader *)
      specialize (H3 eq_refl). subst us. cbn [concat] in H2.
      split.
      * unfold expected. destruct (is_delta (nth r temps TDelta)) eqn:Ed; cbn [ok snd]; [exact H2|].
        assert (Ht : nth r temps TDelta = TCumul) by (destruct (nth r temps TDelta); [discriminate|reflexivity]).
        destruct (H5 Ht) as (Htot & _ & Hp). rewrite (Hp eq_refl) in Htot. exact Htot.
      * exists []. cbn [s_cur s_rd opt_agg]. rewrite set_nth_length. repeat split; try assumption.
        intros r' Hr'. destruct (Nat.eq_dec r r') as [<-|Hne].
        -- rewrite set_nth_same by lia. pose proof (Hmid r Hr') as Hm. rewrite H2 in Hm. exact Hm.
        -- rewrite set_nth_other by exact Hne. apply Hmid. exact Hr'.
Qed.

Definition valid_sop (op : sop) : Prop := match op with SRec _ => True | SCollect r => (r < n)%nat end.

Theorem series_lossless_inv : forall l st pend total,
  inv st pend total -> Forall valid_sop l ->
  Forall2 ok (expect_sops temps pend total l) (run_sops o c temps st l).
Proof.
  induction l as [|op l IH]; intros st pend total Hinv Hv; cbn [expect_sops run_sops].
  - constructor.
  - inversion Hv as [|? ? Hop Hl]; subst.
    destruct op as [v|r].
    + apply IH; [apply inv_record; exact Hinv|exact Hl].
    + cbn [valid_sop] in Hop.
      destruct (inv_collect st pend total r Hinv Hop) as [Hok Hinv'].
      destruct (collect o c temps st r) as [st' out]. cbn [fst snd] in *.
      constructor.
      * exact Hok.
      * apply IH; assumption.
Qed.

Theorem series_lossless_lemma : forall l, Forall valid_sop l ->
  Forall2 ok (expect_sops temps (repeat [] n) [] l) (run_sops o c temps (sstate0 n) l).
Proof. intros l Hv. apply series_lossless_inv; [apply inv_init|exact Hv]. Qed.

End Series.
