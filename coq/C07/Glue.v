(* Glue between the token wire format and the C07 model/spec.  Extracted.

   Case lines (chunks separated by the tag `|`):
     AGG <L|D> <cfg> | op | op ...      ops:  N r | A r v | X r v | M r a b | D r a b | P r
     RDR <L|D> <n> t1..tn <cfg> | op ...  ops:  R attr v | C reader      (ti: 0 delta, 1 cumulative)
     <cfg> ::= DEF | B <rmm> b1 .. bk
   Doubles (boundaries; values of kind D) are integers holding the IEEE bit pattern; values of kind L are
   decimal int64 (AGG) / uint64 (RDR, the API type).
   Observation lines:
     AGG:  OK { P <point> }            one per P op
     RDR:  OK { / { K attr <point> } }   one `/` per C op, points sorted by attr
     <point> ::= k b1..bk c0..ck count sum rmm min max       (min max are `-` when rmm = 0) *)
From V Require Export C07.Spec.
From V Require Import Gen.Consts.
Local Open Scope Z_scope.

Inductive rop := RRec (a : nat) (v : Z) | RDrop | RCollect (r : nat).

Inductive case :=
| CAgg (k : kind) (s : Z) (c : option cfg) (l : list aop)
| CRdr (k : kind) (s : Z) (c : option cfg) (temps : list temp) (l : list rop).

Definition NATTR : nat := 3.

(* ------------------------------------------------------------------ the scale of a case *)
(* the least s making every double of the case (and the constants of the instrument kind) an integer
   number of 2^-s: a first pass over the tokens in double position *)
Definition tok_scale (t : tok) : Z :=
  match t with TZ b => match decode b with Some d => need_scale d | None => 0 end | _ => 0 end.
Definition max_scale (l : list Z) : Z := fold_left Z.max l 0.

Definition cfg_toks_scale (k : kind) (l : list tok) : Z :=
  match l with
  | _ :: _ :: bs => max_scale (map tok_scale bs)                 (* B rmm b1 .. bk *)
  | _ => max_scale (map need_scale (match k with KLong => kHistDefaultBoundsLong | KDbl => kHistDefaultBoundsDouble end))
  end.
Definition kind_scale (k : kind) : Z :=
  match k with KLong => 0 | KDbl => Z.max (need_scale kHistMinInitDouble) (need_scale kHistMaxInitDouble) end.
Definition chunk_scale (k : kind) (l : list tok) : Z :=
  match k, l with
  | KDbl, [t; _; v] => if is_tag "A" t || is_tag "R" t then tok_scale v else 0
  | _, _ => 0
  end.
Definition case_scale (k : kind) (cf : list tok) (chunks : list (list tok)) : Z :=
  Z.max (Z.max (cfg_toks_scale k cf) (kind_scale k)) (max_scale (map (chunk_scale k) chunks)).

(* ------------------------------------------------------------------ parsing *)
Definition undbl (s : Z) (t : tok) : option Z :=
  match t with
  | TZ b => match decode b with
            | Some d => if need_scale d <=? s then Some (to_scale s d) else None
            | None => None
            end
  | _ => None
  end.

Fixpoint parse_each {A} (f : tok -> option A) (l : list tok) : option (list A) :=
  match l with
  | [] => Some []
  | x :: l' => match f x, parse_each f l' with Some a, Some r => Some (a :: r) | _, _ => None end
  end.

Definition parse_kind (t : tok) : option kind :=
  if is_tag "L" t then Some KLong else if is_tag "D" t then Some KDbl else None.

Definition parse_cfg (s : Z) (l : list tok) : option (option cfg) :=
  match l with
  | [t] => if is_tag "DEF" t then Some None else None
  | t :: TZ r :: bs =>
      if is_tag "B" t && ((r =? 0) || (r =? 1))
      then option_map (fun b => Some (mkC b (r =? 1))) (parse_each (undbl s) bs) else None
  | _ => None
  end.

Definition reg_ok (r : Z) : option nat := if (0 <=? r) && (r <? Z.of_nat NREG) then Some (Z.to_nat r) else None.

Definition parse_val_agg (k : kind) (s : Z) (v : tok) : option Z :=
  match k, v with
  | KDbl, _ => undbl s v
  | KLong, TZ z => if (- 2 ^ 63 <=? z) && (z <? 2 ^ 63) then Some z else None
  | _, _ => None
  end.

Definition parse_aop (k : kind) (s : Z) (l : list tok) : option aop :=
  match l with
  | [t; TZ r] =>
      match reg_ok r with
      | Some r' => if is_tag "N" t then Some (ONew r') else if is_tag "P" t then Some (OPrint r') else None
      | None => None
      end
  | [t; TZ r; v] =>
      match reg_ok r with
      | Some r' =>
          if is_tag "A" t then option_map (OAgg r') (parse_val_agg k s v)
          else if is_tag "X" t then (match v with TZ _ => Some (OAggX r') | _ => None end) else None
      | None => None
      end
  | [t; TZ r; TZ a; TZ b] =>
      match reg_ok r, reg_ok a, reg_ok b with
      | Some r', Some a', Some b' =>
          if is_tag "M" t then Some (OMerge r' a' b') else if is_tag "D" t then Some (ODiff r' a' b') else None
      | _, _, _ => None
      end
  | _ => None
  end.

Fixpoint parse_all {A} (f : list tok -> option A) (l : list (list tok)) : option (list A) :=
  match l with
  | [] => Some []
  | x :: l' => match f x, parse_all f l' with Some a, Some r => Some (a :: r) | _, _ => None end
  end.

Definition parse_rop (k : kind) (s : Z) (n : nat) (l : list tok) : option rop :=
  match l with
  | [t; TZ a; TZ v] =>
      if is_tag "R" t && (0 <=? a) && (a <? Z.of_nat NATTR) then
        match k with
        | KDbl => match undbl s (TZ v) with
                  | Some u => Some (match accept_double u with Some x => RRec (Z.to_nat a) x | None => RDrop end)
                  | None => None
                  end
        | KLong => if (0 <=? v) && (v <? 2 ^ 64)
                   then Some (match accept_long v with Some x => RRec (Z.to_nat a) x | None => RDrop end)
                   else None
        end
      else None
  | [t; TZ r] => if is_tag "C" t && (0 <=? r) && (r <? Z.of_nat n) then Some (RCollect (Z.to_nat r)) else None
  | _ => None
  end.

Fixpoint parse_temps (n : nat) (l : list tok) : option (list temp * list tok) :=
  match n with
  | O => Some ([], l)
  | S n' =>
      match l with
      | TZ t :: l' =>
          if (t =? 0) || (t =? 1) then
            match parse_temps n' l' with
            | Some (ts, rest) => Some ((if t =? 0 then TDelta else TCumul) :: ts, rest)
            | None => None
            end
          else None
      | _ => None
      end
  end.

Definition parse_case (l : list tok) : option case :=
  match split_toks "|" l with
  | (t :: tk :: hd) :: chunks =>
      match parse_kind tk with
      | None => None
      | Some k =>
          if is_tag "AGG" t then
            let s := case_scale k hd chunks in
            match parse_cfg s hd, parse_all (parse_aop k s) chunks with
            | Some c, Some ops => Some (CAgg k s c ops)
            | _, _ => None
            end
          else if is_tag "RDR" t then
            match hd with
            | TZ n :: hd' =>
                if (1 <=? n) && (n <=? 4) then
                  match parse_temps (Z.to_nat n) hd' with
                  | Some (temps, cf) =>
                      let s := case_scale k cf chunks in
                      match parse_cfg s cf, parse_all (parse_rop k s (Z.to_nat n)) chunks with
                      | Some c, Some ops => Some (CRdr k s c temps ops)
                      | _, _ => None
                      end
                  | None => None
                  end
                else None
            | _ => None
            end
          else None
      end
  | _ => None
  end.

(* ------------------------------------------------------------------ printing / parsing points *)
Definition tdbl (s z : Z) : tok := TZ (encode s z).
Definition tval (k : kind) (s z : Z) : tok := match k with KDbl => tdbl s z | KLong => TZ z end.
Definition tsum (k : kind) (s : Z) (x : fsum) : tok :=
  match k with
  | KDbl => TZ (encode_sum s x)
  | KLong => match x with SFin z => TZ z | _ => tag "NAN" end
  end.

Definition print_point (k : kind) (s : Z) (p : dpoint) : list tok :=
  tnat (length (p_bounds p)) :: map (tdbl s) (p_bounds p) ++ map TZ (p_counts p) ++
  [TZ (p_count p); tsum k s (p_sum p); tbool (p_rmm p)] ++
  (if p_rmm p then [tval k s (p_min p); tval k s (p_max p)] else [tag "-"; tag "-"]).

Definition unval (k : kind) (s : Z) (t : tok) : option Z :=
  match k with KDbl => undbl s t | KLong => match t with TZ z => Some z | _ => None end end.
Definition unsum (k : kind) (s : Z) (t : tok) : option fsum :=
  match k, t with
  | KLong, TZ z => Some (SFin z)
  | KDbl, TZ b =>
      if (0 <=? b) && (b <? 2 ^ 64) && (Z.land (Z.shiftr b 52) 2047 =? 2047)
      then Some (if Z.land b (Z.ones 52) =? 0 then (if b <? 2 ^ 63 then SPInf else SNInf) else SNaN)
      else option_map SFin (undbl s t)
  | _, _ => None
  end.

Fixpoint take_map {A} (f : tok -> option A) (n : nat) (l : list tok) : option (list A * list tok) :=
  match n with
  | O => Some ([], l)
  | S n' => match l with
            | t :: l' => match f t, take_map f n' l' with
                         | Some a, Some (r, rest) => Some (a :: r, rest)
                         | _, _ => None
                         end
            | [] => None
            end
  end.
Definition unint (t : tok) : option Z := match t with TZ z => Some z | _ => None end.

Definition parse_point (k : kind) (s : Z) (l : list tok) : option dpoint :=
  match l with
  | TZ nb :: l1 =>
      if (nb <? 0) || (100000 <? nb) then None else
      match take_map (undbl s) (Z.to_nat nb) l1 with
      | Some (bs, l2) =>
          match take_map unint (S (Z.to_nat nb)) l2 with
          | Some (cs, [TZ cnt; tsm; TZ r; tmin; tmax]) =>
              match unsum k s tsm with
              | Some sm =>
                  if r =? 1 then
                    match unval k s tmin, unval k s tmax with
                    | Some mn, Some mx => Some (mkP bs cs cnt sm true mn mx)
                    | _, _ => None
                    end
                  else if (r =? 0) && is_tag "-" tmin && is_tag "-" tmax then Some (mkP bs cs cnt sm false 0 0)
                  else None
              | None => None
              end
          | _ => None
          end
      | None => None
      end
  | _ => None
  end.

(* ------------------------------------------------------------------ the model on a case *)
Definition project (a : nat) (l : list rop) : list sop :=
  flat_map (fun op => match op with
                      | RRec a' v => if Nat.eqb a a' then [SRec v] else []
                      | RDrop => []
                      | RCollect r => [SCollect r]
                      end) l.

Definition attrs : list nat := seq 0 NATTR.

(* per collect: the points of the attribute sets that have one, in attribute order *)
Fixpoint transpose (n : nat) (cols : list (nat * list (option hist))) : list (list (nat * hist)) :=
  match n with
  | O => []
  | S n' =>
      flat_map (fun c => match snd c with Some h :: _ => [(fst c, h)] | _ => [] end) cols
      :: transpose n' (map (fun c => (fst c, tl (snd c))) cols)
  end.

Definition n_collects (l : list rop) : nat :=
  length (filter (fun op => match op with RCollect _ => true | _ => false end) l).

Definition model_rdr (k : kind) (s : Z) (c : option cfg) (temps : list temp) (l : list rop) : list (list (nat * hist)) :=
  let o := ops_of k s in
  let cf := eff_cfg o c in
  transpose (n_collects l)
            (map (fun a => (a, run_sops o cf temps (sstate0 (length temps)) (project a l))) attrs).

Definition run_model (l : list tok) : list tok :=
  match parse_case l with
  | Some (CAgg k s c ops) =>
      let o := ops_of k s in
      let cf := eff_cfg o c in
      tag "OK" :: flat_map (fun h => tag "P" :: print_point k s (point_of h)) (run_aops o cf (init_regs o cf) ops)
  | Some (CRdr k s c temps ops) =>
      tag "OK" :: flat_map (fun pts => tag "/" :: flat_map (fun ah => tag "K" :: tnat (fst ah) :: print_point k s (point_of (snd ah))) pts)
                           (model_rdr k s c temps ops)
  | None => bad_case
  end.

(* ------------------------------------------------------------------ coverage tags *)
Definition has_merge (l : list aop) : bool := existsb (fun op => match op with OMerge _ _ _ => true | _ => false end) l.
Definition has_diff (l : list aop) : bool := existsb (fun op => match op with ODiff _ _ _ => true | _ => false end) l.
Definition agg_vals (l : list aop) : list Z := flat_map (fun op => match op with OAgg _ v => [v] | _ => [] end) l.
Definition rdr_vals (l : list rop) : list Z := flat_map (fun op => match op with RRec _ v => [v] | _ => [] end) l.

Definition ktag (k : kind) : string := match k with KLong => "L" | KDbl => "D" end.
Definition ctag (c : option cfg) : string :=
  match c with
  | None => "def"
  | Some x => match c_bounds x with [] => "nobounds" | [_] => "onebound" | _ => if c_rmm x then "cfg" else "cfg_nomm" end
  end.
Definition vtag (k : kind) (s : Z) (vs : list Z) : string :=
  match vs with
  | [] => "empty"
  | _ => if big_long k vs then "big" else if sum_checkable k s vs then "exact" else "rounded"
  end.

Definition run_tag (l : list tok) : list tok :=
  match parse_case l with
  | Some (CAgg k s c ops) =>
      [tag (append "agg_" (append (ktag k) (append "_" (append (ctag c) (append "_"
            (append (if has_diff ops then "diff" else if has_merge ops then "merge" else "plain")
                    (append "_" (vtag k s (agg_vals ops)))))))))]
  | Some (CRdr k s c temps ops) =>
      [tag (append "rdr_" (append (ktag k) (append "_" (append (ctag c) (append "_"
            (append (match temps with
                     | [TDelta] => "fastdelta"
                     | [TCumul] => "onecumulative"
                     | _ => "multi"
                     end)
                    (append "_" (vtag k s (rdr_vals ops)))))))))]
  | None => bad_case
  end.

(* ------------------------------------------------------------------ the spec on an observation *)
Definition parse_points_agg (k : kind) (s : Z) (obs : list tok) : option (list dpoint) :=
  match split_toks "P" obs with
  | [t] :: chunks => if is_tag "OK" t then parse_all (parse_point k s) chunks else None
  | _ => None
  end.

Definition parse_kpoint (k : kind) (s : Z) (l : list tok) : option (nat * dpoint) :=
  match l with
  | TZ a :: l' => if (0 <=? a) && (a <? Z.of_nat NATTR)
                  then option_map (fun p => (Z.to_nat a, p)) (parse_point k s l') else None
  | _ => None
  end.
Definition parse_collect (k : kind) (s : Z) (l : list tok) : option (list (nat * dpoint)) :=
  match split_toks "K" l with
  | [] :: chunks => parse_all (parse_kpoint k s) chunks
  | _ => None
  end.
Definition parse_points_rdr (k : kind) (s : Z) (obs : list tok) : option (list (list (nat * dpoint))) :=
  match split_toks "/" obs with
  | [t] :: chunks => if is_tag "OK" t then parse_all (parse_collect k s) chunks else None
  | _ => None
  end.

Fixpoint lookup_attr (a : nat) (l : list (nat * dpoint)) : option dpoint :=
  match l with
  | [] => None
  | (a', p) :: l' => if Nat.eqb a a' then Some p else lookup_attr a l'
  end.
(* attribute ids strictly increasing: every series reported at most once, in canonical order *)
Fixpoint attrs_increasing (l : list (nat * dpoint)) : bool :=
  match l with
  | (a, _) :: (((b, _) :: _) as t) => Nat.ltb a b && attrs_increasing t
  | _ => true
  end.

Definition run_spec (l obs : list tok) : list tok :=
  match parse_case l with
  | Some (CAgg k s c ops) =>
      match parse_points_agg k s obs with
      | Some pts => spec_agg k s (spec_cfg s c) ops pts
      | None => fail "obs:unparsable"
      end
  | Some (CRdr k s c temps ops) =>
      match parse_points_rdr k s obs with
      | Some cols =>
          check (forallb attrs_increasing cols) "series:duplicate_point" ++
          flat_map (fun a => spec_series k s (spec_cfg s c) temps (project a ops) (map (lookup_attr a) cols)) attrs
      | None => fail "obs:unparsable"
      end
  | None => bad_case
  end.
